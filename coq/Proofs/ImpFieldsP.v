(* Proofs for property C14: field-level facts about the impersonation model. *)
From Coq Require Import Lia.
From PV Require Import Model.Prelude Model.Bits Model.Sig Model.Options Model.Imperson.

(* helper views of an output packet *)
Fixpoint out_mss (l : list oopt) : option Z := match l with [] => None | OoMss v :: _ => Some v | _ :: r => out_mss r end.
Fixpoint out_ws (l : list oopt) : option Z := match l with [] => None | OoWs v :: _ => Some v | _ :: r => out_ws r end.
Fixpoint out_ts (l : list oopt) : option (Z * Z) := match l with [] => None | OoTs a b :: _ => Some (a, b) | _ :: r => out_ts r end.
Definition is_syn_base (b : base) : bool := Z.land (b_flags b) 18 =? 2.

(* ------------------------------------------------------------------ *)
(* inversion lemmas for the tape monad *)

Lemma mbind_inv {A B} (m : M A) (f : A -> M B) t r :
  mbind m f t = Ok r -> exists a t1, m t = Ok (a, t1) /\ f a t1 = Ok r.
Proof.
  unfold mbind. destruct (m t) as [[a t1]|e]; intros H; [|discriminate].
  exists a, t1. split; [reflexivity|exact H].
Qed.

Lemma ret_inv {A} (a : A) t r : ret a t = Ok r -> r = (a, t).
Proof. unfold ret. intros H. inversion H. reflexivity. Qed.

Lemma ret_inv2 {A} (a : A) t v t' : ret a t = Ok (v, t') -> v = a /\ t' = t.
Proof. unfold ret. intros H. inversion H. split; reflexivity. Qed.

Lemma fail_inv {A} e t (r : A * tape) : fail e t = Ok r -> False.
Proof. unfold fail. discriminate. Qed.

Lemma draw_inv lo hi t v t' : draw lo hi t = Ok (v, t') -> lo <= v < hi.
Proof.
  unfold draw. destruct (hi <=? lo); [discriminate|].
  destruct t as [|w t0]; [discriminate|].
  destruct (lo <=? w) eqn:E1; cbn [andb]; [|discriminate].
  destruct (w <? hi) eqn:E2; [|discriminate].
  intros H. inversion H; subst.
  apply Z.leb_le in E1. apply Z.ltb_lt in E2. lia.
Qed.

(* one inversion step on some hypothesis *)
Ltac minv1 :=
  match goal with
  | H : mbind _ _ _ = Ok _ |- _ =>
      apply mbind_inv in H; destruct H as (? & ? & ? & H); cbv beta in H
  | H : ret _ _ = Ok (_, _) |- _ =>
      apply ret_inv2 in H; destruct H as [? ?]; subst
  | H : fail _ _ = Ok _ |- _ => exfalso; exact (fail_inv _ _ _ H)
  | H : draw _ _ _ = Ok (_, _) |- _ => apply draw_inv in H
  | H : (if ?c then _ else _) _ = Ok _ |- _ => destruct c eqn:?
  | H : (match ?o with Some _ => _ | None => _ end) _ = Ok _ |- _ => destruct o eqn:?
  | H : (let '(_, _) := ?p in _) _ = Ok _ |- _ => destruct p
  end.
Ltac minv := repeat minv1.

(* ------------------------------------------------------------------ *)
(* structure of imp_tcp *)

Definition seq_m (s : tcp_sig) (b : base) : M Z :=
  if hasb qZSEQ s then ret 0 else if b_seq b =? 0 then draw 1 4294967296 else ret (b_seq b).
Definition fa_m (s : tcp_sig) (b : base) : M (Z * Z) :=
  if hasb qNZACK s then
    let f := clear_tcpflag (b_flags b) 16 in
    if b_ack b =? 0 then let* a := draw 1 4294967296 in ret (f, a) else ret (f, b_ack b)
  else if hasb qZACK s then ret (Z.lor (b_flags b) 16, 0)
  else ret (b_flags b, b_ack b).
Definition fu_m (s : tcp_sig) (b : base) (f1 : Z) : M (Z * Z) :=
  if hasb qNZURG s then
    let f := clear_tcpflag f1 32 in
    if b_urg b =? 0 then let* u := draw 1 65536 in ret (f, u) else ret (f, b_urg b)
  else if hasb qURG s then ret (Z.lor f1 32, b_urg b)
  else ret (f1, b_urg b).
Definition f3_of (s : tcp_sig) (f2 : Z) : Z :=
  let f3 := if hasb qPUSH s then Z.lor f2 8 else clear_tcpflag f2 8 in
  if hasb qECN s then f3 else Z.land f3 63.

Lemma imp_tcp_inv s b hops mtu up t x t' :
  imp_tcp s b hops mtu up t = Ok (x, t') ->
  exists tos id ipfl fl seq f1 ack f2 urg opts win pay t1 t2 t3 t4 t5 t6,
    imp_ip s b hops t = Ok ((tos, id, ipfl, fl), t1) /\
    seq_m s b t1 = Ok (seq, t2) /\
    fa_m s b t2 = Ok ((f1, ack), t3) /\
    fu_m s b f1 t3 = Ok ((f2, urg), t4) /\
    imp_options s b up (s_layout s) t4 = Ok (opts, t5) /\
    imp_window s b opts mtu t5 = Ok (win, t6) /\
    imp_payload s b t6 = Ok (pay, t') /\
    x = {| x_ver := b_ver b; x_src := b_src b; x_dst := b_dst b; x_ttl := s_ttl s - hops; x_tos := tos; x_id := id;
           x_ipflags := ipfl; x_frag := b_frag b; x_proto := b_proto b; x_fl := fl;
           x_sport := b_sport b; x_dport := b_dport b; x_seq := seq; x_ack := ack; x_flags := f3_of s f2; x_urg := urg;
           x_win := win; x_opts := opts; x_payload := pay |}.
Proof.
  unfold imp_tcp. intros H.
  destruct (negb (s_ver s =? -1) && negb (b_ver b =? s_ver s)).
  { exfalso; exact (fail_inv _ _ _ H). }
  apply mbind_inv in H. destruct H as ([[[tos id] ipfl] fl] & t1 & Hip & H). cbv beta iota in H.
  apply mbind_inv in H. destruct H as (seq & t2 & Hseq & H). cbv beta in H.
  apply mbind_inv in H. destruct H as ([f1 ack] & t3 & Hfa & H). cbv beta iota in H.
  apply mbind_inv in H. destruct H as ([f2 urg] & t4 & Hfu & H). cbv beta iota zeta in H.
  apply mbind_inv in H. destruct H as (opts & t5 & Hopts & H). cbv beta in H.
  apply mbind_inv in H. destruct H as (win & t6 & Hwin & H). cbv beta in H.
  apply mbind_inv in H. destruct H as (pay & t7 & Hpay & H). cbv beta in H.
  apply ret_inv2 in H. destruct H as [Hx Ht]. subst t7.
  exists tos, id, ipfl, fl, seq, f1, ack, f2, urg, opts, win, pay, t1, t2, t3, t4, t5, t6.
  repeat (split; [eassumption|]). exact Hx.
Qed.

Ltac tcp_inv H :=
  apply imp_tcp_inv in H;
  destruct H as (tos & id & ipfl & fl & seq & f1 & ack & f2 & urg & opts & win & pay & t1 & t2 & t3 & t4 & t5 & t6
                 & Hip & Hseq & Hfa & Hfu & Hopts & Hwin & Hpay & Hx);
  match type of Hx with ?v = _ => subst v end; cbn [x_ver x_src x_dst x_ttl x_tos x_id x_ipflags x_frag x_proto x_fl x_sport x_dport x_seq x_ack x_flags x_urg
                x_win x_opts x_payload].

(* connection identity *)
Theorem imp_identity : forall s b hops mtu up t x t',
  imp_tcp s b hops mtu up t = Ok (x, t') ->
  x_src x = b_src b /\ x_dst x = b_dst b /\ x_sport x = b_sport b /\ x_dport x = b_dport b /\ x_ver x = b_ver b /\
  x_ttl x = s_ttl s - hops.
Proof.
  intros s b hops mtu up t x t' H. tcp_inv H. repeat split; reflexivity.
Qed.

(* ------------------------------------------------------------------ *)
(* flag bits *)

Lemma land_land_keep f c k : Z.land c k = k -> Z.land (Z.land f c) k = Z.land f k.
Proof. intros H. rewrite <- Z.land_assoc, H. reflexivity. Qed.

Lemma land_lor_keep f c k : Z.land c k = 0 -> Z.land (Z.lor f c) k = Z.land f k.
Proof. intros H. rewrite Z.land_lor_distr_l, H, Z.lor_0_r. reflexivity. Qed.

Lemma land_land_kill f c k : Z.land c k = 0 -> Z.land (Z.land f c) k = 0.
Proof. intros H. rewrite <- Z.land_assoc, H. apply Z.land_0_r. Qed.

Lemma land_lor_set f k : Z.land (Z.lor f k) k = k.
Proof.
  apply Z.bits_inj'. intros n _. rewrite Z.land_spec, Z.lor_spec.
  destruct (Z.testbit f n), (Z.testbit k n); reflexivity.
Qed.

Lemma f3_of_keep s f k : Z.land 8 k = 0 -> Z.land 247 k = k -> Z.land 63 k = k -> Z.land (f3_of s f) k = Z.land f k.
Proof.
  intros H8 H247 H63. unfold f3_of, clear_tcpflag.
  change (255 - 8) with 247.
  destruct (hasb qPUSH s); destruct (hasb qECN s);
    rewrite ?(land_land_keep _ 63 k H63), ?(land_lor_keep _ 8 k H8), ?(land_land_keep _ 247 k H247); reflexivity.
Qed.

Lemma fu_m_keep s b f1 t f2 urg t' k :
  Z.land 32 k = 0 -> Z.land 223 k = k ->
  fu_m s b f1 t = Ok ((f2, urg), t') -> Z.land f2 k = Z.land f1 k.
Proof.
  intros H32 H223 H. unfold fu_m, clear_tcpflag in H. change (255 - 32) with 223 in H.
  cbv zeta in H.
  destruct (hasb qNZURG s).
  - destruct (b_urg b =? 0).
    + apply mbind_inv in H. destruct H as (u & tu & _ & H). apply ret_inv2 in H. destruct H as [H _].
      inversion H; subst. apply land_land_keep; assumption.
    + apply ret_inv2 in H. destruct H as [H _]. inversion H; subst. apply land_land_keep; assumption.
  - destruct (hasb qURG s); apply ret_inv2 in H; destruct H as [H _]; inversion H; subst.
    + apply land_lor_keep; assumption.
    + reflexivity.
Qed.

Lemma fa_m_flags s b t f1 ack t' :
  fa_m s b t = Ok ((f1, ack), t') ->
  f1 = if hasb qNZACK s then Z.land (b_flags b) 239 else if hasb qZACK s then Z.lor (b_flags b) 16 else b_flags b.
Proof.
  intros H. unfold fa_m, clear_tcpflag in H. change (255 - 16) with 239 in H. cbv zeta in H.
  destruct (hasb qNZACK s).
  - destruct (b_ack b =? 0).
    + apply mbind_inv in H. destruct H as (u & tu & _ & H). apply ret_inv2 in H. destruct H as [H _].
      inversion H; subst. reflexivity.
    + apply ret_inv2 in H. destruct H as [H _]. inversion H; subst. reflexivity.
  - destruct (hasb qZACK s); apply ret_inv2 in H; destruct H as [H _]; inversion H; subst; reflexivity.
Qed.

(* SYN bit kept; ACK bit kept unless ack+ / ack- dictate it *)
Theorem imp_flags : forall s b hops mtu up t x t',
  0 <= b_flags b < 512 ->
  imp_tcp s b hops mtu up t = Ok (x, t') ->
  Z.land (x_flags x) 2 = Z.land (b_flags b) 2 /\
  Z.land (x_flags x) 16 = (if hasq qNZACK (s_quirks s) then 0 else if hasq qZACK (s_quirks s) then 16 else Z.land (b_flags b) 16).
Proof.
  intros s b hops mtu up t x t' _ H. tcp_inv H.
  apply fa_m_flags in Hfa.
  split.
  - rewrite f3_of_keep by reflexivity.
    rewrite (fu_m_keep _ _ _ _ _ _ _ 2 eq_refl eq_refl Hfu).
    subst f1. destruct (hasb qNZACK s); [apply land_land_keep; reflexivity|].
    destruct (hasb qZACK s); [apply land_lor_keep; reflexivity|reflexivity].
  - rewrite f3_of_keep by reflexivity.
    rewrite (fu_m_keep _ _ _ _ _ _ _ 16 eq_refl eq_refl Hfu).
    subst f1. unfold hasb.
    destruct (hasq qNZACK (s_quirks s)); [apply land_land_kill; reflexivity|].
    destruct (hasq qZACK (s_quirks s)); [apply land_lor_set|reflexivity].
Qed.

(* sequence number: zero iff seq-, the base's own when it is non-zero *)
Theorem imp_seq : forall s b hops mtu up t x t',
  imp_tcp s b hops mtu up t = Ok (x, t') ->
  (hasq qZSEQ (s_quirks s) = true -> x_seq x = 0) /\
  (hasq qZSEQ (s_quirks s) = false -> b_seq b <> 0 -> x_seq x = b_seq b) /\
  (hasq qZSEQ (s_quirks s) = false -> x_seq x <> 0).
Proof.
  intros s b hops mtu up t x t' H. tcp_inv H.
  unfold seq_m, hasb in Hseq.
  destruct (hasq qZSEQ (s_quirks s)).
  - apply ret_inv2 in Hseq. destruct Hseq as [-> _].
    repeat split; try discriminate; reflexivity.
  - destruct (b_seq b =? 0) eqn:E.
    + apply Z.eqb_eq in E. apply draw_inv in Hseq.
      repeat split; try discriminate; intros; lia.
    + apply Z.eqb_neq in E. apply ret_inv2 in Hseq. destruct Hseq as [-> _].
      repeat split; try discriminate; intros; auto.
Qed.

(* ------------------------------------------------------------------ *)
(* options: one step of imp_options *)

Definition mss_m (s : tcp_sig) (b : base) : M (option oopt) :=
  let is_mss := match s_wtype s with WMss => true | _ => false end in
  let max_mss := 65535 / (if is_mss then s_wsize s else 1) in
  let min_mss := if is_mss then 100 else 0 in
  if s_mss s =? -1 then
    match b_mss b with
    | Some h => if (min_mss <=? h) && (h <=? max_mss) then ret (Some (OoMss h)) else let* v := draw 100 (max_mss + 1) in ret (Some (OoMss v))
    | None => let* v := draw 100 (max_mss + 1) in ret (Some (OoMss v))
    end
  else ret (Some (OoMss (s_mss s))).

Definition ws_m (s : tcp_sig) (b : base) : M (option oopt) :=
  if s_wscale s =? -1 then
    if hasb qEXWS s then
      match b_ws b with
      | Some h => if (14 <? h) && (h <? 256) then ret (Some (OoWs h)) else let* v := draw 15 256 in ret (Some (OoWs v))
      | None => let* v := draw 15 256 in ret (Some (OoWs v))
      end
    else
      match b_ws b with
      | Some h => if (0 <=? h) && (h <=? 14) then ret (Some (OoWs h)) else let* v := draw 1 14 in ret (Some (OoWs v))
      | None => let* v := draw 1 14 in ret (Some (OoWs v))
      end
  else ret (Some (OoWs (s_wscale s))).

Definition ts1_m (s : tcp_sig) (b : base) (uptime : option Z) : M Z :=
  if hasb qZTS1 s then ret 0
  else match uptime with
       | Some u => ret u
       | None => match b_ts1 b with
                 | Some h => if (0 <? h) && (h <? 4294967296) then ret h else draw 120 3153600001
                 | None => draw 120 3153600001
                 end
       end.

Definition ts2_m (s : tcp_sig) (b : base) : M Z :=
  if hasb qNZTS2 s && (Z.land (b_flags b) 18 =? 2) then
    match b_ts2 b with
    | Some h => if (0 <? h) && (h <? 4294967296) then ret h else draw 1 4294967296
    | None => draw 1 4294967296
    end
  else if Z.land (b_flags b) 18 =? 2 then ret 0
  else match b_ts2 b with
       | Some h => if (0 <=? h) && (h <? 4294967296) then ret h else ret 0
       | None => ret 0
       end.

Definition ts_m (s : tcp_sig) (b : base) (uptime : option Z) : M (option oopt) :=
  let* t1 := ts1_m s b uptime in
  let* t2 := ts2_m s b in
  ret (Some (OoTs t1 t2)).

Definition opt_m (s : tcp_sig) (b : base) (uptime : option Z) (k : Z) : M (option oopt) :=
  if k =? 2 then mss_m s b
  else if k =? 3 then ws_m s b
  else if k =? 8 then ts_m s b uptime
  else if k =? 1 then ret (Some OoNop)
  else if k =? 4 then ret (Some OoSok)
  else if k =? 0 then ret (Some OoEol)
  else if k =? 5 then let* i := draw 0 4 in ret (Some (OoSack (8 + 8 * i)))
  else ret None.

Definition ocons (o : option oopt) (r : list oopt) : list oopt := match o with Some x => x :: r | None => r end.

Lemma imp_options_cons s b up k rest :
  imp_options s b up (k :: rest) =
  (let* o := opt_m s b up k in let* r := imp_options s b up rest in ret (ocons o r)).
Proof. reflexivity. Qed.

Lemma imp_options_cons_inv s b up k rest t opts t' :
  imp_options s b up (k :: rest) t = Ok (opts, t') ->
  exists o r t1, opt_m s b up k t = Ok (o, t1) /\ imp_options s b up rest t1 = Ok (r, t') /\ opts = ocons o r.
Proof.
  rewrite imp_options_cons. intros H.
  apply mbind_inv in H. destruct H as (o & t1 & Ho & H). cbv beta in H.
  apply mbind_inv in H. destruct H as (r & t2 & Hr & H). cbv beta in H.
  apply ret_inv2 in H. destruct H as [-> ->].
  exists o, r, t1. repeat split; assumption.
Qed.

Lemma imp_options_nil_inv s b up t opts t' :
  imp_options s b up [] t = Ok (opts, t') -> opts = [].
Proof. cbn [imp_options]. intros H. apply ret_inv2 in H. tauto. Qed.

(* shapes *)
Lemma mss_m_shape s b t o t1 : mss_m s b t = Ok (o, t1) -> exists v, o = Some (OoMss v).
Proof. unfold mss_m. cbv zeta. intros H. minv; eexists; reflexivity. Qed.

Lemma ws_m_shape s b t o t1 : ws_m s b t = Ok (o, t1) -> exists v, o = Some (OoWs v).
Proof. unfold ws_m. intros H. minv; eexists; reflexivity. Qed.

Lemma ts_m_shape s b up t o t1 : ts_m s b up t = Ok (o, t1) -> exists a c, o = Some (OoTs a c).
Proof.
  unfold ts_m. intros H.
  apply mbind_inv in H. destruct H as (a & ta & _ & H). cbv beta in H.
  apply mbind_inv in H. destruct H as (c & tc & _ & H). cbv beta in H.
  apply ret_inv2 in H. destruct H as [-> _]. exists a, c. reflexivity.
Qed.

Lemma opt_m_shape s b up k t o t1 :
  opt_m s b up k t = Ok (o, t1) ->
  (k = 2 /\ exists v, o = Some (OoMss v)) \/ (k = 3 /\ exists v, o = Some (OoWs v)) \/ (k = 8 /\ exists a c, o = Some (OoTs a c))
  \/ (k <> 2 /\ k <> 3 /\ k <> 8 /\ (o = None \/ o = Some OoNop \/ o = Some OoSok \/ o = Some OoEol \/ exists n, o = Some (OoSack n))).
Proof.
  unfold opt_m. intros H.
  destruct (k =? 2) eqn:E2. { apply Z.eqb_eq in E2. left. split; [assumption|]. eapply mss_m_shape; eassumption. }
  destruct (k =? 3) eqn:E3. { apply Z.eqb_eq in E3. right; left. split; [assumption|]. eapply ws_m_shape; eassumption. }
  destruct (k =? 8) eqn:E8. { apply Z.eqb_eq in E8. right; right; left. split; [assumption|]. eapply ts_m_shape; eassumption. }
  apply Z.eqb_neq in E2, E3, E8.
  right; right; right. repeat (split; [assumption|]).
  minv; eauto 6.
Qed.

(* MSS: fixed value overrides; admissible hint kept; otherwise an admissible value is chosen *)
Definition mss_bounds (s : tcp_sig) : Z * Z :=
  match s_wtype s with WMss => (100, 65535 / s_wsize s) | _ => (0, 65535) end.

Lemma mss_max_eq s :
  65535 / (if match s_wtype s with WMss => true | _ => false end then s_wsize s else 1) = snd (mss_bounds s).
Proof. unfold mss_bounds. destruct (s_wtype s); reflexivity. Qed.

Lemma mss_min_eq s :
  (if match s_wtype s with WMss => true | _ => false end then 100 else 0) = fst (mss_bounds s).
Proof. unfold mss_bounds. destruct (s_wtype s); reflexivity. Qed.

Lemma mss_m_spec s b t o t1 :
  mss_m s b t = Ok (o, t1) ->
  exists v, o = Some (OoMss v) /\
    (s_mss s <> -1 -> v = s_mss s) /\
    (s_mss s = -1 -> forall h, b_mss b = Some h -> fst (mss_bounds s) <= h <= snd (mss_bounds s) -> v = h) /\
    (s_mss s = -1 -> (b_mss b = None \/ exists h, b_mss b = Some h /\ ~ (fst (mss_bounds s) <= h <= snd (mss_bounds s))) ->
       100 <= v <= snd (mss_bounds s)).
Proof.
  unfold mss_m. cbv zeta. rewrite mss_max_eq, mss_min_eq.
  set (lo := fst (mss_bounds s)). set (hi := snd (mss_bounds s)). clearbody lo hi.
  intros H.
  destruct (s_mss s =? -1) eqn:E.
  - apply Z.eqb_eq in E.
    destruct (b_mss b) as [h|] eqn:Eb.
    + destruct ((lo <=? h) && (h <=? hi)) eqn:Eh.
      * apply ret_inv2 in H. destruct H as [-> _].
        apply andb_true_iff in Eh. destruct Eh as [Eh1 Eh2]. apply Z.leb_le in Eh1, Eh2.
        exists h. split; [reflexivity|]. split; [intros Hn; contradiction|].
        split.
        -- intros _ h' Hh' _. inversion Hh'. reflexivity.
        -- intros _ [Hn | (h' & Hh' & Hnot)]; [discriminate|].
           inversion Hh'; subst h'. exfalso. apply Hnot. lia.
      * apply mbind_inv in H. destruct H as (v & tv & Hd & H). apply ret_inv2 in H. destruct H as [-> _].
        apply draw_inv in Hd.
        exists v. split; [reflexivity|]. split; [intros Hn; contradiction|].
        split.
        -- intros _ h' Hh' Hb. inversion Hh'; subst h'. exfalso.
           apply andb_false_iff in Eh. destruct Eh as [Eh|Eh]; apply Z.leb_gt in Eh; lia.
        -- intros _ _. lia.
    + apply mbind_inv in H. destruct H as (v & tv & Hd & H). apply ret_inv2 in H. destruct H as [-> _].
      apply draw_inv in Hd.
      exists v. split; [reflexivity|]. split; [intros Hn; contradiction|].
      split.
      * intros _ h' Hh'. discriminate.
      * intros _ _. lia.
  - apply Z.eqb_neq in E. apply ret_inv2 in H. destruct H as [-> _].
    exists (s_mss s). split; [reflexivity|]. split; [reflexivity|].
    split; intros Hn; contradiction.
Qed.

Theorem imp_mss : forall s b up layout t opts t',
  imp_options s b up layout t = Ok (opts, t') -> In 2 layout ->
  exists v, out_mss opts = Some v /\
    (s_mss s <> -1 -> v = s_mss s) /\
    (s_mss s = -1 -> forall h, b_mss b = Some h -> fst (mss_bounds s) <= h <= snd (mss_bounds s) -> v = h) /\
    (s_mss s = -1 -> (b_mss b = None \/ exists h, b_mss b = Some h /\ ~ (fst (mss_bounds s) <= h <= snd (mss_bounds s))) ->
       100 <= v <= snd (mss_bounds s)).
Proof.
  intros s b up layout. induction layout as [|k rest IH]; intros t opts t' H Hin.
  - destruct Hin.
  - apply imp_options_cons_inv in H. destruct H as (o & r & t1 & Ho & Hr & ->).
    destruct (Z.eq_dec k 2) as [Ek|Ek].
    + subst k. unfold opt_m in Ho. change (2 =? 2) with true in Ho. cbv iota in Ho.
      apply mss_m_spec in Ho. destruct Ho as (v & -> & Hv).
      exists v. cbn [ocons out_mss]. split; [reflexivity|exact Hv].
    + destruct Hin as [Hin|Hin]; [congruence|].
      specialize (IH _ _ _ Hr Hin).
      apply opt_m_shape in Ho.
      destruct Ho as [[Hk _]|[[_ (v & ->)]|[[_ (a & c & ->)]|(_ & _ & _ & [->|[->|[->|[->|(n & ->)]]]])]]];
        [contradiction|exact IH..].
Qed.

(* window scale: fixed overrides; hint kept iff it agrees with exws; otherwise replaced by an agreeing value *)
Definition ws_admissible (s : tcp_sig) (h : Z) : Prop :=
  if hasq qEXWS (s_quirks s) then 14 < h < 256 else 0 <= h <= 14.

Lemma ws_m_spec s b t o t1 :
  ws_m s b t = Ok (o, t1) ->
  exists v, o = Some (OoWs v) /\
    (s_wscale s <> -1 -> v = s_wscale s) /\
    (s_wscale s = -1 -> forall h, b_ws b = Some h -> ws_admissible s h -> v = h) /\
    (s_wscale s = -1 -> ws_admissible s v).
Proof.
  unfold ws_m, ws_admissible, hasb. intros H.
  destruct (s_wscale s =? -1) eqn:E.
  - apply Z.eqb_eq in E.
    destruct (hasq qEXWS (s_quirks s)).
    + destruct (b_ws b) as [h|] eqn:Eb.
      * destruct ((14 <? h) && (h <? 256)) eqn:Eh.
        -- apply ret_inv2 in H. destruct H as [-> _].
           apply andb_true_iff in Eh. destruct Eh as [Eh1 Eh2]. apply Z.ltb_lt in Eh1, Eh2.
           exists h. split; [reflexivity|]. split; [intros Hn; contradiction|].
           split; [intros _ h' Hh' _; inversion Hh'; reflexivity | intros _; lia].
        -- apply mbind_inv in H. destruct H as (v & tv & Hd & H). apply ret_inv2 in H. destruct H as [-> _].
           apply draw_inv in Hd.
           exists v. split; [reflexivity|]. split; [intros Hn; contradiction|].
           split; [|intros _; lia].
           intros _ h' Hh' Hb. inversion Hh'; subst h'. exfalso.
           apply andb_false_iff in Eh. destruct Eh as [Eh|Eh]; apply Z.ltb_ge in Eh; lia.
      * apply mbind_inv in H. destruct H as (v & tv & Hd & H). apply ret_inv2 in H. destruct H as [-> _].
        apply draw_inv in Hd.
        exists v. split; [reflexivity|]. split; [intros Hn; contradiction|].
        split; [intros _ h' Hh'; discriminate | intros _; lia].
    + destruct (b_ws b) as [h|] eqn:Eb.
      * destruct ((0 <=? h) && (h <=? 14)) eqn:Eh.
        -- apply ret_inv2 in H. destruct H as [-> _].
           apply andb_true_iff in Eh. destruct Eh as [Eh1 Eh2]. apply Z.leb_le in Eh1, Eh2.
           exists h. split; [reflexivity|]. split; [intros Hn; contradiction|].
           split; [intros _ h' Hh' _; inversion Hh'; reflexivity | intros _; lia].
        -- apply mbind_inv in H. destruct H as (v & tv & Hd & H). apply ret_inv2 in H. destruct H as [-> _].
           apply draw_inv in Hd.
           exists v. split; [reflexivity|]. split; [intros Hn; contradiction|].
           split; [|intros _; lia].
           intros _ h' Hh' Hb. inversion Hh'; subst h'. exfalso.
           apply andb_false_iff in Eh. destruct Eh as [Eh|Eh]; apply Z.leb_gt in Eh; lia.
      * apply mbind_inv in H. destruct H as (v & tv & Hd & H). apply ret_inv2 in H. destruct H as [-> _].
        apply draw_inv in Hd.
        exists v. split; [reflexivity|]. split; [intros Hn; contradiction|].
        split; [intros _ h' Hh'; discriminate | intros _; lia].
  - apply Z.eqb_neq in E. apply ret_inv2 in H. destruct H as [-> _].
    exists (s_wscale s). split; [reflexivity|]. split; [reflexivity|].
    split; intros Hn; contradiction.
Qed.

Theorem imp_ws : forall s b up layout t opts t',
  imp_options s b up layout t = Ok (opts, t') -> In 3 layout ->
  exists v, out_ws opts = Some v /\
    (s_wscale s <> -1 -> v = s_wscale s) /\
    (s_wscale s = -1 -> forall h, b_ws b = Some h -> ws_admissible s h -> v = h) /\
    (s_wscale s = -1 -> ws_admissible s v).
Proof.
  intros s b up layout. induction layout as [|k rest IH]; intros t opts t' H Hin.
  - destruct Hin.
  - apply imp_options_cons_inv in H. destruct H as (o & r & t1 & Ho & Hr & ->).
    destruct (Z.eq_dec k 3) as [Ek|Ek].
    + subst k. unfold opt_m in Ho. change (3 =? 2) with false in Ho. change (3 =? 3) with true in Ho. cbv iota in Ho.
      apply ws_m_spec in Ho. destruct Ho as (v & -> & Hv).
      exists v. cbn [ocons out_ws]. split; [reflexivity|exact Hv].
    + destruct Hin as [Hin|Hin]; [congruence|].
      specialize (IH _ _ _ Hr Hin).
      apply opt_m_shape in Ho.
      destruct Ho as [[_ (v & ->)]|[[Hk _]|[[_ (a & c & ->)]|(_ & _ & _ & [->|[->|[->|[->|(n & ->)]]]])]]];
        [exact IH|contradiction|exact IH..].
Qed.

(* timestamps *)
Lemma ts1_m_spec s b t v t1 :
  ts1_m s b None t = Ok (v, t1) ->
  (hasq qZTS1 (s_quirks s) = true -> v = 0) /\
  (hasq qZTS1 (s_quirks s) = false -> v <> 0 /\ forall h, b_ts1 b = Some h -> 0 < h < 4294967296 -> v = h).
Proof.
  unfold ts1_m, hasb. intros H.
  destruct (hasq qZTS1 (s_quirks s)).
  - apply ret_inv2 in H. destruct H as [-> _]. split; [reflexivity|discriminate].
  - split; [discriminate|intros _].
    destruct (b_ts1 b) as [h|] eqn:Eb.
    + destruct ((0 <? h) && (h <? 4294967296)) eqn:Eh.
      * apply ret_inv2 in H. destruct H as [-> _].
        apply andb_true_iff in Eh. destruct Eh as [Eh1 Eh2]. apply Z.ltb_lt in Eh1, Eh2.
        split; [lia|]. intros h' Hh' _. inversion Hh'; reflexivity.
      * apply draw_inv in H. split; [lia|].
        intros h' Hh' Hb. inversion Hh'; subst h'. exfalso.
        apply andb_false_iff in Eh. destruct Eh as [Eh|Eh]; apply Z.ltb_ge in Eh; lia.
    + apply draw_inv in H. split; [lia|]. intros h' Hh'; discriminate.
Qed.

Lemma ts2_m_spec s b t v t1 :
  ts2_m s b t = Ok (v, t1) ->
  (is_syn_base b = true -> (hasq qNZTS2 (s_quirks s) = true -> v <> 0 /\ forall h, b_ts2 b = Some h -> 0 < h < 4294967296 -> v = h)
                           /\ (hasq qNZTS2 (s_quirks s) = false -> v = 0)) /\
  (is_syn_base b = false -> forall h, b_ts2 b = Some h -> 0 <= h < 4294967296 -> v = h).
Proof.
  unfold ts2_m, hasb, is_syn_base. intros H.
  destruct (Z.land (b_flags b) 18 =? 2).
  - split; [intros _|discriminate].
    destruct (hasq qNZTS2 (s_quirks s)); cbn [andb] in H.
    + split; [intros _|discriminate].
      destruct (b_ts2 b) as [h|] eqn:Eb.
      * destruct ((0 <? h) && (h <? 4294967296)) eqn:Eh.
        -- apply ret_inv2 in H. destruct H as [-> _].
           apply andb_true_iff in Eh. destruct Eh as [Eh1 Eh2]. apply Z.ltb_lt in Eh1, Eh2.
           split; [lia|]. intros h' Hh' _. inversion Hh'; reflexivity.
        -- apply draw_inv in H. split; [lia|].
           intros h' Hh' Hb. inversion Hh'; subst h'. exfalso.
           apply andb_false_iff in Eh. destruct Eh as [Eh|Eh]; apply Z.ltb_ge in Eh; lia.
      * apply draw_inv in H. split; [lia|]. intros h' Hh'; discriminate.
    + split; [discriminate|intros _].
      apply ret_inv2 in H. destruct H as [-> _]. reflexivity.
  - rewrite andb_false_r in H.
    split; [discriminate|intros _].
    intros h Hh Hb. rewrite Hh in H.
    destruct ((0 <=? h) && (h <? 4294967296)) eqn:Eh.
    + apply ret_inv2 in H. destruct H as [-> _]. reflexivity.
    + exfalso. apply andb_false_iff in Eh. destruct Eh as [Eh|Eh]; [apply Z.leb_gt in Eh|apply Z.ltb_ge in Eh]; lia.
Qed.

Theorem imp_ts : forall s b layout t opts t',
  imp_options s b None layout t = Ok (opts, t') -> In 8 layout ->
  exists t1 t2, out_ts opts = Some (t1, t2) /\
    (hasq qZTS1 (s_quirks s) = true -> t1 = 0) /\
    (hasq qZTS1 (s_quirks s) = false -> t1 <> 0 /\ forall h, b_ts1 b = Some h -> 0 < h < 4294967296 -> t1 = h) /\
    (is_syn_base b = true -> (hasq qNZTS2 (s_quirks s) = true -> t2 <> 0 /\ forall h, b_ts2 b = Some h -> 0 < h < 4294967296 -> t2 = h)
                             /\ (hasq qNZTS2 (s_quirks s) = false -> t2 = 0)) /\
    (is_syn_base b = false -> forall h, b_ts2 b = Some h -> 0 <= h < 4294967296 -> t2 = h).
Proof.
  intros s b layout. induction layout as [|k rest IH]; intros t opts t' H Hin.
  - destruct Hin.
  - apply imp_options_cons_inv in H. destruct H as (o & r & t1 & Ho & Hr & ->).
    destruct (Z.eq_dec k 8) as [Ek|Ek].
    + subst k. unfold opt_m in Ho. change (8 =? 2) with false in Ho. change (8 =? 3) with false in Ho.
      change (8 =? 8) with true in Ho. cbv iota in Ho.
      unfold ts_m in Ho.
      apply mbind_inv in Ho. destruct Ho as (a & ta & Ha & Ho). cbv beta in Ho.
      apply mbind_inv in Ho. destruct Ho as (c & tc & Hc & Ho). cbv beta in Ho.
      apply ret_inv2 in Ho. destruct Ho as [-> _].
      apply ts1_m_spec in Ha. destruct Ha as [Ha1 Ha2].
      apply ts2_m_spec in Hc. destruct Hc as [Hc1 Hc2].
      exists a, c. cbn [ocons out_ts].
      split; [reflexivity|]. split; [exact Ha1|]. split; [exact Ha2|]. split; [exact Hc1|exact Hc2].
    + destruct Hin as [Hin|Hin]; [congruence|].
      specialize (IH _ _ _ Hr Hin).
      apply opt_m_shape in Ho.
      destruct Ho as [[_ (v & ->)]|[[_ (v & ->)]|[[Hk _]|(_ & _ & _ & [->|[->|[->|[->|(n & ->)]]]])]]];
        [exact IH|exact IH|contradiction|exact IH..].
Qed.

(* window for '*', literal window *)
Theorem imp_window_any : forall s b hops mtu up t x t',
  imp_tcp s b hops mtu up t = Ok (x, t') ->
  (s_wtype s = WAny -> x_win x = b_win b) /\ (s_wtype s = WNormal -> x_win x = s_wsize s).
Proof.
  intros s b hops mtu up t x t' H. tcp_inv H.
  unfold imp_window in Hwin.
  split; intros E; rewrite E in Hwin; apply ret_inv2 in Hwin; destruct Hwin as [-> _]; reflexivity.
Qed.

(* IPv4 id *)
Theorem imp_ip_id : forall s b hops mtu up t x t',
  b_ver b <> 6 ->
  imp_tcp s b hops mtu up t = Ok (x, t') ->
  let q := s_quirks s in
  (hasq qDF q = true -> hasq qNZID q = true -> x_id x <> 0 /\ (b_id b <> 0 -> x_id x = b_id b)) /\
  (hasq qDF q = true -> hasq qNZID q = false -> x_id x = 0) /\
  (hasq qDF q = false -> hasq qZID q = true -> x_id x = 0) /\
  (hasq qDF q = false -> hasq qZID q = false -> x_id x <> 0 /\ (b_id b <> 0 -> x_id x = b_id b)).
Proof.
  intros s b hops mtu up t x t' Hv H. tcp_inv H. cbv zeta.
  unfold imp_ip, hasb in Hip.
  apply Z.eqb_neq in Hv. rewrite Hv in Hip.
  apply mbind_inv in Hip. destruct Hip as ([fl0 id0] & ti & Hfi & Hip). cbv beta iota zeta in Hip.
  apply mbind_inv in Hip. destruct Hip as (tos0 & tt & _ & Hip). cbv beta in Hip.
  apply ret_inv2 in Hip. destruct Hip as [Hip _]. inversion Hip; subst tos0 id0 ipfl fl. clear Hip.
  cbv zeta in Hfi.
  assert (Hid : forall f tt0 tt1, (if b_id b =? 0 then let* i := draw 1 65536 in ret (f, i) else ret (f, b_id b)) tt0 = Ok ((fl0, id), tt1) ->
                 id <> 0 /\ (b_id b <> 0 -> id = b_id b)).
  { intros f tt0 tt1 Hd. destruct (b_id b =? 0) eqn:E.
    - apply Z.eqb_eq in E. apply mbind_inv in Hd. destruct Hd as (i & t9 & Hd & Hr).
      apply draw_inv in Hd. apply ret_inv2 in Hr. destruct Hr as [Hr _]. inversion Hr; subst. split; [lia|intros; contradiction].
    - apply Z.eqb_neq in E. apply ret_inv2 in Hd. destruct Hd as [Hr _]. inversion Hr; subst. split; [assumption|reflexivity]. }
  destruct (hasq qDF (s_quirks s)).
  - destruct (hasq qNZID (s_quirks s)).
    + apply Hid in Hfi. repeat split; try discriminate; intros; tauto.
    + apply ret_inv2 in Hfi. destruct Hfi as [Hr _]. inversion Hr; subst.
      repeat split; try discriminate; intros; reflexivity.
  - destruct (hasq qZID (s_quirks s)).
    + apply ret_inv2 in Hfi. destruct Hfi as [Hr _]. inversion Hr; subst.
      repeat split; try discriminate; intros; reflexivity.
    + apply Hid in Hfi. repeat split; try discriminate; intros; tauto.
Qed.

(* payload *)
Lemma draw_chars_nonempty n t cs t' : draw_chars (S n) t = Ok (cs, t') -> cs <> [].
Proof.
  cbn [draw_chars]. intros H.
  apply mbind_inv in H. destruct H as (i & ti & _ & H). cbv beta in H.
  apply mbind_inv in H. destruct H as (r & tr & _ & H). cbv beta in H.
  apply ret_inv2 in H. destruct H as [-> _]. discriminate.
Qed.

Theorem imp_payload_spec : forall s b hops mtu up t x t',
  imp_tcp s b hops mtu up t = Ok (x, t') ->
  (s_pay s = -1 -> x_payload x = b_payload b) /\
  (s_pay s = 0 -> x_payload x = []) /\
  (s_pay s <> -1 -> s_pay s <> 0 -> (b_payload b <> [] -> x_payload x = b_payload b) /\ x_payload x <> []).
Proof.
  intros s b hops mtu up t x t' H. tcp_inv H.
  unfold imp_payload in Hpay.
  destruct (s_pay s =? -1) eqn:E1.
  { apply Z.eqb_eq in E1. apply ret_inv2 in Hpay. destruct Hpay as [-> _].
    split; [reflexivity|]. split; intros; lia. }
  apply Z.eqb_neq in E1.
  destruct (s_pay s =? 0) eqn:E0.
  { apply Z.eqb_eq in E0. apply ret_inv2 in Hpay. destruct Hpay as [-> _].
    split; [intros; lia|]. split; [reflexivity|intros; lia]. }
  apply Z.eqb_neq in E0.
  split; [intros; lia|]. split; [intros; lia|]. intros _ _.
  destruct (b_payload b) as [|c l] eqn:Eb.
  - apply mbind_inv in Hpay. destruct Hpay as (n & tn & Hn & Hpay). cbv beta in Hpay.
    apply mbind_inv in Hpay. destruct Hpay as (cs & tc & Hcs & Hpay). cbv beta in Hpay.
    apply ret_inv2 in Hpay. destruct Hpay as [-> _].
    apply draw_inv in Hn.
    split; [intros Hne; contradiction|].
    destruct (Z.to_nat n) as [|m] eqn:En; [lia|].
    apply draw_chars_nonempty in Hcs.
    destruct cs; [contradiction|discriminate].
  - apply ret_inv2 in Hpay. destruct Hpay as [-> _].
    split; [reflexivity|discriminate].
Qed.

Print Assumptions imp_identity.
Print Assumptions imp_flags.
Print Assumptions imp_seq.
Print Assumptions imp_mss.
Print Assumptions imp_ws.
Print Assumptions imp_ts.
Print Assumptions imp_window_any.
Print Assumptions imp_ip_id.
Print Assumptions imp_payload_spec.
