From Coq Require Import Lia.
From PV Require Import Model.Prelude Model.Text Model.SigParse Model.DbParse Model.DbState Model.Api.

Lemma run_ops_db d ops : fst (run_ops d ops) = last_loaded d ops.
Proof.
  revert d. induction ops as [|o r IH]; intros d; cbn [run_ops last_loaded]; [reflexivity|].
  destruct o; cbn [exec].
  - destruct (load_spec d lines) as [d' [u|e]] eqn:L; destruct (run_ops d' r) as [d2 xs] eqn:R; cbn [fst];
      specialize (IH d'); rewrite R in IH; exact IH.
  - destruct (run_ops d r) as [d2 xs] eqn:R; cbn [fst]; specialize (IH d); rewrite R in IH; exact IH.
  - destruct (run_ops d r) as [d2 xs] eqn:R; cbn [fst]; specialize (IH d); rewrite R in IH; exact IH.
  - destruct (run_ops d r) as [d2 xs] eqn:R; cbn [fst]; specialize (IH d); rewrite R in IH; exact IH.
  - destruct (run_ops d r) as [d2 xs] eqn:R; cbn [fst]; specialize (IH d); rewrite R in IH; exact IH.
Qed.

Lemma run_ops_app d h o :
  snd (run_ops d (h ++ [o])) = snd (run_ops d h) ++ [snd (exec (last_loaded d h) o)].
Proof.
  revert d. induction h as [|x r IH]; intros d; cbn [app run_ops last_loaded].
  - destruct (exec d o) as [d1 y]. reflexivity.
  - destruct (exec d x) as [d1 y] eqn:E. specialize (IH d1).
    destruct (run_ops d1 (r ++ [o])) as [d2 xs] eqn:R1. destruct (run_ops d1 r) as [d3 ys] eqn:R2.
    cbn [snd] in *. rewrite IH. cbn [app]. f_equal. f_equal. f_equal.
    destruct x; cbn [exec] in E; cbn [last_loaded].
    + destruct (load_spec d lines) as [d' [u|e]]; inversion E; subst; reflexivity.
    + inversion E; reflexivity.
    + inversion E; reflexivity.
    + inversion E; reflexivity.
    + inversion E; reflexivity.
Qed.

(* C16_history: the output of a call at the end of ANY history is its history-free value on the
   database of the last successful load; two histories with the same last load agree. *)
Theorem history_independence d h o :
  last (snd (run_ops d (h ++ [o]))) ONone = pure_out (last_loaded d h) o.
Proof. rewrite run_ops_app. rewrite last_last. reflexivity. Qed.

Theorem same_load_same_result d h1 h2 o :
  last_loaded d h1 = last_loaded d h2 ->
  last (snd (run_ops d (h1 ++ [o]))) ONone = last (snd (run_ops d (h2 ++ [o]))) ONone.
Proof. intros H. rewrite !history_independence, H. reflexivity. Qed.

(* fingerprint and "other" calls (impersonation, uptime) never change the database; repeating a call gives the same output *)
Theorem non_load_preserves d o : (forall lines, o <> Load lines) -> fst (exec d o) = d.
Proof. destruct o; cbn [exec fst]; try reflexivity. intros H. exfalso. apply (H lines). reflexivity. Qed.

Theorem repeat_same d o : (forall lines, o <> Load lines) ->
  snd (exec (fst (exec d o)) o) = snd (exec d o).
Proof. intros H. rewrite (non_load_preserves d o H). reflexivity. Qed.
