From Coq Require Import Lia.
From PV Require Import Model.Prelude Model.Text Model.SigParse Model.DbParse Model.DbState.

(* while a job is running the shared database and the visible version never change *)
Lemma tick_running l l' :
  tick l = (l', None) -> l_shared l' = l_shared l /\ l_version l' = l_version l /\ l_loads l' = l_loads l.
Proof.
  unfold tick. destruct (l_job l) as [j|]; [|intros H; inversion H; auto].
  destruct (j_rest j) as [|x r]; [discriminate|].
  destruct (step (j_state j) (j_line j) x); intros H; inversion H; subst; cbn; auto.
Qed.

(* generalised refinement: running the job to its end installs exactly run's result, or nothing *)
Lemma run_load_spec fuel l j seen :
  l_job l = Some j -> (length (j_rest j) < fuel)%nat ->
  let '(l', r, obs) := run_load fuel l seen in
  l_job l' = None /\ l_loads l' = l_loads l /\
  match run (j_state j) (j_line j) (j_rest j) with
  | Ok s => r = Ok tt /\ l_shared l' = p_db s /\ l_version l' = l_loads l /\
            exists k, obs = rev seen ++ repeat (l_version l) k ++ [l_loads l] /\ k = S (length (j_rest j))
  | Err e => r = Err e /\ l_shared l' = l_shared l /\ l_version l' = l_version l /\
             exists k, obs = rev seen ++ repeat (l_version l) k /\ (2 <= k <= S (S (length (j_rest j))))%nat
  end.
Proof.
  revert l j seen. induction fuel as [|f IH]; intros l j seen Hj Hf; [lia|].
  cbn [run_load]. unfold tick at 1. rewrite Hj.
  destruct (j_rest j) as [|x r] eqn:R.
  - cbn [run]. cbn [l_job l_loads l_shared l_version]. split; [reflexivity|]. split; [reflexivity|].
    refine (conj eq_refl (conj eq_refl (conj eq_refl _))).
    exists 1%nat. split; [|reflexivity]. cbn [rev repeat app length]. rewrite <- app_assoc. reflexivity.
  - cbn [run bind]. destruct (step (j_state j) (j_line j) x) as [s'|e] eqn:Hstep.
    + cbn [bind]. set (l1 := {| l_shared := l_shared l; l_version := l_version l; l_loads := l_loads l;
                    l_job := Some {| j_state := s'; j_line := j_line j + 1; j_rest := r |} |}).
      specialize (IH l1 {| j_state := s'; j_line := j_line j + 1; j_rest := r |} (l_version l :: seen) eq_refl).
      cbn [j_rest j_state j_line] in IH. cbn [length] in Hf. specialize (IH ltac:(lia)).
      destruct (run_load f l1 (l_version l :: seen)) as [[l' rr] obs].
      destruct IH as (H1 & H2 & H3). split; [exact H1|]. split; [exact H2|].
      destruct (run s' (j_line j + 1) r) as [s|e].
      * destruct H3 as (A & B & C & k & D & E). refine (conj A (conj B (conj C _))). exists (S k). split; [|cbn [length]; lia].
        rewrite D. cbn [rev l1 l_version l_loads repeat]. rewrite <- !app_assoc. reflexivity.
      * destruct H3 as (A & B & C & k & D & E). refine (conj A (conj B (conj C _))). exists (S k). split; [|cbn [length]; lia].
        rewrite D. cbn [rev l1 l_version repeat]. rewrite <- !app_assoc. reflexivity.
    + cbn [bind l_job l_loads l_shared l_version]. split; [reflexivity|]. split; [reflexivity|].
      refine (conj eq_refl (conj eq_refl (conj eq_refl _))).
      exists 2%nat. split; [|cbn [length]; lia]. cbn [rev repeat app]. rewrite <- app_assoc. reflexivity.
Qed.

(* C11_refines: the small-step load refines the atomic specification, and every observation made
   at a line-read point shows the complete old contents (version unchanged); only the observation
   after the last line shows the new one. *)
Theorem load_refines l lines :
  l_job l = None ->
  let '(l', r, obs) := load l lines in
  l_job l' = None /\ l_loads l' = S (l_loads l) /\
  (l_shared l', r) = load_spec (l_shared l) lines /\
  match r with
  | Ok _ => l_version l' = S (l_loads l) /\ obs = repeat (l_version l) (S (length lines)) ++ [S (l_loads l)]
  | Err _ => l_version l' = l_version l /\ exists k, obs = repeat (l_version l) k /\ (2 <= k <= S (S (length lines)))%nat
  end.
Proof.
  intros _. unfold load.
  pose proof (run_load_spec (S (length lines)) (begin_load l lines) {| j_state := st0; j_line := 1; j_rest := lines |} [] eq_refl) as H.
  cbn [j_rest j_state j_line] in H. specialize (H ltac:(lia)).
  destruct (run_load (S (length lines)) (begin_load l lines) []) as [[l' r] obs].
  destruct H as (H1 & H2 & H3). cbn [begin_load l_loads l_shared l_version] in *.
  unfold load_spec, parse_file. cbn [bind].
  destruct (run st0 1 lines) as [s|e].
  - destruct H3 as (A & B & C & k & D & E). subst r k. split; [exact H1|]. split; [exact H2|]. split; [rewrite B; reflexivity|].
    split; [exact C|]. rewrite D. reflexivity.
  - destruct H3 as (A & B & C & k & D & E). subst r. split; [exact H1|]. split; [exact H2|]. split; [rewrite B; reflexivity|].
    split; [exact C|]. exists k. split; [rewrite D; reflexivity | exact E].
Qed.

(* corollaries on the atomic specification *)
Theorem failed_load_preserves s lines e : snd (load_spec s lines) = Err e -> fst (load_spec s lines) = s.
Proof. unfold load_spec. destruct (parse_file lines); [discriminate | reflexivity]. Qed.

Theorem load_no_accumulation s1 s2 lines :
  snd (load_spec s1 lines) = Ok tt -> fst (load_spec s1 lines) = fst (load_spec s2 lines).
Proof. unfold load_spec. destruct (parse_file lines); [reflexivity | discriminate]. Qed.

Theorem load_idempotent s lines :
  load_spec (fst (load_spec s lines)) lines = load_spec s lines.
Proof. unfold load_spec. destruct (parse_file lines); reflexivity. Qed.

Theorem never_loaded_is_empty : l_shared loader0 = empty_db /\ l_version loader0 = 0%nat.
Proof. split; reflexivity. Qed.
