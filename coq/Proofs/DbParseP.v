(* Properties C09 / C10 of the database parser model. *)
From Coq Require Import Lia String.
From PV Require Import Model.Prelude Model.Bits Model.Sig Model.Text Model.SigParse Model.DbParse Spec.C01 Spec.C09.
From PV Require Import Proofs.BitsP.
Local Open Scope Z_scope.
Local Open Scope list_scope.

(* ------------------------------------------------------------------ *)
(* step in terms of classify                                           *)
(* ------------------------------------------------------------------ *)

Definition step_c (s : st) (n : Z) (c : lclass) : res st :=
  match c with
  | LSkip => Ok s
  | LSection line =>
      do sec <- wrap n (parse_section line);
      Ok {| p_db := on_section ensure sec (p_db s); p_state := NeedLabel; p_label := p_label s; p_sec := Some sec |}
  | LParam param value =>
      if text_eqb param (str "sig") then
        match p_state s, p_sec s with
        | NeedSig, Some sec =>
            match p_label s with
            | None => Err (Crash COther)
            | Some lab =>
              do sg <- wrap n (parse_sig (fst sec) value);
              let r := {| rc_line := n; rc_label := lab; rc_raw := value; rc_sig := sg |} in
              Ok {| p_db := on_section (fun l => push l r) sec (p_db s); p_state := NeedSig; p_label := p_label s; p_sec := p_sec s |}
            end
        | _, _ => Err (ParsingError n)
        end
      else if text_eqb param (str "label") then
        match p_state s, p_sec s with
        | NeedLabel, Some sec | NeedSig, Some sec =>
            do lab <- wrap n (parse_label (fst sec) value);
            Ok {| p_db := p_db s; p_state := if is_user_app lab then NeedSys else NeedSig; p_label := Some lab; p_sec := p_sec s |}
        | _, _ => Err (ParsingError n)
        end
      else if text_eqb param (str "sys") then
        match p_state s, p_label s with
        | NeedSys, Some (LOs g c nm f _) =>
            Ok {| p_db := p_db s; p_state := NeedSig; p_label := Some (LOs g c nm f (split_on 44 value)); p_sec := p_sec s |}
        | _, _ => Err (ParsingError n)
        end
      else if existsb (text_eqb param) skipped_params then Ok s
      else Err (ParsingError n)
  end.

(* NOTE: [Spec.C09.classify] is written with the pattern [c :: _ as line], which Coq parses as
   [c :: (_ as line)]: there [line] is the TAIL of the stripped line.  [classify'] is the intended
   reading ([line] = the whole stripped line), which is what [step] does.  The two agree on
   which lines are skipped.  See NOTES.md. *)
Definition classify' (raw : text) : lclass :=
  match raw with
  | [] => LSkip
  | c0 :: _ =>
    if c0 =? 59 then LSkip else
    match strip raw with
    | [] => LSkip
    | (c :: _) as line =>
      if c =? 91 then LSection line
      else let '(pa, _, va) := partition_on 61 line in LParam (strip pa) (strip va)
    end
  end.

Lemma step_classify s n raw : step s n raw = step_c s n (classify' raw).
Proof.
  unfold step, classify'.
  destruct raw as [|c0 raw']; [reflexivity|].
  destruct (c0 =? 59); [reflexivity|].
  cbv zeta.
  destruct (strip (c0 :: raw')) as [|c line'] eqn:Es; [reflexivity|].
  destruct (c =? 91); [reflexivity|].
  destruct (partition_on 61 (c :: line')) as [[pa fd] va].
  reflexivity.
Qed.

Lemma classify_skip raw : is_skip raw = true -> classify' raw = LSkip.
Proof.
  unfold is_skip, classify, classify'.
  destruct raw as [|c0 raw']; [reflexivity|].
  destruct (c0 =? 59); [reflexivity|].
  destruct (strip (c0 :: raw')) as [|c line'] eqn:Es; [reflexivity|].
  destruct (c =? 91); [discriminate|].
  intros H. exfalso.
  match type of H with context [partition_on 61 ?x] => destruct (partition_on 61 x) as [[pa fd] va] end.
  discriminate H.
Qed.

(* --- C10: skipped lines --- *)
Theorem step_skip : forall s n raw, is_skip raw = true -> step s n raw = Ok s.
Proof.
  intros s n raw H. rewrite step_classify, (classify_skip _ H). reflexivity.
Qed.

(* ------------------------------------------------------------------ *)
(* generic inversion helpers                                           *)
(* ------------------------------------------------------------------ *)

Ltac inv_bind H :=
  match type of H with
  | bind ?r _ = Ok _ =>
      let E := fresh "E" in destruct r eqn:E; cbn [bind] in H; [|discriminate H]
  end.
Tactic Notation "inv_bind" hyp(H) "as" ident(a) ident(E) :=
  match type of H with
  | bind ?r _ = Ok _ => destruct r as [a|] eqn:E; cbn [bind] in H; [|discriminate H]
  end.

Lemma from_options_in {A} (t : text) (opts : list (text * A)) v :
  from_options t opts = Ok v -> In v (map snd opts).
Proof.
  induction opts as [|[k x] r IH]; cbn [from_options map snd In]; [discriminate|].
  destruct (text_eqb t k).
  - intros H; inversion H; auto.
  - intros H; right; auto.
Qed.

Lemma num_in_range_spec t lo hi w v :
  num_in_range t lo hi w = Ok v -> (w = true /\ v = -1) \/ lo <= v <= hi.
Proof.
  unfold num_in_range.
  destruct (w && text_eqb t (str "*")) eqn:Ew.
  - intros H; inversion H. left. apply andb_true_iff in Ew. tauto.
  - destruct (py_int t) as [x|]; [|discriminate].
    destruct ((lo <=? x) && (x <=? hi)) eqn:Er; [|discriminate].
    intros H; inversion H; subst. right.
    apply andb_true_iff in Er. destruct Er as [A B].
    apply Z.leb_le in A. apply Z.leb_le in B. lia.
Qed.

Lemma num_in_range_nowild t lo hi v :
  num_in_range t lo hi false = Ok v -> lo <= v <= hi.
Proof.
  intros H. apply num_in_range_spec in H. destruct H as [[A _]|H]; [discriminate|exact H].
Qed.

(* ------------------------------------------------------------------ *)
(* C10: ranges of accepted signatures                                   *)
(* ------------------------------------------------------------------ *)

Lemma parse_ip_version_spec t v : parse_ip_version t = Ok v -> v = -1 \/ v = 4 \/ v = 6.
Proof.
  unfold parse_ip_version. destruct (text_eqb t (str "*")).
  - intros H; inversion H; auto.
  - intros H. apply from_options_in in H. cbn [map snd In] in H. intuition.
Qed.

Lemma parse_payload_class_spec t v : parse_payload_class t = Ok v -> v = -1 \/ v = 0 \/ v = 1.
Proof.
  unfold parse_payload_class. destruct (text_eqb t (str "*")).
  - intros H; inversion H; auto.
  - intros H. apply from_options_in in H. cbn [map snd In] in H. intuition.
Qed.

Lemma parse_ttl_spec f v b : parse_ttl f = Ok (v, b) -> 1 <= v <= 255.
Proof.
  unfold parse_ttl.
  destruct (ends_with (str "-") f).
  - intros H. inv_bind H as v0 E. inversion H; subst. eapply num_in_range_nowild; eauto.
  - destruct (mem 43 f).
    + destruct (partition_on 43 f) as [[a x] c].
      intros H. inv_bind H as dist Ed. inv_bind H as v0 Ev.
      destruct (v0 + dist >? 255) eqn:G; [discriminate|].
      inversion H; subst.
      apply num_in_range_nowild in Ed. apply num_in_range_nowild in Ev.
      rewrite Z.gtb_ltb in G. apply Z.ltb_ge in G. lia.
    + intros H. inv_bind H as v0 E. inversion H; subst. eapply num_in_range_nowild; eauto.
Qed.

Lemma parse_window_spec f wt sz sc : parse_window f = Ok (wt, sz, sc) ->
  (sc = -1 \/ 0 <= sc <= 255) /\
  match wt with
  | WNormal => 0 <= sz <= 65535
  | WAny => sz = -1
  | WMod => 2 <= sz <= 65535
  | WMss | WMtu => 1 <= sz <= 1000
  end.
Proof.
  unfold parse_window.
  destruct (partition_on 44 f) as [[rw x] rs].
  intros H. inv_bind H as ts E. inv_bind H as sc0 Esc. inversion H; subst. clear H.
  split.
  - apply num_in_range_spec in Esc. destruct Esc as [[_ ->]|R]; auto.
  - destruct ts as [wt sz]; cbn [fst snd].
    destruct (text_eqb rw (str "*")).
    { inversion E; subst; reflexivity. }
    destruct (starts_with (str "mss*") rw || starts_with (str "mtu*") rw).
    { inv_bind E as c Ec. inv_bind E as m Em. inversion E; subst.
      apply num_in_range_nowild in Em. destruct (c =? 115); exact Em. }
    destruct (starts_with (str "%") rw).
    { inv_bind E as m Em. inversion E; subst. eapply num_in_range_nowild; eauto. }
    inv_bind E as m Em. inversion E; subst. eapply num_in_range_nowild; eauto.
Qed.

Lemma option_names_range :
  forallb (fun k => (0 <=? k) && (k <=? 255)) (map snd option_names) = true.
Proof. vm_compute. reflexivity. Qed.

Lemma parse_option_list_spec l : forall eol lay e,
  parse_option_list l eol = Ok (lay, e) -> 0 <= eol <= 255 ->
  Forall (fun k => 0 <= k <= 255) lay /\ 0 <= e <= 255.
Proof.
  induction l as [|o r IH]; intros eol lay e H Heol; cbn [parse_option_list] in H.
  - inversion H; subst. split; [constructor|exact Heol].
  - inv_bind H as ke E. inv_bind H as rest E0. inversion H; subst; clear H.
    destruct ke as [k eol']; destruct rest as [lay' e']; cbn [fst snd] in *.
    assert (K : 0 <= k <= 255 /\ 0 <= eol' <= 255).
    { destruct (starts_with (str "?") o).
      { inv_bind E as m Em. inversion E; subst. apply num_in_range_nowild in Em. auto. }
      destruct (starts_with (str "eol+") o).
      { inv_bind E as m Em. inversion E; subst. apply num_in_range_nowild in Em. split; [lia|auto]. }
      inv_bind E as m Em. inversion E; subst. split; [|exact Heol].
      apply from_options_in in Em.
      pose proof option_names_range as F. rewrite forallb_forall in F.
      specialize (F _ Em). apply andb_true_iff in F. destruct F as [A B].
      apply Z.leb_le in A. apply Z.leb_le in B. lia. }
    destruct K as [K1 K2].
    destruct (IH _ _ _ E0 K2) as [F1 F2].
    split; [constructor; assumption | exact F2].
Qed.

Lemma parse_layout_spec f lay e : parse_layout f = Ok (lay, e) ->
  Forall (fun k => 0 <= k <= 255) lay /\ 0 <= e <= 255.
Proof.
  unfold parse_layout. destruct f as [|c f'].
  - intros H; inversion H; subst. split; [constructor|lia].
  - intros H. eapply parse_option_list_spec; [exact H|lia].
Qed.

Lemma quirk_names_range :
  forallb (fun k => (k <=? 16)%N) (map snd quirk_names) = true.
Proof. vm_compute. reflexivity. Qed.

Lemma lor_lt_pow2 a b n : (a < 2 ^ n)%N -> (b < 2 ^ n)%N -> (N.lor a b < 2 ^ n)%N.
Proof.
  intros Ha Hb.
  destruct (N.eq_dec a 0) as [->|Na]; [rewrite N.lor_0_l; exact Hb|].
  destruct (N.eq_dec b 0) as [->|Nb]; [rewrite N.lor_0_r; exact Ha|].
  assert (Pa : (0 < a)%N) by lia. assert (Pb : (0 < b)%N) by lia.
  assert (Nl : N.lor a b <> 0%N).
  { intro Z0. apply N.lor_eq_0_iff in Z0. tauto. }
  apply N.log2_lt_pow2; [lia|].
  rewrite N.log2_lor.
  apply N.log2_lt_pow2 in Ha; [|exact Pa]. apply N.log2_lt_pow2 in Hb; [|exact Pb].
  apply N.max_lub_lt; assumption.
Qed.

Lemma land_setq_0 k acc m :
  N.land acc m = 0%N -> hasq k m = false -> N.land (setq k acc) m = 0%N.
Proof.
  intros H0 Hk. unfold setq. rewrite N.land_lor_distr_l, H0, N.lor_0_l.
  apply eq0_bits. intros j. rewrite N.land_spec, N.shiftl_1_l, N.pow2_bits_eqb.
  destruct (N.eqb k j) eqn:Ej; [|reflexivity].
  apply N.eqb_eq in Ej. subst j. unfold hasq in Hk. rewrite Hk. reflexivity.
Qed.

Lemma parse_quirk_list_spec l ver : forall acc q,
  parse_quirk_list l ver acc = Ok q ->
  (acc < 2 ^ 17)%N -> N.land acc (invalid_for ver) = 0%N ->
  (q < 2 ^ 17)%N /\ N.land q (invalid_for ver) = 0%N.
Proof.
  induction l as [|x r IH]; intros acc q H Hlt Hland; cbn [parse_quirk_list] in H.
  - inversion H; subst. auto.
  - inv_bind H as a E. destruct (hasq a (invalid_for ver)) eqn:Hq; [discriminate|].
    apply IH in H; [exact H| |].
    + unfold setq. apply lor_lt_pow2; [exact Hlt|].
      rewrite N.shiftl_1_l. apply N.pow_lt_mono_r; [lia|].
      apply from_options_in in E.
      pose proof quirk_names_range as F. rewrite forallb_forall in F.
      specialize (F _ E). apply N.leb_le in F. lia.
    + apply land_setq_0; assumption.
Qed.

Lemma parse_quirks_spec f ver q : parse_quirks f ver = Ok q ->
  (q < 2 ^ 17)%N /\ N.land q (invalid_for ver) = 0%N.
Proof.
  unfold parse_quirks. destruct f as [|c f'].
  - intros H; inversion H; subst. split; [reflexivity|apply N.land_0_l].
  - intros H. eapply parse_quirk_list_spec; [exact H|reflexivity|apply N.land_0_l].
Qed.

Theorem parse_tcp_sig_wf : forall t s, parse_tcp_sig t = Ok s ->
  wf_sig s /\ Forall (fun k => 0 <= k <= 255) (s_layout s) /\
  (s_quirks s < 2 ^ 17)%N /\ N.land (s_quirks s) (invalid_for (s_ver s)) = 0%N.
Proof.
  intros t s H. unfold parse_tcp_sig in H. cbv zeta in H.
  generalize dependent (split_parts t 8 58). intros p H.
  inv_bind H as ver Ever.
  inv_bind H as tv Ettl.
  inv_bind H as mss Emss.
  inv_bind H as lay Elay.
  inv_bind H as olen Eolen.
  inv_bind H as w Ew.
  inv_bind H as pay Epay.
  inv_bind H as q Eq.
  destruct w as [[wt wsize] wscale]. inversion H; subst; clear H.
  destruct tv as [ttl bad]. destruct lay as [lay eol].
  cbn [fst snd s_ver s_olen s_ttl s_bad_ttl s_wtype s_wsize s_wscale s_layout s_mss s_eol_pad s_pay s_quirks].
  apply parse_ip_version_spec in Ever.
  apply parse_ttl_spec in Ettl.
  apply num_in_range_spec in Emss.
  apply parse_layout_spec in Elay. destruct Elay as [L1 L2].
  apply num_in_range_nowild in Eolen.
  apply parse_window_spec in Ew. destruct Ew as [W1 W2].
  apply parse_payload_class_spec in Epay.
  apply parse_quirks_spec in Eq. destruct Eq as [Q1 Q2].
  split; [|split; [exact L1|split; [exact Q1|exact Q2]]].
  unfold wf_sig.
  cbn [fst snd s_ver s_olen s_ttl s_bad_ttl s_wtype s_wsize s_wscale s_layout s_mss s_eol_pad s_pay s_quirks].
  split; [exact Ever|]. split; [exact Ettl|]. split; [exact Eolen|].
  split; [destruct Emss as [[_ ->]|R]; auto|].
  split; [exact W1|]. split; [exact Epay|]. split; [exact L2|]. exact W2.
Qed.

Theorem parse_mtu_sig_wf : forall t m, parse_mtu_sig t = Ok m -> 1 <= m <= 65535.
Proof. intros t m H. unfold parse_mtu_sig in H. eapply num_in_range_nowild; eauto. Qed.

Theorem parse_http_sig_wf : forall t h, parse_http_sig t = Ok h -> hs_version h = -1 \/ hs_version h = 0 \/ hs_version h = 1.
Proof.
  intros t h H. unfold parse_http_sig in H. cbv zeta in H.
  inv_bind H as v E. inversion H; subst; clear H. cbn [hs_version].
  unfold parse_http_version in E. destruct (text_eqb _ (str "*")).
  - inversion E; auto.
  - apply from_options_in in E. cbn [map snd In] in E. intuition.
Qed.

(* ------------------------------------------------------------------ *)
(* C10: the only errors of the sub-parsers are FieldError               *)
(* ------------------------------------------------------------------ *)

Definition fe {A} (r : res A) : Prop := match r with Ok _ => True | Err e => e = FieldError end.
Definition pe {A} (n : Z) (r : res A) : Prop := match r with Ok _ => True | Err e => e = ParsingError n end.

Lemma fe_bind {A B} (r : res A) (f : A -> res B) : fe r -> (forall a, fe (f a)) -> fe (bind r f).
Proof. destruct r as [a|e]; cbn [bind fe]; auto. Qed.
Lemma pe_bind {A B} n (r : res A) (f : A -> res B) : pe n r -> (forall a, pe n (f a)) -> pe n (bind r f).
Proof. destruct r as [a|e]; cbn [bind pe]; auto. Qed.
Lemma pe_wrap {A} n (r : res A) : fe r -> pe n (wrap n r).
Proof. destruct r as [a|e]; cbn [wrap fe pe]; [auto|]. intros ->. reflexivity. Qed.
Lemma wrap_ok {A} n (r : res A) a : wrap n r = Ok a -> r = Ok a.
Proof. destruct r as [x|e]; cbn [wrap]; [auto|]. destruct e; discriminate. Qed.

Lemma fe_num_in_range t lo hi w : fe (num_in_range t lo hi w).
Proof.
  unfold num_in_range. destruct (w && text_eqb t (str "*")); [exact I|].
  destruct (py_int t) as [v|]; [|reflexivity].
  destruct ((lo <=? v) && (v <=? hi)); [exact I|reflexivity].
Qed.

Lemma fe_from_options {A} t (opts : list (text * A)) : fe (from_options t opts).
Proof.
  induction opts as [|[k v] r IH]; cbn [from_options]; [reflexivity|].
  destruct (text_eqb t k); [exact I|exact IH].
Qed.

Lemma fe_parse_ttl f : fe (parse_ttl f).
Proof.
  unfold parse_ttl. destruct (ends_with (str "-") f).
  - apply fe_bind; [apply fe_num_in_range|intros; exact I].
  - destruct (mem 43 f).
    + destruct (partition_on 43 f) as [[a x] b].
      apply fe_bind; [apply fe_num_in_range|intros dist].
      apply fe_bind; [apply fe_num_in_range|intros v].
      destruct (v + dist >? 255); [reflexivity|exact I].
    + apply fe_bind; [apply fe_num_in_range|intros; exact I].
Qed.

Lemma starts_with_length p : forall t, starts_with p t = true -> (length p <= length t)%nat.
Proof.
  induction p as [|x p IH]; intros t H; cbn [length]; [lia|].
  destruct t as [|y t]; cbn [starts_with] in H; [discriminate|].
  apply andb_true_iff in H. destruct H as [_ H]. apply IH in H. cbn [length]. lia.
Qed.

Lemma fe_parse_window f : fe (parse_window f).
Proof.
  unfold parse_window. destruct (partition_on 44 f) as [[rw x] rs].
  apply fe_bind.
  - destruct (text_eqb rw (str "*")); [exact I|].
    destruct (starts_with (str "mss*") rw || starts_with (str "mtu*") rw) eqn:Es.
    + assert (L : (4 <= length rw)%nat).
      { apply orb_true_iff in Es. destruct Es as [Es|Es]; apply starts_with_length in Es; exact Es. }
      destruct rw as [|a [|b rw']]; cbn [length] in L; try lia.
      unfold index. cbn [nth_error bind].
      apply fe_bind; [apply fe_num_in_range|intros; exact I].
    + destruct (starts_with (str "%") rw).
      * apply fe_bind; [apply fe_num_in_range|intros; exact I].
      * apply fe_bind; [apply fe_num_in_range|intros; exact I].
  - intros ts. apply fe_bind; [apply fe_num_in_range|intros; exact I].
Qed.

Lemma fe_parse_option_list l : forall eol, fe (parse_option_list l eol).
Proof.
  induction l as [|o r IH]; intros eol; cbn [parse_option_list]; [exact I|].
  apply fe_bind.
  - destruct (starts_with (str "?") o).
    { apply fe_bind; [apply fe_num_in_range|intros; exact I]. }
    destruct (starts_with (str "eol+") o).
    { apply fe_bind; [apply fe_num_in_range|intros; exact I]. }
    apply fe_bind; [apply fe_from_options|intros; exact I].
  - intros ke. apply fe_bind; [apply IH|intros; exact I].
Qed.

Lemma fe_parse_layout f : fe (parse_layout f).
Proof. unfold parse_layout. destruct f; [exact I|apply fe_parse_option_list]. Qed.

Lemma fe_parse_quirk_list l ver : forall acc, fe (parse_quirk_list l ver acc).
Proof.
  induction l as [|q r IH]; intros acc; cbn [parse_quirk_list]; [exact I|].
  apply fe_bind; [apply fe_from_options|intros k].
  destruct (hasq k (invalid_for ver)); [reflexivity|apply IH].
Qed.

Lemma fe_parse_quirks f ver : fe (parse_quirks f ver).
Proof. unfold parse_quirks. destruct f; [exact I|apply fe_parse_quirk_list]. Qed.

Lemma fe_parse_tcp_sig t : fe (parse_tcp_sig t).
Proof.
  unfold parse_tcp_sig. cbv zeta.
  apply fe_bind; [unfold parse_ip_version; destruct (text_eqb _ _); [exact I|apply fe_from_options]|intros ver].
  apply fe_bind; [apply fe_parse_ttl|intros tv].
  apply fe_bind; [apply fe_num_in_range|intros mss].
  apply fe_bind; [apply fe_parse_layout|intros lay].
  apply fe_bind; [apply fe_num_in_range|intros olen].
  apply fe_bind; [apply fe_parse_window|intros w].
  apply fe_bind; [unfold parse_payload_class; destruct (text_eqb _ _); [exact I|apply fe_from_options]|intros pay].
  apply fe_bind; [apply fe_parse_quirks|intros q].
  destruct w as [[wt wsize] wscale]. exact I.
Qed.

Lemma fe_parse_http_sig t : fe (parse_http_sig t).
Proof.
  unfold parse_http_sig. cbv zeta.
  apply fe_bind; [|intros; exact I].
  unfold parse_http_version. destruct (text_eqb _ _); [exact I|apply fe_from_options].
Qed.

Lemma fe_parse_sig k v : fe (parse_sig k v).
Proof.
  destruct k; cbn [parse_sig].
  - apply fe_bind; [apply fe_num_in_range|intros; exact I].
  - apply fe_bind; [apply fe_parse_tcp_sig|intros; exact I].
  - apply fe_bind; [apply fe_parse_http_sig|intros; exact I].
Qed.

Lemma fe_parse_label k v : fe (parse_label k v).
Proof.
  assert (O : fe (parse_os_label v)).
  { unfold parse_os_label. cbv zeta. apply fe_bind; [apply fe_from_options|intros; exact I]. }
  destruct k; cbn [parse_label]; [exact I|exact O|exact O].
Qed.

Lemma fe_parse_section line : fe (parse_section line).
Proof.
  unfold parse_section. cbv zeta.
  apply fe_bind; [apply fe_from_options|intros k].
  destruct (Bool.eqb _ _); [reflexivity|].
  destruct (part _ 1); [exact I|].
  apply fe_bind; [apply fe_from_options|intros; exact I].
Qed.

(* ------------------------------------------------------------------ *)
(* parser-state invariant                                              *)
(* ------------------------------------------------------------------ *)

Definition canonical_sections : list (kind * option dir) :=
  [(KMtu, None); (KTcp, Some Req); (KTcp, Some Resp); (KHttp, Some Req); (KHttp, Some Resp)].

Definition Inv (s : st) : Prop :=
  (p_state s = NeedSig -> p_label s <> None) /\
  (forall sec, p_sec s = Some sec -> In sec canonical_sections /\ section_of (p_db s) sec <> None).

Lemma Inv_st0 : Inv st0.
Proof. split; cbn [st0 p_state p_sec]; [discriminate|discriminate]. Qed.

Lemma parse_section_canonical line sec : parse_section line = Ok sec -> In sec canonical_sections.
Proof.
  unfold parse_section. cbv zeta. intros H.
  inv_bind H as k Ek.
  destruct (part (split_parts (slice_1_m1 line) 2 58) 1) as [|d0 d]; destruct k; cbn [Bool.eqb] in H;
    try discriminate H.
  - inversion H; subst. cbn; auto 10.
  - inv_bind H as dd Ed. inversion H; subst. destruct dd; cbn; auto 10.
  - inv_bind H as dd Ed. inversion H; subst. destruct dd; cbn; auto 10.
Qed.

Ltac canon_cases H :=
  cbn [canonical_sections In] in H;
  destruct H as [H|[H|[H|[H|[H|H]]]]]; [subst..|contradiction H].

Lemma section_of_ensure sec d : In sec canonical_sections -> section_of (on_section ensure sec d) sec <> None.
Proof.
  intros H. canon_cases H; cbn [on_section section_of d_mtu d_tcp_req d_tcp_resp d_http_req d_http_resp];
    unfold ensure; match goal with |- match ?x with _ => _ end <> _ => destruct x end; discriminate.
Qed.

Lemma recs_of_ensure sec0 sec d : In sec0 canonical_sections ->
  recs_of (section_of (on_section ensure sec0 d) sec) = recs_of (section_of d sec).
Proof.
  intros H. canon_cases H; destruct sec as [[] [[]|]];
    cbn [on_section section_of d_mtu d_tcp_req d_tcp_resp d_http_req d_http_resp];
    try reflexivity;
    unfold ensure; match goal with |- recs_of (match ?x with _ => _ end) = _ => destruct x end; reflexivity.
Qed.

Lemma db_len_ensure sec0 d : db_len (on_section ensure sec0 d) = db_len d.
Proof.
  destruct d as [a b c e f].
  destruct sec0 as [[] [[]|]]; unfold db_len;
    cbn [on_section d_mtu d_tcp_req d_tcp_resp d_http_req d_http_resp];
    unfold ensure.
  all: first [ destruct a; reflexivity | destruct b; reflexivity | destruct c; reflexivity
             | destruct e; reflexivity | destruct f; reflexivity ].
Qed.

Lemma section_of_push sec r d : In sec canonical_sections -> section_of d sec <> None ->
  section_of (on_section (fun l => push l r) sec d) sec <> None.
Proof.
  intros H. canon_cases H; cbn [on_section section_of d_mtu d_tcp_req d_tcp_resp d_http_req d_http_resp];
    unfold push; match goal with |- ?x <> None -> _ => destruct x end; intros N; congruence.
Qed.

Lemma recs_of_push sec0 sec r d : In sec0 canonical_sections -> In sec canonical_sections ->
  section_of d sec0 <> None ->
  recs_of (section_of (on_section (fun l => push l r) sec0 d) sec) =
  recs_of (section_of d sec) ++ (if sec_eqb sec0 sec then [r] else []).
Proof.
  intros H H'. canon_cases H; canon_cases H';
    cbn [on_section section_of d_mtu d_tcp_req d_tcp_resp d_http_req d_http_resp sec_eqb];
    intros N; try (rewrite app_nil_r; reflexivity);
    unfold push; match type of N with ?x <> None => destruct x end; try congruence; reflexivity.
Qed.

Lemma db_len_push sec0 r d : In sec0 canonical_sections -> section_of d sec0 <> None ->
  db_len (on_section (fun l => push l r) sec0 d) = db_len d + 1.
Proof.
  intros H. destruct d as [a b c e f].
  canon_cases H; unfold db_len;
    cbn [on_section section_of d_mtu d_tcp_req d_tcp_resp d_http_req d_http_resp];
    intros N; unfold push;
    match type of N with ?x <> None => destruct x end; try congruence;
    rewrite app_length; cbn [length]; lia.
Qed.

(* every error of a step is ParsingError of that line *)
Lemma step_c_pe s n c : Inv s -> pe n (step_c s n c).
Proof.
  intros [I1 I2]. destruct c as [|line|name value]; cbn [step_c].
  - exact I.
  - apply pe_bind; [apply pe_wrap, fe_parse_section|intros; exact I].
  - destruct (text_eqb name (str "sig")).
    { destruct (p_state s) eqn:Est; try reflexivity.
      destruct (p_sec s) as [sec|]; [|reflexivity].
      destruct (p_label s) as [lab|].
      - apply pe_bind; [apply pe_wrap, fe_parse_sig|intros; exact I].
      - exfalso. apply I1; reflexivity. }
    destruct (text_eqb name (str "label")).
    { destruct (p_state s); try reflexivity; (destruct (p_sec s) as [sec|]; [|reflexivity]);
        (apply pe_bind; [apply pe_wrap, fe_parse_label|intros; exact I]). }
    destruct (text_eqb name (str "sys")).
    { destruct (p_state s); try reflexivity. destruct (p_label s) as [[|g c nm f y]|]; try reflexivity; try exact I. }
    destruct (existsb _ _); [exact I|reflexivity].
Qed.

Lemma step_c_inv s n c s1 : step_c s n c = Ok s1 -> Inv s -> Inv s1.
Proof.
  intros H [I1 I2]. destruct c as [|line|name value]; cbn [step_c] in H.
  - inversion H; subst. split; assumption.
  - inv_bind H as sec Esec. apply wrap_ok in Esec. inversion H; subst; clear H.
    pose proof (parse_section_canonical _ _ Esec) as C.
    split; cbn [p_state p_label p_sec p_db]; [discriminate|].
    intros sec' E; inversion E; subst. split; [exact C|apply section_of_ensure; exact C].
  - destruct (text_eqb name (str "sig")).
    { destruct (p_state s) eqn:Est; try discriminate H.
      destruct (p_sec s) as [sec|] eqn:Esec; [|discriminate H].
      destruct (p_label s) as [lab|] eqn:Elab; [|discriminate H].
      inv_bind H as sg Esg. inversion H; subst; clear H.
      split; cbn [p_state p_label p_sec p_db]; [intros _; discriminate|].
      intros sec' E. inversion E; subst.
      destruct (I2 _ eq_refl) as [C N]. split; [exact C|apply section_of_push; assumption]. }
    destruct (text_eqb name (str "label")).
    { assert (G : forall sec, p_sec s = Some sec ->
                (do lab <- wrap n (parse_label (fst sec) value);
                 Ok {| p_db := p_db s; p_state := if is_user_app lab then NeedSys else NeedSig;
                       p_label := Some lab; p_sec := p_sec s |}) = Ok s1 -> Inv s1).
      { intros sec Esec H'. inv_bind H' as lab El. inversion H'; subst; clear H'.
        split; cbn [p_state p_label p_sec p_db]; [discriminate|exact I2]. }
      destruct (p_state s); try discriminate H;
        (destruct (p_sec s) as [sec|] eqn:Esec; [|discriminate H]); exact (G _ eq_refl H). }
    destruct (text_eqb name (str "sys")).
    { destruct (p_state s); try discriminate H.
      destruct (p_label s) as [[|g c nm f y]|]; try discriminate H.
      inversion H; subst; clear H.
      split; cbn [p_state p_label p_sec p_db]; [discriminate|exact I2]. }
    destruct (existsb _ _); [|discriminate H].
    inversion H; subst. split; assumption.
Qed.

Lemma run_pe ls : forall s n, Inv s ->
  match run s n ls with Ok _ => True | Err e => exists m, e = ParsingError m end.
Proof.
  induction ls as [|l r IH]; intros s n Hi; cbn [run]; [exact I|].
  pose proof (step_c_pe s n (classify' l) Hi) as P. rewrite <- step_classify in P.
  destruct (step s n l) as [s1|e] eqn:Es; cbn [bind pe] in *.
  - apply IH. rewrite step_classify in Es. eapply step_c_inv; eauto.
  - exists n. exact P.
Qed.

(* never any exception other than ParsingError: no Crash, no OutOfFuel, no bare FieldError *)
Theorem parse_file_outcome : forall ls,
  (exists d, parse_file ls = Ok d) \/ (exists n, parse_file ls = Err (ParsingError n)).
Proof.
  intros ls. unfold parse_file. pose proof (run_pe ls st0 1 Inv_st0) as P.
  destruct (run st0 1 ls) as [s|e]; cbn [bind].
  - left. eexists; reflexivity.
  - right. destruct P as [m ->]. exists m. reflexivity.
Qed.

(* ------------------------------------------------------------------ *)
(* C10: the reported line is the first offending line                   *)
(* ------------------------------------------------------------------ *)

Lemma step_err_line s n raw e : Inv s -> step s n raw = Err e -> e = ParsingError n.
Proof.
  intros Hi H. pose proof (step_c_pe s n (classify' raw) Hi) as P.
  rewrite <- step_classify, H in P. exact P.
Qed.

Lemma step_inv s n raw s1 : step s n raw = Ok s1 -> Inv s -> Inv s1.
Proof. rewrite step_classify. apply step_c_inv. Qed.

Lemma run_error_line ls : forall s n m, Inv s ->
  run s n ls = Err (ParsingError m) ->
  n <= m < n + Z.of_nat (length ls) /\
  exists s1, run s n (firstn (Z.to_nat (m - n)) ls) = Ok s1 /\
             step s1 m (nth (Z.to_nat (m - n)) ls []) = Err (ParsingError m).
Proof.
  induction ls as [|l r IH]; intros s n m Hi H; cbn [run] in H; [discriminate|].
  destruct (step s n l) as [s1|e] eqn:Es; cbn [bind] in H.
  - pose proof (step_inv _ _ _ _ Es Hi) as Hi1.
    destruct (IH _ _ _ Hi1 H) as [R [s2 [R1 R2]]].
    split; [cbn [length]; lia|].
    exists s2.
    replace (Z.to_nat (m - n)) with (S (Z.to_nat (m - (n + 1)))) by lia.
    cbn [firstn nth run]. rewrite Es. cbn [bind]. auto.
  - pose proof (step_err_line _ _ _ _ Hi Es) as Ee. subst e. inversion H; subst m.
    split; [cbn [length]; lia|].
    exists s. replace (Z.to_nat (n - n)) with O by lia.
    cbn [firstn nth run]. auto.
Qed.

Theorem parse_file_error_line : forall ls n,
  parse_file ls = Err (ParsingError n) ->
  1 <= n <= Z.of_nat (length ls) /\
  exists s, run st0 1 (firstn (Z.to_nat (n - 1)) ls) = Ok s /\
            step s n (nth (Z.to_nat (n - 1)) ls []) = Err (ParsingError n).
Proof.
  intros ls n H. unfold parse_file in H.
  destruct (run st0 1 ls) as [s|e] eqn:Er; cbn [bind] in H; [discriminate|].
  inversion H; subst e.
  destruct (run_error_line _ _ _ _ Inv_st0 Er) as [R X].
  split; [lia|exact X].
Qed.

(* ------------------------------------------------------------------ *)
(* C09: records = sig lines (stated for the intended scanner)          *)
(* ------------------------------------------------------------------ *)

(* [scan'] is [Spec.C09.scan] with [classify'] in place of [classify]; nothing else changes. *)
Fixpoint scan' (sec : option (kind * option dir)) (lab : option label) (n : Z) (lines : list text) : list found :=
  match lines with
  | [] => []
  | raw :: rest =>
    match classify' raw with
    | LSkip => scan' sec lab (n + 1) rest
    | LSection line =>
        match parse_section line with
        | Ok s => scan' (Some s) lab (n + 1) rest
        | Err _ => scan' sec lab (n + 1) rest
        end
    | LParam name value =>
        if text_eqb name (str "sig") then
          match sec, lab with
          | Some s, Some l => {| f_line := n; f_sec := s; f_label := l; f_raw := value |} :: scan' sec lab (n + 1) rest
          | _, _ => scan' sec lab (n + 1) rest
          end
        else if text_eqb name (str "label") then
          match sec with
          | Some s => match parse_label (fst s) value with
                      | Ok l => scan' sec (Some l) (n + 1) rest
                      | Err _ => scan' sec lab (n + 1) rest
                      end
          | None => scan' sec lab (n + 1) rest
          end
        else if text_eqb name (str "sys") then
          match lab with
          | Some l => scan' sec (Some (set_sys l (split_on 44 value))) (n + 1) rest
          | None => scan' sec lab (n + 1) rest
          end
        else scan' sec lab (n + 1) rest
    end
  end.
Definition spec_records' (lines : list text) : list found := scan' None None 1 lines.
Definition is_sig_c (c : lclass) : bool :=
  match c with LParam n _ => text_eqb n (str "sig") | _ => false end.
Definition is_sig_line' (raw : text) : bool := is_sig_c (classify' raw).

(* one scanner step on a classified line *)
Definition scan_step (sec : option (kind * option dir)) (lab : option label) (n : Z) (c : lclass)
  : option (kind * option dir) * option label * option found :=
  match c with
  | LSkip => (sec, lab, None)
  | LSection line =>
      match parse_section line with
      | Ok s => (Some s, lab, None)
      | Err _ => (sec, lab, None)
      end
  | LParam name value =>
      if text_eqb name (str "sig") then
        match sec, lab with
        | Some s, Some l => (sec, lab, Some {| f_line := n; f_sec := s; f_label := l; f_raw := value |})
        | _, _ => (sec, lab, None)
        end
      else if text_eqb name (str "label") then
        match sec with
        | Some s => match parse_label (fst s) value with
                    | Ok l => (sec, Some l, None)
                    | Err _ => (sec, lab, None)
                    end
        | None => (sec, lab, None)
        end
      else if text_eqb name (str "sys") then
        match lab with
        | Some l => (sec, Some (set_sys l (split_on 44 value)), None)
        | None => (sec, lab, None)
        end
      else (sec, lab, None)
  end.

Lemma scan'_cons sec lab n raw rest :
  scan' sec lab n (raw :: rest) =
  let '(sec', lab', o) := scan_step sec lab n (classify' raw) in
  match o with Some f => [f] | None => [] end ++ scan' sec' lab' (n + 1) rest.
Proof.
  cbn [scan']. destruct (classify' raw) as [|line|name value]; cbn [scan_step].
  - reflexivity.
  - destruct (parse_section line); reflexivity.
  - destruct (text_eqb name (str "sig")).
    { destruct sec; [destruct lab|]; reflexivity. }
    destruct (text_eqb name (str "label")).
    { destruct sec; [destruct (parse_label _ _)|]; reflexivity. }
    destruct (text_eqb name (str "sys")).
    { destruct lab; reflexivity. }
    reflexivity.
Qed.

Definition step_eff (s s1 : st) (c : lclass) (o : option found) : Prop :=
  match o with
  | None => is_sig_c c = false /\ p_db s1 = p_db s
  | Some f =>
      is_sig_c c = true /\ In (f_sec f) canonical_sections /\ section_of (p_db s) (f_sec f) <> None /\
      exists sg, parse_sig (fst (f_sec f)) (f_raw f) = Ok sg /\
        p_db s1 = on_section (fun l => push l {| rc_line := f_line f; rc_label := f_label f;
                                                  rc_raw := f_raw f; rc_sig := sg |}) (f_sec f) (p_db s)
  end.

(* a successful parser step does what the scanner does, except for [ensure] on a section line *)
Lemma step_c_scan s n c s1 : step_c s n c = Ok s1 -> Inv s ->
  exists o, scan_step (p_sec s) (p_label s) n c = (p_sec s1, p_label s1, o) /\
    ((exists line sec, c = LSection line /\ In sec canonical_sections /\ o = None /\
                       p_db s1 = on_section ensure sec (p_db s)) \/
     step_eff s s1 c o).
Proof.
  intros H [I1 I2]. destruct c as [|line|name value]; cbn [step_c] in H; cbn [scan_step].
  - inversion H; subst. exists None. split; [reflexivity|]. right. split; reflexivity.
  - inv_bind H as sec Esec. apply wrap_ok in Esec. inversion H; subst; clear H.
    rewrite Esec. cbn [p_state p_label p_sec p_db].
    exists None. split; [reflexivity|]. left. exists line, sec.
    split; [reflexivity|]. split; [eapply parse_section_canonical; eauto|]. split; reflexivity.
  - destruct (text_eqb name (str "sig")) eqn:Esig.
    { destruct (p_state s) eqn:Est; try discriminate H.
      destruct (p_sec s) as [sec|] eqn:Esec; [|discriminate H].
      destruct (p_label s) as [lab|] eqn:Elab; [|discriminate H].
      inv_bind H as sg Esg. apply wrap_ok in Esg. inversion H; subst; clear H.
      cbn [p_state p_label p_sec p_db].
      eexists. split; [reflexivity|]. right.
      destruct (I2 _ eq_refl) as [C N].
      unfold step_eff. cbn [is_sig_c f_line f_sec f_label f_raw p_db].
      split; [exact Esig|]. split; [exact C|]. split; [exact N|].
      exists sg. split; [exact Esg|reflexivity]. }
    destruct (text_eqb name (str "label")) eqn:Elabel.
    { assert (G : forall sec, p_sec s = Some sec ->
                (do lab <- wrap n (parse_label (fst sec) value);
                 Ok {| p_db := p_db s; p_state := if is_user_app lab then NeedSys else NeedSig;
                       p_label := Some lab; p_sec := p_sec s |}) = Ok s1 ->
                exists o, match parse_label (fst sec) value with
                          | Ok l => (Some sec, Some l, None)
                          | Err _ => (Some sec, p_label s, None)
                          end = (p_sec s1, p_label s1, o) /\
                  ((exists line sec, LParam name value = LSection line /\ In sec canonical_sections /\ o = None /\
                       p_db s1 = on_section ensure sec (p_db s)) \/
                   step_eff s s1 (LParam name value) o)).
      { intros sec Esec H'. inv_bind H' as lab El. apply wrap_ok in El. inversion H'; subst; clear H'.
        rewrite El. cbn [p_state p_label p_sec p_db]. rewrite Esec.
        exists None. split; [reflexivity|]. right. split; [exact Esig|reflexivity]. }
      destruct (p_state s); try discriminate H;
        (destruct (p_sec s) as [sec|] eqn:Esec; [|discriminate H]); exact (G _ eq_refl H). }
    destruct (text_eqb name (str "sys")) eqn:Esys.
    { destruct (p_state s); try discriminate H.
      destruct (p_label s) as [[|g c nm f y]|]; try discriminate H.
      inversion H; subst; clear H. cbn [p_state p_label p_sec p_db set_sys].
      exists None. split; [reflexivity|]. right. split; [exact Esig|reflexivity]. }
    destruct (existsb _ _); [|discriminate H].
    inversion H; subst. exists None. split; [reflexivity|]. right. split; [exact Esig|reflexivity].
Qed.

Lemma run_records ls : forall s n s', run s n ls = Ok s' -> Inv s ->
  (forall sec, In sec canonical_sections ->
     exists R, recs_of (section_of (p_db s') sec) = recs_of (section_of (p_db s) sec) ++ R /\
               Forall2 Corresponds R (in_section sec (scan' (p_sec s) (p_label s) n ls))) /\
  db_len (p_db s') = db_len (p_db s) + Z.of_nat (length (scan' (p_sec s) (p_label s) n ls)) /\
  length (scan' (p_sec s) (p_label s) n ls) = length (filter is_sig_line' ls).
Proof.
  induction ls as [|a r IH]; intros s n s' H Hi.
  - cbn [run] in H. inversion H; subst. cbn [scan' filter length in_section].
    split; [|split; [lia|reflexivity]].
    intros sec _. exists []. rewrite app_nil_r. split; [reflexivity|constructor].
  - cbn [run] in H. destruct (step s n a) as [s1|e] eqn:Es; cbn [bind] in H; [|discriminate H].
    pose proof (step_inv _ _ _ _ Es Hi) as Hi1.
    rewrite step_classify in Es.
    destruct (step_c_scan _ _ _ _ Es Hi) as [o [Hs Hd]].
    rewrite scan'_cons, Hs. cbv beta iota.
    destruct (IH _ _ _ H Hi1) as [IHa [IHb IHc]].
    cbn [filter]. change (is_sig_line' a) with (is_sig_c (classify' a)).
    destruct Hd as [(line & sec0 & Hc & Hcan & -> & Hdb) | Heff].
    + rewrite Hc. cbn [is_sig_c app].
      split; [|split].
      * intros sec Hsec. destruct (IHa sec Hsec) as [R [R1 R2]]. exists R.
        rewrite R1, Hdb, recs_of_ensure by assumption. split; [reflexivity|exact R2].
      * rewrite IHb, Hdb, db_len_ensure. reflexivity.
      * exact IHc.
    + destruct o as [f|]; unfold step_eff in Heff.
      * destruct Heff as (Hsig & Hcan & Hne & sg & Hsg & Hdb).
        rewrite Hsig. cbn [app length].
        split; [|split].
        -- intros sec Hsec. destruct (IHa sec Hsec) as [R [R1 R2]].
           unfold in_section in *. cbn [filter].
           exists ((if sec_eqb (f_sec f) sec
                    then [{| rc_line := f_line f; rc_label := f_label f; rc_raw := f_raw f; rc_sig := sg |}]
                    else []) ++ R).
           rewrite R1, Hdb, recs_of_push by assumption. rewrite app_assoc.
           split; [reflexivity|].
           destruct (sec_eqb (f_sec f) sec); cbn [app]; [|exact R2].
           constructor; [|exact R2].
           unfold Corresponds. cbn [rc_line rc_label rc_raw rc_sig]. auto.
        -- rewrite IHb, Hdb, db_len_push by assumption. lia.
        -- f_equal. exact IHc.
      * destruct Heff as [Hsig Hdb]. rewrite Hsig. cbn [app].
        split; [|split].
        -- intros sec Hsec. destruct (IHa sec Hsec) as [R [R1 R2]]. exists R.
           rewrite R1, Hdb. split; [reflexivity|exact R2].
        -- rewrite IHb, Hdb. reflexivity.
        -- exact IHc.
Qed.

(* The goal [parse_file_records] is false as stated (see NOTES.md); this is the same statement for
   the intended scanner, i.e. with [classify'] in place of [classify]. *)
Theorem parse_file_records_variant : forall ls d, parse_file ls = Ok d ->
  (forall sec, In sec canonical_sections ->
     Forall2 Corresponds (recs_of (section_of d sec)) (in_section sec (spec_records' ls))) /\
  db_len d = Z.of_nat (length (spec_records' ls)) /\
  length (spec_records' ls) = length (filter is_sig_line' ls).
Proof.
  intros ls d H. unfold parse_file in H.
  destruct (run st0 1 ls) as [s|e] eqn:Er; cbn [bind] in H; [|discriminate H].
  inversion H; subst d; clear H.
  destruct (run_records _ _ _ _ Er Inv_st0) as [A [B C]].
  cbn [st0 p_sec p_label p_db] in A, B, C. fold (spec_records' ls) in A, B, C.
  split; [|split].
  - intros sec Hsec. destruct (A sec Hsec) as [R [R1 R2]].
    rewrite R1. replace (recs_of (section_of empty_db sec)) with (@nil rec); [exact R2|].
    destruct sec as [[] [[]|]]; reflexivity.
  - rewrite B. reflexivity.
  - exact C.
Qed.

Lemma classify'_eq raw : classify' raw = classify raw.
Proof. reflexivity. Qed.
Lemma scan'_eq ls : forall sec lab n, scan' sec lab n ls = scan sec lab n ls.
Proof. reflexivity. Qed.
Theorem parse_file_records : forall ls d, parse_file ls = Ok d ->
  (forall sec, In sec canonical_sections ->
     Forall2 Corresponds (recs_of (section_of d sec)) (in_section sec (spec_records ls))) /\
  db_len d = Z.of_nat (length (spec_records ls)) /\
  length (spec_records ls) = length (filter is_sig_line ls).
Proof. exact parse_file_records_variant. Qed.
Print Assumptions parse_file_records.
Print Assumptions step_skip.
Print Assumptions parse_file_outcome.
Print Assumptions parse_file_error_line.
Print Assumptions parse_tcp_sig_wf.
Print Assumptions parse_mtu_sig_wf.
Print Assumptions parse_http_sig_wf.
Print Assumptions parse_file_records_variant.

(* ---- text-mode reading glue ---- *)
Definition nl_free (l : text) : Prop := ~ In 10 l /\ ~ In 13 l.

Lemma univ_nl_app_free : forall l r, nl_free l -> univ_nl (l ++ 10 :: r) = l ++ 10 :: univ_nl r.
Proof.
  induction l as [|c l IH]; intros r [H10 H13].
  - reflexivity.
  - cbn [app univ_nl]. destruct (c =? 13) eqn:E.
    + exfalso. apply H13. left. lia.
    + f_equal. apply IH. split; intro HI; [apply H10 | apply H13]; right; exact HI.
Qed.

Lemma split_nl_app_free : forall l cur r, ~ In 10 l ->
  split_nl cur (l ++ 10 :: r) = (rev cur ++ l) :: split_nl [] r.
Proof.
  induction l as [|c l IH]; intros cur r H10.
  - cbn [app split_nl]. rewrite Z.eqb_refl, app_nil_r. reflexivity.
  - cbn [app split_nl]. destruct (c =? 10) eqn:E.
    + exfalso. apply H10. left. lia.
    + rewrite IH by (intro HI; apply H10; right; exact HI).
      cbn [rev]. rewrite <- app_assoc. reflexivity.
Qed.

(* a file written as its lines each followed by "\n" reads back as exactly those lines *)
Theorem file_lines_join : forall ls, Forall nl_free ls ->
  file_lines (concat (map (fun l => l ++ [10]) ls)) = ls.
Proof.
  unfold file_lines. induction 1 as [|l ls Hl _ IH].
  - reflexivity.
  - cbn [map concat]. rewrite <- app_assoc. cbn [app].
    rewrite univ_nl_app_free by exact Hl.
    rewrite split_nl_app_free by exact (proj1 Hl).
    cbn [rev app]. f_equal. exact IH.
Qed.

(* ... and "\r\n" / "\r" terminators read as line ends too *)
Lemma univ_nl_crlf : forall l r, nl_free l -> univ_nl (l ++ 13 :: 10 :: r) = l ++ 10 :: univ_nl r.
Proof.
  induction l as [|c l IH]; intros r [H10 H13].
  - reflexivity.
  - cbn [app univ_nl]. destruct (c =? 13) eqn:E.
    + exfalso. apply H13. left. lia.
    + f_equal. apply IH. split; intro HI; [apply H10 | apply H13]; right; exact HI.
Qed.

Theorem parse_text_records : forall t d, parse_text t = Ok d ->
  (forall sec, In sec canonical_sections ->
     Forall2 Corresponds (recs_of (section_of d sec)) (in_section sec (spec_records (file_lines t)))) /\
  db_len d = Z.of_nat (length (spec_records (file_lines t))) /\
  length (spec_records (file_lines t)) = length (filter is_sig_line (file_lines t)).
Proof. intros t d H. exact (parse_file_records (file_lines t) d H). Qed.
Print Assumptions file_lines_join.
Print Assumptions parse_text_records.
