(* Proofs about tcp_match and win_multi (properties C01, C17). *)
From Coq Require Import Lia.
From PV Require Import Model.Prelude Model.Bits Model.Sig Model.Matcher Proofs.BitsP Spec.C01.

(* ---------- quirk masks as sets ---------- *)
Lemma has_sq_of s p k : has k (sq_of s p) <-> eff_has s p k.
Proof.
  unfold has, eff_has, sq_of, other_family.
  destruct (s_ver s =? -1).
  - destruct (p_ver p =? 4); rewrite N.ldiff_spec, testbit_mask_of, andb_true_iff, negb_true_iff;
      rewrite <- not_true_iff_false, existsb_eqb_In; reflexivity.
  - unfold has. cbn [In]. tauto.
Qed.

Lemma fuzzy_masks sq pq :
  (N.ldiff (N.land (N.lxor sq pq) sq) (mask_of [qDF; qNZID]) = 0%N /\
   N.ldiff (N.land (N.lxor sq pq) pq) (mask_of [qZID; qECN]) = 0%N) <->
  ((forall k, has k sq -> ~ has k pq -> In k [qDF; qNZID]) /\
   (forall k, has k pq -> ~ has k sq -> In k [qZID; qECN])).
Proof.
  unfold has. rewrite !eq0_bits. split.
  - intros [H1 H2]; split; intros k Ha Hb; apply not_true_is_false in Hb.
    + specialize (H1 k). rewrite N.ldiff_spec, N.land_spec, N.lxor_spec, testbit_mask_of, Ha, Hb in H1.
      cbn [xorb andb] in H1. apply negb_false_iff in H1. apply existsb_eqb_In in H1. exact H1.
    + specialize (H2 k). rewrite N.ldiff_spec, N.land_spec, N.lxor_spec, testbit_mask_of, Ha, Hb in H2.
      cbn [xorb andb] in H2. apply negb_false_iff in H2. apply existsb_eqb_In in H2. exact H2.
  - intros [H1 H2]; split; intro k; rewrite N.ldiff_spec, N.land_spec, N.lxor_spec, testbit_mask_of.
    + destruct (N.testbit sq k) eqn:Hs, (N.testbit pq k) eqn:Hp; cbn [xorb andb]; try reflexivity.
      apply negb_false_iff. apply existsb_eqb_In. apply H1; [exact Hs | rewrite Hp; discriminate].
    + destruct (N.testbit sq k) eqn:Hs, (N.testbit pq k) eqn:Hp; cbn [xorb andb]; try reflexivity.
      apply negb_false_iff. apply existsb_eqb_In. apply H2; [exact Hp | rewrite Hs; discriminate].
Qed.

Lemma N_eq_bits a b : a = b <-> forall k, has k a <-> has k b.
Proof.
  split; [intros -> k; tauto|]. intros H. apply N.bits_inj. intro k. unfold has in H.
  specialize (H k). destruct (N.testbit a k), (N.testbit b k); try reflexivity; exfalso;
    [assert (false = true) by (apply H; reflexivity) | assert (false = true) by (apply H; reflexivity)];
    discriminate.
Qed.

Lemma sq_eq_iff s p : sq_of s p = p_quirks p <-> QuirksEqual s p.
Proof.
  unfold QuirksEqual. rewrite N_eq_bits. split; intros H k; specialize (H k);
    rewrite has_sq_of in *; exact H.
Qed.

(* ---------- boolean components and the normal form of tcp_match ---------- *)
Definition layout_b s p := list_eqb (s_layout s) (p_layout p).
Definition ver_b s p := (s_ver s =? -1) || (s_ver s =? p_ver p).
Definition quirks_b s p :=
  let sq := sq_of s p in let pq := p_quirks p in
  N.eqb sq pq ||
  (N.eqb (N.ldiff (N.land (N.lxor sq pq) sq) (mask_of [qDF; qNZID])) 0
   && N.eqb (N.ldiff (N.land (N.lxor sq pq) pq) (mask_of [qZID; qECN])) 0).
Definition fixed_b s p := (s_eol_pad s =? p_eol_pad p) && (s_olen s =? p_olen p).
Definition ttl_b s p := negb (s_bad_ttl s && (s_ttl s <? p_ttl p)).
Definition wild_b s p :=
  ((s_mss s =? -1) || (s_mss s =? p_mss p)) &&
  ((s_wscale s =? -1) || (s_wscale s =? p_ws p)) &&
  ((s_pay s =? -1) || (s_pay s =? b2z (p_payload p))).
Definition win_b s p :=
  match s_wtype s with
  | WNormal => s_wsize s =? p_win p
  | WAny => true
  | WMod => p_win p mod s_wsize s =? 0
  | WMss => negb (snd (win_multi p)) && (s_wsize s =? fst (win_multi p))
  | WMtu => snd (win_multi p) && (s_wsize s =? fst (win_multi p))
  end.
Definition type_of md s p : mtype :=
  if negb (s_bad_ttl s) && ((s_ttl s <? p_ttl p) || (s_ttl s - p_ttl p >? md)) then FuzzyTTL
  else if N.eqb (sq_of s p) (p_quirks p) then Exact else FuzzyQuirks.
Definition all_b s p :=
  layout_b s p && ver_b s p && quirks_b s p && fixed_b s p && ttl_b s p && wild_b s p && win_b s p.

Ltac fin s p :=
  cbv zeta;
  destruct (s_wtype s); cbn [negb andb orb];
  try destruct (snd (win_multi p)); cbn [negb andb orb];
  try destruct (s_wsize s =? fst (win_multi p)); cbn [negb andb orb];
  try destruct (s_wsize s =? p_win p); cbn [negb andb orb];
  try destruct (p_win p mod s_wsize s =? 0); cbn [negb andb orb];
  reflexivity.
Ltac tail s p md :=
  destruct (s_eol_pad s =? p_eol_pad p); cbn [negb andb orb]; [|reflexivity];
  destruct (s_olen s =? p_olen p); cbn [negb andb orb]; [|reflexivity];
  destruct (s_bad_ttl s); cbn [negb andb orb];
  [ destruct (s_ttl s <? p_ttl p); cbn [negb andb orb]; [reflexivity|]
  | destruct ((s_ttl s <? p_ttl p) || (s_ttl s - p_ttl p >? md)); cbn [negb andb orb] ];
  destruct (s_mss s =? -1), (s_mss s =? p_mss p), (s_wscale s =? -1), (s_wscale s =? p_ws p),
    (s_pay s =? -1), (s_pay s =? b2z (p_payload p)); cbn [negb andb orb]; try reflexivity;
  fin s p.

Lemma tcp_match_nf md s p :
  tcp_match md s p = if all_b s p then Some (type_of md s p) else None.
Proof.
  unfold tcp_match, all_b, layout_b, ver_b, quirks_b, fixed_b, ttl_b, wild_b, win_b, type_of.
  destruct (list_eqb (s_layout s) (p_layout p)); cbn [negb andb]; [|reflexivity].
  destruct (s_ver s =? -1) eqn:Hv1; cbn [negb andb orb];
    [|destruct (s_ver s =? p_ver p) eqn:Hv2; cbn [negb andb orb]; [|reflexivity]].
  all: destruct (N.eqb (sq_of s p) (p_quirks p)) eqn:Hq; cbn [negb andb orb].
  all: try (tail s p md).
  all: destruct (N.eqb (N.ldiff (N.land (N.lxor (sq_of s p) (p_quirks p)) (sq_of s p)) (mask_of [qDF; qNZID])) 0);
      cbn [negb andb orb]; [|reflexivity].
  all: destruct (N.eqb (N.ldiff (N.land (N.lxor (sq_of s p) (p_quirks p)) (p_quirks p)) (mask_of [qZID; qECN])) 0);
      cbn [negb andb orb]; [|reflexivity].
  all: tail s p md.
Qed.

(* ---------- reflection of each component ---------- *)
Lemma quirks_b_spec s p : quirks_b s p = true <-> QuirksCompatible s p.
Proof.
  unfold quirks_b, QuirksCompatible.
  rewrite orb_true_iff, andb_true_iff, !N.eqb_eq, (fuzzy_masks (sq_of s p) (p_quirks p)).
  cbn [In]. split.
  - intros [H | [H1 H2]].
    + split; intros k Ha Hb; exfalso; apply Hb.
      * rewrite <- H. apply has_sq_of. exact Ha.
      * apply has_sq_of. rewrite H. exact Ha.
    + split; intros k Ha Hb.
      * destruct (H1 k) as [E|[E|[]]]; [apply has_sq_of; exact Ha | exact Hb | left; auto | right; auto].
      * destruct (H2 k) as [E|[E|[]]]; [exact Ha | rewrite has_sq_of; exact Hb | left; auto | right; auto].
  - intros [H1 H2]. right. split; intros k Ha Hb.
    + rewrite has_sq_of in Ha. destruct (H1 k Ha Hb) as [E|E]; auto.
    + rewrite has_sq_of in Hb. destruct (H2 k Ha Hb) as [E|E]; auto.
Qed.

Lemma win_b_spec s p : wf_sig s -> (win_b s p = true <-> WindowFits s p).
Proof.
  intros (_&_&_&_&_&_&_&W). unfold win_b, WindowFits. destruct (s_wtype s).
  - apply Z.eqb_eq.
  - tauto.
  - rewrite Z.eqb_eq. apply Z.mod_divide. lia.
  - destruct (win_multi p) as [v m]; cbn [fst snd]. rewrite andb_true_iff, negb_true_iff, Z.eqb_eq.
    split; [intros [-> ->]; reflexivity | intros H; inversion H; auto].
  - destruct (win_multi p) as [v m]; cbn [fst snd]. rewrite andb_true_iff, Z.eqb_eq.
    split; [intros [-> ->]; reflexivity | intros H; inversion H; auto].
Qed.

Lemma ttl_b_spec s p : ttl_b s p = true <-> TtlAdmits s p.
Proof.
  unfold ttl_b, TtlAdmits. destruct (s_bad_ttl s); cbn [andb negb].
  - rewrite negb_true_iff, Z.ltb_ge. tauto.
  - split; [intros _ H; discriminate | reflexivity].
Qed.

Lemma wild_b_spec s p : wild_b s p = true <->
  (s_mss s = -1 \/ s_mss s = p_mss p) /\ (s_wscale s = -1 \/ s_wscale s = p_ws p) /\
  (s_pay s = -1 \/ s_pay s = b2z (p_payload p)).
Proof. unfold wild_b. rewrite !andb_true_iff, !orb_true_iff, !Z.eqb_eq. tauto. Qed.

Lemma fixed_b_spec s p : fixed_b s p = true <-> s_eol_pad s = p_eol_pad p /\ s_olen s = p_olen p.
Proof. unfold fixed_b. rewrite andb_true_iff, !Z.eqb_eq. tauto. Qed.

Lemma ver_b_spec s p : ver_b s p = true <-> VersionOK s p.
Proof. unfold ver_b, VersionOK. rewrite orb_true_iff, !Z.eqb_eq. tauto. Qed.

Lemma all_b_spec s p : wf_sig s -> (all_b s p = true <-> Matches s p).
Proof.
  intros W. unfold all_b, Matches.
  rewrite !andb_true_iff. unfold layout_b.
  rewrite list_eqb_eq, ver_b_spec, quirks_b_spec, fixed_b_spec, ttl_b_spec, wild_b_spec, (win_b_spec s p W).
  tauto.
Qed.

(* ---------- the C01 theorems ---------- *)
Theorem tcp_match_iff md s p : wf_sig s -> (tcp_match md s p <> None <-> Matches s p).
Proof.
  intros W. rewrite tcp_match_nf, <- (all_b_spec s p W).
  destruct (all_b s p); split; congruence.
Qed.

Definition ttl_within_b md s p :=
  negb (negb (s_bad_ttl s) && ((s_ttl s <? p_ttl p) || (s_ttl s - p_ttl p >? md))).
Lemma ttl_within_b_spec md s p : ttl_within_b md s p = true <-> TtlWithin md s p.
Proof.
  unfold ttl_within_b, TtlWithin. destruct (s_bad_ttl s); cbn [negb andb].
  - split; auto.
  - rewrite negb_true_iff, orb_false_iff, Z.ltb_ge, Z.gtb_ltb, Z.ltb_ge.
    split; [intros [? ?]; right; lia | intros [H|H]; [discriminate | lia]].
Qed.
Lemma type_of_alt md s p :
  type_of md s p = if ttl_within_b md s p
                   then (if N.eqb (sq_of s p) (p_quirks p) then Exact else FuzzyQuirks)
                   else FuzzyTTL.
Proof.
  unfold type_of, ttl_within_b.
  destruct (negb (s_bad_ttl s) && ((s_ttl s <? p_ttl p) || (s_ttl s - p_ttl p >? md))); reflexivity.
Qed.

Theorem tcp_match_type md s p t : tcp_match md s p = Some t ->
  (t = Exact <-> (QuirksEqual s p /\ TtlWithin md s p)) /\
  (t = FuzzyTTL <-> ~ TtlWithin md s p) /\
  (t = FuzzyQuirks <-> TtlWithin md s p /\ ~ QuirksEqual s p).
Proof.
  rewrite tcp_match_nf. destruct (all_b s p); [|discriminate].
  intros H; inversion H; subst t; clear H. rewrite type_of_alt.
  rewrite <- sq_eq_iff, <- ttl_within_b_spec, <- N.eqb_eq.
  destruct (ttl_within_b md s p), (N.eqb (sq_of s p) (p_quirks p));
    repeat split; try discriminate; try reflexivity; intros; intuition discriminate.
Qed.

(* 'ttl-' signatures: never match a larger packet TTL, and are never FuzzyTTL. *)
Theorem tcp_match_bad_ttl md s p : s_bad_ttl s = true ->
  (p_ttl p > s_ttl s -> tcp_match md s p = None) /\ tcp_match md s p <> Some FuzzyTTL.
Proof.
  intros Hb. rewrite tcp_match_nf. split.
  - intros Hgt. unfold all_b, ttl_b. rewrite Hb.
    replace (s_ttl s <? p_ttl p) with true by (symmetry; apply Z.ltb_lt; lia).
    cbn [andb negb]. rewrite !andb_false_r. reflexivity.
  - destruct (all_b s p); [|discriminate]. unfold type_of. rewrite Hb. cbn [negb andb].
    destruct (N.eqb (sq_of s p) (p_quirks p)); discriminate.
Qed.

(* ---------- C17 ---------- *)
Definition Divides (p : pkt_sig) (d : Z) : Prop := d <> 0 /\ (d | p_win p).

Lemma divides_win_spec p d : divides_win p d = true <-> Divides p (fst d).
Proof.
  unfold divides_win, Divides. rewrite andb_true_iff, negb_true_iff, Z.eqb_neq, Z.eqb_eq.
  split; intros [H1 H2]; split; auto; apply Z.mod_divide; auto.
Qed.

Lemma divides_win_false p d : divides_win p d = false <-> ~ Divides p (fst d).
Proof. rewrite <- divides_win_spec. destruct (divides_win p d); split; congruence. Qed.

Theorem win_multi_first p d m pre post :
  p_win p <> 0 -> 100 <= p_mss p ->
  divisors p = pre ++ (d, m) :: post -> Divides p d ->
  (forall e, In e pre -> ~ Divides p (fst e)) ->
  win_multi p = (p_win p / d, m).
Proof.
  intros Hw Hm Hdiv Hd Hpre. unfold win_multi.
  replace (p_win p =? 0) with false by (symmetry; apply Z.eqb_neq; exact Hw).
  replace (p_mss p <? 100) with false by (symmetry; apply Z.ltb_ge; exact Hm).
  cbn [orb].
  assert (find (divides_win p) (divisors p) = Some (d, m)) as ->; [|reflexivity].
  apply find_first. exists pre, post. split; [exact Hdiv|]. split.
  - apply divides_win_spec. exact Hd.
  - intros y Hy. apply divides_win_false. apply Hpre. exact Hy.
Qed.

Theorem win_multi_first_inv p v m :
  p_win p <> 0 -> 100 <= p_mss p -> win_multi p = (v, m) ->
  (exists d pre post, divisors p = pre ++ (d, m) :: post /\ Divides p d /\ v = p_win p / d /\
     forall e, In e pre -> ~ Divides p (fst e))
  \/ ((v, m) = (-1, false) /\ forall e, In e (divisors p) -> ~ Divides p (fst e)).
Proof.
  intros Hw Hm. unfold win_multi.
  replace (p_win p =? 0) with false by (symmetry; apply Z.eqb_neq; exact Hw).
  replace (p_mss p <? 100) with false by (symmetry; apply Z.ltb_ge; exact Hm).
  cbn [orb]. destruct (find (divides_win p) (divisors p)) as [[d m']|] eqn:F.
  - intros H; inversion H; subst. left. apply find_first in F.
    destruct F as (pre & post & E & Fx & Hpre). exists d, pre, post. repeat split; auto.
    + apply (divides_win_spec p (d, m)) in Fx. apply Fx.
    + apply (divides_win_spec p (d, m)) in Fx. apply Fx.
    + intros e He. apply divides_win_false. apply Hpre. exact He.
  - intros H; inversion H; subst. right. split; [reflexivity|].
    intros e He. apply divides_win_false. revert e He. apply find_none_iff. exact F.
Qed.

Theorem win_multi_none p :
  (p_win p = 0 \/ p_mss p < 100 \/ forall e, In e (divisors p) -> ~ Divides p (fst e)) ->
  win_multi p = (-1, false).
Proof.
  unfold win_multi. intros [H|[H|H]].
  - rewrite H. reflexivity.
  - replace (p_mss p <? 100) with true by (symmetry; apply Z.ltb_lt; exact H).
    rewrite orb_true_r. reflexivity.
  - destruct ((p_win p =? 0) || (p_mss p <? 100)); [reflexivity|].
    assert (find (divides_win p) (divisors p) = None) as ->; [|reflexivity].
    apply find_none_iff. intros y Hy. apply divides_win_false. apply H. exact Hy.
Qed.

(* The divisor list is the documented sequence. *)
Definition documented_divisors (v6 ts peer : bool) (mss hdr syn : Z) : list (Z * bool) :=
  [(mss, false)] ++ (if ts then [(mss - 12, false)] else [])
  ++ [(1460, false); (1448, false)] ++ (if v6 then [(1440, false); (1428, false)] else [])
  ++ [(mss + 40, true); (mss + hdr, true)] ++ (if v6 then [(mss + 60, true)] else [])
  ++ [(1500, true)] ++ (if peer then [(syn, false); (syn - 12, false)] else []).

Theorem divisors_documented p :
  divisors p = documented_divisors (p_ver p =? 6) (negb (p_ts1 p =? 0)) (negb (p_syn_mss p =? 0))
                 (p_mss p) (p_hdrlen p) (p_syn_mss p).
Proof.
  unfold divisors, documented_divisors.
  destruct (p_ver p =? 6), (p_ts1 p =? 0), (p_syn_mss p =? 0); reflexivity.
Qed.

Theorem no_multiplier_no_match md s p :
  wf_sig s -> win_multi p = (-1, false) -> s_wtype s = WMss \/ s_wtype s = WMtu ->
  tcp_match md s p = None.
Proof.
  intros (_&_&_&_&_&_&_&W) Hn Ht. rewrite tcp_match_nf.
  assert (win_b s p = false) as Hb.
  { unfold win_b. rewrite Hn. cbn [fst snd]. destruct Ht as [Ht|Ht]; rewrite Ht in *; cbn [negb andb].
    - apply Z.eqb_neq. lia.
    - reflexivity. }
  unfold all_b. rewrite Hb, andb_false_r. reflexivity.
Qed.

(* ---------- packaging for Properties/C01.v ---------- *)
Definition has_sq_of_stmt s p : Prop := forall k, has k (sq_of s p) <-> eff_has s p k.
Lemma bits_are_sets s p : has_sq_of_stmt s p /\ (quirks_b s p = true <-> QuirksCompatible s p).
Proof. split; [intro k; apply has_sq_of | apply quirks_b_spec]. Qed.

Definition ex_pkt := {| p_ver := 4; p_olen := 0; p_ttl := 60; p_win := 29200;
  p_layout := [2; 4; 8; 1; 3]; p_mss := 1460; p_ws := 7; p_ts1 := 12345; p_eol_pad := 0;
  p_hdrlen := 60; p_payload := false; p_quirks := mask_of [qDF; qNZID]; p_syn_mss := 0 |}.
Definition ex_sig (ver ttl : Z) (bad : bool) (q : list N) := {| s_ver := ver; s_olen := 0;
  s_ttl := ttl; s_bad_ttl := bad; s_wtype := WMss; s_wsize := 20; s_wscale := 7;
  s_layout := [2; 4; 8; 1; 3]; s_mss := -1; s_eol_pad := 0; s_pay := 0; s_quirks := mask_of q |}.
Definition C01_examples_stmt : Prop :=
  wf_sig (ex_sig (-1) 64 false [qDF; qNZID]) /\
  tcp_match 35 (ex_sig (-1) 64 false [qDF; qNZID]) ex_pkt = Some Exact /\
  tcp_match 35 (ex_sig 4 64 false [qDF; qNZID; qFLOW]) ex_pkt = None /\
  tcp_match 35 (ex_sig (-1) 64 false [qDF; qNZID; qFLOW]) ex_pkt = Some Exact /\
  tcp_match 35 (ex_sig 6 64 false [qDF; qNZID]) ex_pkt = None /\
  tcp_match 35 (ex_sig 4 64 false [qDF]) ex_pkt = None /\
  tcp_match 35 (ex_sig 4 64 false [qDF; qNZID; qECN]) ex_pkt = None /\
  tcp_match 3 (ex_sig 4 64 false [qDF; qNZID]) ex_pkt = Some FuzzyTTL /\
  tcp_match 3 (ex_sig 4 64 true [qDF; qNZID]) ex_pkt = Some Exact /\
  tcp_match 35 (ex_sig 4 59 true [qDF; qNZID]) ex_pkt = None /\
  tcp_match 35 (ex_sig 4 59 false [qDF; qNZID]) ex_pkt = Some FuzzyTTL.
Lemma C01_examples_proof : C01_examples_stmt.
Proof. unfold C01_examples_stmt, wf_sig. cbn. repeat split; try lia; auto; vm_compute; reflexivity. Qed.
