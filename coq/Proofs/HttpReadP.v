(* HTTP reader (C07 and the HTTP half of C04): theorems about Model/HttpRead.v. *)
From Coq Require Import Lia String.
From PV Require Import Model.Prelude Model.Text Model.HttpRead Spec.C07.

(* ------------------------------------------------------------------ *)
(* generic tactics                                                      *)

(* destruct every variable scrutinised by a [match] in the goal *)
Ltac dmatch_goal :=
  repeat match goal with
         | |- context [match ?x with _ => _ end] => is_var x; destruct x
         end.

(* ------------------------------------------------------------------ *)
(* minor_version                                                        *)

Definition ver (m : Z) : text := [72; 84; 84; 80; 47; 49; 46; 48 + m].

Lemma minor_version_inv : forall v m,
  minor_version v = Ok m -> exists d, v = [72; 84; 84; 80; 47; 49; 46; d] /\ is_digit d = true /\ m = d - 48.
Proof.
  intros v m. unfold minor_version.
  dmatch_goal; try discriminate.
  match goal with |- context [is_digit ?d] => destruct (is_digit d) eqn:E end; try discriminate.
  intros H. injection H as <-. eexists. repeat split. exact E.
Qed.

Lemma minor_version_lit : forall d,
  minor_version [72; 84; 84; 80; 47; 49; 46; d] = if is_digit d then Ok (d - 48) else Err PacketError.
Proof. reflexivity. Qed.

Theorem minor_version_spec : forall v m,
  minor_version v = Ok m <-> (0 <= m <= 9 /\ v = [72; 84; 84; 80; 47; 49; 46; 48 + m]).
Proof.
  intros v m. split.
  - intros H. apply minor_version_inv in H. destruct H as (d & -> & Hd & ->).
    unfold is_digit in Hd. apply andb_prop in Hd. destruct Hd as [H1 H2].
    apply Z.leb_le in H1. apply Z.leb_le in H2.
    split. lia. repeat f_equal. lia.
  - intros [Hm ->]. rewrite minor_version_lit.
    assert (E : is_digit (48 + m) = true).
    { unfold is_digit. apply andb_true_intro. split; apply Z.leb_le; lia. }
    rewrite E. f_equal. lia.
Qed.

Theorem minor_version_err : forall v e, minor_version v = Err e -> e = PacketError.
Proof.
  intros v e. unfold minor_version.
  dmatch_goal; try (intros H; injection H as <-; reflexivity).
  match goal with |- context [is_digit ?d] => destruct (is_digit d) end; try discriminate.
  intros H; injection H as <-; reflexivity.
Qed.


(* ------------------------------------------------------------------ *)
(* read_first_line: error shape                                         *)

Lemma bind_minor_err : forall (d : direction) v e,
  (do m <- minor_version v; Ok (d, m)) = Err e -> e = PacketError.
Proof.
  intros d v e. destruct (minor_version v) eqn:E; cbn [bind]; intros H; try discriminate.
  injection H as <-. eapply minor_version_err; eauto.
Qed.

Theorem first_line_errors : forall line e, read_first_line line = Err e -> e = PacketError.
Proof.
  intros line e. unfold read_first_line.
  destruct (split_ws2 line) as [|p0 rest].
  - intros H; injection H as <-; reflexivity.
  - destruct (text_eqb p0 (str "GET") || text_eqb p0 (str "HEAD")).
    + destruct rest as [|a [|v [|b r]]]; try (intros H; injection H as <-; reflexivity).
      apply bind_minor_err.
    + apply bind_minor_err.
Qed.

(* ------------------------------------------------------------------ *)
(* read_headers: error cases                                            *)

Lemma partition_nomem : forall sep l, mem sep l = false -> partition_on sep l = (l, false, []).
Proof.
  intros sep l. induction l as [|c l IH]; intros H; [reflexivity|].
  cbn [mem existsb] in H. apply orb_false_elim in H. destruct H as [H1 H2].
  cbn [partition_on]. rewrite Z.eqb_sym, H1. unfold mem in IH. rewrite (IH H2). reflexivity.
Qed.

Theorem read_headers_no_colon : forall l rest acc c r,
  l = c :: r -> c <> 32 -> c <> 9 -> mem 58 l = false -> read_headers (l :: rest) acc = Err PacketError.
Proof.
  intros l rest acc c r -> H32 H9 Hm.
  cbn [read_headers].
  apply Z.eqb_neq in H32. apply Z.eqb_neq in H9. rewrite H32, H9. cbn [orb].
  rewrite (partition_nomem _ _ Hm). reflexivity.
Qed.

Theorem read_headers_empty_name : forall l rest acc r,
  l = 58 :: r -> read_headers (l :: rest) acc = Err PacketError.
Proof. intros l rest acc r ->. reflexivity. Qed.

Theorem read_headers_orphan_continuation : forall l rest c r,
  l = c :: r -> (c = 32 \/ c = 9) -> read_headers (l :: rest) [] = Err PacketError.
Proof. intros l rest c r -> [-> | ->]; reflexivity. Qed.

Theorem read_headers_errors : forall ls acc e,
  Forall (fun l => l <> []) ls -> read_headers ls acc = Err e -> e = PacketError.
Proof.
  intros ls. induction ls as [|l ls IH]; intros acc e HF.
  - cbn [read_headers]. discriminate.
  - inversion HF as [|? ? Hl HF']; subst.
    destruct l as [|c r]; [congruence|].
    cbn [read_headers].
    destruct ((c =? 32) || (c =? 9)).
    + destruct acc as [|h acc'].
      * intros H; injection H as <-; reflexivity.
      * apply IH; assumption.
    + destruct (partition_on 58 (c :: r)) as [[name found] value].
      destruct found; cbn [negb].
      * destruct name as [|n0 name'].
        -- intros H; injection H as <-; reflexivity.
        -- apply IH; assumption.
      * intros H; injection H as <-; reflexivity.
Qed.

(* ------------------------------------------------------------------ *)
(* extract_lines: shape lemmas                                          *)

Lemma is_blank_line_inv : forall p, is_blank_line p = true -> p = [] \/ p = [13].
Proof.
  intros p. unfold is_blank_line.
  destruct p as [|c [|d q]]; auto; dmatch_goal; auto; discriminate.
Qed.

Lemma strip_cr_eq : forall p,
  strip_cr p = match rev p with c :: r => if c =? 13 then rev r else p | [] => p end.
Proof.
  intros p. unfold strip_cr. destruct (rev p) as [|c r]; [reflexivity|].
  destruct (Z.eqb_spec c 13) as [->|Hn]; [reflexivity|].
  dmatch_goal; try reflexivity. congruence.
Qed.

Lemma strip_cr_nonempty : forall p, is_blank_line p = false -> strip_cr p <> [].
Proof.
  intros p Hb. rewrite strip_cr_eq.
  destruct (rev p) as [|c r] eqn:E.
  - intros ->. discriminate.
  - destruct (Z.eqb_spec c 13) as [->|Hn].
    + destruct r as [|d r'].
      * apply (f_equal (@rev Z)) in E. rewrite rev_involutive in E. subst p. discriminate.
      * cbn [rev]. intros H. apply app_eq_nil in H. destruct H; discriminate.
    + intros ->. discriminate.
Qed.

Lemma tub_nonempty : forall pieces ls,
  take_until_blank pieces = Some ls -> Forall (fun l => l <> []) ls.
Proof.
  intros pieces. induction pieces as [|p rest IH]; intros ls.
  - cbn. discriminate.
  - destruct rest as [|q rest'].
    + cbn. discriminate.
    + change (take_until_blank (p :: q :: rest')) with
        (if is_blank_line p then Some [] else
           match take_until_blank (q :: rest') with Some l => Some (strip_cr p :: l) | None => None end).
      destruct (is_blank_line p) eqn:Eb.
      * intros H; injection H as <-. constructor.
      * destruct (take_until_blank (q :: rest')) as [l|]; [|discriminate].
        intros H; injection H as <-. constructor.
        -- apply strip_cr_nonempty; assumption.
        -- apply IH. reflexivity.
Qed.

Theorem extract_lines_nonempty : forall data ls, extract_lines data = Some ls -> Forall (fun l => l <> []) ls.
Proof.
  intros data ls. unfold extract_lines.
  destruct (split_on 10 data) as [|p0 [|q rest]]; try discriminate.
  destruct (is_blank_line p0) eqn:Eb.
  - intros H; injection H as <-. constructor.
  - destruct (take_until_blank (q :: rest)) as [l|] eqn:Et; [|discriminate].
    intros H; injection H as <-. constructor.
    + apply strip_cr_nonempty; assumption.
    + eapply tub_nonempty; eauto.
Qed.

(* ------------------------------------------------------------------ *)
(* read_payload is total                                                *)

Theorem read_payload_total : forall data,
  (exists r, read_payload data = Ok r) \/ read_payload data = Err PacketError.
Proof.
  intros data. unfold read_payload.
  destruct (extract_lines data) as [[|first rest]|] eqn:E; auto.
  apply extract_lines_nonempty in E. inversion E as [|? ? _ HF]; subst.
  destruct (read_first_line first) as [dv|e] eqn:E1; cbn [bind].
  - destruct (read_headers rest []) as [hs|e] eqn:E2; cbn [bind].
    + left. eexists. reflexivity.
    + right. f_equal. eapply read_headers_errors; eauto.
  - right. f_equal. eapply first_line_errors; eauto.
Qed.

(* ------------------------------------------------------------------ *)
(* whitespace splitting                                                 *)

Definition hd_ok (t : text) : Prop := match t with [] => True | c :: _ => is_space_bytes c = false end.
Definition sp_start (t : text) : Prop := t = [] \/ exists c r, t = c :: r /\ is_space_bytes c = true.

Lemma blank_is_space : forall c, c = 32 \/ c = 9 -> is_space_bytes c = true.
Proof. intros c [-> | ->]; reflexivity. Qed.

Lemma lstrip_hd_ok : forall t, hd_ok t -> lstrip_by is_space_bytes t = t.
Proof. intros [|c r] H; [reflexivity|]. cbn [lstrip_by]. cbn [hd_ok] in H. rewrite H. reflexivity. Qed.

Lemma lstrip_blanks : forall pre t, blanks pre -> lstrip_by is_space_bytes (pre ++ t) = lstrip_by is_space_bytes t.
Proof.
  intros pre t H. induction H as [|c pre Hc Hpre IH]; [reflexivity|].
  cbn [app lstrip_by]. rewrite (blank_is_space _ Hc). exact IH.
Qed.

Lemma hd_ok_app : forall a b, a <> [] -> hd_ok a -> hd_ok (a ++ b).
Proof. intros [|c a] b Hn H; [congruence|exact H]. Qed.

Lemma no_ws_hd_ok : forall w, no_ws w -> hd_ok w.
Proof. intros w H. destruct H; [exact I|assumption]. Qed.

Lemma take_word_app : forall w rest, no_ws w -> sp_start rest -> take_word (w ++ rest) = (w, rest).
Proof.
  intros w rest Hw Hr. induction Hw as [|a w Ha Hw IH].
  - cbn [app]. destruct Hr as [-> | (c & r & -> & Hc)]; [reflexivity|].
    cbn [take_word]. rewrite Hc. reflexivity.
  - cbn [app take_word]. rewrite Ha, IH. reflexivity.
Qed.

Lemma split_ws2_head : forall t w1 r1,
  lstrip_by is_space_bytes t <> [] -> take_word (lstrip_by is_space_bytes t) = (w1, r1) ->
  exists tl, split_ws2 t = w1 :: tl.
Proof.
  intros t w1 r1 Hn Ht. unfold split_ws2.
  destruct (lstrip_by is_space_bytes t) as [|c0 t0]; [congruence|].
  rewrite Ht.
  destruct (lstrip_by is_space_bytes r1) as [|c1 t1]; [eexists; reflexivity|].
  destruct (take_word (c1 :: t1)) as [w2 r2].
  destruct (lstrip_by is_space_bytes r2); eexists; reflexivity.
Qed.

Lemma split_ws2_3 : forall t w1 r1 w2 r2 t2,
  lstrip_by is_space_bytes t <> [] -> take_word (lstrip_by is_space_bytes t) = (w1, r1) ->
  lstrip_by is_space_bytes r1 <> [] -> take_word (lstrip_by is_space_bytes r1) = (w2, r2) ->
  lstrip_by is_space_bytes r2 = t2 -> t2 <> [] ->
  split_ws2 t = [w1; w2; t2].
Proof.
  intros t w1 r1 w2 r2 t2 Hn Ht Hn1 Ht1 Ht2 Hn2. unfold split_ws2.
  destruct (lstrip_by is_space_bytes t) as [|c0 t0]; [congruence|].
  rewrite Ht.
  destruct (lstrip_by is_space_bytes r1) as [|c1 t1]; [congruence|].
  rewrite Ht1. rewrite Ht2.
  destruct t2; [congruence|reflexivity].
Qed.

Lemma sp_start_32 : forall t, sp_start (32 :: t).
Proof. intros t. right. exists 32, t. split; reflexivity. Qed.

Lemma no_ws_ver : forall m, 0 <= m <= 9 -> no_ws (ver m).
Proof.
  intros m Hm. unfold ver, no_ws.
  repeat (constructor; [reflexivity|]).
  constructor; [|constructor].
  unfold is_space_bytes.
  destruct (Z.leb_spec 9 (48 + m)), (Z.leb_spec (48 + m) 13), (Z.eqb_spec (48 + m) 32);
    try reflexivity; lia.
Qed.

Lemma minor_version_ver : forall m, 0 <= m <= 9 -> minor_version (ver m) = Ok m.
Proof. intros m Hm. apply minor_version_spec. split; [assumption|reflexivity]. Qed.

Lemma text_eqb_eq : forall a b, text_eqb a b = true -> a = b.
Proof.
  intros a. induction a as [|x a IH]; intros [|y b] H; try discriminate; [reflexivity|].
  cbn [text_eqb] in H. apply andb_prop in H. destruct H as [H1 H2].
  apply Z.eqb_eq in H1. subst. f_equal. apply IH; assumption.
Qed.

Lemma split_ws2_word_head : forall w rest, w <> [] -> no_ws w -> sp_start rest ->
  exists tl, split_ws2 (w ++ rest) = w :: tl.
Proof.
  intros w rest Hn Hw Hr.
  assert (E : lstrip_by is_space_bytes (w ++ rest) = w ++ rest).
  { apply lstrip_hd_ok. apply hd_ok_app; [assumption|]. apply no_ws_hd_ok; assumption. }
  apply split_ws2_head with (r1 := rest).
  - rewrite E. destruct w; [congruence|discriminate].
  - rewrite E. apply take_word_app; assumption.
Qed.

Lemma first_line_request_gen : forall meth uri minor,
  meth <> [] -> no_ws meth -> text_eqb meth (str "GET") || text_eqb meth (str "HEAD") = true ->
  uri <> [] -> no_ws uri -> 0 <= minor <= 9 ->
  read_first_line (request_line meth uri minor) = Ok (Request, minor).
Proof.
  intros meth uri minor Hmn Hmw Hm Hun Huw Hminor.
  unfold read_first_line, request_line. fold (ver minor).
  assert (Hv : no_ws (ver minor)) by (apply no_ws_ver; assumption).
  assert (Hvn : ver minor <> []) by (unfold ver; discriminate).
  rewrite (split_ws2_3 _ meth ([32] ++ uri ++ [32] ++ ver minor) uri ([32] ++ ver minor) (ver minor)).
  - rewrite Hm. rewrite (minor_version_ver _ Hminor). reflexivity.
  - rewrite lstrip_hd_ok.
    + destruct meth; [congruence|discriminate].
    + apply hd_ok_app; [assumption|]. apply no_ws_hd_ok; assumption.
  - rewrite lstrip_hd_ok.
    + apply take_word_app; [assumption|apply sp_start_32].
    + apply hd_ok_app; [assumption|]. apply no_ws_hd_ok; assumption.
  - cbn [app lstrip_by]. change (is_space_bytes 32) with true. cbn iota.
    rewrite lstrip_hd_ok.
    + destruct uri; [congruence|discriminate].
    + apply (hd_ok_app uri (32 :: ver minor)); [assumption|]. apply no_ws_hd_ok; assumption.
  - cbn [app lstrip_by]. change (is_space_bytes 32) with true. cbn iota.
    rewrite lstrip_hd_ok.
    + apply (take_word_app uri (32 :: ver minor)); [assumption|apply sp_start_32].
    + apply (hd_ok_app uri (32 :: ver minor)); [assumption|]. apply no_ws_hd_ok; assumption.
  - cbn [app lstrip_by]. change (is_space_bytes 32) with true. cbn iota.
    apply lstrip_hd_ok. apply no_ws_hd_ok; assumption.
  - assumption.
Qed.

Lemma no_ws_GET : no_ws (str "GET").
Proof. vm_compute. repeat constructor. Qed.
Lemma no_ws_HEAD : no_ws (str "HEAD").
Proof. vm_compute. repeat constructor. Qed.

Theorem first_line_request : forall meth uri minor,
  (meth = str "GET" \/ meth = str "HEAD") -> uri <> [] -> no_ws uri -> 0 <= minor <= 9 ->
  read_first_line (request_line meth uri minor) = Ok (Request, minor).
Proof.
  intros meth uri minor Hm Hun Huw Hminor.
  apply first_line_request_gen; try assumption.
  - destruct Hm as [-> | ->]; vm_compute; discriminate.
  - destruct Hm as [-> | ->]; [apply no_ws_GET|apply no_ws_HEAD].
  - destruct Hm as [-> | ->]; vm_compute; reflexivity.
Qed.

Theorem first_line_status : forall minor rest,
  0 <= minor <= 9 -> (rest = [] \/ exists c r, rest = c :: r /\ is_space_bytes c = true) ->
  read_first_line (status_line minor rest) = Ok (Response, minor).
Proof.
  intros minor rest Hminor Hrest.
  unfold read_first_line, status_line. fold (ver minor).
  destruct (split_ws2_word_head (ver minor) rest) as [tl ->].
  - unfold ver; discriminate.
  - apply no_ws_ver; assumption.
  - exact Hrest.
  - assert (E : text_eqb (ver minor) (str "GET") || text_eqb (ver minor) (str "HEAD") = false)
      by (vm_compute; reflexivity).
    rewrite E. rewrite (minor_version_ver _ Hminor). reflexivity.
Qed.

Theorem first_line_other_method : forall meth uri minor,
  meth <> [] -> no_ws meth -> meth <> str "GET" -> meth <> str "HEAD" ->
  (forall m, minor_version meth <> Ok m) ->
  read_first_line (request_line meth uri minor) = Err PacketError.
Proof.
  intros meth uri minor Hn Hw HG HH Hmv.
  unfold read_first_line, request_line.
  destruct (split_ws2_word_head meth ([32] ++ uri ++ [32] ++ [72; 84; 84; 80; 47; 49; 46; 48 + minor]))
    as [tl ->]; try assumption.
  - apply sp_start_32.
  - destruct (text_eqb meth (str "GET")) eqn:EG; [apply text_eqb_eq in EG; congruence|].
    destruct (text_eqb meth (str "HEAD")) eqn:EH; [apply text_eqb_eq in EH; congruence|].
    cbn [orb].
    destruct (minor_version meth) as [m|e] eqn:E.
    + exfalso. eapply Hmv; eauto.
    + cbn [bind]. f_equal. eapply minor_version_err; eauto.
Qed.

(* ------------------------------------------------------------------ *)
(* extract_lines on a rendered head                                     *)

Lemma split_on_nonnil : forall sep t, split_on sep t <> [].
Proof.
  intros sep t. destruct t as [|c r]; cbn [split_on]; [discriminate|].
  destruct (c =? sep); [discriminate|]. destruct (split_on sep r); discriminate.
Qed.

Lemma split_on_app : forall sep l rest, mem sep l = false ->
  split_on sep (l ++ sep :: rest) = l :: split_on sep rest.
Proof.
  intros sep l rest. induction l as [|c l IH]; intros H.
  - cbn [app split_on]. rewrite Z.eqb_refl. reflexivity.
  - cbn [mem existsb] in H. apply orb_false_elim in H. destruct H as [H1 H2].
    cbn [app split_on]. rewrite Z.eqb_sym, H1. rewrite (IH H2). reflexivity.
Qed.

Lemma mem_app : forall c a b, mem c (a ++ b) = mem c a || mem c b.
Proof. intros. unfold mem. apply existsb_app. Qed.

Lemma split_on_crlf : forall l X, mem 10 l = false ->
  split_on 10 (l ++ [13; 10] ++ X) = (l ++ [13]) :: split_on 10 X.
Proof.
  intros l X Hm. change (l ++ [13; 10] ++ X) with (l ++ [13] ++ 10 :: X).
  rewrite app_assoc. apply split_on_app. rewrite mem_app, Hm. reflexivity.
Qed.

Lemma split_on_lf : forall l X, mem 10 l = false ->
  split_on 10 (l ++ [10] ++ X) = l :: split_on 10 X.
Proof. intros l X Hm. apply (split_on_app 10 l X Hm). Qed.

Definition piece (lb : text * bool) : text := if snd lb then fst lb ++ [13] else fst lb.

Lemma split_render : forall ls tl,
  Forall (fun lb : text * bool => good_line (fst lb)) ls ->
  split_on 10 (render_lines ls ++ tl) = map piece ls ++ split_on 10 tl.
Proof.
  intros ls tl H. induction H as [|[l b] ls Hl Hls IH]; [reflexivity|].
  destruct Hl as (Hm & _ & _). cbn [fst] in Hm.
  unfold render_lines in *. cbn [flat_map map fst snd]. unfold piece at 1. cbn [fst snd].
  rewrite <- !app_assoc.
  destruct b; cbn [eol]; unfold CRLF, LF.
  - rewrite split_on_crlf by assumption. rewrite IH. reflexivity.
  - rewrite split_on_lf by assumption. rewrite IH. reflexivity.
Qed.

Lemma piece_not_blank : forall lb, good_line (fst lb) -> is_blank_line (piece lb) = false.
Proof.
  intros [l b] (Hm & Hn & Hr). cbn [fst] in *. unfold piece. cbn [fst snd].
  destruct (is_blank_line (if b then l ++ [13] else l)) eqn:E; [|reflexivity].
  exfalso. apply is_blank_line_inv in E. destruct b.
  - destruct E as [E|E].
    + apply app_eq_nil in E. destruct E; discriminate.
    + change [13] with ([] ++ [13]) in E. apply app_inj_tail in E. destruct E; congruence.
  - destruct E as [E|E]; [congruence|]. apply (Hr []). exact E.
Qed.

Lemma strip_cr_piece : forall lb, good_line (fst lb) -> strip_cr (piece lb) = fst lb.
Proof.
  intros [l b] (Hm & Hn & Hr). cbn [fst] in *. unfold piece. cbn [fst snd].
  rewrite strip_cr_eq. destruct b.
  - rewrite rev_unit. rewrite Z.eqb_refl. apply rev_involutive.
  - destruct (rev l) as [|c r] eqn:E; [reflexivity|].
    destruct (Z.eqb_spec c 13) as [->|Hc]; [|reflexivity].
    exfalso. apply (Hr (rev r)).
    apply (f_equal (@rev Z)) in E. rewrite rev_involutive in E. rewrite E. reflexivity.
Qed.

Lemma tub_cons : forall p rest, rest <> [] ->
  take_until_blank (p :: rest) =
  if is_blank_line p then Some [] else
    match take_until_blank rest with Some l => Some (strip_cr p :: l) | None => None end.
Proof. intros p [|q r] H; [congruence|reflexivity]. Qed.

Lemma extract_cons : forall data p rest, split_on 10 data = p :: rest -> rest <> [] ->
  extract_lines data =
  if is_blank_line p then Some [] else
    match take_until_blank rest with Some l => Some (strip_cr p :: l) | None => None end.
Proof. intros data p [|q r] E H; [congruence|]. unfold extract_lines. rewrite E. reflexivity. Qed.

Lemma tub_rendered : forall ls bl after,
  Forall (fun lb : text * bool => good_line (fst lb)) ls ->
  is_blank_line bl = true -> after <> [] ->
  take_until_blank (map piece ls ++ bl :: after) = Some (map fst ls).
Proof.
  intros ls bl after H Hb Ha. induction H as [|lb ls Hl Hls IH].
  - cbn [map app]. rewrite tub_cons by assumption. rewrite Hb. reflexivity.
  - cbn [map app]. rewrite tub_cons.
    + rewrite (piece_not_blank _ Hl), IH, (strip_cr_piece _ Hl). reflexivity.
    + intros E. apply app_eq_nil in E. destruct E; discriminate.
Qed.

Lemma tub_unterminated : forall ls,
  Forall (fun lb : text * bool => good_line (fst lb)) ls ->
  take_until_blank (map piece ls ++ [[]]) = None.
Proof.
  intros ls H. induction H as [|lb ls Hl Hls IH]; [reflexivity|].
  cbn [map app]. rewrite tub_cons.
  - rewrite (piece_not_blank _ Hl), IH. reflexivity.
  - intros E. apply app_eq_nil in E. destruct E; discriminate.
Qed.

Lemma split_eol_body : forall bcrlf body, exists bl after,
  split_on 10 (eol bcrlf ++ body) = bl :: after /\ is_blank_line bl = true /\ after <> [].
Proof.
  intros bcrlf body. destruct bcrlf; cbn [eol]; unfold CRLF, LF.
  - exists [13], (split_on 10 body). split; [|split].
    + change ([13; 10] ++ body) with ([13] ++ 10 :: body). apply split_on_app. reflexivity.
    + reflexivity.
    + apply split_on_nonnil.
  - exists [], (split_on 10 body). split; [|split].
    + change ([10] ++ body) with ([] ++ 10 :: body). apply split_on_app. reflexivity.
    + reflexivity.
    + apply split_on_nonnil.
Qed.

Theorem extract_rendered : forall ls bcrlf body,
  ls <> [] -> Forall (fun lb => good_line (fst lb)) ls ->
  extract_lines (render_head ls bcrlf body) = Some (map fst ls).
Proof.
  intros ls bcrlf body Hn HF. unfold render_head.
  destruct (split_eol_body bcrlf body) as (bl & after & Es & Hb & Ha).
  destruct ls as [|lb ls]; [congruence|].
  inversion HF as [|? ? Hl HF']; subst.
  rewrite (extract_cons _ (piece lb) (map piece ls ++ bl :: after)).
  - rewrite (piece_not_blank _ Hl), (tub_rendered _ _ _ HF' Hb Ha), (strip_cr_piece _ Hl). reflexivity.
  - rewrite (split_render _ _ HF), Es. reflexivity.
  - intros E. apply app_eq_nil in E. destruct E; discriminate.
Qed.

Theorem extract_unterminated : forall ls,
  Forall (fun lb => good_line (fst lb)) ls -> extract_lines (render_lines ls) = None.
Proof.
  intros ls HF. destruct ls as [|lb ls]; [reflexivity|].
  inversion HF as [|? ? Hl HF']; subst.
  rewrite (extract_cons _ (piece lb) (map piece ls ++ [[]])).
  - rewrite (piece_not_blank _ Hl), (tub_unterminated _ HF'). reflexivity.
  - rewrite <- (app_nil_r (render_lines (lb :: ls))). rewrite (split_render _ _ HF). reflexivity.
  - intros E. apply app_eq_nil in E. destruct E; discriminate.
Qed.

(* ------------------------------------------------------------------ *)
(* read_headers on rendered fields                                      *)

Lemma hd_ok_cons_app : forall v post, v <> [] -> hd_ok v -> hd_ok (v ++ post).
Proof. exact hd_ok_app. Qed.

Lemma blanks_rev : forall t, blanks t -> blanks (rev t).
Proof. intros t H. unfold blanks in *. apply Forall_rev. assumption. Qed.

Lemma lstrip_all_blanks : forall t, blanks t -> lstrip_by is_space_bytes t = [].
Proof. intros t H. rewrite <- (app_nil_r t). rewrite lstrip_blanks by assumption. reflexivity. Qed.

Lemma bstrip_padded : forall pre v post, blanks pre -> blanks post -> trimmed v ->
  bstrip (pre ++ v ++ post) = v.
Proof.
  intros pre v post Hpre Hpost [Hv1 Hv2]. unfold bstrip, strip_by.
  rewrite lstrip_blanks by assumption.
  destruct v as [|c v'].
  - cbn [app]. rewrite (lstrip_all_blanks post) by assumption. reflexivity.
  - rewrite (lstrip_hd_ok ((c :: v') ++ post)) by exact Hv1.
    rewrite rev_app_distr. rewrite lstrip_blanks by (apply blanks_rev; assumption).
    rewrite lstrip_hd_ok by exact Hv2. apply rev_involutive.
Qed.

Lemma partition_app : forall sep name rest, mem sep name = false ->
  partition_on sep (name ++ sep :: rest) = (name, true, rest).
Proof.
  intros sep name rest. induction name as [|c name IH]; intros H.
  - cbn [app partition_on]. rewrite Z.eqb_refl. reflexivity.
  - cbn [mem existsb] in H. apply orb_false_elim in H. destruct H as [H1 H2].
    cbn [app partition_on]. rewrite Z.eqb_sym, H1. rewrite (IH H2). reflexivity.
Qed.

Lemma rh_cont : forall c r rest h acc, (c = 32 \/ c = 9) ->
  read_headers ((c :: r) :: rest) (h :: acc) =
  read_headers rest ({| ph_name := ph_name h; ph_value := ph_value h ++ [13; 10; 32] ++ bstrip (c :: r) |} :: acc).
Proof. intros c r rest h acc [-> | ->]; reflexivity. Qed.

Lemma rh_field : forall c r rest acc name value, c <> 32 -> c <> 9 ->
  partition_on 58 (c :: r) = (name, true, value) -> name <> [] ->
  read_headers ((c :: r) :: rest) acc = read_headers rest ({| ph_name := name; ph_value := bstrip value |} :: acc).
Proof.
  intros c r rest acc name value H32 H9 Hp Hn.
  cbn [read_headers].
  apply Z.eqb_neq in H32. apply Z.eqb_neq in H9. rewrite H32, H9. cbn [orb].
  rewrite Hp. cbn [negb]. destruct name; [congruence|reflexivity].
Qed.

Definition cont_line (c : text * text * text) : text := let '(lead, body, trail) := c in lead ++ body ++ trail.
Definition cont_step (v : text) (c : text * text * text) : text := let '(_, body, _) := c in v ++ [13; 10; 32] ++ body.
Definition cont_wf (c : text * text * text) : Prop :=
  let '(lead, body, trail) := c in lead <> [] /\ blanks lead /\ blanks trail /\ trimmed body.

Lemma rh_conts : forall conts name v acc rest, Forall cont_wf conts ->
  read_headers (map cont_line conts ++ rest) ({| ph_name := name; ph_value := v |} :: acc) =
  read_headers rest ({| ph_name := name; ph_value := fold_left cont_step conts v |} :: acc).
Proof.
  intros conts name v acc rest H. revert v.
  induction H as [|[[lead body] trail] conts Hc Hcs IH]; intros v; [reflexivity|].
  destruct Hc as (Hln & Hlb & Htb & Hbt).
  cbn [map app fold_left]. unfold cont_line at 1, cont_step at 2.
  assert (Hb : bstrip (lead ++ body ++ trail) = body) by (apply bstrip_padded; assumption).
  destruct lead as [|c lead']; [congruence|].
  inversion Hlb as [|? ? Hc Hlb']; subst.
  change ((c :: lead') ++ body ++ trail) with (c :: (lead' ++ body ++ trail)) in *.
  rewrite rh_cont by assumption. cbn [ph_name ph_value].
  rewrite Hb. apply IH.
Qed.

Lemma rh_fields : forall fs rest acc, Forall wf_field fs ->
  read_headers (flat_map field_lines fs ++ rest) acc = read_headers rest (rev (map expected_header fs) ++ acc).
Proof.
  intros fs rest acc H. revert acc.
  induction H as [|f fs Hf Hfs IH]; intros acc; [reflexivity|].
  destruct Hf as (Hnn & Hnm & Hnc & Hpre & Hpost & Hv & Hcont).
  cbn [flat_map map rev]. rewrite <- !app_assoc. cbn [app].
  unfold field_lines at 1. cbn [app].
  destruct (hf_name f) as [|c name'] eqn:En; [congruence|].
  destruct Hnc as [H32 H9]. cbn [app].
  rewrite (rh_field c _ _ acc (c :: name') (hf_pre f ++ hf_value f ++ hf_post f)); try assumption.
  - rewrite bstrip_padded by assumption.
    etransitivity; [exact (rh_conts (hf_cont f) _ _ _ _ Hcont)|].
    rewrite IH. rewrite <- En. reflexivity.
  - apply (partition_app 58 (c :: name')). assumption.
Qed.

Theorem read_headers_fields : forall fs,
  Forall wf_field fs -> read_headers (flat_map field_lines fs) [] = Ok (map expected_header fs).
Proof.
  intros fs H. rewrite <- (app_nil_r (flat_map field_lines fs)).
  rewrite rh_fields by assumption. cbn [read_headers]. rewrite app_nil_r, rev_involutive. reflexivity.
Qed.

(* ------------------------------------------------------------------ *)
(* round trip                                                           *)

Lemma map_fst_combine : forall (A B : Type) (l : list A) (m : list B),
  length m = length l -> map fst (combine l m) = l.
Proof.
  intros A B l. induction l as [|a l IH]; intros [|b m] H; try discriminate; [reflexivity|].
  cbn [combine map fst]. f_equal. apply IH. injection H as H. exact H.
Qed.

Lemma Forall_combine_fst : forall (A B : Type) (P : A -> Prop) (l : list A) (m : list B),
  Forall P l -> Forall (fun ab => P (fst ab)) (combine l m).
Proof.
  intros A B P l m H. revert m. induction H as [|a l Ha Hl IH]; intros [|b m]; cbn [combine]; constructor.
  - exact Ha.
  - apply IH.
Qed.

Theorem read_payload_roundtrip : forall first dirv fs eols bcrlf body,
  read_first_line first = Ok dirv ->
  Forall wf_field fs ->
  length eols = length (first :: flat_map field_lines fs) ->
  Forall good_line (first :: flat_map field_lines fs) ->
  read_payload (render_head (combine (first :: flat_map field_lines fs) eols) bcrlf body)
  = Ok (fst dirv, snd dirv, map expected_header fs).
Proof.
  intros first dirv fs eols bcrlf body Hfirst Hfs Hlen Hgood.
  unfold read_payload.
  rewrite extract_rendered.
  - rewrite map_fst_combine by exact Hlen.
    rewrite Hfirst. cbn [bind]. rewrite read_headers_fields by assumption. reflexivity.
  - destruct eols; [discriminate|]. cbn [combine]. discriminate.
  - apply (Forall_combine_fst _ _ good_line). exact Hgood.
Qed.

Print Assumptions minor_version_spec.
Print Assumptions minor_version_err.
Print Assumptions first_line_errors.
Print Assumptions read_headers_no_colon.
Print Assumptions read_headers_empty_name.
Print Assumptions read_headers_orphan_continuation.
Print Assumptions read_headers_errors.
Print Assumptions extract_lines_nonempty.
Print Assumptions read_payload_total.
Print Assumptions first_line_request.
Print Assumptions first_line_status.
Print Assumptions first_line_other_method.
Print Assumptions extract_rendered.
Print Assumptions extract_unterminated.
Print Assumptions read_headers_fields.
Print Assumptions read_payload_roundtrip.
