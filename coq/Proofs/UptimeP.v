From Coq Require Import Lia ZifyBool.
From PV Require Import Model.Prelude Model.Select Model.Uptime.
Ltac Zify.zify_post_hook ::= Z.to_euclidean_division_equations.

(* ---------- rounding, for every non-negative integer frequency ---------- *)
Definition bucket (f : Z) : Z :=
  if f <? 1 then 1 else if f <=? 10 then f else if f <=? 50 then (f + 3) / 5 * 5
  else if f <=? 100 then (f + 7) / 10 * 10 else if f <=? 500 then (f + 33) / 50 * 50 else (f + 67) / 100 * 100.

Lemma round_freq_bucket f : 0 <= f -> round_freq f = bucket f.
Proof.
  intros H. unfold round_freq, bucket.
  destruct (f =? 0) eqn:E0; [apply Z.eqb_eq in E0; subst; reflexivity | apply Z.eqb_neq in E0].
  destruct (f <? 1) eqn:E1; [apply Z.ltb_lt in E1; lia | apply Z.ltb_ge in E1].
  replace (1 <=? f) with true by (symmetry; apply Z.leb_le; lia). cbn [andb].
  destruct (f <=? 10) eqn:E2; [reflexivity | apply Z.leb_gt in E2].
  replace (11 <=? f) with true by (symmetry; apply Z.leb_le; lia). cbn [andb].
  destruct (f <=? 50) eqn:E3; [reflexivity | apply Z.leb_gt in E3].
  replace (51 <=? f) with true by (symmetry; apply Z.leb_le; lia). cbn [andb].
  destruct (f <=? 100) eqn:E4; [reflexivity | apply Z.leb_gt in E4].
  replace (101 <=? f) with true by (symmetry; apply Z.leb_le; lia). cbn [andb].
  reflexivity.
Qed.

Lemma bucket_pos f : 0 <= f -> 1 <= bucket f.
Proof.
  intros H. unfold bucket.
  destruct (f <? 1) eqn:E1; [lia | apply Z.ltb_ge in E1].
  destruct (f <=? 10) eqn:E2; [lia | apply Z.leb_gt in E2].
  destruct (f <=? 50) eqn:E3; [apply Z.leb_le in E3; lia | apply Z.leb_gt in E3].
  destruct (f <=? 100) eqn:E4; [apply Z.leb_le in E4; lia | apply Z.leb_gt in E4].
  destruct (f <=? 500) eqn:E5; [apply Z.leb_le in E5; lia | apply Z.leb_gt in E5]. lia.
Qed.

Theorem round_freq_pos f : 0 <= f -> 1 <= round_freq f.
Proof. intros H. rewrite round_freq_bucket by exact H. apply bucket_pos; exact H. Qed.

(* closed forms per bucket, used for monotonicity / idempotence *)
Lemma bucket_cases f : 0 <= f ->
  (f < 1 /\ bucket f = 1) \/ (1 <= f <= 10 /\ bucket f = f) \/
  (11 <= f <= 50 /\ bucket f = (f + 3) / 5 * 5) \/ (51 <= f <= 100 /\ bucket f = (f + 7) / 10 * 10) \/
  (101 <= f <= 500 /\ bucket f = (f + 33) / 50 * 50) \/ (501 <= f /\ bucket f = (f + 67) / 100 * 100).
Proof.
  intros H. unfold bucket.
  destruct (f <? 1) eqn:E1; [apply Z.ltb_lt in E1; left; lia | apply Z.ltb_ge in E1].
  destruct (f <=? 10) eqn:E2; [apply Z.leb_le in E2; right; left; lia | apply Z.leb_gt in E2].
  destruct (f <=? 50) eqn:E3; [apply Z.leb_le in E3; right; right; left; lia | apply Z.leb_gt in E3].
  destruct (f <=? 100) eqn:E4; [apply Z.leb_le in E4; right; right; right; left; lia | apply Z.leb_gt in E4].
  destruct (f <=? 500) eqn:E5; [apply Z.leb_le in E5; right; right; right; right; left; lia | apply Z.leb_gt in E5].
  right; right; right; right; right; lia.
Qed.

Theorem round_freq_mono a b : 0 <= a <= b -> round_freq a <= round_freq b.
Proof.
  intros H. rewrite !round_freq_bucket by lia.
  destruct (bucket_cases a) as [[? ->]|[[? ->]|[[? ->]|[[? ->]|[[? ->]|[? ->]]]]]]; [lia|..];
  destruct (bucket_cases b) as [[? ->]|[[? ->]|[[? ->]|[[? ->]|[[? ->]|[? ->]]]]]]; try lia.
Qed.

Theorem round_freq_idem f : 0 <= f -> round_freq (round_freq f) = round_freq f.
Proof.
  intros H. rewrite (round_freq_bucket f) by exact H.
  pose proof (bucket_pos f H) as P. rewrite round_freq_bucket by lia.
  destruct (bucket_cases f H) as [[? E]|[[? E]|[[? E]|[[? E]|[[? E]|[? E]]]]]]; rewrite E in *;
  match goal with |- bucket ?x = _ => destruct (bucket_cases x) as [[? ->]|[[? ->]|[[? ->]|[[? ->]|[[? ->]|[? ->]]]]]]; try lia end.
Qed.

(* the published table: multiples of 5 / 10 / 50 / 100 by bucket, nearest-ish rounding *)
Theorem round_freq_table f : 0 <= f ->
  (f = 0 -> round_freq f = 1) /\ (1 <= f <= 10 -> round_freq f = f) /\
  (11 <= f <= 50 -> round_freq f mod 5 = 0 /\ f - 2 <= round_freq f <= f + 3) /\
  (51 <= f <= 100 -> round_freq f mod 10 = 0 /\ f - 3 <= round_freq f <= f + 7) /\
  (101 <= f <= 500 -> round_freq f mod 50 = 0 /\ f - 17 <= round_freq f <= f + 33) /\
  (501 <= f -> round_freq f mod 100 = 0 /\ f - 33 <= round_freq f <= f + 67).
Proof.
  intros H. rewrite round_freq_bucket by exact H.
  destruct (bucket_cases f H) as [[? ->]|[[? ->]|[[? ->]|[[? ->]|[[? ->]|[? ->]]]]]]; repeat split; intros; try lia.
Qed.

(* ---------- 32-bit tick arithmetic ---------- *)
Theorem ticks_forward last d :
  0 <= last < two32 -> 0 <= d < two32 ->
  ticks_of ((last + d) mod two32) last = d.
Proof. unfold ticks_of, two32. intros. lia. Qed.

Theorem raw_forward d : 0 <= d < 2147483648 -> raw_num d = d * 1000.
Proof.
  intros H. unfold raw_num, two32. destruct (d >? 4294967296 - 1 - d) eqn:E; [|reflexivity].
  apply Z.gtb_lt in E. lia.
Qed.

Theorem ticks_backward last b :
  0 <= last < two32 -> 0 < b < two32 ->
  ticks_of ((last - b) mod two32) last = two32 - b.
Proof. unfold ticks_of, two32. intros. lia. Qed.

Theorem raw_backward b : 0 < b <= 2147483648 -> raw_num (two32 - b) = - ((b - 1) * 1000).
Proof.
  intros H. unfold raw_num, two32.
  destruct (4294967296 - b >? 4294967296 - 1 - (4294967296 - b)) eqn:E.
  - f_equal. lia.
  - rewrite Z.gtb_ltb in E. apply Z.ltb_ge in E. lia.
Qed.

(* ---------- the gate and the verdict ---------- *)
Definition Gate (o : uopts) (ts last ms : Z) : Prop :=
  ts <> 0 /\ last <> 0 /\ min_wait o <= ms <= max_wait o /\ 5 <= ticks_of ts last /\
  grace_case o ms (ticks_of ts last) = false.

Definition InScale (o : uopts) (num ms : Z) : Prop :=
  fst (min_sc o) * ms <= num * snd (min_sc o) /\ num * snd (max_sc o) <= fst (max_sc o) * ms.

Theorem uptime_gate o frag ty ts last ms :
  valid_uptime frag ty = true ->
  (Gate o ts last ms ->
     let num := raw_num (ticks_of ts last) in
     (InScale o num ms ->
        uptime o frag ty ts last ms =
        Ok (Up (round_freq (Z.quot num ms)) num ms (ts / round_freq (Z.quot num ms) / 60)
               (4294967295 / (round_freq (Z.quot num ms) * 86400)))) /\
     (~ InScale o num ms ->
        uptime o frag ty ts last ms = Ok (if ty =? fSYN then NoVerdict else BadTps))) /\
  (~ Gate o ts last ms -> uptime o frag ty ts last ms = Ok NoVerdict).
Proof.
  intros V. unfold uptime, Gate, InScale, le_q. rewrite V. cbn [negb fst snd].
  destruct (ts =? 0) eqn:E1; [apply Z.eqb_eq in E1|apply Z.eqb_neq in E1]; cbn [orb].
  { split; [intros (H&_); contradiction | reflexivity]. }
  destruct (last =? 0) eqn:E2; [apply Z.eqb_eq in E2|apply Z.eqb_neq in E2].
  { split; [intros (_&H&_); contradiction | reflexivity]. }
  destruct (min_wait o <=? ms) eqn:E3; [apply Z.leb_le in E3|apply Z.leb_gt in E3]; cbn [andb negb orb].
  2:{ split; [intros (_&_&H&_); lia | reflexivity]. }
  destruct (ms <=? max_wait o) eqn:E4; [apply Z.leb_le in E4|apply Z.leb_gt in E4]; cbn [andb negb orb].
  2:{ split; [intros (_&_&H&_); lia | reflexivity]. }
  destruct (ticks_of ts last <? 5) eqn:E5; [apply Z.ltb_lt in E5|apply Z.ltb_ge in E5]; cbn [orb].
  { split; [intros (_&_&_&H&_); lia | reflexivity]. }
  destruct (grace_case o ms (ticks_of ts last)) eqn:E6.
  { split; [intros (_&_&_&_&H); discriminate | reflexivity]. }
  split; [|intros H; exfalso; apply H; repeat split; auto].
  intros _. cbv zeta.
  destruct (fst (min_sc o) * ms <=? raw_num (ticks_of ts last) * snd (min_sc o)) eqn:E7;
    [apply Z.leb_le in E7|apply Z.leb_gt in E7]; cbn [andb negb].
  2:{ split; [intros [H _]; lia | reflexivity]. }
  destruct (raw_num (ticks_of ts last) * snd (max_sc o) <=? fst (max_sc o) * ms) eqn:E8;
    [apply Z.leb_le in E8|apply Z.leb_gt in E8]; cbn [negb].
  - split; [reflexivity | intros H; exfalso; apply H; split; assumption].
  - split; [intros [_ H]; lia | reflexivity].
Qed.

Theorem uptime_packet_gate o frag ty ts last ms : 0 <= ty < 32 ->
  (uptime o frag ty ts last ms <> Err PacketError <->
   frag = false /\ (ty = fSYN \/ ty = fSYN + fACK \/ ty = fACK)).
Proof.
  intros Hty. unfold uptime.
  assert (valid_uptime frag ty = true <-> frag = false /\ (ty = fSYN \/ ty = fSYN + fACK \/ ty = fACK)) as V.
  { unfold valid_uptime, should_fp. rewrite andb_true_iff, !orb_true_iff, !Z.eqb_eq. split.
    - intros [H1 H2]. split; [destruct frag; [discriminate|reflexivity] | tauto].
    - intros [-> H2]. split; [|tauto]. destruct H2 as [->|[->| ->]]; reflexivity. }
  destruct (valid_uptime frag ty) eqn:E; cbn [negb].
  - split; [intros _; apply V; reflexivity|]. intros _.
    destruct ((ts =? 0) || (last =? 0)); [discriminate|].
    match goal with |- (if ?c then _ else _) <> _ => destruct c; [discriminate|] end.
    cbv zeta. match goal with |- (if ?c then _ else _) <> _ => destruct c; discriminate end.
  - split; [congruence|]. intros H. apply V in H. discriminate.
Qed.

(* a verdict always has tps >= 1 when the thresholds are sane, so the divisions are defined *)
Theorem uptime_tps_pos o frag ty ts last ms tps num den mins days :
  0 < fst (min_sc o) -> 0 < snd (min_sc o) -> 0 < min_wait o ->
  uptime o frag ty ts last ms = Ok (Up tps num den mins days) ->
  1 <= tps /\ tps = round_freq (Z.quot num den) /\ mins = ts / tps / 60 /\ days = 4294967295 / (tps * 86400) /\ den = ms.
Proof.
  intros Hn Hd Hw. unfold uptime.
  destruct (negb (valid_uptime frag ty)); [discriminate|].
  destruct ((ts =? 0) || (last =? 0)); [discriminate|].
  destruct (min_wait o <=? ms) eqn:E3; [apply Z.leb_le in E3|]; cbn [andb negb orb]; [|discriminate].
  match goal with |- (if ?c then _ else _) = _ -> _ => destruct c; [discriminate|] end.
  cbv zeta. unfold le_q. cbn [fst snd].
  destruct (fst (min_sc o) * ms <=? raw_num (ticks_of ts last) * snd (min_sc o)) eqn:E7;
    [apply Z.leb_le in E7|]; cbn [andb negb].
  2:{ destruct (ty =? fSYN); discriminate. }
  match goal with |- (if ?c then _ else _) = _ -> _ => destruct c; [destruct (ty =? fSYN); discriminate|] end.
  intros H; inversion H; subst; clear H. repeat split; try reflexivity.
  apply round_freq_pos. apply Z.quot_pos; nia.
Qed.

(* packaging for Properties/C13.v *)
Lemma forward_pack last d : 0 <= last < two32 -> 0 <= d < 2147483648 ->
  ticks_of ((last + d) mod two32) last = d /\ raw_num d = d * 1000.
Proof. intros H1 H2. split; [apply ticks_forward; unfold two32 in *; lia | apply raw_forward; exact H2]. Qed.
Lemma backward_pack last b : 0 <= last < two32 -> 0 < b <= 2147483648 ->
  ticks_of ((last - b) mod two32) last = two32 - b /\ raw_num (two32 - b) = - ((b - 1) * 1000).
Proof. intros H1 H2. split; [apply ticks_backward; unfold two32 in *; lia | apply raw_backward; exact H2]. Qed.
Lemma round_pack a b : 0 <= a <= b ->
  1 <= round_freq a /\ round_freq a <= round_freq b /\ round_freq (round_freq a) = round_freq a.
Proof. intros H. split; [apply round_freq_pos; lia | split; [apply round_freq_mono; exact H | apply round_freq_idem; lia]]. Qed.
