(* Boolean equalities used by the in-Coq cross-check of the extracted code (harness: cases.v shards). *)
From PV Require Import Model.Prelude Model.Sig Model.Matcher Model.Uptime.

Definition mtype_eqb (a b : mtype) : bool :=
  match a, b with Exact, Exact | FuzzyTTL, FuzzyTTL | FuzzyQuirks, FuzzyQuirks => true | _, _ => false end.
Definition omt_eqb (a b : option mtype) : bool :=
  match a, b with None, None => true | Some x, Some y => mtype_eqb x y | _, _ => false end.
Definition wm_eqb (a b : Z * bool) : bool := (fst a =? fst b) && Bool.eqb (snd a) (snd b).
Definition check_match (c : Z * tcp_sig * pkt_sig * (option mtype * (Z * bool))) : bool :=
  let '(md, s, p, (m, w)) := c in omt_eqb (tcp_match md s p) m && wm_eqb (win_multi p) w.
Definition check_wm (c : pkt_sig * (Z * bool)) : bool := wm_eqb (win_multi (fst c)) (snd c).
