(* The dissectors of Model/Wire.v invert the header encoders of Spec/C03.v. *)
From Coq Require Import Lia.
From PV Require Import Model.Prelude Model.Bits Model.Sig Model.Select Model.Options Model.Wire Proofs.BitsP Spec.C03.

Ltac Zify.zify_post_hook ::= Z.to_euclidean_division_equations.

Lemma len_cons x l : len (x :: l) = 1 + len l.
Proof. unfold len. cbn [length]. lia. Qed.

Lemma len_app a b : len (a ++ b) = len a + len b.
Proof. unfold len. rewrite app_length. lia. Qed.

Lemma len_nonneg l : 0 <= len l.
Proof. unfold len. lia. Qed.

Lemma to_nat_len l : Z.to_nat (len l) = length l.
Proof. unfold len. apply Nat2Z.id. Qed.

Lemma skipn_len_app (a b : list Z) : skipn (Z.to_nat (len a)) (a ++ b) = b.
Proof.
  rewrite to_nat_len, skipn_app, skipn_all, Nat.sub_diag. reflexivity.
Qed.

Lemma firstn_len_app (a b : list Z) : firstn (Z.to_nat (len a)) (a ++ b) = a.
Proof.
  rewrite to_nat_len, firstn_app, firstn_all, Nat.sub_diag, firstn_O, app_nil_r. reflexivity.
Qed.

Lemma be16_b16 v : be16 (v / 256) (v mod 256) = v.
Proof. unfold be16. lia. Qed.

Lemma be32_b32 v : be32 (v / 16777216) ((v / 65536) mod 256) ((v / 256) mod 256) (v mod 256) = v.
Proof. unfold be32. lia. Qed.

(* ---------- IPv4 ---------- *)

Lemma ip4_flags e d m off : 0 <= off < 8192 ->
  let f1 := b2z e * 128 + b2z d * 64 + b2z m * 32 + off / 256 in
  ((f1 / 128) mod 2 =? 1) = e /\ ((f1 / 64) mod 2 =? 1) = d /\ ((f1 / 32) mod 2 =? 1) = m /\
  f1 mod 32 = off / 256.
Proof.
  intros Hoff f1. subst f1.
  assert (H : 0 <= off / 256 < 32) by lia. revert H. generalize (off / 256). intros x Hx.
  destruct e, d, m; cbn [b2z]; repeat split; try (apply Z.eqb_eq; lia); try (apply Z.eqb_neq; lia); lia.
Qed.

Lemma ip4_quirks_eq b1 b2 b3 b4 b5 k :
  hasq k (setq_if b5 qZID (setq_if b4 qNZID (setq_if b3 qDF (setq_if b2 qMBZ (setq_if b1 qECN 0%N))))) =
  if N.eqb k qECN then b1 else if N.eqb k qMBZ then b2 else if N.eqb k qDF then b3
  else if N.eqb k qNZID then b4 else if N.eqb k qZID then b5 else false.
Proof.
  rewrite !hasq_setq_if, hasq_0.
  destruct (N.eqb_spec k qECN) as [->|N1]; [cbv; destruct b1, b2, b3, b4, b5; reflexivity|].
  destruct (N.eqb_spec k qMBZ) as [->|N2]; [cbv; destruct b1, b2, b3, b4, b5; reflexivity|].
  destruct (N.eqb_spec k qDF) as [->|N3]; [cbv; destruct b1, b2, b3, b4, b5; reflexivity|].
  destruct (N.eqb_spec k qNZID) as [->|N4]; [cbv; destruct b1, b2, b3, b4, b5; reflexivity|].
  destruct (N.eqb_spec k qZID) as [->|N5]; [cbv; destruct b1, b2, b3, b4, b5; reflexivity|].
  destruct b1, b2, b3, b4, b5; reflexivity.
Qed.

Theorem ip4_enc : forall h payload, wf_ip4 h payload ->
  exists q,
  ip4 (enc_ip4 h payload) =
    Some {| i_ver := 4; i_ttl := h4_ttl h; i_olen := len (h4_opts h); i_hlen := 20 + len (h4_opts h);
            i_frag := h4_mf h || negb (h4_off h =? 0); i_fragoff := h4_off h; i_proto := h4_proto h; i_q := q;
            i_src := quad (h4_src h); i_dst := quad (h4_dst h); i_id := h4_id h; i_tos := h4_tos h;
            i_payload := payload |}
  /\ forall k, hasq k q = ip4_quirk h k.
Proof.
  intros h payload WF.
  destruct h as [tos id evil df mf off ttl proto c1 c2 [[[s1 s2] s3] s4] [[[d1 d2] d3] d4] opts].
  unfold wf_ip4, byte in WF.
  cbn [h4_tos h4_id h4_evil h4_df h4_mf h4_off h4_ttl h4_proto h4_c1 h4_c2 h4_src h4_dst h4_opts] in *.
  destruct WF as (Htos & Hid & Hoff & Httl & Hproto & Hc1 & Hc2 & Hsrc & Hdst & Hopts & Hmod & Hle & Htot).
  unfold enc_ip4, ip4_quirk.
  cbn [h4_tos h4_id h4_evil h4_df h4_mf h4_off h4_ttl h4_proto h4_c1 h4_c2 h4_src h4_dst h4_opts quad app].
  pose proof (len_nonneg opts) as HL0. pose proof (len_nonneg payload) as HP0.
  set (L := len opts) in *. set (P := len payload) in *.
  set (b0 := 4 * 16 + (5 + L / 4)).
  set (f1 := b2z evil * 128 + b2z df * 64 + b2z mf * 32 + off / 256).
  unfold ip4.
  rewrite !len_cons, !len_app. fold L P.
  assert (E1 : b0 / 16 = 4) by (subst b0; lia).
  assert (E2 : b0 mod 16 = 5 + L / 4) by (subst b0; lia).
  rewrite E1, E2.
  assert (E3 : (5 + L / 4) * 4 - 20 = L) by lia.
  assert (E3' : (5 + L / 4) * 4 = 20 + L) by lia.
  rewrite E3, E3'.
  rewrite be16_b16.
  match goal with |- context [if ?c then None else _] => replace c with false end.
  2:{ symmetry. rewrite !orb_false_iff, !negb_false_iff. repeat split.
      - apply Z.ltb_ge. lia.
      - apply Z.eqb_eq. lia.
      - rewrite Z.gtb_ltb. apply Z.ltb_ge. lia. }
  cbv zeta.
  destruct (ip4_flags evil df mf off Hoff) as (F1 & F2 & F3 & F4). fold f1 in F1, F2, F3, F4.
  rewrite F1, F2, F3, F4. rewrite !be16_b16.
  subst L. rewrite skipn_len_app.
  eexists. split; [reflexivity|].
  intro k. apply ip4_quirks_eq.
Qed.

(* ---------- IPv6 ---------- *)

Lemma ip6_quirks_eq b1 b2 k :
  hasq k (setq_if b2 qECN (setq_if b1 qFLOW 0%N)) =
  if N.eqb k qFLOW then b1 else if N.eqb k qECN then b2 else false.
Proof.
  rewrite !hasq_setq_if, hasq_0.
  destruct (N.eqb_spec k qFLOW) as [->|N1]; [cbv; destruct b1, b2; reflexivity|].
  destruct (N.eqb_spec k qECN) as [->|N2]; [cbv; destruct b1, b2; reflexivity|].
  destruct b1, b2; reflexivity.
Qed.

Theorem ip6_enc : forall h payload, wf_ip6 h payload ->
  exists q,
  ip6 (enc_ip6 h payload) =
    Some {| i_ver := 6; i_ttl := h6_hlim h; i_olen := 0; i_hlen := 40; i_frag := false; i_fragoff := 0;
            i_proto := h6_nh h; i_q := q; i_src := h6_src h; i_dst := h6_dst h; i_id := 0; i_tos := h6_tc h;
            i_payload := payload |}
  /\ forall k, hasq k q = ip6_quirk h k.
Proof.
  intros h payload WF.
  destruct h as [tc fl nh hlim src dst].
  unfold wf_ip6, byte in WF.
  cbn [h6_tc h6_fl h6_nh h6_hlim h6_src h6_dst] in *.
  destruct WF as (Htc & Hfl & Hnh & Hhlim & Hsrc & Hdst & HP).
  unfold enc_ip6, ip6_quirk.
  cbn [h6_tc h6_fl h6_nh h6_hlim h6_src h6_dst app].
  pose proof (len_nonneg payload) as HP0.
  assert (Lsrc : len src = 16) by (unfold len; rewrite Hsrc; reflexivity).
  assert (Ldst : len dst = 16) by (unfold len; rewrite Hdst; reflexivity).
  unfold ip6.
  rewrite !len_app, Lsrc, Ldst.
  set (P := len payload) in *.
  set (b0 := 6 * 16 + tc / 16).
  set (b1 := tc mod 16 * 16 + fl / 65536).
  assert (E1 : b0 / 16 = 6) by (subst b0; lia).
  assert (E2 : b0 mod 16 * 16 + b1 / 16 = tc) by (subst b0 b1; lia).
  assert (E3 : (b1 mod 16 * 256 + fl / 256 mod 256) * 256 + fl mod 256 = fl) by (subst b1; lia).
  rewrite E1, be16_b16.
  match goal with |- context [if ?c then None else _] => replace c with false end.
  2:{ symmetry. rewrite !orb_false_iff, !negb_false_iff. repeat split.
      - apply Z.ltb_ge. lia.
      - apply Z.eqb_eq. lia. }
  cbv zeta. rewrite E2, E3.
  assert (S1 : firstn 16 (src ++ dst ++ payload) = src).
  { rewrite firstn_app, Hsrc, Nat.sub_diag, firstn_O, app_nil_r. rewrite <- Hsrc. apply firstn_all. }
  assert (S2 : skipn 16 (src ++ dst ++ payload) = dst ++ payload).
  { rewrite skipn_app, Hsrc, Nat.sub_diag. rewrite <- Hsrc, skipn_all. reflexivity. }
  assert (S3 : firstn 16 (dst ++ payload) = dst).
  { rewrite firstn_app, Hdst, Nat.sub_diag, firstn_O, app_nil_r. rewrite <- Hdst. apply firstn_all. }
  assert (S4 : skipn 32 (src ++ dst ++ payload) = payload).
  { assert (H32 : length (src ++ dst) = 32%nat) by (rewrite app_length, Hsrc, Hdst; reflexivity).
    rewrite app_assoc, skipn_app, H32, Nat.sub_diag. rewrite <- H32, skipn_all. reflexivity. }
  rewrite S2, S1, S3, S4.
  eexists. split; [reflexivity|].
  intro k. apply ip6_quirks_eq.
Qed.

(* ---------- TCP ---------- *)

Lemma flag_bits c e u a p r s f :
  let fl := b2z c * 128 + b2z e * 64 + b2z u * 32 + b2z a * 16 + b2z p * 8 + b2z r * 4 + b2z s * 2 + b2z f in
  bit fl 7 = c /\ bit fl 6 = e /\ bit fl 5 = u /\ bit fl 4 = a /\ bit fl 3 = p /\ bit fl 2 = r /\
  fl mod 2 + 2 * (fl / 2 mod 2) + 4 * (fl / 4 mod 2) + 16 * (fl / 16 mod 2) =
  b2z f + 2 * b2z s + 4 * b2z r + 16 * b2z a.
Proof.
  destruct c, e, u, a, p, r, s, f; vm_compute; repeat split.
Qed.

Lemma tcp_quirks_eq b1 b2 b3 b4 b5 b6 b7 oq k :
  hasq k (N.lor (setq_if b7 qPUSH (setq_if b6 qNZURG (setq_if b5 qURG (setq_if b4 qNZACK
           (setq_if b3 qZACK (setq_if b2 qZSEQ (setq_if b1 qECN 0%N))))))) oq) =
  (if N.eqb k qECN then b1 else if N.eqb k qZSEQ then b2 else if N.eqb k qZACK then b3
   else if N.eqb k qNZACK then b4 else if N.eqb k qURG then b5 else if N.eqb k qNZURG then b6
   else if N.eqb k qPUSH then b7 else false) || hasq k oq.
Proof.
  unfold hasq at 1. rewrite N.lor_spec. fold (hasq k oq).
  match goal with |- N.testbit ?m k || _ = _ => change (N.testbit m k) with (hasq k m) end.
  rewrite !hasq_setq_if, hasq_0. generalize (hasq k oq). intro x.
  destruct (N.eqb_spec k qECN) as [->|N1]; [cbv; destruct b1, b2, b3, b4, b5, b6, b7, x; reflexivity|].
  destruct (N.eqb_spec k qZSEQ) as [->|N2]; [cbv; destruct b1, b2, b3, b4, b5, b6, b7, x; reflexivity|].
  destruct (N.eqb_spec k qZACK) as [->|N3]; [cbv; destruct b1, b2, b3, b4, b5, b6, b7, x; reflexivity|].
  destruct (N.eqb_spec k qNZACK) as [->|N4]; [cbv; destruct b1, b2, b3, b4, b5, b6, b7, x; reflexivity|].
  destruct (N.eqb_spec k qURG) as [->|N5]; [cbv; destruct b1, b2, b3, b4, b5, b6, b7, x; reflexivity|].
  destruct (N.eqb_spec k qNZURG) as [->|N6]; [cbv; destruct b1, b2, b3, b4, b5, b6, b7, x; reflexivity|].
  destruct (N.eqb_spec k qPUSH) as [->|N7]; [cbv; destruct b1, b2, b3, b4, b5, b6, b7, x; reflexivity|].
  destruct b1, b2, b3, b4, b5, b6, b7, x; reflexivity.
Qed.

Lemma b2z_eqb_1 b : (b2z b =? 1) = b.
Proof. destruct b; reflexivity. Qed.

Theorem tcp_enc : forall h payload o, wf_tcp h ->
  parse_options (th_opts h) (type_of_hdr h =? fSYN) = Ok o ->
  exists q,
  tcp_seg (enc_tcp h payload) =
    Some (Ok {| t_flags := b2z (th_ns h) * 256 + flag_byte h; t_type := type_of_hdr h;
                t_sport := th_sport h; t_dport := th_dport h; t_win := th_win h; t_seq := th_seq h; t_ack := th_ack h;
                t_urg := th_urgp h; t_hlen := 20 + len (th_opts h); t_opts := o; t_q := q; t_payload := payload |})
  /\ forall k, hasq k q = tcp_quirk h k || hasq k (o_quirks o).
Proof.
  intros h payload o WF PO.
  destruct h as [sport dport seq ack res ns cwr ece urg ackf psh rst syn fin win c1 c2 urgp opts].
  unfold wf_tcp, byte in WF. unfold type_of_hdr in PO.
  cbn [th_sport th_dport th_seq th_ack th_res th_ns th_cwr th_ece th_urg th_ackf th_psh th_rst th_syn th_fin
       th_win th_c1 th_c2 th_urgp th_opts] in *.
  destruct WF as (Hsport & Hdport & Hseq & Hack & Hres & Hwin & Hc1 & Hc2 & Hurgp & Hopts & Hmod & Hle).
  unfold enc_tcp, tcp_quirk, type_of_hdr, flag_byte.
  cbn [th_sport th_dport th_seq th_ack th_res th_ns th_cwr th_ece th_urg th_ackf th_psh th_rst th_syn th_fin
       th_win th_c1 th_c2 th_urgp th_opts app b16 b32].
  pose proof (len_nonneg opts) as HL0. pose proof (len_nonneg payload) as HP0.
  destruct (flag_bits cwr ece urg ackf psh rst syn fin) as (B7 & B6 & B5 & B4 & B3 & B2 & TY).
  set (fl := b2z cwr * 128 + b2z ece * 64 + b2z urg * 32 + b2z ackf * 16 + b2z psh * 8 + b2z rst * 4
             + b2z syn * 2 + b2z fin) in *.
  set (L := len opts) in *. set (P := len payload) in *.
  set (offb := (5 + L / 4) * 16 + res * 2 + b2z ns).
  assert (Hns : 0 <= b2z ns <= 1) by (destruct ns; cbn [b2z]; lia).
  assert (E1 : offb / 16 = 5 + L / 4) by (subst offb; lia).
  assert (E2 : offb mod 2 = b2z ns) by (subst offb; lia).
  assert (E3 : (5 + L / 4) * 4 - 20 = L) by lia.
  assert (E3' : (5 + L / 4) * 4 = 20 + L) by lia.
  unfold tcp_seg.
  rewrite !len_app. fold L P.
  rewrite E1, E2, E3, E3'.
  match goal with |- context [if ?c then None else _] => replace c with false end.
  2:{ symmetry. rewrite !orb_false_iff. split.
      - apply Z.ltb_ge. lia.
      - rewrite Z.gtb_ltb. apply Z.ltb_ge. lia. }
  cbv zeta.
  rewrite TY. subst L. rewrite firstn_len_app, skipn_len_app, PO.
  rewrite !be16_b16, !be32_b32.
  rewrite B7, B6, B5, B4, B3, B2, b2z_eqb_1.
  eexists. split; [reflexivity|].
  intro k. apply tcp_quirks_eq.
Qed.

Print Assumptions ip4_enc.
Print Assumptions ip6_enc.
Print Assumptions tcp_enc.
