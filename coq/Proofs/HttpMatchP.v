(* Proofs for property C06: HTTP signature matching (Model/HttpMatch.v against Spec/C06.v). *)
From Coq Require Import Lia String.
From PV Require Import Model.Prelude Model.Text Model.SigParse Model.DbParse Model.HttpRead Model.HttpMatch Spec.C06.
Local Open Scope Z_scope.
Local Open Scope list_scope.

(* ---------- text primitives ---------- *)

Lemma text_eqb_eq : forall a b, text_eqb a b = true <-> a = b.
Proof.
  induction a as [|x a IH]; intros [|y b]; cbn [text_eqb]; split; intro H;
    try reflexivity; try discriminate.
  - apply andb_true_iff in H. destruct H as [H1 H2].
    apply Z.eqb_eq in H1. apply IH in H2. subst. reflexivity.
  - inversion H; subst. apply andb_true_iff. split.
    + apply Z.eqb_eq. reflexivity.
    + apply IH. reflexivity.
Qed.

Lemma text_eqb_refl : forall a, text_eqb a a = true.
Proof. intro a. apply text_eqb_eq. reflexivity. Qed.

Lemma text_eqb_neq : forall a b, text_eqb a b = false <-> a <> b.
Proof.
  intros a b. split.
  - intros H E. apply text_eqb_eq in E. rewrite E in H. discriminate.
  - intros H. destruct (text_eqb a b) eqn:E; [|reflexivity].
    apply text_eqb_eq in E. contradiction.
Qed.

Lemma starts_with_spec : forall p t, starts_with p t = true <-> exists r, t = p ++ r.
Proof.
  induction p as [|x p IH]; intros t.
  - cbn [starts_with]. split; [intros _; exists t; reflexivity | reflexivity].
  - destruct t as [|y t]; cbn [starts_with].
    + split; [discriminate | intros [r Hr]; discriminate].
    + split.
      * intro H. apply andb_true_iff in H. destruct H as [H1 H2].
        apply Z.eqb_eq in H1. apply IH in H2. destruct H2 as [r Hr].
        exists r. subst. reflexivity.
      * intros [r Hr]. cbn [app] in Hr. inversion Hr; subst.
        apply andb_true_iff. split.
        -- apply Z.eqb_eq. reflexivity.
        -- apply IH. exists r. reflexivity.
Qed.

Theorem infix_spec : forall v t, infix v t = true <-> Contains v t.
Proof.
  intros v t. unfold Contains. induction t as [|c t IH].
  - cbn [infix]. rewrite orb_false_r. rewrite starts_with_spec. split.
    + intros [r Hr]. exists [], r. exact Hr.
    + intros [a [b Hab]]. destruct a as [|x a]; [|discriminate].
      exists b. exact Hab.
  - cbn [infix]. rewrite orb_true_iff, starts_with_spec, IH. split.
    + intros [[r Hr] | [a [b Hab]]].
      * exists [], r. exact Hr.
      * exists (c :: a), b. rewrite Hab. reflexivity.
    + intros [a [b Hab]]. destruct a as [|x a].
      * left. exists b. exact Hab.
      * right. cbn [app] in Hab. inversion Hab; subst. exists a, b. reflexivity.
Qed.

(* ---------- first occurrence ---------- *)

Lemma named_eqb : forall name h, text_eqb name (lname h) = true <-> Named name h.
Proof.
  intros name h. unfold Named. rewrite text_eqb_eq. split; intro H; symmetry; exact H.
Qed.

Lemma named_eqb_false : forall name h, text_eqb name (lname h) = false <-> ~ Named name h.
Proof.
  intros name h. unfold Named. rewrite text_eqb_neq. split; intros H E; apply H; symmetry; exact E.
Qed.

Lemma find_from_some : forall name rest ph after,
  find_from name rest = Some (ph, after) <->
  exists pre, rest = pre ++ ph :: after /\ Named name ph /\ (forall x, In x pre -> ~ Named name x).
Proof.
  intros name rest. induction rest as [|h r IH]; intros ph after.
  - cbn [find_from]. split; [discriminate|].
    intros [pre [H _]]. destruct pre; discriminate.
  - cbn [find_from]. destruct (text_eqb name (lname h)) eqn:E.
    + apply named_eqb in E. split.
      * intro H. inversion H; subst. exists []. split; [reflexivity|].
        split; [exact E|]. intros x [].
      * intros [pre [H [Hn Hpre]]]. destruct pre as [|p pre].
        -- cbn [app] in H. inversion H; subst. reflexivity.
        -- cbn [app] in H. inversion H; subst. exfalso.
           apply (Hpre p); [left; reflexivity | exact E].
    + apply named_eqb_false in E. rewrite IH. split.
      * intros [pre [H [Hn Hpre]]]. exists (h :: pre). split; [rewrite H; reflexivity|].
        split; [exact Hn|]. intros x [Hx|Hx]; [subst; exact E | apply Hpre; exact Hx].
      * intros [pre [H [Hn Hpre]]]. destruct pre as [|p pre].
        -- cbn [app] in H. inversion H; subst. contradiction.
        -- cbn [app] in H. inversion H; subst. exists pre. split; [reflexivity|].
           split; [exact Hn|]. intros x Hx. apply Hpre. right. exact Hx.
Qed.

Lemma find_from_none : forall name rest,
  find_from name rest = None <-> (forall x, In x rest -> ~ Named name x).
Proof.
  intros name rest. induction rest as [|h r IH].
  - cbn [find_from]. split; [intros _ x [] | reflexivity].
  - cbn [find_from]. destruct (text_eqb name (lname h)) eqn:E.
    + apply named_eqb in E. split; [discriminate|].
      intro H. exfalso. apply (H h); [left; reflexivity | exact E].
    + apply named_eqb_false in E. rewrite IH. split.
      * intros H x [Hx|Hx]; [subst; exact E | apply H; exact Hx].
      * intros H x Hx. apply H. right. exact Hx.
Qed.

Lemma occurs_true : forall name all, occurs name all = true <-> exists x, In x all /\ Named name x.
Proof.
  intros name all. unfold occurs. rewrite existsb_exists. split.
  - intros [x [Hx Hn]]. exists x. split; [exact Hx | apply named_eqb; exact Hn].
  - intros [x [Hx Hn]]. exists x. split; [exact Hx | apply named_eqb; exact Hn].
Qed.

Lemma occurs_false : forall name all, occurs name all = false <-> (forall x, In x all -> ~ Named name x).
Proof.
  intros name all. split.
  - intros H x Hx Hn.
    assert (Ht : occurs name all = true) by (apply occurs_true; exists x; split; assumption).
    rewrite Ht in H. discriminate.
  - intros H. destruct (occurs name all) eqn:E; [|reflexivity].
    apply occurs_true in E. destruct E as [x [Hx Hn]]. exfalso. apply (H x Hx Hn).
Qed.

(* ---------- the ordered walk ---------- *)

Lemma headers_match_walk_fwd : forall sh all rest, headers_match sh all rest = true -> Walk all sh rest.
Proof.
  induction sh as [|h sh IH]; intros all rest H.
  - apply W_nil.
  - cbn [headers_match] in H.
    destruct (find_from (lower (sh_name h)) rest) as [[ph after]|] eqn:Ef.
    + apply find_from_some in Ef. destruct Ef as [pre [Hrest [Hn Hpre]]].
      destruct (sh_value h) as [v|] eqn:Ev.
      * destruct (infix v (ph_value ph)) eqn:Ei; [|discriminate].
        apply infix_spec in Ei.
        eapply W_found; [exact Hrest | exact Hpre | exact Hn | | apply IH; exact H].
        intros v' Hv'. rewrite Ev in Hv'. inversion Hv'; subst. exact Ei.
      * eapply W_found; [exact Hrest | exact Hpre | exact Hn | | apply IH; exact H].
        intros v' Hv'. rewrite Ev in Hv'. discriminate.
    + destruct (sh_optional h) eqn:Eo; cbn [negb] in H; [|discriminate].
      destruct (occurs (lower (sh_name h)) all) eqn:Eoc; [discriminate|].
      apply W_optional.
      * exact Eo.
      * apply find_from_none. exact Ef.
      * apply occurs_false. exact Eoc.
      * apply IH. exact H.
Qed.

Lemma headers_match_walk_bwd : forall sh all rest, Walk all sh rest -> headers_match sh all rest = true.
Proof.
  intros sh all rest W. induction W as
    [ rest
    | h sh rest pre ph after Hrest Hpre Hn Hv W IH
    | h sh rest Ho Hrestn Halln W IH ].
  - reflexivity.
  - cbn [headers_match].
    assert (Ef : find_from (lower (sh_name h)) rest = Some (ph, after)).
    { apply find_from_some. exists pre. split; [exact Hrest|]. split; [exact Hn | exact Hpre]. }
    rewrite Ef. destruct (sh_value h) as [v|] eqn:Ev.
    + assert (Ei : infix v (ph_value ph) = true).
      { apply infix_spec. apply Hv. reflexivity. }
      rewrite Ei. exact IH.
    + exact IH.
  - cbn [headers_match].
    assert (Ef : find_from (lower (sh_name h)) rest = None).
    { apply find_from_none. exact Hrestn. }
    rewrite Ef. rewrite Ho. cbn [negb].
    assert (Eoc : occurs (lower (sh_name h)) all = false).
    { apply occurs_false. exact Halln. }
    rewrite Eoc. exact IH.
Qed.

Theorem headers_match_walk : forall sh all rest, headers_match sh all rest = true <-> Walk all sh rest.
Proof.
  intros sh all rest. split; [apply headers_match_walk_fwd | apply headers_match_walk_bwd].
Qed.

(* ---------- whole-signature match ---------- *)

Theorem http_sig_match_iff : forall s ver hs, http_sig_match s ver hs = true <-> Matches s ver hs.
Proof.
  intros s ver hs. unfold http_sig_match, Matches.
  rewrite !andb_true_iff, orb_true_iff, !Z.eqb_eq, forallb_forall, negb_true_iff, headers_match_walk.
  split.
  - intros [[[Hv Hf] Ha] Hw]. split; [exact Hv|]. split; [|split; [|exact Hw]].
    + intros h Hh Ho. specialize (Hf h Hh). rewrite Ho in Hf. cbn [orb] in Hf.
      apply occurs_true. exact Hf.
    + intros a Hin x Hx Hn.
      assert (Ht : existsb (fun a => occurs a hs) (hs_absent s) = true).
      { apply existsb_exists. exists a. split; [exact Hin|]. apply occurs_true. exists x. split; assumption. }
      rewrite Ht in Ha. discriminate.
  - intros [Hv [Hf [Ha Hw]]]. split; [split; [split; [exact Hv|]|]|exact Hw].
    + intros h Hh. destruct (sh_optional h) eqn:Eo; [reflexivity|]. cbn [orb].
      apply occurs_true. apply Hf; assumption.
    + destruct (existsb (fun a => occurs a hs) (hs_absent s)) eqn:E; [|reflexivity].
      apply existsb_exists in E. destruct E as [a [Hin Ho]].
      apply occurs_true in Ho. destruct Ho as [x [Hx Hn]].
      exfalso. apply (Ha a Hin x Hx Hn).
Qed.

(* ---------- selection ---------- *)

Lemma find_http_loop_gen : forall ver hs recs g,
  find_http_loop ver hs recs g =
  match find (fun r => rec_matches ver hs r && negb (is_generic (rc_label r))) recs with
  | Some r => Some r
  | None => match g with
            | Some r => Some r
            | None => find (fun r => rec_matches ver hs r) recs
            end
  end.
Proof.
  intros ver hs recs. induction recs as [|r rest IH]; intro g.
  - cbn [find_http_loop find]. destruct g; reflexivity.
  - cbn [find_http_loop find].
    destruct (rec_matches ver hs r) eqn:Em; cbn [negb andb].
    + destruct (is_generic (rc_label r)) eqn:Eg; cbn [negb].
      * rewrite IH. destruct (find _ rest); [reflexivity|]. destruct g; reflexivity.
      * reflexivity.
    + apply IH.
Qed.

Theorem find_http_select : forall ver hs recs, find_http_loop ver hs recs None = select_spec ver hs recs.
Proof.
  intros ver hs recs. rewrite find_http_loop_gen. unfold select_spec. reflexivity.
Qed.

(* ---------- software / dishonest ---------- *)

Lemma header_value_some : forall name hs v, header_value name hs = Some v <-> FirstValue name hs v.
Proof.
  intros name hs v. unfold header_value, FirstValue.
  destruct (find_from name hs) as [[h after]|] eqn:Ef.
  - apply find_from_some in Ef. destruct Ef as [pre [Hhs [Hn Hpre]]]. split.
    + intro H. inversion H; subst. exists pre, h, after.
      split; [reflexivity|]. split; [exact Hn|]. split; [reflexivity | exact Hpre].
    + intros [pre' [h' [post' [Hhs' [Hn' [Hv' Hpre']]]]]].
      assert (Ef' : find_from name hs = Some (h', post')).
      { apply find_from_some. exists pre'. split; [exact Hhs'|]. split; [exact Hn' | exact Hpre']. }
      assert (Ef2 : find_from name hs = Some (h, after)).
      { apply find_from_some. exists pre. split; [exact Hhs|]. split; [exact Hn | exact Hpre]. }
      rewrite Ef2 in Ef'. inversion Ef'; subst. reflexivity.
  - split; [discriminate|].
    intros [pre' [h' [post' [Hhs' [Hn' [Hv' Hpre']]]]]].
    assert (Ef' : find_from name hs = Some (h', post')).
    { apply find_from_some. exists pre'. split; [exact Hhs'|]. split; [exact Hn' | exact Hpre']. }
    rewrite Ef in Ef'. discriminate.
Qed.

Lemma header_value_none : forall name hs, header_value name hs = None <-> NoHeader name hs.
Proof.
  intros name hs. unfold header_value, NoHeader. rewrite <- find_from_none.
  destruct (find_from name hs) as [[h after]|]; split; intro H; try discriminate; reflexivity.
Qed.

Lemma software_spec_gen : forall ua sv hs sw,
  match header_value ua hs with
  | Some (c :: v) => Some (c :: v)
  | _ => header_value sv hs
  end = Some sw <->
  (FirstValue ua hs sw /\ sw <> []) \/
  ((NoHeader ua hs \/ FirstValue ua hs []) /\ FirstValue sv hs sw).
Proof.
  intros ua sv hs sw.
  destruct (header_value ua hs) as [[|c v]|] eqn:Eu.
  - rewrite header_value_some. split.
    + intro H. right. split; [|exact H]. right. apply header_value_some. exact Eu.
    + intros [[Hf Hne] | [_ Hf]]; [|exact Hf].
      apply header_value_some in Hf. rewrite Eu in Hf. inversion Hf; subst. contradiction.
  - split.
    + intro H. inversion H; subst. left. split; [apply header_value_some; exact Eu | discriminate].
    + intros [[Hf _] | [[Hno | Hf] _]].
      * apply header_value_some in Hf. rewrite Eu in Hf. exact Hf.
      * apply header_value_none in Hno. rewrite Eu in Hno. discriminate.
      * apply header_value_some in Hf. rewrite Eu in Hf. discriminate.
  - rewrite header_value_some. split.
    + intro H. right. split; [|exact H]. left. apply header_value_none. exact Eu.
    + intros [[Hf _] | [_ Hf]]; [|exact Hf].
      apply header_value_some in Hf. rewrite Eu in Hf. discriminate.
Qed.

Theorem software_spec : forall hs sw,
  software hs = Some sw <->
  (FirstValue (str "user-agent") hs sw /\ sw <> []) \/
  ((NoHeader (str "user-agent") hs \/ FirstValue (str "user-agent") hs []) /\ FirstValue (str "server") hs sw).
Proof.
  intros hs sw. unfold software. apply software_spec_gen.
Qed.

Theorem dishonest_iff : forall m hs,
  dishonest m hs = true <->
  exists r s sw e, m = Some r /\ http_of r = Some s /\ software hs = Some sw /\ hs_software s = Some e /\ ~ Contains e sw.
Proof.
  intros m hs. unfold dishonest. split.
  - intro H. destruct m as [r|]; [|discriminate].
    destruct (software hs) as [sw|] eqn:Es; [|discriminate].
    destruct (http_of r) as [s|] eqn:Eh; [|discriminate].
    destruct (hs_software s) as [e|] eqn:Ee; [|discriminate].
    exists r, s, sw, e. split; [reflexivity|]. split; [exact Eh|].
    split; [reflexivity|]. split; [exact Ee|].
    intro Hc. apply infix_spec in Hc. rewrite Hc in H. discriminate.
  - intros [r [s [sw [e [Hm [Hh [Hs [He Hn]]]]]]]]. subst m. rewrite Hs, Hh, He.
    destruct (infix e sw) eqn:Ei; [|reflexivity].
    apply infix_spec in Ei. contradiction.
Qed.

(* ---------- fingerprint_http ---------- *)

Theorem fp_http_spec : forall d data dir ver hs,
  read_payload data = Ok (dir, ver, hs) ->
  fp_http d data =
  match (match dir with Request => d_http_req d | Response => d_http_resp d end) with
  | None => Err DatabaseError
  | Some recs => Ok (select_spec ver hs recs, dishonest (select_spec ver hs recs) hs, (dir, ver, hs))
  end.
Proof.
  intros d data dir ver hs H. unfold fp_http. rewrite H. cbn [bind].
  destruct (match dir with Request => d_http_req d | Response => d_http_resp d end) as [recs|]; [|reflexivity].
  rewrite find_http_select. reflexivity.
Qed.

Theorem fp_http_packet_error : forall d data e, read_payload data = Err e -> fp_http d data = Err e.
Proof.
  intros d data e H. unfold fp_http. rewrite H. reflexivity.
Qed.

Print Assumptions infix_spec.
Print Assumptions headers_match_walk.
Print Assumptions http_sig_match_iff.
Print Assumptions find_http_select.
Print Assumptions software_spec.
Print Assumptions dishonest_iff.
Print Assumptions fp_http_spec.
Print Assumptions fp_http_packet_error.
