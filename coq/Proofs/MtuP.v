From Coq Require Import Lia.
From PV Require Import Model.Prelude Model.Select Model.Mtu Proofs.BitsP.

Theorem fp_mtu_value db frag ty ver mss recs :
  db = Some recs -> valid_mtu_fp frag ty mss = true ->
  exists m, fp_mtu db frag ty ver mss = Ok (mss + (if ver =? 4 then 40 else 60), m) /\
    (forall r, m = Some r <->
       exists pre post, recs = pre ++ r :: post /\ m_mtu r = mss + hdr_of ver /\
                        forall x, In x pre -> m_mtu x <> mss + hdr_of ver) /\
    (m = None <-> forall x, In x recs -> m_mtu x <> mss + hdr_of ver).
Proof.
  intros -> V. unfold fp_mtu. rewrite V. cbn [negb]. eexists. split; [reflexivity|]. split.
  - intros r. unfold find_mtu. rewrite find_first. split.
    + intros (pre & post & E & Hx & Hp). exists pre, post. repeat split; auto.
      * apply Z.eqb_eq. exact Hx.
      * intros x Hx'. apply Z.eqb_neq. apply Hp. exact Hx'.
    + intros (pre & post & E & Hx & Hp). exists pre, post. repeat split; auto.
      * apply Z.eqb_eq. exact Hx.
      * intros x Hx'. apply Z.eqb_neq. apply Hp. exact Hx'.
  - unfold find_mtu. rewrite find_none_iff. split; intros H x Hx; specialize (H x Hx);
      [apply Z.eqb_neq | apply Z.eqb_neq]; exact H.
Qed.

Theorem fp_mtu_gate db frag ty ver mss : 0 <= ty < 32 ->
  (fp_mtu db frag ty ver mss <> Err PacketError <->
   frag = false /\ 0 < mss /\ (ty = fSYN \/ ty = fSYN + fACK)).
Proof.
  intros Hty. unfold fp_mtu.
  assert (valid_mtu_fp frag ty mss = true <-> frag = false /\ 0 < mss /\ (ty = fSYN \/ ty = fSYN + fACK)) as V.
  { unfold valid_mtu_fp. rewrite !andb_true_iff, orb_true_iff, !Z.eqb_eq, Z.gtb_lt. split.
    - intros [[H1 H2] H3]. split; [destruct frag; [discriminate H1|reflexivity] | tauto].
    - intros [-> [H2 H3]]. split; [split|]; [|exact H2|exact H3]. destruct H3 as [->| ->]; reflexivity. }
  destruct (valid_mtu_fp frag ty mss) eqn:E; cbn [negb].
  - split; [intros _; apply V; reflexivity | intros _; destruct db; discriminate].
  - split; [congruence|]. intros H. apply V in H. discriminate.
Qed.

(* ---- impersonation ---- *)
Lemma last_mss_no opts acc : existsb is_mss opts = false -> last_mss opts acc = acc.
Proof.
  revert acc. induction opts as [|o r IH]; intros acc; cbn [existsb last_mss]; [reflexivity|].
  intros H. apply orb_false_iff in H. destruct H as [H1 H2]. destruct o; cbn [is_mss] in *; [discriminate|].
  apply IH. exact H2.
Qed.

Lemma map_no_mss v opts : existsb is_mss opts = false ->
  map (fun o => if is_mss o then OMss v else o) opts = opts.
Proof.
  induction opts as [|o r IH]; cbn [existsb map]; [reflexivity|].
  intros H. apply orb_false_iff in H. destruct H as [H1 H2]. rewrite H1, (IH H2). reflexivity.
Qed.

Lemma last_mss_map v opts acc :
  existsb is_mss opts = true ->
  last_mss (map (fun o => if is_mss o then OMss v else o) opts) acc = v.
Proof.
  revert acc. induction opts as [|o r IH]; intros acc; cbn [existsb map last_mss]; [discriminate|].
  destruct o as [w|id]; cbn [is_mss orb last_mss].
  - intros _. destruct (existsb is_mss r) eqn:E.
    + apply IH. reflexivity.
    + rewrite (map_no_mss v r E). apply last_mss_no. exact E.
  - intros H. apply IH. exact H.
Qed.

Theorem imp_mtu_roundtrip m ver opts acc :
  last_mss (imp_mtu m ver opts) acc = m - hdr_of ver /\
  (0 < m - hdr_of ver -> last_mss (imp_mtu m ver opts) acc + hdr_of ver = m).
Proof.
  assert (last_mss (imp_mtu m ver opts) acc = m - hdr_of ver) as H.
  { unfold imp_mtu. destruct (existsb is_mss opts) eqn:E.
    - apply last_mss_map. exact E.
    - cbn [last_mss]. apply last_mss_no. exact E. }
  split; [exact H | intros _; rewrite H; lia].
Qed.

Definition Kept (v : Z) (a b : topt) : Prop :=
  (is_mss a = true /\ b = OMss v) \/ (is_mss a = false /\ b = a).

Theorem imp_mtu_untouched m ver opts :
  filter (fun o => negb (is_mss o)) (imp_mtu m ver opts) = filter (fun o => negb (is_mss o)) opts /\
  (existsb is_mss opts = true -> Forall2 (Kept (m - hdr_of ver)) opts (imp_mtu m ver opts)) /\
  (existsb is_mss opts = false -> imp_mtu m ver opts = OMss (m - hdr_of ver) :: opts).
Proof.
  unfold imp_mtu. split; [|split].
  - destruct (existsb is_mss opts).
    + induction opts as [|o r IH]; cbn [map filter]; [reflexivity|].
      destruct o; cbn [is_mss negb]; [exact IH | rewrite IH; reflexivity].
    + reflexivity.
  - intros ->. induction opts as [|o r IH]; cbn [map]; constructor; [|exact IH].
    unfold Kept. destruct o; cbn [is_mss]; [left | right]; auto.
  - intros ->. reflexivity.
Qed.
