From Coq Require Import Lia.
From PV Require Import Model.Prelude Model.Frame.

Lemma update_length h i o : length (update h i o) = length h.
Proof. revert i; induction h as [|x r IH]; intros [|i]; cbn [update length]; auto. Qed.
Lemma update_other h i o k : k <> i -> nth_error (update h i o) k = nth_error h k.
Proof.
  revert i k; induction h as [|x r IH]; intros [|i] [|k] H; cbn [update nth_error]; auto; try lia.
Qed.
Lemma nth_error_app_old {A} (h : list A) x k : (k < length h)%nat -> nth_error (h ++ x) k = nth_error h k.
Proof. intros H. apply nth_error_app1. exact H. Qed.

(* every call keeps the heap at least as long and leaves every existing object alone, except
   the argument of impersonate_mtu *)
Lemma exec_call_frame h c k :
  (k < length h)%nat -> mtu_target c k = false ->
  (length h <= length (exec_call h c))%nat /\ nth_error (exec_call h c) k = nth_error h k.
Proof.
  intros Hk Ht. destruct c as [i|b head|i nb no|i no]; cbn [exec_call].
  - unfold copy. destruct (nth_error h i); cbn [fst]; [|auto].
    rewrite app_length; cbn [length]. split; [lia | apply nth_error_app_old; exact Hk].
  - unfold copy. destruct (nth_error h b) as [o|] eqn:E.
    + unfold consume. destruct (nth_error (h ++ [o]) (length h)) as [[|d c]|] eqn:E2.
      * rewrite app_length; cbn [length]. split; [lia | apply nth_error_app_old; exact Hk].
      * rewrite update_length, app_length; cbn [length]. split; [lia|].
        rewrite update_other by lia. apply nth_error_app_old; exact Hk.
      * rewrite app_length; cbn [length]. split; [lia | apply nth_error_app_old; exact Hk].
    + unfold consume. rewrite E. split; [lia|reflexivity].
  - unfold alloc; cbn [fst]. rewrite app_length; cbn [length]. split; [lia | apply nth_error_app_old; exact Hk].
  - unfold set_opts. cbn [mtu_target] in Ht. apply PeanoNat.Nat.eqb_neq in Ht.
    destruct (nth_error h i) as [[b o|]|]; try (split; [lia|reflexivity]).
    rewrite update_length. split; [lia | apply update_other; lia].
Qed.

(* C12_frame: over arbitrary call sequences every caller-owned object that is not an
   impersonate_mtu argument is unchanged (bytes, options, buffer contents and consumed prefix) *)
Theorem frame h cs k :
  (k < length h)%nat -> (forall c, In c cs -> mtu_target c k = false) ->
  nth_error (run_calls h cs) k = nth_error h k.
Proof.
  unfold run_calls. revert h. induction cs as [|c r IH]; intros h Hk Ht; cbn [fold_left]; [reflexivity|].
  destruct (exec_call_frame h c k Hk (Ht c (or_introl eq_refl))) as [Hl He].
  rewrite IH; [exact He | lia | intros c' Hc'; apply Ht; right; exact Hc'].
Qed.

(* impersonate_tcp returns a NEW object *)
Theorem impersonate_tcp_fresh h i nb no :
  nth_error (exec_call h (CImpersonateTcp i nb no)) (length h) = Some (Pkt nb no).
Proof. cbn [exec_call]. unfold alloc; cbn [fst]. rewrite nth_error_app2 by lia. rewrite PeanoNat.Nat.sub_diag. reflexivity. Qed.
