(* Property C18: printed option layouts and quirk lists parse back. *)
From Coq Require Import Lia String.
From PV Require Import Model.Prelude Model.Bits Model.Text Model.SigParse Model.DbParse Model.Dump Proofs.BitsP Proofs.TextP.

(* ---------- generic helpers ---------- *)

Lemma join_nonempty (sep x : text) (r : list text) : x <> [] -> join sep (x :: r) <> [].
Proof.
  intro Hx. destruct x as [|c x]; [congruence|]. destruct r; cbn [join app]; discriminate.
Qed.

Lemma mem_app c (a b : text) : mem c (a ++ b) = mem c a || mem c b.
Proof. unfold mem. apply existsb_app. Qed.

Lemma mem_dec_44 n : 0 <= n -> mem 44 (dec n) = false.
Proof.
  intro Hn. destruct (mem 44 (dec n)) eqn:E; [|reflexivity].
  apply dec_digits_only in E; [lia | exact Hn].
Qed.

Lemma pow_10_20 : 10 ^ 20 = 100000000000000000000.
Proof. vm_compute. reflexivity. Qed.

Lemma num_in_range_dec n lo hi :
  0 <= n <= 255 -> lo <= n <= hi -> num_in_range (dec n) lo hi false = Ok n.
Proof.
  intros Hn Hr. unfold num_in_range. cbn [andb].
  rewrite py_int_dec by (rewrite pow_10_20; lia).
  destruct (lo <=? n) eqn:E1; [|lia]. destruct (n <=? hi) eqn:E2; [|lia]. reflexivity.
Qed.

(* ---------- option layout ---------- *)

Definition opt_head (o : text) (eol : Z) : res (Z * Z) :=
  if starts_with (str "?") o then do n <- num_in_range (tl o) 0 255 false; Ok (n, eol)
  else if starts_with (str "eol+") o then do n <- num_in_range (skipn 4 o) 0 255 false; Ok (0, n)
  else do k <- from_options o option_names; Ok (k, eol).

Lemma parse_option_list_cons o r eol :
  parse_option_list (o :: r) eol =
  (do ke <- opt_head o eol;
   do rest <- parse_option_list r (snd ke);
   Ok (fst ke :: fst rest, snd rest)).
Proof. reflexivity. Qed.

Lemma str_eol : str "eol+" = [101; 111; 108; 43].
Proof. vm_compute. reflexivity. Qed.
Lemma str_q : str "?" = [63].
Proof. vm_compute. reflexivity. Qed.
Lemma str_comma : str "," = [44].
Proof. vm_compute. reflexivity. Qed.

Lemma head_eol d e : opt_head (str "eol+" ++ d) e = (do n <- num_in_range d 0 255 false; Ok (0, n)).
Proof. unfold opt_head. rewrite str_eol, str_q. reflexivity. Qed.

Lemma head_unknown d e : opt_head (str "?" ++ d) e = (do n <- num_in_range d 0 255 false; Ok (n, e)).
Proof. unfold opt_head. rewrite str_q. reflexivity. Qed.

Lemma head_dump pad k e : 0 <= k <= 255 -> 0 <= pad <= 255 ->
  opt_head (dump_option pad k) e = Ok (k, if k =? 0 then pad else e).
Proof.
  intros Hk Hp. unfold dump_option.
  destruct (k =? 0) eqn:E0.
  { apply Z.eqb_eq in E0. subst k. rewrite head_eol, num_in_range_dec by lia. reflexivity. }
  destruct (k =? 1) eqn:E1. { apply Z.eqb_eq in E1. subst k. vm_compute. reflexivity. }
  destruct (k =? 2) eqn:E2. { apply Z.eqb_eq in E2. subst k. vm_compute. reflexivity. }
  destruct (k =? 3) eqn:E3. { apply Z.eqb_eq in E3. subst k. vm_compute. reflexivity. }
  destruct (k =? 4) eqn:E4. { apply Z.eqb_eq in E4. subst k. vm_compute. reflexivity. }
  destruct (k =? 5) eqn:E5. { apply Z.eqb_eq in E5. subst k. vm_compute. reflexivity. }
  destruct (k =? 8) eqn:E8. { apply Z.eqb_eq in E8. subst k. vm_compute. reflexivity. }
  rewrite head_unknown, num_in_range_dec by lia. reflexivity.
Qed.

Lemma dump_option_shape pad k : 0 <= k -> 0 <= pad ->
  dump_option pad k <> [] /\ mem 44 (dump_option pad k) = false.
Proof.
  intros Hk Hp. unfold dump_option.
  destruct (k =? 0). { rewrite str_eol, mem_app, mem_dec_44 by lia. split; [discriminate | reflexivity]. }
  destruct (k =? 1). { split; [discriminate | reflexivity]. }
  destruct (k =? 2). { split; [discriminate | reflexivity]. }
  destruct (k =? 3). { split; [discriminate | reflexivity]. }
  destruct (k =? 4). { split; [discriminate | reflexivity]. }
  destruct (k =? 5). { split; [discriminate | reflexivity]. }
  destruct (k =? 8). { split; [discriminate | reflexivity]. }
  rewrite str_q, mem_app, mem_dec_44 by lia. split; [discriminate | reflexivity].
Qed.

Lemma parse_option_list_dump pad l : 0 <= pad <= 255 -> Forall (fun k => 0 <= k <= 255) l ->
  forall e, parse_option_list (map (dump_option pad) l) e
            = Ok (l, if existsb (Z.eqb 0) l then pad else e).
Proof.
  intros Hp Hl. induction Hl as [|k l Hk Hl IH]; intro e; [reflexivity|].
  cbn [map]. rewrite parse_option_list_cons, head_dump by assumption.
  cbn [bind fst snd]. rewrite IH. cbn [bind fst snd existsb].
  rewrite (Z.eqb_sym 0 k).
  destruct (k =? 0); cbn [orb]; [|reflexivity].
  destruct (existsb (Z.eqb 0) l); reflexivity.
Qed.

Theorem parse_dump_layout : forall l pad,
  Forall (fun k => 0 <= k <= 255) l -> 0 <= pad <= 255 ->
  parse_layout (dump_layout l pad) = Ok (l, if existsb (Z.eqb 0) l then pad else 0).
Proof.
  intros l pad Hl Hp. destruct l as [|k l]; [reflexivity|].
  unfold parse_layout, dump_layout. rewrite str_comma.
  assert (Hne : join [44] (map (dump_option pad) (k :: l)) <> []).
  { cbn [map]. apply join_nonempty. inversion Hl; subst. apply dump_option_shape; lia. }
  destruct (join [44] (map (dump_option pad) (k :: l))) as [|c t] eqn:J; [congruence|].
  rewrite <- J. rewrite split_join.
  - apply parse_option_list_dump; assumption.
  - discriminate.
  - apply Forall_map. eapply Forall_impl; [|exact Hl]. intros a Ha. cbv beta in Ha.
    apply dump_option_shape; lia.
Qed.

(* ---------- quirks ---------- *)

Lemma quirk_names_ok : forall nk, In nk quirk_names ->
  from_options (fst nk) quirk_names = Ok (snd nk) /\ fst nk <> [] /\ mem 44 (fst nk) = false.
Proof.
  assert (H : forallb (fun nk : text * N =>
            match from_options (fst nk) quirk_names with Ok k => N.eqb k (snd nk) | Err _ => false end
            && match fst nk with [] => false | _ => true end
            && negb (mem 44 (fst nk))) quirk_names = true) by (vm_compute; reflexivity).
  rewrite forallb_forall in H. intros nk Hin. specialize (H nk Hin).
  apply andb_true_iff in H. destruct H as [H H3]. apply andb_true_iff in H. destruct H as [H1 H2].
  repeat split.
  - destruct (from_options (fst nk) quirk_names) as [k|]; [|discriminate].
    apply N.eqb_eq in H1. subst k. reflexivity.
  - destruct (fst nk); [discriminate | discriminate].
  - apply negb_true_iff in H3. exact H3.
Qed.

Lemma parse_quirk_list_names ver (L : list (text * N)) :
  Forall (fun nk => from_options (fst nk) quirk_names = Ok (snd nk)
                    /\ hasq (snd nk) (invalid_for ver) = false) L ->
  forall acc, parse_quirk_list (map fst L) ver acc = Ok (N.lor acc (mask_of (map snd L))).
Proof.
  intro H. induction H as [|nk L [H1 H2] HL IH]; intro acc.
  - cbn [map mask_of parse_quirk_list]. rewrite N.lor_0_r. reflexivity.
  - cbn [map mask_of parse_quirk_list]. rewrite H1. cbn [bind]. rewrite H2, IH.
    unfold setq. rewrite N.lor_assoc. reflexivity.
Qed.

Lemma existsb_filter_snd (P : N -> bool) k (L : list (text * N)) :
  existsb (N.eqb k) (map snd (filter (fun nk => P (snd nk)) L))
  = existsb (N.eqb k) (map snd L) && P k.
Proof.
  induction L as [|a L IH]; [reflexivity|]. cbn [filter map existsb].
  destruct (P (snd a)) eqn:Pa; cbn [map existsb]; rewrite IH.
  - destruct (N.eqb_spec k (snd a)) as [->|Hne]; cbn [orb].
    + rewrite Pa. rewrite andb_true_r. reflexivity.
    + reflexivity.
  - destruct (N.eqb_spec k (snd a)) as [->|Hne]; cbn [orb].
    + rewrite Pa. rewrite !andb_false_r. reflexivity.
    + reflexivity.
Qed.

Lemma existsb_quirk_bits k : existsb (N.eqb k) (map snd quirk_names) = (k <? 17)%N.
Proof.
  apply eq_iff_eq_true. rewrite existsb_eqb_In, N.ltb_lt.
  change (map snd quirk_names) with [0;1;2;3;4;5;6;7;8;9;10;11;12;13;14;15;16]%N.
  cbn [In]. lia.
Qed.

Lemma testbit_high q k : (q < 2 ^ 17)%N -> (17 <= k)%N -> N.testbit q k = false.
Proof.
  intros Hq Hk. destruct (N.eq_dec q 0) as [->|Hne]; [apply (N.bits_0 k)|].
  apply N.bits_above_log2. apply N.lt_le_trans with 17%N; [|exact Hk].
  apply N.log2_lt_pow2; [lia | exact Hq].
Qed.

Lemma mask_of_selected q : (q < 2 ^ 17)%N ->
  mask_of (map snd (filter (fun nk : text * N => hasq (snd nk) q) quirk_names)) = q.
Proof.
  intro Hq. apply N.bits_inj. intro k.
  rewrite testbit_mask_of.
  rewrite (existsb_filter_snd (fun j => hasq j q) k quirk_names), existsb_quirk_bits.
  unfold hasq. destruct (N.ltb_spec k 17) as [Hlt|Hge]; cbn [andb]; [reflexivity|].
  symmetry. apply testbit_high; assumption.
Qed.

Theorem parse_dump_quirks : forall q ver,
  (q < 2 ^ 17)%N -> N.land q (invalid_for ver) = 0%N -> parse_quirks (dump_quirks q) ver = Ok q.
Proof.
  intros q ver Hq Hinv. unfold parse_quirks, dump_quirks. rewrite str_comma.
  pose proof (mask_of_selected q Hq) as Hmask.
  set (L := filter (fun nk : text * N => hasq (snd nk) q) quirk_names) in *.
  assert (HL : forall nk, In nk L -> In nk quirk_names /\ hasq (snd nk) q = true).
  { intros nk Hin. unfold L in Hin. apply filter_In in Hin. exact Hin. }
  destruct L as [|a L'] eqn:EL.
  { cbn [map join]. cbn [map mask_of] in Hmask. subst q. reflexivity. }
  rewrite <- EL in *.
  assert (Hne : join [44] (map fst L) <> []).
  { rewrite EL. cbn [map]. apply join_nonempty.
    apply (quirk_names_ok a). apply HL. rewrite EL. left. reflexivity. }
  destruct (join [44] (map fst L)) as [|c t] eqn:J; [congruence|].
  rewrite <- J. rewrite split_join.
  - rewrite parse_quirk_list_names.
    + rewrite Hmask, N.lor_0_l. reflexivity.
    + apply Forall_forall. intros nk Hin. destruct (HL nk Hin) as [Hq1 Hq2]. split.
      * apply quirk_names_ok. exact Hq1.
      * assert (Hb : N.testbit (N.land q (invalid_for ver)) (snd nk) = false)
          by (rewrite Hinv; apply (N.bits_0 (snd nk))).
        rewrite N.land_spec in Hb. unfold hasq in *. rewrite Hq2 in Hb. exact Hb.
  - rewrite EL. discriminate.
  - apply Forall_map. apply Forall_forall. intros nk Hin.
    apply quirk_names_ok. apply HL. exact Hin.
Qed.

Print Assumptions parse_dump_layout.
Print Assumptions parse_dump_quirks.
