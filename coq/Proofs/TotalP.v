(* C04 for packets: the dissector model and the three packet fingerprint models only ever answer
   with a result, PacketError, or (unloaded database) DatabaseError. *)
From Coq Require Import Lia.
From PV Require Import Model.Prelude Model.Bits Model.Sig Model.Select Model.Options Model.Wire Model.Mtu Model.Uptime
  Proofs.OptionsP.

Theorem parse_datagram_total v b r :
  parse_datagram v b = Framed r -> (exists k, r = Ok k) \/ r = Err PacketError.
Proof.
  unfold parse_datagram. destruct (if v =? 4 then ip4 b else ip6 b) as [ip|]; [|discriminate].
  destruct (negb (i_proto ip =? 6) || negb (i_fragoff ip =? 0)).
  - intros H; inversion H; subst. right; reflexivity.
  - destruct (tcp_seg (i_payload ip)) as [[t|e]|] eqn:T; try discriminate.
    + intros H; inversion H; subst. left; eexists; reflexivity.
    + exfalso. unfold tcp_seg in T.
      repeat match type of T with
             | match ?l with [] => None | _ :: _ => _ end = _ => destruct l; [discriminate|]
             end.
      match type of T with (if ?c then None else _) = _ => destruct c; [discriminate|] end.
      cbv zeta in T.
      match type of T with Some (match parse_options ?buf ?syn with _ => _ end) = _ =>
        destruct (parse_options_total buf syn) as [o Ho]; rewrite Ho in T end.
      discriminate.
Qed.

Theorem fp_tcp_total md db frag ty p :
  (exists r, fp_tcp md db frag ty p = Ok r) \/ fp_tcp md db frag ty p = Err PacketError \/ fp_tcp md db frag ty p = Err DatabaseError.
Proof.
  unfold fp_tcp. destruct (negb (valid_tcp_fp frag ty)); [right; left; reflexivity|].
  destruct (if ty =? fSYN then db_req db else db_resp db); [left; eexists; reflexivity | right; right; reflexivity].
Qed.

Theorem fp_mtu_total db frag ty ver mss :
  (exists r, fp_mtu db frag ty ver mss = Ok r) \/ fp_mtu db frag ty ver mss = Err PacketError \/ fp_mtu db frag ty ver mss = Err DatabaseError.
Proof.
  unfold fp_mtu. destruct (negb (valid_mtu_fp frag ty mss)); [right; left; reflexivity|].
  destruct db; [left; eexists; reflexivity | right; right; reflexivity].
Qed.

Theorem uptime_total o frag ty ts last ms :
  (exists r, uptime o frag ty ts last ms = Ok r) \/ uptime o frag ty ts last ms = Err PacketError.
Proof.
  unfold uptime. destruct (negb (valid_uptime frag ty)); [right; reflexivity|]. left.
  destruct ((ts =? 0) || (last =? 0)); [eexists; reflexivity|].
  match goal with |- exists r, (if ?c then _ else _) = _ => destruct c; [eexists; reflexivity|] end.
  cbv zeta. match goal with |- exists r, (if ?c then _ else _) = _ => destruct c; eexists; reflexivity end.
Qed.
