From Coq Require Import Lia.
From PV Require Import Model.Prelude Model.Bits Model.Sig Model.Matcher Model.Select
  Spec.C01 Spec.C02 Proofs.BitsP Proofs.MatcherP.

Definition finish (generic fuzzy : option tmatch) : option tmatch :=
  match generic with
  | Some g => Some g
  | None => match fuzzy with
            | Some (t, r) => if r_userapp r then None else Some (t, r)
            | None => None
            end
  end.

(* generalised statement with the accumulators *)
Lemma find_loop_spec md p recs fuzzy generic :
  find_loop md p recs fuzzy generic =
  match find (fun r => exact_b md p r && negb (r_generic r)) recs with
  | Some r => Some (Exact, r)
  | None =>
      finish (first_some generic (option_map (fun r => (Exact, r)) (find (fun r => exact_b md p r) recs)))
             (first_some fuzzy (option_map (fun r => (mtype_of md p r, r)) (find (fuzzy_b md p) recs)))
  end.
Proof.
  revert fuzzy generic. induction recs as [|r rest IH]; intros fuzzy generic; cbn [find_loop find].
  - unfold finish, first_some, option_map. destruct generic; [reflexivity|]. destruct fuzzy; reflexivity.
  - cbv beta.
    assert (exact_b md p r = match tcp_match md (r_sig r) p with Some Exact => true | _ => false end) as EE by reflexivity.
    assert (fuzzy_b md p r = match tcp_match md (r_sig r) p with Some FuzzyTTL | Some FuzzyQuirks => true | _ => false end) as EF by reflexivity.
    assert (mtype_of md p r = match tcp_match md (r_sig r) p with Some t => t | None => Exact end) as EM by reflexivity.
    destruct (tcp_match md (r_sig r) p) as [[| |]|] eqn:M; rewrite EE, ?EF, ?EM; cbn [andb negb].
    + destruct (r_generic r); cbn [negb].
      * rewrite IH. destruct (find (fun r0 => exact_b md p r0 && negb (r_generic r0)) rest); [reflexivity|].
        destruct generic; cbn [first_some option_map]; reflexivity.
      * reflexivity.
    + rewrite IH. destruct (find (fun r0 => exact_b md p r0 && negb (r_generic r0)) rest); [reflexivity|].
      destruct fuzzy; cbn [first_some option_map]; rewrite ?EM; reflexivity.
    + rewrite IH. destruct (find (fun r0 => exact_b md p r0 && negb (r_generic r0)) rest); [reflexivity|].
      destruct fuzzy; cbn [first_some option_map]; rewrite ?EM; reflexivity.
    + apply IH.
Qed.

Theorem find_tcp_match_spec md recs p : find_tcp_match md recs p = select_spec md recs p.
Proof.
  unfold find_tcp_match, select_spec. rewrite find_loop_spec.
  destruct (find (fun r => exact_b md p r && negb (r_generic r)) recs); [reflexivity|].
  cbn [first_some]. destruct (find (fun r => exact_b md p r) recs); cbn [option_map finish]; [reflexivity|].
  destruct (find (fuzzy_b md p) recs); cbn [option_map finish]; reflexivity.
Qed.

(* every returned record is in the list, matches with the reported type *)
Lemma select_spec_sound md recs p t r :
  select_spec md recs p = Some (t, r) -> In r recs /\ tcp_match md (r_sig r) p = Some t.
Proof.
  unfold select_spec.
  destruct (find (fun r => exact_b md p r && negb (r_generic r)) recs) as [r1|] eqn:F1.
  - intros H; inversion H; subst. apply find_some in F1. destruct F1 as [Hin Hb].
    apply andb_true_iff in Hb. destruct Hb as [Hb _]. unfold exact_b in Hb.
    destruct (tcp_match md (r_sig r) p) as [[| |]|]; try discriminate. auto.
  - destruct (find (fun r => exact_b md p r) recs) as [r2|] eqn:F2.
    + intros H; inversion H; subst. apply find_some in F2. destruct F2 as [Hin Hb]. unfold exact_b in Hb.
      destruct (tcp_match md (r_sig r) p) as [[| |]|]; try discriminate. auto.
    + destruct (find (fuzzy_b md p) recs) as [r3|] eqn:F3; [|discriminate].
      destruct (r_userapp r3); [discriminate|]. intros H; inversion H; subst.
      apply find_some in F3. destruct F3 as [Hin Hb]. unfold fuzzy_b, mtype_of in *.
      destruct (tcp_match md (r_sig r) p) as [[| |]|]; try discriminate; auto.
Qed.

Lemma guess_distance_range ttl : 0 <= ttl <= 255 -> 0 <= guess_distance ttl <= 255.
Proof.
  intros H. unfold guess_distance.
  destruct (ttl <=? 32) eqn:E1; [apply Z.leb_le in E1; lia | apply Z.leb_gt in E1].
  destruct (ttl <=? 64) eqn:E2; [apply Z.leb_le in E2; lia | apply Z.leb_gt in E2].
  destruct (ttl <=? 128) eqn:E3; [apply Z.leb_le in E3; lia | apply Z.leb_gt in E3]. lia.
Qed.

Theorem distance_range md recs p :
  0 <= md -> 0 <= p_ttl p <= 255 -> (forall r, In r recs -> wf_sig (r_sig r)) ->
  let m := find_tcp_match md recs p in
  0 <= distance m p <= 255 /\
  match m with
  | Some (FuzzyTTL, _) | None => distance m p = guess_distance (p_ttl p)
  | Some (_, r) => distance m p = s_ttl (r_sig r) - p_ttl p
  end.
Proof.
  intros Hmd Hp Hwf m. subst m. rewrite find_tcp_match_spec.
  destruct (select_spec md recs p) as [[t r]|] eqn:S.
  - apply select_spec_sound in S. destruct S as [Hin M].
    pose proof (Hwf r Hin) as W. destruct W as (_ & Httl & _).
    destruct t; cbn [distance].
    + pose proof (tcp_match_type md (r_sig r) p Exact M) as (HE & _ & _).
      destruct (proj1 HE eq_refl) as [_ HT]. split; [|reflexivity].
      destruct HT as [Hb|Hr]; [|lia].
      assert (tcp_match md (r_sig r) p <> None) as Hn by congruence.
      assert (TtlAdmits (r_sig r) p) as Ha.
      { rewrite tcp_match_nf in Hn. destruct (all_b (r_sig r) p) eqn:A; [|congruence].
        unfold all_b in A. repeat (apply andb_true_iff in A; destruct A as [A ?]).
        apply ttl_b_spec. assumption. }
      specialize (Ha Hb). lia.
    + split; [apply guess_distance_range; exact Hp | reflexivity].
    + pose proof (tcp_match_type md (r_sig r) p FuzzyQuirks M) as (_ & _ & HQ).
      destruct (proj1 HQ eq_refl) as [HT _]. split; [|reflexivity].
      destruct HT as [Hb|Hr]; [|lia].
      assert (tcp_match md (r_sig r) p <> None) as Hn by congruence.
      assert (TtlAdmits (r_sig r) p) as Ha.
      { rewrite tcp_match_nf in Hn. destruct (all_b (r_sig r) p) eqn:A; [|congruence].
        unfold all_b in A. repeat (apply andb_true_iff in A; destruct A as [A ?]).
        apply ttl_b_spec. assumption. }
      specialize (Ha Hb). lia.
  - cbn [distance]. split; [apply guess_distance_range; exact Hp | reflexivity].
Qed.

(* direction: only the list of the packet's direction is consulted *)
Theorem fp_tcp_direction md req resp req' resp' frag p :
  fp_tcp md {| db_req := req; db_resp := resp |} frag fSYN p = fp_tcp md {| db_req := req; db_resp := resp' |} frag fSYN p /\
  fp_tcp md {| db_req := req; db_resp := resp |} frag (fSYN + fACK) p = fp_tcp md {| db_req := req'; db_resp := resp |} frag (fSYN + fACK) p.
Proof. split; reflexivity. Qed.

Theorem fp_tcp_gate md db frag ty p : 0 <= ty < 32 ->
  (fp_tcp md db frag ty p <> Err PacketError <-> frag = false /\ (ty = fSYN \/ ty = fSYN + fACK)).
Proof.
  intros Hty. unfold fp_tcp.
  assert (valid_tcp_fp frag ty = true <-> frag = false /\ (ty = fSYN \/ ty = fSYN + fACK)) as V.
  { unfold valid_tcp_fp, should_fp. rewrite andb_true_iff, orb_true_iff, !Z.eqb_eq. split.
    - intros [H1 H2]. split; [|exact H2]. destruct frag; [discriminate|reflexivity].
    - intros [-> H2]. split; [|exact H2]. destruct H2 as [->| ->]; reflexivity. }
  destruct (valid_tcp_fp frag ty) eqn:E; cbn [negb].
  - split; [intros _; apply V; reflexivity|]. intros _.
    destruct (if ty =? fSYN then db_req db else db_resp db); discriminate.
  - split; [congruence|]. intros H. apply V in H. discriminate.
Qed.

Theorem fp_tcp_unloaded md frag ty p :
  valid_tcp_fp frag ty = true -> fp_tcp md {| db_req := None; db_resp := None |} frag ty p = Err DatabaseError.
Proof. intros V. unfold fp_tcp. rewrite V. cbn. destruct (ty =? fSYN); reflexivity. Qed.
