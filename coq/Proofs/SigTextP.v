(* Properties C09 / C18: a printable TCP signature parses back from its text, and the signature
   written from a packet's own fields matches that packet exactly. *)
From Coq Require Import Lia String.
From PV Require Import Model.Prelude Model.Bits Model.Sig Model.Matcher Model.Text Model.SigParse Model.DbParse Model.Dump
  Spec.C01 Proofs.BitsP Proofs.MatcherP Proofs.TextP Proofs.DumpP.

(* signatures that have a text: documented ranges, quirks legal for the version, EOL padding only with an EOL *)
Definition printable (s : tcp_sig) : Prop :=
  wf_sig s /\ Forall (fun k => 0 <= k <= 255) (s_layout s) /\
  (s_quirks s < 2 ^ 17)%N /\ N.land (s_quirks s) (invalid_for (s_ver s)) = 0%N /\
  (existsb (Z.eqb 0) (s_layout s) = false -> s_eol_pad s = 0).

(* ---------- literal strings ---------- *)

Lemma str_colon : str ":" = [58]. Proof. vm_compute. reflexivity. Qed.
Lemma str_star : str "*" = [42]. Proof. vm_compute. reflexivity. Qed.
Lemma str_dash : str "-" = [45]. Proof. vm_compute. reflexivity. Qed.
Lemma str_pct : str "%" = [37]. Proof. vm_compute. reflexivity. Qed.
Lemma str_mss : str "mss*" = [109; 115; 115; 42]. Proof. vm_compute. reflexivity. Qed.
Lemma str_mtu : str "mtu*" = [109; 116; 117; 42]. Proof. vm_compute. reflexivity. Qed.

(* ---------- split_max on colon-free pieces (as in LabelsP) ---------- *)

Lemma st_mem_cons_false sep c (x : text) :
  mem sep (c :: x) = false -> (c =? sep) = false /\ mem sep x = false.
Proof.
  unfold mem. cbn [existsb]. intro H. apply orb_false_iff in H. destruct H as [Hc Hx].
  rewrite Z.eqb_sym. split; assumption.
Qed.

Lemma st_split_max_app_sep sep n x rest :
  mem sep x = false -> split_max sep (S n) (x ++ sep :: rest) = x :: split_max sep n rest.
Proof.
  induction x as [|c x IH]; intro H.
  - cbn [app split_max]. rewrite Z.eqb_refl. reflexivity.
  - apply st_mem_cons_false in H. destruct H as [Hc Hx].
    cbn [app]. cbn [split_max]. rewrite Hc.
    rewrite (IH Hx). reflexivity.
Qed.

Lemma st_split_max_free sep n x : mem sep x = false -> split_max sep (S n) x = [x].
Proof.
  induction x as [|c x IH]; intro H; [reflexivity|].
  apply st_mem_cons_false in H. destruct H as [Hc Hx].
  cbn [split_max]. rewrite Hc.
  rewrite (IH Hx). reflexivity.
Qed.

Lemma split_parts_8 (a b c d e f g h : text) :
  mem 58 a = false -> mem 58 b = false -> mem 58 c = false -> mem 58 d = false ->
  mem 58 e = false -> mem 58 f = false -> mem 58 g = false -> mem 58 h = false ->
  split_parts (join [58] [a; b; c; d; e; f; g; h]) 8 58 = [a; b; c; d; e; f; g; h].
Proof.
  intros Ha Hb Hc Hd He Hf Hg Hh. unfold split_parts.
  cbn [join]. cbn [app].
  rewrite (st_split_max_app_sep 58 7 a _ Ha).
  rewrite (st_split_max_app_sep 58 6 b _ Hb).
  rewrite (st_split_max_app_sep 58 5 c _ Hc).
  rewrite (st_split_max_app_sep 58 4 d _ Hd).
  rewrite (st_split_max_app_sep 58 3 e _ He).
  rewrite (st_split_max_app_sep 58 2 f _ Hf).
  rewrite (st_split_max_app_sep 58 1 g _ Hg).
  rewrite (st_split_max_free 58 0 h Hh).
  reflexivity.
Qed.

(* ---------- characters of the printed fields ---------- *)

Lemma mem_dec_nondigit c n : 0 <= n -> ~ (48 <= c <= 57) -> mem c (dec n) = false.
Proof.
  intros Hn Hc. destruct (mem c (dec n)) eqn:E; [|reflexivity].
  apply dec_digits_only in E; [contradiction | exact Hn].
Qed.

Lemma mem_join c sep (l : list text) :
  mem c sep = false -> Forall (fun p => mem c p = false) l -> mem c (join sep l) = false.
Proof.
  intros Hs H. induction H as [|x l Hx Hl IH]; [reflexivity|].
  destruct l as [|y l]; [exact Hx|].
  change (join sep (x :: y :: l)) with (x ++ sep ++ join sep (y :: l)).
  rewrite !mem_app, Hx, Hs, IH. reflexivity.
Qed.

Lemma print_wild_colon v : v = -1 \/ 0 <= v -> mem 58 (print_wild v) = false.
Proof.
  intros [->|Hv]; [reflexivity|]. unfold print_wild.
  destruct (v =? -1) eqn:E; [lia|]. apply mem_dec_nondigit; lia.
Qed.

Lemma dump_option_colon pad k : 0 <= k -> 0 <= pad -> mem 58 (dump_option pad k) = false.
Proof.
  intros Hk Hp. unfold dump_option.
  destruct (k =? 0). { rewrite str_eol, mem_app, mem_dec_nondigit by lia. reflexivity. }
  destruct (k =? 1); [reflexivity|].
  destruct (k =? 2); [reflexivity|].
  destruct (k =? 3); [reflexivity|].
  destruct (k =? 4); [reflexivity|].
  destruct (k =? 5); [reflexivity|].
  destruct (k =? 8); [reflexivity|].
  rewrite str_q, mem_app, mem_dec_nondigit by lia. reflexivity.
Qed.

Lemma dump_layout_colon l pad :
  Forall (fun k => 0 <= k <= 255) l -> 0 <= pad -> mem 58 (dump_layout l pad) = false.
Proof.
  intros Hl Hp. unfold dump_layout. apply mem_join; [reflexivity|].
  apply Forall_map. eapply Forall_impl; [|exact Hl]. intros k Hk. cbv beta in Hk.
  apply dump_option_colon; lia.
Qed.

Lemma quirk_names_colon : Forall (fun nk : text * N => mem 58 (fst nk) = false) quirk_names.
Proof.
  apply Forall_forall.
  assert (H : forallb (fun nk : text * N => negb (mem 58 (fst nk))) quirk_names = true)
    by (vm_compute; reflexivity).
  rewrite forallb_forall in H. intros nk Hin. apply negb_true_iff. apply H. exact Hin.
Qed.

Lemma dump_quirks_colon q : mem 58 (dump_quirks q) = false.
Proof.
  unfold dump_quirks. apply mem_join; [reflexivity|].
  apply Forall_map. apply Forall_forall. intros nk Hin.
  apply filter_In in Hin. destruct Hin as [Hin _].
  pose proof quirk_names_colon as H. rewrite Forall_forall in H. apply H. exact Hin.
Qed.

(* ---------- numbers ---------- *)

Lemma dec_not_star n : 0 <= n -> text_eqb (dec n) (str "*") = false.
Proof.
  intro Hn. destruct (text_eqb (dec n) (str "*")) eqn:E; [|reflexivity].
  apply text_eqb_eq in E. rewrite str_star in E.
  assert (Hm : mem 42 (dec n) = true) by (rewrite E; reflexivity).
  apply dec_digits_only in Hm; lia.
Qed.

Lemma num_in_range_dec_gen n lo hi w :
  0 <= n <= 65535 -> lo <= n <= hi -> num_in_range (dec n) lo hi w = Ok n.
Proof.
  intros Hn Hr. unfold num_in_range. rewrite dec_not_star by lia. rewrite andb_false_r.
  rewrite py_int_dec by (rewrite pow_10_20; lia).
  destruct (lo <=? n) eqn:E1; [|lia]. destruct (n <=? hi) eqn:E2; [|lia]. reflexivity.
Qed.

Lemma num_in_range_wild v lo hi :
  v = -1 \/ (0 <= v <= 65535 /\ lo <= v <= hi) -> num_in_range (print_wild v) lo hi true = Ok v.
Proof.
  intros [->|[Hv Hr]]; [reflexivity|]. unfold print_wild.
  destruct (v =? -1) eqn:E; [lia|]. apply num_in_range_dec_gen; assumption.
Qed.

(* ---------- version, payload class ---------- *)

Lemma parse_print_ver v : v = -1 \/ v = 4 \/ v = 6 -> parse_ip_version (print_wild v) = Ok v.
Proof. intros [->|[->| ->]]; vm_compute; reflexivity. Qed.

Lemma parse_print_pay v : v = -1 \/ v = 0 \/ v = 1 ->
  parse_payload_class (if v =? -1 then str "*" else if v =? 0 then str "0" else str "+") = Ok v.
Proof. intros [->|[->| ->]]; vm_compute; reflexivity. Qed.

(* ---------- ttl ---------- *)

Lemma ends_with_single_free c t : mem c t = false -> ends_with [c] t = false.
Proof.
  intro H. unfold ends_with. cbn [rev app].
  destruct (rev t) as [|z r] eqn:R; [reflexivity|]. cbn [starts_with].
  destruct (c =? z) eqn:E; [|reflexivity]. apply Z.eqb_eq in E. subst z.
  assert (Hin : In c t) by (apply in_rev; rewrite R; left; reflexivity).
  assert (Hm : mem c t = true).
  { unfold mem. apply existsb_exists. exists c. split; [exact Hin | apply Z.eqb_refl]. }
  congruence.
Qed.

Lemma ends_with_snoc c t : ends_with [c] (t ++ [c]) = true.
Proof.
  unfold ends_with. rewrite rev_app_distr. cbn [rev app starts_with].
  rewrite Z.eqb_refl. reflexivity.
Qed.

Lemma parse_print_ttl t (b : bool) : 1 <= t <= 255 ->
  parse_ttl (dec t ++ (if b then str "-" else [])) = Ok (t, b).
Proof.
  intro Ht. unfold parse_ttl. rewrite str_dash. destruct b.
  - rewrite ends_with_snoc, removelast_last.
    rewrite num_in_range_dec by lia. reflexivity.
  - rewrite app_nil_r.
    rewrite ends_with_single_free by (apply mem_dec_nondigit; lia).
    rewrite (mem_dec_nondigit 43) by lia.
    rewrite num_in_range_dec by lia. reflexivity.
Qed.

(* ---------- window ---------- *)

Lemma partition_on_app_sep sep x r :
  mem sep x = false -> partition_on sep (x ++ sep :: r) = (x, true, r).
Proof.
  induction x as [|c x IH]; intro H.
  - cbn [app partition_on]. rewrite Z.eqb_refl. reflexivity.
  - apply st_mem_cons_false in H. destruct H as [Hc Hx].
    cbn [app partition_on]. rewrite Hc, (IH Hx). reflexivity.
Qed.

Definition win_head (rw : text) : res (wtype * Z) :=
  if text_eqb rw (str "*") then Ok (WAny, -1)
  else if starts_with (str "mss*") rw || starts_with (str "mtu*") rw then
    do c <- index rw 1;
    do n <- num_in_range (skipn 4 rw) 1 1000 false;
    Ok (if c =? 115 then WMss else WMtu, n)
  else if starts_with (str "%") rw then
    do n <- num_in_range (tl rw) 2 65535 false; Ok (WMod, n)
  else do n <- num_in_range rw 0 65535 false; Ok (WNormal, n).

Lemma parse_window_eq f :
  parse_window f =
  (let '(rw, _, rs) := partition_on 44 f in
   do ts <- win_head rw;
   do sc <- num_in_range rs 0 255 true;
   Ok (fst ts, snd ts, sc)).
Proof. reflexivity. Qed.

Lemma win_head_star : win_head (str "*") = Ok (WAny, -1).
Proof. vm_compute. reflexivity. Qed.

Lemma win_head_pct d : win_head (str "%" ++ d) = (do n <- num_in_range d 2 65535 false; Ok (WMod, n)).
Proof. unfold win_head. rewrite str_star, str_mss, str_mtu, str_pct. reflexivity. Qed.

Lemma win_head_mss d : win_head (str "mss*" ++ d) = (do n <- num_in_range d 1 1000 false; Ok (WMss, n)).
Proof. unfold win_head. rewrite str_star, str_mss, str_mtu. reflexivity. Qed.

Lemma win_head_mtu d : win_head (str "mtu*" ++ d) = (do n <- num_in_range d 1 1000 false; Ok (WMtu, n)).
Proof. unfold win_head. rewrite str_star, str_mss, str_mtu. reflexivity. Qed.

Lemma starts_with_dec_false p0 p n : 0 <= n -> ~ (48 <= p0 <= 57) -> starts_with (p0 :: p) (dec n) = false.
Proof.
  intros Hn Hp. destruct (dec n) as [|z r] eqn:D; [reflexivity|].
  assert (Hm : mem z (dec n) = true).
  { rewrite D. unfold mem. cbn [existsb]. rewrite Z.eqb_refl. reflexivity. }
  apply dec_digits_only in Hm; [|exact Hn].
  cbn [starts_with]. destruct (p0 =? z) eqn:E; [lia | reflexivity].
Qed.

Lemma win_head_dec n : 0 <= n <= 65535 -> win_head (dec n) = Ok (WNormal, n).
Proof.
  intro Hn. unfold win_head. rewrite dec_not_star by lia.
  rewrite str_mss, str_mtu, str_pct.
  rewrite !starts_with_dec_false by lia. cbn [orb].
  rewrite num_in_range_dec_gen by lia. reflexivity.
Qed.

Lemma mem_comma_window s : wf_sig s -> mem 44 (print_window s) = false.
Proof.
  intros (_ & _ & _ & _ & _ & _ & _ & Hw). unfold print_window.
  destruct (s_wtype s).
  - apply mem_dec_nondigit; lia.
  - reflexivity.
  - rewrite str_pct, mem_app, mem_dec_nondigit by lia. reflexivity.
  - rewrite str_mss, mem_app, mem_dec_nondigit by lia. reflexivity.
  - rewrite str_mtu, mem_app, mem_dec_nondigit by lia. reflexivity.
Qed.

Lemma mem_colon_window s : wf_sig s -> mem 58 (print_window s) = false.
Proof.
  intros (_ & _ & _ & _ & _ & _ & _ & Hw). unfold print_window.
  destruct (s_wtype s).
  - apply mem_dec_nondigit; lia.
  - reflexivity.
  - rewrite str_pct, mem_app, mem_dec_nondigit by lia. reflexivity.
  - rewrite str_mss, mem_app, mem_dec_nondigit by lia. reflexivity.
  - rewrite str_mtu, mem_app, mem_dec_nondigit by lia. reflexivity.
Qed.

Lemma win_head_print s : wf_sig s -> win_head (print_window s) = Ok (s_wtype s, s_wsize s).
Proof.
  intros (_ & _ & _ & _ & _ & _ & _ & Hw). unfold print_window.
  destruct (s_wtype s).
  - apply win_head_dec. lia.
  - rewrite Hw. apply win_head_star.
  - rewrite win_head_pct, num_in_range_dec_gen by lia. reflexivity.
  - rewrite win_head_mss, num_in_range_dec_gen by lia. reflexivity.
  - rewrite win_head_mtu, num_in_range_dec_gen by lia. reflexivity.
Qed.

Lemma parse_print_window s : wf_sig s ->
  parse_window (print_window s ++ str "," ++ print_wild (s_wscale s)) = Ok (s_wtype s, s_wsize s, s_wscale s).
Proof.
  intro Hwf. rewrite parse_window_eq. rewrite str_comma. cbn [app].
  rewrite partition_on_app_sep by (apply mem_comma_window; exact Hwf).
  rewrite (win_head_print s Hwf). cbn [bind fst snd].
  destruct Hwf as (_ & _ & _ & _ & Hsc & _).
  rewrite num_in_range_wild by lia. reflexivity.
Qed.

(* ---------- assembling ---------- *)

Theorem parse_print_tcp_sig : forall s, printable s -> parse_tcp_sig (print_tcp_sig s) = Ok s.
Proof.
  intros s (Hwf & Hlay & Hq & Hinv & Hpad).
  pose proof Hwf as (Hver & Httl & Holen & Hmss & Hsc & Hpay & Heol & Hw).
  unfold parse_tcp_sig, print_tcp_sig. rewrite str_colon.
  rewrite split_parts_8.
  - cbv zeta. unfold part. cbn [nth].
    rewrite (parse_print_ver _ Hver). cbn [bind].
    rewrite (parse_print_ttl _ _ Httl). cbn [bind].
    rewrite num_in_range_wild by lia. cbn [bind].
    rewrite (parse_dump_layout _ _ Hlay Heol). cbn [bind].
    rewrite num_in_range_dec_gen by lia. cbn [bind].
    rewrite (parse_print_window s Hwf). cbn [bind].
    rewrite (parse_print_pay _ Hpay). cbn [bind].
    rewrite (parse_dump_quirks _ _ Hq Hinv). cbn [bind fst snd].
    destruct s as [ver olen ttl bad wt wsize wscale lay mss pad pay q].
    cbn [s_ver s_olen s_ttl s_bad_ttl s_wtype s_wsize s_wscale s_layout s_mss s_eol_pad s_pay s_quirks] in *.
    destruct (existsb (Z.eqb 0) lay) eqn:E; [reflexivity|].
    rewrite (Hpad eq_refl). reflexivity.
  - apply print_wild_colon. lia.
  - rewrite mem_app, mem_dec_nondigit by lia. destruct (s_bad_ttl s); reflexivity.
  - apply mem_dec_nondigit; lia.
  - apply print_wild_colon. lia.
  - rewrite !mem_app, (mem_colon_window s Hwf), print_wild_colon by lia. reflexivity.
  - apply dump_layout_colon; [exact Hlay | lia].
  - apply dump_quirks_colon.
  - destruct (s_pay s =? -1); [reflexivity|]. destruct (s_pay s =? 0); reflexivity.
Qed.

Theorem written_signature_matches : forall p md,
  (p_ver p = 4 \/ p_ver p = 6) -> 1 <= p_ttl p <= 255 -> 0 <= p_olen p <= 255 -> 0 <= p_mss p <= 65535 ->
  0 <= p_ws p <= 255 -> 0 <= p_win p <= 65535 -> 0 <= p_eol_pad p <= 255 ->
  Forall (fun k => 0 <= k <= 255) (p_layout p) ->
  (existsb (Z.eqb 0) (p_layout p) = false -> p_eol_pad p = 0) ->
  (p_quirks p < 2 ^ 17)%N -> N.land (p_quirks p) (invalid_for (p_ver p)) = 0%N -> 0 <= md ->
  parse_tcp_sig (print_tcp_sig (sig_of_pkt p)) = Ok (sig_of_pkt p) /\
  tcp_match md (sig_of_pkt p) p = Some Exact.
Proof.
  intros p md Hver Httl Holen Hmss Hws Hwin Heol Hlay Hpad Hq Hinv Hmd. split.
  - apply parse_print_tcp_sig. unfold printable, wf_sig, sig_of_pkt.
    cbn [s_ver s_olen s_ttl s_bad_ttl s_wtype s_wsize s_wscale s_layout s_mss s_eol_pad s_pay s_quirks].
    repeat split; try assumption; try lia.
    right. destruct (p_payload p); cbn [b2z]; lia.
  - unfold tcp_match, sq_of, sig_of_pkt.
    cbn [s_ver s_olen s_ttl s_bad_ttl s_wtype s_wsize s_wscale s_layout s_mss s_eol_pad s_pay s_quirks].
    rewrite list_eqb_refl. cbn [negb].
    rewrite !Z.eqb_refl. cbn [negb andb orb].
    destruct (p_ver p =? -1) eqn:E; [lia|].
    cbv zeta. rewrite N.eqb_refl. cbn [negb andb orb].
    rewrite Z.ltb_irrefl. cbn [orb].
    rewrite Z.sub_diag.
    destruct (0 >? md) eqn:E2; [lia|].
    rewrite !andb_false_r. cbn [orb negb]. reflexivity.
Qed.

Print Assumptions parse_print_tcp_sig.
Print Assumptions written_signature_matches.
