(* Whole-packet extraction: the composition of the header theorems (C03). *)
From Coq Require Import Lia.
From PV Require Import Model.Prelude Model.Bits Model.Sig Model.Select Model.Options Model.Wire
  Proofs.BitsP Spec.C03 Proofs.WireP Proofs.OptionsP.

Definition SigFields (p : pkt_sig) (ver olen ttl : Z) (th : tcp_hdr) (o : topts) (hlen : Z) (payload : list Z) (syn_mss : Z) : Prop :=
  p_ver p = ver /\ p_olen p = olen /\ p_ttl p = ttl /\ p_win p = th_win th /\ p_layout p = o_layout o /\
  p_mss p = o_mss o /\ p_ws p = o_ws o /\ p_ts1 p = o_ts1 o /\ p_eol_pad p = o_eol o /\ p_hdrlen p = hlen /\
  p_payload p = (match payload with [] => false | _ => true end) /\
  p_syn_mss p = (if type_of_hdr th =? fSYN + fACK then syn_mss else 0).

Theorem extract4 h th payload o syn_mss :
  wf_ip4 h (enc_tcp th payload) -> h4_proto h = 6 -> h4_off h = 0 -> wf_tcp th ->
  parse_options (th_opts th) (type_of_hdr th =? fSYN) = Ok o ->
  exists k, parse_datagram 4 (enc_ip4 h (enc_tcp th payload)) = Framed (Ok k) /\
    i_frag (k_ip k) = h4_mf h /\ t_type (k_tcp k) = type_of_hdr th /\
    t_sport (k_tcp k) = th_sport th /\ t_dport (k_tcp k) = th_dport th /\ t_seq (k_tcp k) = th_seq th /\
    SigFields (sig_of k syn_mss) 4 (len (h4_opts h)) (h4_ttl h) th o (20 + len (h4_opts h) + (20 + len (th_opts th))) payload syn_mss /\
    forall q, hasq q (p_quirks (sig_of k syn_mss)) = ip4_quirk h q || (tcp_quirk th q || hasq q (o_quirks o)).
Proof.
  intros W4 Hp Ho Wt Po.
  destruct (ip4_enc h (enc_tcp th payload) W4) as (q4 & E4 & Q4).
  destruct (tcp_enc th payload o Wt Po) as (qt & Et & Qt).
  eexists. split.
  { unfold parse_datagram. cbn [Z.eqb Pos.eqb]. rewrite E4. cbn [i_proto i_fragoff i_payload].
    rewrite Hp, Ho. cbn [Z.eqb Pos.eqb negb orb]. rewrite Et. reflexivity. }
  cbn [k_ip k_tcp i_frag t_type t_sport t_dport t_seq].
  rewrite ?orb_false_r.
  repeat split; try reflexivity.
  intros q. unfold sig_of. cbn [p_quirks k_ip k_tcp i_q t_q]. unfold hasq in *. rewrite N.lor_spec.
  rewrite (Q4 q), (Qt q). reflexivity.
Qed.

Theorem extract6 h th payload o syn_mss :
  wf_ip6 h (enc_tcp th payload) -> h6_nh h = 6 -> wf_tcp th ->
  parse_options (th_opts th) (type_of_hdr th =? fSYN) = Ok o ->
  exists k, parse_datagram 6 (enc_ip6 h (enc_tcp th payload)) = Framed (Ok k) /\
    i_frag (k_ip k) = false /\ t_type (k_tcp k) = type_of_hdr th /\
    t_sport (k_tcp k) = th_sport th /\ t_dport (k_tcp k) = th_dport th /\ t_seq (k_tcp k) = th_seq th /\
    SigFields (sig_of k syn_mss) 6 0 (h6_hlim h) th o (40 + (20 + len (th_opts th))) payload syn_mss /\
    forall q, hasq q (p_quirks (sig_of k syn_mss)) = ip6_quirk h q || (tcp_quirk th q || hasq q (o_quirks o)).
Proof.
  intros W6 Hp Wt Po.
  destruct (ip6_enc h (enc_tcp th payload) W6) as (q6 & E6 & Q6).
  destruct (tcp_enc th payload o Wt Po) as (qt & Et & Qt).
  eexists. split.
  { unfold parse_datagram. cbn [Z.eqb Pos.eqb]. rewrite E6. cbn [i_proto i_fragoff i_payload].
    rewrite Hp. cbn [Z.eqb Pos.eqb negb orb]. rewrite Et. reflexivity. }
  cbn [k_ip k_tcp i_frag t_type t_sport t_dport t_seq].
  repeat split; try reflexivity.
  intros q. unfold sig_of. cbn [p_quirks k_ip k_tcp i_q t_q]. unfold hasq in *. rewrite N.lor_spec.
  rewrite (Q6 q), (Qt q). reflexivity.
Qed.

(* The option quirks of a well-formed area, in the documented wording. *)
Theorem option_quirks_documented l t syn k :
  Forall wf_opt l ->
  hasq k (w_q (expected syn l t w0)) = true ->
  (k = qEXWS /\ exists v, In (WWs v) l /\ v > 14) \/
  (k = qZTS1 /\ exists b, In (WTs 0 b) l) \/
  (k = qNZTS2 /\ syn = true /\ exists a b, In (WTs a b) l /\ b <> 0) \/
  (k = qEOLNZ /\ exists pad, t = Some pad /\ all_zero pad = false).
Proof.
  intros _. unfold expected.
  assert (forall s, (forall k, hasq k (w_q s) = true -> False) ->
            hasq k (w_q (apply_tail t s)) = true -> k = qEOLNZ /\ exists pad, t = Some pad /\ all_zero pad = false) as Htail.
  { intros s Hs. destruct t as [pad|]; cbn [apply_tail]; [|intros H; destruct (Hs _ H)].
    destruct (all_zero pad) eqn:A; cbn [w_set_eol w_push w_quirk w_q].
    - intros H; destruct (Hs _ H).
    - rewrite hasq_setq. intros H. apply orb_true_iff in H. destruct H as [H|H]; [destruct (Hs _ H)|].
      apply N.eqb_eq in H. split; [exact H|]. exists pad. auto. }
  set (P := fun (s : wst) (l : list wopt) => forall k, hasq k (w_q s) = true ->
    (k = qEXWS /\ exists v, In (WWs v) l /\ v > 14) \/
    (k = qZTS1 /\ exists b, In (WTs 0 b) l) \/
    (k = qNZTS2 /\ syn = true /\ exists a b, In (WTs a b) l /\ b <> 0)).
  assert (forall l2 l1 s, P s l1 -> P (fold_left (fun s o => apply_opt syn o s) l2 s) (l1 ++ l2)) as Hfold.
  { induction l2 as [|o l2 IH]; intros l1 s Hs; cbn [fold_left].
    - rewrite app_nil_r. exact Hs.
    - replace (l1 ++ o :: l2) with ((l1 ++ [o]) ++ l2) by (rewrite <- app_assoc; reflexivity).
      apply IH. intros k' Hk'.
      assert (forall k0, hasq k0 (w_q s) = true ->
        (k0 = qEXWS /\ (exists v, In (WWs v) (l1 ++ [o]) /\ v > 14)) \/
        (k0 = qZTS1 /\ (exists b, In (WTs 0 b) (l1 ++ [o]))) \/
        (k0 = qNZTS2 /\ syn = true /\ (exists a b, In (WTs a b) (l1 ++ [o]) /\ b <> 0))) as Hold.
      { intros k0 H0. destruct (Hs k0 H0) as [[E (v & Hin & Hv)]|[[E (b & Hin)]|[E [Es (a & b & Hin & Hb)]]]].
        - left. split; [exact E|]. exists v. split; [apply in_or_app; left; exact Hin | exact Hv].
        - right; left. split; [exact E|]. exists b. apply in_or_app; left; exact Hin.
        - right; right. split; [exact E|]. split; [exact Es|]. exists a, b. split; [apply in_or_app; left; exact Hin | exact Hb]. }
      destruct o as [|v|v| |a b|body|kk body]; cbn [apply_opt kind_of w_push w_set_mss w_set_ws w_set_ts w_quirk w_q] in Hk'; try (apply Hold; exact Hk').
      + destruct (v >? 14) eqn:E; cbn [w_quirk w_set_ws w_push w_q] in Hk'; [|apply Hold; exact Hk'].
        rewrite hasq_setq in Hk'. apply orb_true_iff in Hk'. destruct Hk' as [H|H]; [apply Hold; exact H|].
        apply N.eqb_eq in H. left. split; [exact H|]. exists v. split; [apply in_or_app; right; left; reflexivity|].
        apply Z.gtb_lt in E. lia.
      + destruct (a =? 0) eqn:Ea; destruct (negb (b =? 0) && syn) eqn:Eb; cbn [w_quirk w_set_ts w_push w_q] in Hk';
          rewrite ?hasq_setq in Hk'.
        * apply orb_true_iff in Hk'. destruct Hk' as [H|H].
          -- apply orb_true_iff in H. destruct H as [H|H]; [apply Hold; exact H|].
             apply N.eqb_eq in H. apply Z.eqb_eq in Ea. subst a. right; left. split; [exact H|]. exists b.
             apply in_or_app; right; left; reflexivity.
          -- apply N.eqb_eq in H. apply andb_true_iff in Eb. destruct Eb as [Eb1 Eb2].
             right; right. split; [exact H|]. split; [exact Eb2|]. exists a, b.
             split; [apply in_or_app; right; left; reflexivity|]. apply negb_true_iff in Eb1. apply Z.eqb_neq in Eb1. exact Eb1.
        * apply orb_true_iff in Hk'. destruct Hk' as [H|H]; [apply Hold; exact H|].
          apply N.eqb_eq in H. apply Z.eqb_eq in Ea. subst a. right; left. split; [exact H|]. exists b.
          apply in_or_app; right; left; reflexivity.
        * apply orb_true_iff in Hk'. destruct Hk' as [H|H]; [apply Hold; exact H|].
          apply N.eqb_eq in H. apply andb_true_iff in Eb. destruct Eb as [Eb1 Eb2].
          right; right. split; [exact H|]. split; [exact Eb2|]. exists a, b.
          split; [apply in_or_app; right; left; reflexivity|]. apply negb_true_iff in Eb1. apply Z.eqb_neq in Eb1. exact Eb1.
        * apply Hold; exact Hk'. }
  intros Hk.
  assert (P (fold_left (fun s o => apply_opt syn o s) l w0) l) as HP.
  { apply (Hfold l [] w0). intros k0 H0. cbn [w0 w_q] in H0. rewrite hasq_0 in H0. discriminate. }
  destruct (hasq k (w_q (fold_left (fun s o => apply_opt syn o s) l w0))) eqn:Hin.
  - destruct (HP k Hin) as [H|[H|H]]; [left|right;left|right;right;left]; exact H.
  - right; right; right.
    destruct t as [pad|]; cbn [apply_tail] in Hk; [|rewrite Hin in Hk; discriminate].
    destruct (all_zero pad) eqn:A; cbn [w_set_eol w_push w_quirk w_q] in Hk.
    + rewrite Hin in Hk; discriminate.
    + rewrite hasq_setq, Hin in Hk. cbn [orb] in Hk. apply N.eqb_eq in Hk. split; [exact Hk|]. exists pad. auto.
Qed.
