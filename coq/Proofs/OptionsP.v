(* C03 / C04: the TCP option walker of Model/Options.v inverts the encoders of Spec/C03.v. *)
From Coq Require Import Lia.
From PV Require Import Model.Prelude Model.Bits Model.Options Proofs.BitsP Spec.C03.

Ltac Zify.zify_post_hook ::= Z.to_euclidean_division_equations.

(* ------------------------------------------------------------------ *)
(* One loop iteration as a non-recursive step function.                *)
(* ------------------------------------------------------------------ *)
Inductive sres := Done (s : wst) | Cont (next : list Z) (s : wst).

Definition step (kind : Z) (rest : list Z) (is_syn : bool) (s0 : wst) : sres :=
  if kind =? 0 then
    Done (if all_zero rest then w_set_eol (len rest) (w_push kind s0)
          else w_quirk qEOLNZ (w_set_eol (len rest) (w_push kind s0)))
  else if kind =? 1 then Cont rest (w_push kind s0)
  else match rest with
  | [] => Done (w_quirk qBAD (w_push kind s0))
  | olen :: body =>
    if olen - 2 >? len body then Done (w_quirk qBAD (w_push kind s0))
    else if olen <? 2 then Done (w_quirk qBAD (w_push kind s0))
    else
      if kind =? 5 then
        if (10 <=? olen) && (olen <=? 34)
        then Cont (skipn (Z.to_nat (olen - 2)) body) (w_push kind s0)
        else Done (w_quirk qBAD (w_push kind s0))
      else match fmt_size kind with
      | Some sz =>
          if olen =? 2 + sz
          then Cont (skipn (Z.to_nat (olen - 2)) body)
                    (apply_value kind (firstn (Z.to_nat sz) body) is_syn (w_push kind s0))
          else Cont (skipn (Z.to_nat (olen - 2)) body) (w_quirk qBAD (w_push kind s0))
      | None =>
          if (2 <=? olen) && (olen <=? 40)
          then Cont (skipn (Z.to_nat (olen - 2)) body) (w_push kind s0)
          else Done (w_quirk qBAD (w_push kind s0))
      end
  end.

Ltac step_cases kind rest :=
  cbv beta delta [step];
  destruct (kind =? 0) eqn:K0;
  [| destruct (kind =? 1) eqn:K1;
     [| destruct rest as [|olen body];
        [| destruct (olen - 2 >? len body) eqn:G;
           [| destruct (olen <? 2) eqn:L2;
              [| destruct (kind =? 5) eqn:K5;
                 [ destruct ((10 <=? olen) && (olen <=? 34)) eqn:R
                 | destruct (fmt_size kind) as [sz|] eqn:F;
                   [ destruct (olen =? 2 + sz) eqn:Q
                   | destruct ((2 <=? olen) && (olen <=? 40)) eqn:R ] ] ] ] ] ] ].

Lemma walk_S fuel kind rest syn s :
  walk (S fuel) (kind :: rest) syn s =
  match step kind rest syn s with Done s' => Some s' | Cont n s1 => walk fuel n syn s1 end.
Proof.
  cbn [walk]. step_cases kind rest; reflexivity.
Qed.

Lemma walk_nil fuel syn s : walk fuel [] syn s = Some s.
Proof. destruct fuel; reflexivity. Qed.

(* ------------------------------------------------------------------ *)
(* Basic facts about the state setters.                                *)
(* ------------------------------------------------------------------ *)
Lemma bad_quirk_other k s : N.eqb qBAD k = false ->
  hasq qBAD (w_q (w_quirk k s)) = hasq qBAD (w_q s).
Proof.
  intros H. cbn [w_q w_quirk]. rewrite hasq_setq, H. apply orb_false_r.
Qed.

Lemma bad_quirk_bad s : hasq qBAD (w_q (w_quirk qBAD s)) = true.
Proof.
  cbn [w_q w_quirk]. rewrite hasq_setq, N.eqb_refl. apply orb_true_r.
Qed.

Lemma apply_value_layout k v syn s : w_rlayout (apply_value k v syn s) = w_rlayout s.
Proof.
  unfold apply_value.
  repeat (match goal with |- context[match ?x with _ => _ end] => destruct x end);
    reflexivity.
Qed.

Lemma apply_value_bad k v syn s :
  hasq qBAD (w_q (apply_value k v syn s)) = hasq qBAD (w_q s).
Proof.
  unfold apply_value.
  repeat (match goal with |- context[match ?x with _ => _ end] => destruct x end);
    rewrite ?bad_quirk_other by reflexivity; reflexivity.
Qed.

Lemma skipn_le {A} n (l : list A) : (length (skipn n l) <= length l)%nat.
Proof. rewrite skipn_length. lia. Qed.

(* ------------------------------------------------------------------ *)
(* Properties of a step.                                               *)
(* ------------------------------------------------------------------ *)
Lemma step_cont kind rest syn s n s1 :
  step kind rest syn s = Cont n s1 ->
  (length n <= length rest)%nat /\ w_rlayout s1 = kind :: w_rlayout s /\
  (hasq qBAD (w_q s) = true -> hasq qBAD (w_q s1) = true).
Proof.
  step_cases kind rest; intros H; inversion H; subst; clear H;
    (split; [ try (cbn [length]; pose proof (skipn_le (Z.to_nat (olen - 2)) body); lia); lia
            | split; [ rewrite ?apply_value_layout; reflexivity
                     | rewrite ?apply_value_bad, ?bad_quirk_bad; auto ] ]).
Qed.

Lemma step_done kind rest syn s s' :
  step kind rest syn s = Done s' ->
  w_rlayout s' = kind :: w_rlayout s /\
  (hasq qBAD (w_q s) = true -> hasq qBAD (w_q s') = true).
Proof.
  step_cases kind rest; intros H; inversion H; subst; clear H;
    try (split; [reflexivity | rewrite ?bad_quirk_bad; auto]).
  destruct (all_zero rest); (split; [reflexivity|]);
    rewrite ?bad_quirk_other by reflexivity; auto.
Qed.

(* ------------------------------------------------------------------ *)
(* wrong_length_no_value                                               *)
(* ------------------------------------------------------------------ *)
Theorem wrong_length_no_value : forall fuel kind olen body syn s sz,
  fmt_size kind = Some sz -> kind <> 0 -> kind <> 1 -> kind <> 5 ->
  olen <> 2 + sz -> 2 <= olen -> olen - 2 <= len body ->
  walk (S fuel) (kind :: olen :: body) syn s =
  walk fuel (skipn (Z.to_nat (olen - 2)) body) syn (w_quirk qBAD (w_push kind s)).
Proof.
  intros fuel kind olen body syn s sz Hf H0 H1 H5 Hne H2 Hlen.
  cbn [walk].
  apply Z.eqb_neq in H0, H1, H5, Hne. rewrite H0, H1, H5.
  assert (E1 : (olen - 2 >? len body) = false) by (rewrite Z.gtb_ltb; apply Z.ltb_ge; lia).
  assert (E2 : (olen <? 2) = false) by (apply Z.ltb_ge; lia).
  rewrite E1, E2, Hf, Hne. reflexivity.
Qed.

(* ------------------------------------------------------------------ *)
(* Fuel.                                                               *)
(* ------------------------------------------------------------------ *)
Theorem walk_fuel : forall fuel buf syn s, (length buf <= fuel)%nat -> walk fuel buf syn s <> None.
Proof.
  induction fuel as [|fuel IH]; intros buf syn s Hlen.
  - destruct buf as [|k r]; [cbn [walk]; discriminate | cbn [length] in Hlen; lia].
  - destruct buf as [|kind rest]; [cbn [walk]; discriminate|].
    rewrite walk_S. destruct (step kind rest syn s) as [sd|n s1] eqn:St; [discriminate|].
    apply step_cont in St. destruct St as [Hn _].
    apply IH. cbn [length] in Hlen. lia.
Qed.

Theorem walk_layout_len : forall fuel buf syn s s',
  walk fuel buf syn s = Some s' -> (length (w_rlayout s') <= length (w_rlayout s) + length buf)%nat.
Proof.
  induction fuel as [|fuel IH]; intros buf syn s s' Hw.
  - destruct buf as [|k r]; cbn [walk] in Hw; [|discriminate].
    inversion Hw; subst. lia.
  - destruct buf as [|kind rest].
    + cbn [walk] in Hw. inversion Hw; subst. lia.
    + rewrite walk_S in Hw. destruct (step kind rest syn s) as [sd|n s1] eqn:St.
      * inversion Hw; subst. apply step_done in St. destruct St as [Hl _].
        rewrite Hl. cbn [length]. lia.
      * apply step_cont in St. destruct St as (Hn & Hl & _).
        apply IH in Hw. rewrite Hl in Hw. cbn [length] in *. lia.
Qed.

Lemma walk_fuel_two : forall f1 f2 buf syn s,
  (length buf <= f1)%nat -> (length buf <= f2)%nat -> walk f1 buf syn s = walk f2 buf syn s.
Proof.
  induction f1 as [|f1 IH]; intros f2 buf syn s H1 H2.
  - destruct buf as [|k r]; [|cbn [length] in H1; lia]. rewrite !walk_nil. reflexivity.
  - destruct buf as [|kind rest]; [rewrite !walk_nil; reflexivity|].
    destruct f2 as [|f2]; [cbn [length] in H2; lia|].
    rewrite !walk_S. destruct (step kind rest syn s) as [sd|n s1] eqn:St; [reflexivity|].
    apply step_cont in St. destruct St as [Hn _]. cbn [length] in *.
    apply IH; lia.
Qed.

Theorem walk_fuel_irrelevant : forall fuel buf syn s,
  (length buf <= fuel)%nat -> walk fuel buf syn s = walk (length buf) buf syn s.
Proof.
  intros fuel buf syn s H. apply walk_fuel_two; [exact H | apply le_n].
Qed.

(* the walker never clears 'bad' *)
Lemma walk_bad_mono : forall fuel buf syn s s',
  walk fuel buf syn s = Some s' -> hasq qBAD (w_q s) = true -> hasq qBAD (w_q s') = true.
Proof.
  induction fuel as [|fuel IH]; intros buf syn s s' Hw Hb.
  - destruct buf as [|k r]; cbn [walk] in Hw; [|discriminate]. inversion Hw; subst; exact Hb.
  - destruct buf as [|kind rest].
    + cbn [walk] in Hw. inversion Hw; subst; exact Hb.
    + rewrite walk_S in Hw. destruct (step kind rest syn s) as [sd|n s1] eqn:St.
      * inversion Hw; subst. apply step_done in St. destruct St as [_ Hm]. auto.
      * apply step_cont in St. destruct St as (_ & _ & Hm). eapply IH; eauto.
Qed.

(* ------------------------------------------------------------------ *)
(* expected_no_bad                                                     *)
(* ------------------------------------------------------------------ *)
Lemma apply_opt_bad syn o s : hasq qBAD (w_q (apply_opt syn o s)) = hasq qBAD (w_q s).
Proof.
  destruct o; cbn [apply_opt];
    repeat (match goal with |- context[if ?x then _ else _] => destruct x end);
    rewrite ?bad_quirk_other by reflexivity; reflexivity.
Qed.

Lemma apply_tail_bad t s : hasq qBAD (w_q (apply_tail t s)) = hasq qBAD (w_q s).
Proof.
  destruct t as [pad|]; cbn [apply_tail]; [|reflexivity].
  destruct (all_zero pad); rewrite ?bad_quirk_other by reflexivity; reflexivity.
Qed.

Theorem expected_no_bad : forall l t syn s,
  hasq qBAD (w_q (expected syn l t s)) = hasq qBAD (w_q s).
Proof.
  intros l t syn. unfold expected. induction l as [|o l IH]; intros s; cbn [fold_left].
  - apply apply_tail_bad.
  - rewrite IH. apply apply_opt_bad.
Qed.

(* ------------------------------------------------------------------ *)
(* Arithmetic and list helpers.                                        *)
(* ------------------------------------------------------------------ *)
Lemma be16_b16 v : 0 <= v < 65536 -> be16 (v / 256) (v mod 256) = v.
Proof. intros H. unfold be16. lia. Qed.

Lemma b16_be16 a b : byte a -> byte b -> b16 (be16 a b) = [a; b].
Proof. unfold byte, b16, be16. intros Ha Hb. f_equal; [lia | f_equal; lia]. Qed.

Lemma be16_range a b : byte a -> byte b -> 0 <= be16 a b < 65536.
Proof. unfold byte, be16. lia. Qed.

Lemma be32_b32 v : 0 <= v < 4294967296 ->
  be32 (v / 16777216) ((v / 65536) mod 256) ((v / 256) mod 256) (v mod 256) = v.
Proof. intros H. unfold be32. lia. Qed.

Lemma b32_be32 a b c d : byte a -> byte b -> byte c -> byte d ->
  b32 (be32 a b c d) = [a; b; c; d].
Proof.
  unfold byte, b32, be32. intros Ha Hb Hc Hd.
  f_equal; [lia|]. f_equal; [lia|]. f_equal; [lia|]. f_equal; lia.
Qed.

Lemma be32_range a b c d : byte a -> byte b -> byte c -> byte d ->
  0 <= be32 a b c d < 4294967296.
Proof. unfold byte, be32. lia. Qed.

Lemma len_cons a l : len (a :: l) = 1 + len l.
Proof. unfold len. cbn [length]. lia. Qed.

Lemma len_nil : len [] = 0.
Proof. reflexivity. Qed.

Lemma len_nonneg l : 0 <= len l.
Proof. unfold len. lia. Qed.

Lemma len_app a b : len (a ++ b) = len a + len b.
Proof. unfold len. rewrite app_length. lia. Qed.

Lemma len_firstn n l : 0 <= n <= len l -> len (firstn (Z.to_nat n) l) = n.
Proof. unfold len. intros H. rewrite firstn_length. lia. Qed.

Lemma skipn_len_app body rest n : n = len body -> skipn (Z.to_nat n) (body ++ rest) = rest.
Proof.
  intros ->. unfold len. rewrite Nat2Z.id, skipn_app, skipn_all, Nat.sub_diag. reflexivity.
Qed.

Lemma len_ge_2 l : 2 <= len l -> exists a b r, l = a :: b :: r.
Proof.
  destruct l as [|a [|b r]]; rewrite ?len_cons, ?len_nil; intros H; try lia.
  exists a, b, r; reflexivity.
Qed.

Lemma len_ge_1 l : 1 <= len l -> exists a r, l = a :: r.
Proof.
  destruct l as [|a r]; rewrite ?len_cons, ?len_nil; intros H; try lia.
  exists a, r; reflexivity.
Qed.

Lemma len_ge_8 l : 8 <= len l -> exists a b c d e f g h r, l = a :: b :: c :: d :: e :: f :: g :: h :: r.
Proof.
  destruct l as [|a [|b [|c [|d [|e [|f [|g [|h r]]]]]]]]; rewrite ?len_cons, ?len_nil; intros H;
    try (pose proof (len_nonneg r)); try lia.
  exists a, b, c, d, e, f, g, h, r; reflexivity.
Qed.

Lemma fmt_size_some k sz : fmt_size k = Some sz ->
  (k = 3 /\ sz = 1) \/ (k = 8 /\ sz = 8) \/ (k = 2 /\ sz = 2) \/ (k = 4 /\ sz = 0).
Proof.
  unfold fmt_size.
  destruct (k =? 3) eqn:E3; [apply Z.eqb_eq in E3; intros H; inversion H; auto|].
  destruct (k =? 8) eqn:E8; [apply Z.eqb_eq in E8; intros H; inversion H; auto|].
  destruct (k =? 2) eqn:E2; [apply Z.eqb_eq in E2; intros H; inversion H; auto|].
  destruct (k =? 4) eqn:E4; [apply Z.eqb_eq in E4; intros H; inversion H; auto 6|].
  discriminate.
Qed.

Lemma fmt_size_none k : fmt_size k = None <-> k <> 3 /\ k <> 8 /\ k <> 2 /\ k <> 4.
Proof.
  unfold fmt_size.
  destruct (k =? 3) eqn:E3; [apply Z.eqb_eq in E3; split; [discriminate | lia]|].
  destruct (k =? 8) eqn:E8; [apply Z.eqb_eq in E8; split; [discriminate | lia]|].
  destruct (k =? 2) eqn:E2; [apply Z.eqb_eq in E2; split; [discriminate | lia]|].
  destruct (k =? 4) eqn:E4; [apply Z.eqb_eq in E4; split; [discriminate | lia]|].
  apply Z.eqb_neq in E3, E8, E2, E4. split; auto.
Qed.

Lemma apply_value_2 a b syn s : apply_value 2 [a; b] syn s = w_set_mss (be16 a b) s.
Proof. reflexivity. Qed.

Lemma apply_value_3 a syn s :
  apply_value 3 [a] syn s = if a >? 14 then w_quirk qEXWS (w_set_ws a s) else w_set_ws a s.
Proof. reflexivity. Qed.

Lemma apply_value_4 syn s : apply_value 4 [] syn s = s.
Proof. reflexivity. Qed.

Lemma apply_value_8 a b c d e f g h syn s :
  apply_value 8 [a; b; c; d; e; f; g; h] syn s =
  (if negb (be32 e f g h =? 0) && syn
   then w_quirk qNZTS2 (if be32 a b c d =? 0 then w_quirk qZTS1 (w_set_ts (be32 a b c d) s)
                        else w_set_ts (be32 a b c d) s)
   else (if be32 a b c d =? 0 then w_quirk qZTS1 (w_set_ts (be32 a b c d) s)
         else w_set_ts (be32 a b c d) s)).
Proof. reflexivity. Qed.

(* a generic unfolding of [step] for a TLV option that fits *)
Lemma step_tlv kind olen body syn s :
  kind <> 0 -> kind <> 1 -> 2 <= olen -> olen - 2 <= len body ->
  step kind (olen :: body) syn s =
      if kind =? 5 then
        if (10 <=? olen) && (olen <=? 34)
        then Cont (skipn (Z.to_nat (olen - 2)) body) (w_push kind s)
        else Done (w_quirk qBAD (w_push kind s))
      else match fmt_size kind with
      | Some sz =>
          if olen =? 2 + sz
          then Cont (skipn (Z.to_nat (olen - 2)) body)
                    (apply_value kind (firstn (Z.to_nat sz) body) syn (w_push kind s))
          else Cont (skipn (Z.to_nat (olen - 2)) body) (w_quirk qBAD (w_push kind s))
      | None =>
          if (2 <=? olen) && (olen <=? 40)
          then Cont (skipn (Z.to_nat (olen - 2)) body) (w_push kind s)
          else Done (w_quirk qBAD (w_push kind s))
      end.
Proof.
  intros H0 H1 H2 Hl. unfold step.
  apply Z.eqb_neq in H0, H1. rewrite H0, H1.
  assert (E1 : (olen - 2 >? len body) = false) by (rewrite Z.gtb_ltb; apply Z.ltb_ge; lia).
  assert (E2 : (olen <? 2) = false) by (apply Z.ltb_ge; lia).
  rewrite E1, E2. reflexivity.
Qed.

(* ------------------------------------------------------------------ *)
(* Completeness: one step on an encoded option.                        *)
(* ------------------------------------------------------------------ *)
Lemma step_enc_opt o rest syn s : wf_opt o ->
  exists body, enc_opt o ++ rest = kind_of o :: body /\
               step (kind_of o) body syn s = Cont rest (apply_opt syn o s).
Proof.
  intros Hwf. destruct o as [|v|v| |t1 t2|body|k body]; cbn [enc_opt kind_of wf_opt] in *.
  - (* NOP *) eexists; split; [reflexivity|]. reflexivity.
  - (* MSS *) eexists; split; [reflexivity|]. cbn [b16 app].
    rewrite step_tlv; try lia; [|rewrite !len_cons; pose proof (len_nonneg rest); lia].
    change (2 =? 5) with false. change (fmt_size 2) with (Some 2). change (4 =? 2 + 2) with true.
    cbv iota. change (Z.to_nat (4 - 2)) with 2%nat. change (Z.to_nat 2) with 2%nat.
    cbn [skipn firstn]. rewrite apply_value_2, be16_b16 by lia. reflexivity.
  - (* WS *) eexists; split; [reflexivity|]. cbn [app].
    rewrite step_tlv; try lia; [|rewrite !len_cons; pose proof (len_nonneg rest); lia].
    change (3 =? 5) with false. change (fmt_size 3) with (Some 1). change (3 =? 2 + 1) with true.
    cbv iota. change (Z.to_nat (3 - 2)) with 1%nat. change (Z.to_nat 1) with 1%nat.
    cbn [skipn firstn]. rewrite apply_value_3. reflexivity.
  - (* SACKOK *) eexists; split; [reflexivity|]. cbn [app].
    rewrite step_tlv; try lia; [|pose proof (len_nonneg rest); lia].
    change (4 =? 5) with false. change (fmt_size 4) with (Some 0). change (2 =? 2 + 0) with true.
    cbv iota. change (Z.to_nat (2 - 2)) with 0%nat. change (Z.to_nat 0) with 0%nat.
    cbn [skipn firstn]. rewrite apply_value_4. reflexivity.
  - (* TS *) destruct Hwf as [Ht1 Ht2]. eexists; split; [reflexivity|]. cbn [b32 app].
    rewrite step_tlv; try lia; [|rewrite !len_cons; pose proof (len_nonneg rest); lia].
    change (8 =? 5) with false. change (fmt_size 8) with (Some 8). change (10 =? 2 + 8) with true.
    cbv iota. change (Z.to_nat (10 - 2)) with 8%nat. change (Z.to_nat 8) with 8%nat.
    cbn [skipn firstn]. rewrite apply_value_8, !be32_b32 by lia. cbn [apply_opt kind_of].
    reflexivity.
  - (* SACK *) destruct Hwf as [Hl Hb]. eexists; split; [reflexivity|].
    rewrite step_tlv; try lia; [|rewrite len_app; pose proof (len_nonneg rest); lia].
    change (5 =? 5) with true. cbv iota.
    assert (R : (10 <=? len body + 2) && (len body + 2 <=? 34) = true).
    { apply andb_true_iff; split; apply Z.leb_le; lia. }
    rewrite R. rewrite skipn_len_app by lia. reflexivity.
  - (* unknown *) destruct Hwf as (Hk & K0 & K1 & K2 & K3 & K4 & K5 & K8 & Hl & Hb).
    eexists; split; [reflexivity|].
    pose proof (len_nonneg body) as Hnn.
    rewrite step_tlv; try lia; [|rewrite len_app; pose proof (len_nonneg rest); lia].
    apply Z.eqb_neq in K5. rewrite K5.
    assert (F : fmt_size k = None) by (apply fmt_size_none; auto).
    rewrite F.
    assert (R : (2 <=? len body + 2) && (len body + 2 <=? 40) = true).
    { apply andb_true_iff; split; apply Z.leb_le; lia. }
    rewrite R. rewrite skipn_len_app by lia. reflexivity.
Qed.

Lemma enc_opt_length o : (1 <= length (enc_opt o))%nat.
Proof. destruct o; cbn [enc_opt length]; lia. Qed.

Theorem walk_complete : forall l t syn s fuel,
  Forall wf_opt l -> (length (enc_opts l ++ enc_tail t) <= fuel)%nat ->
  walk fuel (enc_opts l ++ enc_tail t) syn s = Some (expected syn l t s).
Proof.
  induction l as [|o l IH]; intros t syn s fuel Hwf Hlen.
  - cbn [enc_opts flat_map app] in *. unfold expected. cbn [fold_left].
    destruct t as [pad|]; cbn [enc_tail apply_tail] in *.
    + destruct fuel as [|fuel]; [cbn [length] in Hlen; lia|].
      rewrite walk_S. unfold step. change (0 =? 0) with true. cbv iota.
      destruct (all_zero pad); reflexivity.
    + apply walk_nil.
  - inversion Hwf as [|o' l' Ho Hl]; subst.
    cbn [enc_opts flat_map] in *. fold (enc_opts l) in *.
    rewrite <- app_assoc in *.
    destruct (step_enc_opt o (enc_opts l ++ enc_tail t) syn s Ho) as (body & Eb & St).
    rewrite Eb in *.
    destruct fuel as [|fuel]; [cbn [length] in Hlen; lia|].
    rewrite walk_S, St.
    rewrite IH; [reflexivity | exact Hl |].
    assert (L : length (kind_of o :: body) = (length (enc_opt o) + length (enc_opts l ++ enc_tail t))%nat)
      by (rewrite <- Eb; apply app_length).
    pose proof (enc_opt_length o). lia.
Qed.

(* ------------------------------------------------------------------ *)
(* Soundness: one step that leaves 'bad' clear decodes an option.      *)
(* ------------------------------------------------------------------ *)
Lemma step_done_sound kind rest syn s s' :
  step kind rest syn s = Done s' -> hasq qBAD (w_q s') = false ->
  kind = 0 /\ s' = apply_tail (Some rest) s.
Proof.
  step_cases kind rest; intros H Hb; inversion H; subst; clear H;
    try (rewrite bad_quirk_bad in Hb; discriminate).
  apply Z.eqb_eq in K0. subst kind. split; reflexivity.
Qed.

Lemma bytes_split n (l : list Z) : bytes l -> bytes (firstn n l) /\ bytes (skipn n l).
Proof.
  unfold bytes. intros H. rewrite <- (firstn_skipn n l) in H.
  apply Forall_app in H. exact H.
Qed.

Lemma step_sound kind rest syn s n s1 :
  byte kind -> bytes rest ->
  step kind rest syn s = Cont n s1 -> hasq qBAD (w_q s1) = false ->
  exists o, wf_opt o /\ kind :: rest = enc_opt o ++ n /\ s1 = apply_opt syn o s /\ bytes n.
Proof.
  intros Hk Hr.
  step_cases kind rest; intros H Hb; inversion H; subst; clear H;
    try (rewrite bad_quirk_bad in Hb; discriminate).
  - (* NOP *)
    apply Z.eqb_eq in K1. subst kind. exists WNop. repeat split; auto.
  - (* SACK *)
    apply Z.eqb_eq in K5. subst kind.
    apply andb_true_iff in R. destruct R as [R1 R2]. apply Z.leb_le in R1, R2.
    rewrite Z.gtb_ltb in G. apply Z.ltb_ge in G.
    unfold bytes in Hr. apply Forall_cons_iff in Hr. destruct Hr as [Ho Hbody].
    destruct (bytes_split (Z.to_nat (olen - 2)) body Hbody) as [Bf Bs].
    exists (WSack (firstn (Z.to_nat (olen - 2)) body)).
    cbn [wf_opt enc_opt apply_opt kind_of app]. rewrite len_firstn by lia.
    rewrite firstn_skipn. replace (olen - 2 + 2) with olen by lia.
    repeat split; auto; lia.
  - (* fixed format, right size *)
    apply Z.eqb_eq in Q.
    rewrite Z.gtb_ltb in G. apply Z.ltb_ge in G.
    unfold bytes in Hr. apply Forall_cons_iff in Hr. destruct Hr as [Ho Hbody].
    destruct (fmt_size_some _ _ F) as [[-> ->]|[[-> ->]|[[-> ->]|[-> ->]]]]; subst olen.
    + (* WS *)
      destruct (len_ge_1 body) as (a & r & ->); [lia|].
      apply Forall_cons_iff in Hbody. destruct Hbody as [Ha Hr'].
      change (Z.to_nat (2 + 1 - 2)) with 1%nat in *. change (Z.to_nat 1) with 1%nat in *.
      cbn [skipn firstn] in *. rewrite apply_value_3 in *.
      exists (WWs a). cbn [wf_opt enc_opt apply_opt kind_of app].
      repeat split; auto; unfold byte in Ha; lia.
    + (* TS *)
      destruct (len_ge_8 body) as (a & b & c & d & e & f & g & h & r & ->); [lia|].
      repeat (apply Forall_cons_iff in Hbody;
              let Hx := fresh "Hx" in destruct Hbody as [Hx Hbody]).
      change (Z.to_nat (2 + 8 - 2)) with 8%nat in *. change (Z.to_nat 8) with 8%nat in *.
      cbn [skipn firstn] in *. rewrite apply_value_8 in *.
      exists (WTs (be32 a b c d) (be32 e f g h)).
      cbn [wf_opt enc_opt apply_opt kind_of]. rewrite !b32_be32 by assumption.
      repeat split; auto; apply be32_range; assumption.
    + (* MSS *)
      destruct (len_ge_2 body) as (a & b & r & ->); [lia|].
      repeat (apply Forall_cons_iff in Hbody;
              let Hx := fresh "Hx" in destruct Hbody as [Hx Hbody]).
      change (Z.to_nat (2 + 2 - 2)) with 2%nat in *. change (Z.to_nat 2) with 2%nat in *.
      cbn [skipn firstn] in *. rewrite apply_value_2 in *.
      exists (WMss (be16 a b)).
      cbn [wf_opt enc_opt apply_opt kind_of]. rewrite b16_be16 by assumption.
      repeat split; auto; apply be16_range; assumption.
    + (* SACKOK *)
      change (Z.to_nat (2 + 0 - 2)) with 0%nat in *. change (Z.to_nat 0) with 0%nat in *.
      cbn [skipn firstn] in *. rewrite apply_value_4 in *.
      exists WSok. cbn [wf_opt enc_opt apply_opt kind_of app].
      repeat split; auto.
  - (* unknown kind *)
    apply Z.eqb_neq in K0, K1, K5.
    apply andb_true_iff in R. destruct R as [R1 R2]. apply Z.leb_le in R1, R2.
    rewrite Z.gtb_ltb in G. apply Z.ltb_ge in G.
    apply fmt_size_none in F. destruct F as (F3 & F8 & F2 & F4).
    unfold bytes in Hr. apply Forall_cons_iff in Hr. destruct Hr as [Ho Hbody].
    destruct (bytes_split (Z.to_nat (olen - 2)) body Hbody) as [Bf Bs].
    exists (WUnk kind (firstn (Z.to_nat (olen - 2)) body)).
    cbn [wf_opt enc_opt apply_opt kind_of app]. rewrite len_firstn by lia.
    rewrite firstn_skipn. replace (olen - 2 + 2) with olen by lia.
    unfold byte in Hk.
    repeat split; auto; lia.
Qed.

Theorem walk_sound : forall fuel buf syn s s',
  bytes buf -> walk fuel buf syn s = Some s' ->
  hasq qBAD (w_q s) = false -> hasq qBAD (w_q s') = false ->
  exists l t, Forall wf_opt l /\ buf = enc_opts l ++ enc_tail t /\ s' = expected syn l t s.
Proof.
  induction fuel as [|fuel IH]; intros buf syn s s' Hby Hw Hs Hs'.
  - destruct buf as [|k r]; cbn [walk] in Hw; [|discriminate]. inversion Hw; subst.
    exists [], None. repeat split; constructor.
  - destruct buf as [|kind rest].
    + cbn [walk] in Hw. inversion Hw; subst. exists [], None. repeat split; constructor.
    + rewrite walk_S in Hw. unfold bytes in Hby. apply Forall_cons_iff in Hby.
      destruct Hby as [Hk Hr].
      destruct (step kind rest syn s) as [sd|n s1] eqn:St.
      * inversion Hw; subst.
        destruct (step_done_sound _ _ _ _ _ St Hs') as [-> ->].
        exists [], (Some rest). repeat split; constructor.
      * destruct (hasq qBAD (w_q s1)) eqn:B1.
        { rewrite (walk_bad_mono _ _ _ _ _ Hw B1) in Hs'. discriminate. }
        destruct (step_sound _ _ _ _ _ _ Hk Hr St B1) as (o & Ho & Eo & -> & Hn).
        destruct (IH n syn _ s' Hn Hw B1 Hs') as (l & t & Hl & -> & ->).
        exists (o :: l), t. split; [constructor; assumption|]. split.
        -- rewrite Eo. cbn [enc_opts flat_map]. rewrite app_assoc. reflexivity.
        -- reflexivity.
Qed.

(* ------------------------------------------------------------------ *)
(* parse_options                                                       *)
(* ------------------------------------------------------------------ *)
Theorem parse_options_total : forall buf syn, exists o, parse_options buf syn = Ok o.
Proof.
  intros buf syn. unfold parse_options.
  destruct (walk (length buf) buf syn w0) as [s|] eqn:W.
  - eexists; reflexivity.
  - exfalso. revert W. apply walk_fuel. apply le_n.
Qed.

Theorem parse_options_bad_iff : forall buf syn o,
  bytes buf -> parse_options buf syn = Ok o ->
  (hasq qBAD (o_quirks o) = true <-> ~ WellFormedArea buf).
Proof.
  intros buf syn o Hby Hp. unfold parse_options in Hp.
  destruct (walk (length buf) buf syn w0) as [s'|] eqn:W; [|discriminate].
  inversion Hp; subst o; clear Hp. cbn [o_quirks finish].
  split.
  - intros Hbad (l & t & Hl & E). subst buf.
    rewrite walk_complete in W by (auto using le_n). inversion W; subst s'.
    rewrite expected_no_bad in Hbad. cbn [w_q w0] in Hbad. rewrite hasq_0 in Hbad. discriminate.
  - intros Hn. destruct (hasq qBAD (w_q s')) eqn:B; [reflexivity|]. exfalso. apply Hn.
    destruct (walk_sound _ _ _ _ _ Hby W (hasq_0 qBAD) B) as (l & t & Hl & E & _).
    exists l, t. split; assumption.
Qed.

Print Assumptions walk_fuel.
Print Assumptions walk_layout_len.
Print Assumptions walk_fuel_irrelevant.
Print Assumptions walk_complete.
Print Assumptions expected_no_bad.
Print Assumptions walk_sound.
Print Assumptions parse_options_bad_iff.
Print Assumptions parse_options_total.
Print Assumptions wrong_length_no_value.
