(* Bytes after the end of the IP datagram are ignored: parse_packet = parse_datagram on the trimmed bytes. *)
From Coq Require Import Lia.
From PV Require Import Model.Prelude Model.Bits Model.Sig Model.Select Model.Options Model.Wire.

Lemma firstn_len_app : forall (b t : list Z), firstn (Z.to_nat (len b)) (b ++ t) = b.
Proof.
  intros b t. unfold len. rewrite Nat2Z.id. rewrite firstn_app, Nat.sub_diag, firstn_all. cbn [firstn]. apply app_nil_r.
Qed.

Lemma len_app : forall (b t : list Z), len (b ++ t) = len b + len t.
Proof. intros. unfold len. rewrite app_length. lia. Qed.

Lemma len_nonneg : forall (b : list Z), 0 <= len b.
Proof. intros. unfold len. lia. Qed.

(* an exactly framed IPv4 datagram followed by any trailer is cut back to the datagram *)
Lemma trim4_app : forall b t ip, ip4 b = Some ip -> trim 4 (b ++ t) = b.
Proof.
  intros b t ip H. unfold ip4 in H.
  destruct b as [|b0 [|tos [|l1 [|l2 r]]]]; try discriminate.
  assert (be16 l1 l2 = len (b0 :: tos :: l1 :: l2 :: r)) as E.
  { do 16 (destruct r as [|? r]; [discriminate|]).
    match type of H with (if ?c then _ else _) = _ => destruct c eqn:C; [discriminate|] end.
    apply orb_false_iff in C. destruct C as [C _]. apply orb_false_iff in C. destruct C as [C C3].
    apply negb_false_iff in C3. apply Z.eqb_eq in C3. exact C3. }
  unfold trim. cbn [Z.eqb Pos.eqb app].
  change (b0 :: tos :: l1 :: l2 :: r ++ t) with ((b0 :: tos :: l1 :: l2 :: r) ++ t).
  rewrite E. rewrite len_app.
  destruct (len (b0 :: tos :: l1 :: l2 :: r) <=? len (b0 :: tos :: l1 :: l2 :: r) + len t) eqn:L.
  - apply firstn_len_app.
  - apply Z.leb_gt in L. pose proof (len_nonneg t). lia.
Qed.

Lemma trim6_app : forall b t ip, ip6 b = Some ip -> trim 6 (b ++ t) = b.
Proof.
  intros b t ip H. unfold ip6 in H.
  destruct b as [|b0 [|b1 [|b2 [|b3 [|l1 [|l2 r]]]]]]; try discriminate.
  assert (40 + be16 l1 l2 = len (b0 :: b1 :: b2 :: b3 :: l1 :: l2 :: r)) as E.
  { do 2 (destruct r as [|? r]; [discriminate|]).
    match type of H with (if ?c then _ else _) = _ => destruct c eqn:C; [discriminate|] end.
    apply orb_false_iff in C. destruct C as [_ C3].
    apply negb_false_iff in C3. apply Z.eqb_eq in C3. unfold len in *. cbn [length] in *. lia. }
  unfold trim. cbn [Z.eqb Pos.eqb app].
  change (b0 :: b1 :: b2 :: b3 :: l1 :: l2 :: r ++ t) with ((b0 :: b1 :: b2 :: b3 :: l1 :: l2 :: r) ++ t).
  rewrite E. rewrite len_app.
  destruct (len (b0 :: b1 :: b2 :: b3 :: l1 :: l2 :: r) <=? len (b0 :: b1 :: b2 :: b3 :: l1 :: l2 :: r) + len t) eqn:L.
  - apply firstn_len_app.
  - apply Z.leb_gt in L. pose proof (len_nonneg t). lia.
Qed.

(* the packet followed by any trailer is read exactly as the packet alone *)
Theorem parse_packet_trailer : forall v b t,
  (v = 4 \/ v = 6) -> (if v =? 4 then ip4 b else ip6 b) <> None ->
  parse_packet v (b ++ t) = parse_datagram v b.
Proof.
  intros v b t Hv Hip. unfold parse_packet. f_equal.
  destruct Hv as [-> | ->]; cbn [Z.eqb Pos.eqb] in Hip.
  - destruct (ip4 b) as [ip|] eqn:E; [|contradiction]. exact (trim4_app b t ip E).
  - destruct (ip6 b) as [ip|] eqn:E; [|contradiction]. exact (trim6_app b t ip E).
Qed.

Corollary parse_packet_exact : forall v b,
  (v = 4 \/ v = 6) -> (if v =? 4 then ip4 b else ip6 b) <> None -> parse_packet v b = parse_datagram v b.
Proof.
  intros v b Hv Hip. rewrite <- (app_nil_r b) at 1. apply parse_packet_trailer; auto.
Qed.

Print Assumptions parse_packet_trailer.
Print Assumptions parse_packet_exact.
