(* Property C15: label text round trip and lookup by label text. *)
From Coq Require Import Lia String.
From PV Require Import Model.Prelude Model.Bits Model.Text Model.SigParse Model.DbParse Model.Dump Proofs.TextP.

Definition colon_free (t : text) : Prop := mem 58 t = false.

(* ---------- split_max ---------- *)

Lemma split_max_0 sep t : split_max sep 0 t = [t].
Proof. destruct t; reflexivity. Qed.

Lemma mem_cons_false sep c (x : text) :
  mem sep (c :: x) = false -> (c =? sep) = false /\ mem sep x = false.
Proof.
  unfold mem. cbn [existsb]. intro H. apply orb_false_iff in H. destruct H as [Hc Hx].
  rewrite Z.eqb_sym. split; assumption.
Qed.

Lemma split_max_app_sep sep n x rest :
  mem sep x = false -> split_max sep (S n) (x ++ sep :: rest) = x :: split_max sep n rest.
Proof.
  induction x as [|c x IH]; intro H.
  - cbn [app split_max]. rewrite Z.eqb_refl. reflexivity.
  - apply mem_cons_false in H. destruct H as [Hc Hx].
    cbn [app]. cbn [split_max]. rewrite Hc.
    rewrite (IH Hx). reflexivity.
Qed.

Lemma split_max_free sep n x : mem sep x = false -> split_max sep n x = [x].
Proof.
  destruct n as [|n]; [intros _; apply split_max_0|].
  induction x as [|c x IH]; intro H; [reflexivity|].
  apply mem_cons_false in H. destruct H as [Hc Hx].
  cbn [split_max]. rewrite Hc.
  rewrite (IH Hx). reflexivity.
Qed.

Lemma split_parts_label (g c n f : text) :
  mem 58 g = false -> colon_free c -> colon_free n -> colon_free f ->
  split_parts (join [58] [g; c; n; f]) 4 58 = [g; c; n; f].
Proof.
  unfold colon_free. intros Hg Hc Hn Hf. unfold split_parts.
  cbn [join]. cbn [app].
  rewrite (split_max_app_sep 58 3 g _ Hg).
  rewrite (split_max_app_sep 58 2 c _ Hc).
  rewrite (split_max_app_sep 58 1 n _ Hn).
  rewrite (split_max_free 58 1 f Hf).
  reflexivity.
Qed.

(* type:class:name:flavour with colon-free parts parses to its components and dumps back to the same text *)
Theorem label_roundtrip : forall (g : bool) c n f,
  colon_free c -> colon_free n -> colon_free f ->
  let t := join [58] [(if g then [103] else [115]); c; n; f] in
  parse_os_label t = Ok (LOs g c n f []) /\ dump_label (LOs g c n f []) = t.
Proof.
  intros g c n f Hc Hn Hf t. subst t. split.
  - unfold parse_os_label. rewrite split_parts_label; try assumption.
    + unfold part. cbn [nth]. destruct g; reflexivity.
    + destruct g; reflexivity.
  - destruct g; reflexivity.
Qed.

Theorem dump_label_set_sys : forall l s, dump_label (set_sys l s) = dump_label l.
Proof. intros [nm|g c n f sys] s; reflexivity. Qed.

(* lookup by label text: sound, complete, and DatabaseError when there is none *)
Theorem lookup_sound : forall raw sec pick r,
  lookup raw sec pick = Ok r -> exists recs, sec = Some recs /\ In r recs /\ dump_label (rc_label r) = raw.
Proof.
  intros raw sec pick r H. unfold lookup in H. destruct sec as [recs|]; [|discriminate].
  exists recs. split; [reflexivity|].
  destruct (candidates raw recs) as [|x cs] eqn:C; [discriminate|].
  destruct (nth_error (x :: cs) pick) as [r'|] eqn:N; [|discriminate].
  injection H as ->. apply nth_error_In in N. rewrite <- C in N.
  unfold candidates in N. apply filter_In in N. destruct N as [Hin Heq].
  apply text_eqb_eq in Heq. split; [exact Hin | symmetry; exact Heq].
Qed.

Theorem lookup_complete : forall raw recs r,
  In r recs -> dump_label (rc_label r) = raw ->
  exists pick, (pick < length (candidates raw recs))%nat /\ lookup raw (Some recs) pick = Ok r.
Proof.
  intros raw recs r Hin Hraw.
  assert (Hc : In r (candidates raw recs)).
  { unfold candidates. apply filter_In. split; [exact Hin|]. apply text_eqb_eq. symmetry. exact Hraw. }
  destruct (In_nth_error _ _ Hc) as [pick Hp]. exists pick. split.
  - apply nth_error_Some. rewrite Hp. discriminate.
  - unfold lookup. destruct (candidates raw recs) as [|x cs] eqn:C; [destruct Hc|].
    rewrite Hp. reflexivity.
Qed.

Theorem lookup_in_range : forall raw recs pick,
  (pick < length (candidates raw recs))%nat -> exists r, lookup raw (Some recs) pick = Ok r.
Proof.
  intros raw recs pick H. unfold lookup.
  destruct (candidates raw recs) as [|x cs] eqn:C; [cbn [length] in H; lia|].
  apply nth_error_Some in H. destruct (nth_error (x :: cs) pick) as [r|]; [|congruence].
  exists r. reflexivity.
Qed.

Theorem lookup_none : forall raw recs pick,
  (forall r, In r recs -> dump_label (rc_label r) <> raw) -> lookup raw (Some recs) pick = Err DatabaseError.
Proof.
  intros raw recs pick H. unfold lookup.
  destruct (candidates raw recs) as [|x cs] eqn:C; [reflexivity|].
  exfalso. assert (Hx : In x (candidates raw recs)) by (rewrite C; left; reflexivity).
  unfold candidates in Hx. apply filter_In in Hx. destruct Hx as [Hin Heq].
  apply text_eqb_eq in Heq. apply (H x Hin). symmetry. exact Heq.
Qed.

Theorem lookup_unloaded : forall raw pick, lookup raw None pick = Err DatabaseError.
Proof. reflexivity. Qed.

Print Assumptions label_roundtrip.
Print Assumptions dump_label_set_sys.
Print Assumptions lookup_sound.
Print Assumptions lookup_complete.
Print Assumptions lookup_in_range.
Print Assumptions lookup_none.
Print Assumptions lookup_unloaded.
