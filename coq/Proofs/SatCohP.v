(* C05: coherence is a consequence of satisfiability. *)
From Coq Require Import Lia.
From PV Require Import Model.Prelude Model.Bits Model.Sig Model.Matcher Model.Select Model.Options Model.Wire Model.Imperson Model.SigParse
  Spec.C01 Spec.C03 Spec.C05 Proofs.BitsP Proofs.MatcherP Proofs.OptionsP Proofs.ImpSoundP.

Ltac Zify.zify_post_hook ::= Z.to_euclidean_division_equations.

(* evaluate every closed [N.eqb a b] of the goal *)
Ltac neqb :=
  repeat match goal with
  | |- context [N.eqb ?a ?b] =>
      let v := eval vm_compute in (N.eqb a b) in
      match v with true => idtac | false => idtac end;
      change (N.eqb a b) with v
  end.

(* ------------------------------------------------------------------ *)
(* 1. Quirk masks of dissected headers, as functions of a few booleans *)
(* ------------------------------------------------------------------ *)
Definition q4 (ecn evil df idz : bool) : N :=
  setq_if (negb df && idz) qZID (setq_if (df && negb idz) qNZID (setq_if df qDF (setq_if evil qMBZ (setq_if ecn qECN 0%N)))).
Definition q6 (fl ecn : bool) : N := setq_if ecn qECN (setq_if fl qFLOW 0%N).
Definition qt (ecn zseq fA a0 fR fU u0 fP : bool) : N :=
  setq_if fP qPUSH (setq_if (negb fU && negb u0) qNZURG (setq_if fU qURG
    (setq_if (negb fA && negb a0 && negb fR) qNZACK (setq_if (fA && a0) qZACK (setq_if zseq qZSEQ (setq_if ecn qECN 0%N)))))).

Lemma hasq_lt q n k : (q < 2 ^ n)%N -> (n <= k)%N -> hasq k q = false.
Proof.
  intros Hq Hk. unfold hasq. destruct (N.eq_dec q 0) as [->|Hn]; [apply N.bits_0|].
  apply N.bits_above_log2. apply N.log2_lt_pow2 in Hq; lia.
Qed.

Lemma q4_lt e v d z : (q4 e v d z < 2 ^ 5)%N.
Proof. destruct e, v, d, z; reflexivity. Qed.
Lemma q4_flow e v d z : hasq qFLOW (q4 e v d z) = false.
Proof. destruct e, v, d, z; reflexivity. Qed.
Lemma q4_nzid e v d z : hasq qNZID (q4 e v d z) = true -> hasq qDF (q4 e v d z) = true.
Proof. destruct e, v, d, z; vm_compute; congruence. Qed.
Lemma q4_zid e v d z : hasq qZID (q4 e v d z) = true -> hasq qDF (q4 e v d z) = false.
Proof. destruct e, v, d, z; vm_compute; congruence. Qed.
Lemma q6_lt f e : (q6 f e < 2 ^ 6)%N.
Proof. destruct f, e; reflexivity. Qed.

Lemma qt_lt a b c d e f g h : (qt a b c d e f g h < 2 ^ 12)%N.
Proof. destruct a, b, c, d, e, f, g, h; reflexivity. Qed.
Lemma qt_low a b c d e f g h k : (1 <= k <= 5)%N -> hasq k (qt a b c d e f g h) = false.
Proof.
  intros Hk. assert (k = 1 \/ k = 2 \/ k = 3 \/ k = 4 \/ k = 5)%N as Hc by lia.
  destruct Hc as [->|[->|[->|[->| ->]]]]; destruct a, b, c, d, e, f, g, h; reflexivity.
Qed.
Lemma qt_nzack a b fA d e f g h : hasq qNZACK (qt a b fA d e f g h) = true -> fA = false.
Proof. destruct a, b, fA, d, e, f, g, h; vm_compute; congruence. Qed.
Lemma qt_zack a b fA d e f g h : hasq qZACK (qt a b fA d e f g h) = true -> fA = true.
Proof. destruct a, b, fA, d, e, f, g, h; vm_compute; congruence. Qed.
Lemma qt_urg a b c d e f g h : hasq qNZURG (qt a b c d e f g h) && hasq qURG (qt a b c d e f g h) = false.
Proof. destruct a, b, c, d, e, f, g, h; reflexivity. Qed.

(* ------------------------------------------------------------------ *)
(* 2. Dissection facts                                                  *)
(* ------------------------------------------------------------------ *)
Lemma bytes_skipn n (l : list Z) : bytes l -> bytes (skipn n l).
Proof. intros H. apply (bytes_split n l H). Qed.
Lemma bytes_firstn n (l : list Z) : bytes l -> bytes (firstn n l).
Proof. intros H. apply (bytes_split n l H). Qed.
Lemma bytes_tl a (l : list Z) : bytes (a :: l) -> bytes l.
Proof. intros H. inversion H; assumption. Qed.

Lemma ip4_facts buf ip : bytes buf -> ip4 buf = Some ip ->
  i_ver ip = 4 /\ bytes (i_payload ip) /\ exists e v d z, i_q ip = q4 e v d z.
Proof.
  intros Hb H.
  do 20 (destruct buf as [|? buf]; [cbv beta iota delta [ip4] in H; discriminate | apply bytes_tl in Hb as Hb']; clear Hb; rename Hb' into Hb).
  cbv beta iota zeta delta [ip4] in H.
  match type of H with (if ?c then _ else _) = _ => destruct c; [discriminate|] end.
  injection H as <-. cbv beta iota delta [i_ver i_payload i_q].
  split; [reflexivity|]. split; [apply bytes_skipn; exact Hb|].
  eexists _, _, _, _. unfold q4. reflexivity.
Qed.

Lemma ip6_facts buf ip : bytes buf -> ip6 buf = Some ip ->
  i_ver ip = 6 /\ bytes (i_payload ip) /\ exists f e, i_q ip = q6 f e.
Proof.
  intros Hb H.
  do 8 (destruct buf as [|? buf]; [cbv beta iota delta [ip6] in H; discriminate | apply bytes_tl in Hb as Hb']; clear Hb; rename Hb' into Hb).
  cbv beta iota zeta delta [ip6] in H.
  match type of H with (if ?c then _ else _) = _ => destruct c; [discriminate|] end.
  injection H as <-. cbv beta iota delta [i_ver i_payload i_q].
  split; [reflexivity|]. split; [apply (bytes_skipn 32); exact Hb|].
  eexists _, _. unfold q6. reflexivity.
Qed.

Lemma tcp_seg_facts buf t : bytes buf -> tcp_seg buf = Some (Ok t) ->
  exists optbuf a b fA d e f g h,
    bytes optbuf /\
    parse_options optbuf (t_type t =? fSYN) = Ok (t_opts t) /\
    t_q t = N.lor (qt a b fA d e f g h) (o_quirks (t_opts t)) /\
    (fA = false -> 0 <= t_type t < 16) /\ (fA = true -> 16 <= t_type t).
Proof.
  intros Hb H.
  do 20 (destruct buf as [|? buf]; [cbv beta iota delta [tcp_seg] in H; discriminate | apply bytes_tl in Hb as Hb']; clear Hb; rename Hb' into Hb).
  cbv beta iota zeta delta [tcp_seg] in H.
  match type of H with (if ?c then _ else _) = _ => destruct c; [discriminate|] end.
  match type of H with Some (match parse_options ?ob ?sy with _ => _ end) = _ =>
    destruct (parse_options ob sy) as [o|er] eqn:P; [|discriminate] end.
  apply (f_equal (fun x => match x with Some (Ok y) => y | _ => t end)) in H. cbv beta iota in H. subst t.
  cbv beta iota delta [t_type t_opts t_q].
  eexists _, _, _, _, _, _, _, _, _.
  split; [apply bytes_firstn; exact Hb|].
  split; [exact P|].
  split; [unfold qt; reflexivity|].
  unfold bit. change (2 ^ 4) with 16.
  split; intros E.
  - apply Z.eqb_neq in E. lia.
  - apply Z.eqb_eq in E. lia.
Qed.

Definition TcpFacts (t : tcp_info) : Prop :=
  exists optbuf a b fA d e f g h,
    bytes optbuf /\
    parse_options optbuf (t_type t =? fSYN) = Ok (t_opts t) /\
    t_q t = N.lor (qt a b fA d e f g h) (o_quirks (t_opts t)) /\
    (fA = false -> 0 <= t_type t < 16) /\ (fA = true -> 16 <= t_type t).

Lemma parse_facts v pk k : bytes pk -> parse_datagram v pk = Framed (Ok k) ->
  (if v =? 4 then i_ver (k_ip k) = 4 /\ exists e vv d z, i_q (k_ip k) = q4 e vv d z
   else i_ver (k_ip k) = 6 /\ exists f e, i_q (k_ip k) = q6 f e) /\
  TcpFacts (k_tcp k).
Proof.
  intros Hb H. unfold parse_datagram in H.
  destruct (if v =? 4 then ip4 pk else ip6 pk) as [ip|] eqn:Hip; [|discriminate].
  destruct (negb (i_proto ip =? 6) || negb (i_fragoff ip =? 0)); [discriminate|].
  destruct (tcp_seg (i_payload ip)) as [[t|er]|] eqn:Ht; try discriminate.
  apply (f_equal (fun x => match x with Framed (Ok y) => y | _ => k end)) in H. cbv beta iota in H. subst k.
  cbv beta iota delta [k_ip k_tcp].
  destruct (v =? 4).
  - destruct (ip4_facts pk ip Hb Hip) as (Hv & Hp & Hq).
    split; [split; assumption|]. apply (tcp_seg_facts _ _ Hp Ht).
  - destruct (ip6_facts pk ip Hb Hip) as (Hv & Hp & Hq).
    split; [split; assumption|]. apply (tcp_seg_facts _ _ Hp Ht).
Qed.

(* ------------------------------------------------------------------ *)
(* 3. Option facts from BAD-freeness                                    *)
(* ------------------------------------------------------------------ *)
Definition tail_lay (tl : option (list Z)) : list Z := match tl with Some _ => [0] | None => [] end.

Lemma opts_facts optbuf syn o : bytes optbuf -> parse_options optbuf syn = Ok o ->
  hasq qBAD (o_quirks o) = false ->
  exists l tl, Forall wf_opt l /\ o_layout o = map kind_of l ++ tail_lay tl /\
    o_mss o = lastm l 0 /\ o_ws o = lastw l 0 /\
    (forall k, N.eqb k qEOLNZ = false -> hasq k (o_quirks o) = existsb (oq syn k) l).
Proof.
  intros Hb Hp Hbad. unfold parse_options in Hp.
  destruct (walk (length optbuf) optbuf syn w0) as [s'|] eqn:W; [|discriminate].
  injection Hp as <-. cbn [o_quirks o_layout o_mss o_ws finish] in *.
  destruct (walk_sound _ _ _ _ _ Hb W (hasq_0 qBAD) Hbad) as (l & tl & Hl & _ & ->).
  exists l, tl. split; [exact Hl|].
  unfold expected. fold (foldo syn l w0).
  destruct tl as [pad|]; cbn [apply_tail tail_lay].
  - assert (forall st, w_rlayout (if all_zero pad then w_set_eol (len pad) (w_push 0 st) else w_quirk qEOLNZ (w_set_eol (len pad) (w_push 0 st))) = 0 :: w_rlayout st) as E1
      by (intros st; destruct (all_zero pad); reflexivity).
    assert (forall st, w_mss (if all_zero pad then w_set_eol (len pad) (w_push 0 st) else w_quirk qEOLNZ (w_set_eol (len pad) (w_push 0 st))) = w_mss st) as E2
      by (intros st; destruct (all_zero pad); reflexivity).
    assert (forall st, w_ws (if all_zero pad then w_set_eol (len pad) (w_push 0 st) else w_quirk qEOLNZ (w_set_eol (len pad) (w_push 0 st))) = w_ws st) as E3
      by (intros st; destruct (all_zero pad); reflexivity).
    rewrite E1, E2, E3, foldo_layout, foldo_mss, foldo_ws. cbn [w_rlayout w_mss w_ws w0 rev].
    rewrite app_nil_r, rev_involutive.
    repeat split.
    intros k Hk.
    destruct (all_zero pad); cbn [w_q w_quirk w_set_eol w_push]; [|rewrite hasq_setq, Hk, orb_false_r];
      rewrite foldo_q; cbn [w_q w0]; rewrite hasq_0; reflexivity.
  - rewrite foldo_layout, foldo_mss, foldo_ws. cbn [w_rlayout w_mss w_ws w0].
    rewrite !app_nil_r, rev_involutive. repeat split.
    intros k Hk. rewrite foldo_q. cbn [w_q w0]. rewrite hasq_0. reflexivity.
Qed.

(* ------------------------------------------------------------------ *)
(* 4. Counting kinds                                                    *)
(* ------------------------------------------------------------------ *)
Lemma count_cons k x l : count_kind k (x :: l) = ((if (k =? x)%Z then 1 else 0) + count_kind k l)%nat.
Proof. unfold count_kind. cbn [filter]. destruct (k =? x); reflexivity. Qed.

Lemma count_app k a b : count_kind k (a ++ b) = (count_kind k a + count_kind k b)%nat.
Proof. unfold count_kind. rewrite filter_app, app_length. reflexivity. Qed.

Lemma count_body k lay : k <> 0 -> count_kind k (body_of lay) = count_kind k lay.
Proof.
  intros Hk.
  transitivity (count_kind k (body_of lay ++ (if has_eol lay then [0] else []))); [|rewrite <- layout_split; reflexivity].
  rewrite count_app. apply Z.eqb_neq in Hk.
  destruct (has_eol lay); [rewrite count_cons, Hk|]; unfold count_kind; cbn [filter length]; lia.
Qed.

Lemma count_tail k l tl : k <> 0 -> count_kind k (map kind_of l ++ tail_lay tl) = count_kind k (map kind_of l).
Proof.
  intros Hk. rewrite count_app. apply Z.eqb_neq in Hk.
  destruct tl; cbn [tail_lay]; [rewrite count_cons, Hk|]; unfold count_kind; cbn [filter length]; lia.
Qed.

Lemma kind3 o : wf_opt o -> (3 =? kind_of o) = match o with WWs _ => true | _ => false end.
Proof.
  destruct o; try reflexivity. cbn [wf_opt kind_of]. intros H. apply Z.eqb_neq. lia.
Qed.
Lemma kind2 o : wf_opt o -> (2 =? kind_of o) = match o with WMss _ => true | _ => false end.
Proof.
  destruct o; try reflexivity. cbn [wf_opt kind_of]. intros H. apply Z.eqb_neq. lia.
Qed.
Lemma kind8 o : wf_opt o -> (8 =? kind_of o) = match o with WTs _ _ => true | _ => false end.
Proof.
  destruct o; try reflexivity. cbn [wf_opt kind_of]. intros H. apply Z.eqb_neq. lia.
Qed.

Lemma oq_other syn k o : N.eqb k qZTS1 = false -> N.eqb k qNZTS2 = false -> N.eqb k qEXWS = false -> oq syn k o = false.
Proof.
  intros H1 H2 H3. destruct o; cbn [oq]; rewrite ?H1, ?H2, ?H3, ?andb_false_r; reflexivity.
Qed.

Lemma existsb_oq_other syn k l : N.eqb k qZTS1 = false -> N.eqb k qNZTS2 = false -> N.eqb k qEXWS = false ->
  existsb (oq syn k) l = false.
Proof. intros H1 H2 H3. apply existsb_false. intros x _. apply oq_other; assumption. Qed.

Lemma ws_count l : Forall wf_opt l -> forall d syn,
  (count_kind 3 (map kind_of l) = 0%nat -> lastw l d = d /\ existsb (oq syn qEXWS) l = false) /\
  (count_kind 3 (map kind_of l) = 1%nat -> existsb (oq syn qEXWS) l = (lastw l d >? 14)).
Proof.
  induction 1 as [|o l Ho Hl IH]; intros d syn.
  - split; intros H; [split; reflexivity | discriminate H].
  - cbn [map]. rewrite count_cons, (kind3 o Ho).
    destruct o; cbn [lastw existsb oq Nat.add]; neqb; rewrite ?andb_false_r, ?andb_true_r; cbn [orb]; try apply IH.
    split; intros H; [discriminate H|].
    injection H as H. destruct (proj1 (IH v syn) H) as [E1 E2]. rewrite E1, E2, orb_false_r. reflexivity.
Qed.

Lemma mss_count l : Forall wf_opt l -> forall d, count_kind 2 (map kind_of l) = 0%nat -> lastm l d = d.
Proof.
  induction 1 as [|o l Ho Hl IH]; intros d; [reflexivity|].
  cbn [map]. rewrite count_cons, (kind2 o Ho).
  destruct o; cbn [lastm Nat.add]; try apply IH. intros H; discriminate H.
Qed.

Lemma ts_count l syn : Forall wf_opt l -> count_kind 8 (map kind_of l) = 0%nat ->
  existsb (oq syn qZTS1) l = false /\ existsb (oq syn qNZTS2) l = false.
Proof.
  induction 1 as [|o l Ho Hl IH]; [split; reflexivity|].
  cbn [map]. rewrite count_cons, (kind8 o Ho).
  destruct o; cbn [existsb oq Nat.add]; neqb; rewrite ?andb_false_r; cbn [orb]; try apply IH.
  intros H; discriminate H.
Qed.

Lemma ts2_syn l : existsb (oq false qNZTS2) l = false.
Proof.
  apply existsb_false. intros o _. destruct o; cbn [oq]; neqb; rewrite ?andb_false_r; reflexivity.
Qed.

(* ------------------------------------------------------------------ *)
(* 5. Bits of the signature vs bits of the packet                       *)
(* ------------------------------------------------------------------ *)
Lemma sq_bit_any s p k : sq_of s p = p_quirks p -> existsb (N.eqb k) (v4_only ++ v6_only) = false ->
  hasq k (s_quirks s) = hasq k (p_quirks p).
Proof.
  intros E H. rewrite <- E. unfold sq_of. destruct (s_ver s =? -1); [|reflexivity].
  rewrite existsb_app in H. apply orb_false_iff in H. destruct H as [H4 H6].
  destruct (p_ver p =? 4); unfold hasq; rewrite N.ldiff_spec, testbit_mask_of, ?H4, ?H6; cbn [negb]; rewrite andb_true_r; reflexivity.
Qed.

Lemma sq_bit_4 s p k : sq_of s p = p_quirks p -> p_ver p = 4 -> existsb (N.eqb k) v6_only = false ->
  hasq k (s_quirks s) = hasq k (p_quirks p).
Proof.
  intros E V H. rewrite <- E. unfold sq_of. destruct (s_ver s =? -1); [|reflexivity].
  rewrite V. change (4 =? 4) with true. cbv iota.
  unfold hasq; rewrite N.ldiff_spec, testbit_mask_of, H; cbn [negb]; rewrite andb_true_r; reflexivity.
Qed.

Lemma inv_bits q m k : N.land q m = 0%N -> hasq k m = true -> hasq k q = false.
Proof.
  intros H Hm. unfold hasq in *. pose proof (proj1 (eq0_bits _) H k) as Hk.
  rewrite N.land_spec, Hm, andb_true_r in Hk. exact Hk.
Qed.

Lemma hasq_lor k a b : hasq k (N.lor a b) = hasq k a || hasq k b.
Proof. unfold hasq. apply N.lor_spec. Qed.

Lemma supported_counts s : supported_b s = true ->
  hasq qBAD (s_quirks s) = false /\
  (count_kind 3 (body_of (s_layout s)) <= 1)%nat.
Proof.
  unfold supported_b. cbv zeta. repeat rewrite andb_true_iff.
  intros ((((((((Ho & Hk) & He) & Hz) & Hb) & H2) & H3) & H8) & Hw).
  split; [apply negb_true_iff; exact Hb | apply Nat.leb_le; exact H3].
Qed.

Theorem satisfiable_coherent : forall md s b,
  wf_sig s -> (s_quirks s < 2 ^ 17)%N -> N.land (s_quirks s) (invalid_for (s_ver s)) = 0%N ->
  supported_b s = true -> admissible_base b -> Satisfiable md s b ->
  coherent_b s b = true.
Proof.
  intros md s b W Hlt Hinv U A (pk & k & Hb & Hp & Hty & Hm).
  destruct A as (Hver & Hfl & _).
  destruct (supported_counts s U) as (Ubad & U3).
  (* the match, decomposed *)
  rewrite tcp_match_nf in Hm.
  destruct (all_b s (sig_of k 0)) eqn:Hall; [|discriminate].
  injection Hm as Hm. unfold type_of in Hm.
  destruct (negb (s_bad_ttl s) && _); [discriminate|].
  destruct (N.eqb (sq_of s (sig_of k 0)) (p_quirks (sig_of k 0))) eqn:Q; [|discriminate]. clear Hm.
  apply N.eqb_eq in Q.
  unfold all_b in Hall. repeat rewrite andb_true_iff in Hall.
  destruct Hall as ((((((HL & HV) & _) & _) & _) & HW) & _).
  apply list_eqb_eq in HL. apply wild_b_spec in HW. destruct HW as (HWm & HWs & _).
  (* the packet *)
  destruct (parse_facts _ _ _ Hb Hp) as (Hip & (optbuf & ca & cb & fA & cd & ce & cf & cg & ch & Hob & Hpo & Htq & HfA0 & HfA1)).
  set (p := sig_of k 0) in *.
  assert (PV : p_ver p = i_ver (k_ip k)) by reflexivity.
  assert (PQ : p_quirks p = N.lor (i_q (k_ip k)) (t_q (k_tcp k))) by reflexivity.
  assert (PL : p_layout p = o_layout (t_opts (k_tcp k))) by reflexivity.
  assert (PM : p_mss p = o_mss (t_opts (k_tcp k))) by reflexivity.
  assert (PW : p_ws p = o_ws (t_opts (k_tcp k))) by reflexivity.
  assert (PVb : p_ver p = b_ver b).
  { rewrite PV. destruct Hver as [E|E]; rewrite E in *.
    - change (4 =? 4) with true in Hip. cbv iota in Hip. apply Hip.
    - change (6 =? 4) with false in Hip. cbv iota in Hip. apply Hip. }
  assert (IQ6 : forall j, (6 <= j)%N -> hasq j (i_q (k_ip k)) = false).
  { intros j Hj. destruct (b_ver b =? 4).
    - destruct Hip as (_ & e & v & d & z & ->). apply (hasq_lt _ 5); [apply q4_lt | lia].
    - destruct Hip as (_ & f & e & ->). apply (hasq_lt _ 6); [apply q6_lt | lia]. }
  (* options *)
  assert (OB : hasq qBAD (o_quirks (t_opts (k_tcp k))) = false).
  { pose proof (sq_bit_any s p qBAD Q eq_refl) as E. rewrite Ubad, PQ, Htq, !hasq_lor in E.
    symmetry in E. apply orb_false_iff in E. destruct E as [_ E]. apply orb_false_iff in E. apply E. }
  destruct (opts_facts _ _ _ Hob Hpo OB) as (l & tl & Hl & OL & OM & OW & OQ).
  set (syn := t_type (k_tcp k) =? fSYN) in *.
  assert (BITS : forall j, existsb (N.eqb j) (v4_only ++ v6_only) = false -> N.leb 6 j = true -> N.eqb j qEOLNZ = false ->
            hasq j (s_quirks s) = hasq j (qt ca cb fA cd ce cf cg ch) || existsb (oq syn j) l).
  { intros j Hj Hj6 Hj'. rewrite (sq_bit_any s p j Q Hj), PQ, Htq, !hasq_lor, (OQ j Hj').
    rewrite IQ6; [reflexivity | apply N.leb_le; exact Hj6]. }
  assert (TY : t_type (k_tcp k) = 2 \/ t_type (k_tcp k) = 18) by (rewrite Hty; exact Hfl).
  assert (C8 : count_kind 8 (body_of (s_layout s)) = count_kind 8 (map kind_of l))
    by (rewrite count_body, HL, PL, OL, count_tail; [reflexivity | lia | lia]).
  assert (C3 : count_kind 3 (body_of (s_layout s)) = count_kind 3 (map kind_of l))
    by (rewrite count_body, HL, PL, OL, count_tail; [reflexivity | lia | lia]).
  assert (C2 : count_kind 2 (body_of (s_layout s)) = count_kind 2 (map kind_of l))
    by (rewrite count_body, HL, PL, OL, count_tail; [reflexivity | lia | lia]).
  unfold coherent_b. cbv zeta. repeat rewrite andb_true_iff.
  repeat match goal with |- _ /\ _ => split end.
  - (* version *)
    unfold ver_b in HV. rewrite PVb in HV. destruct (s_ver s =? -1); [reflexivity | exact HV].
  - (* IP family clause *)
    assert (SV : (s_ver s =? -1) = false -> s_ver s = b_ver b).
    { intros V1. unfold ver_b in HV. rewrite V1, PVb in HV. apply Z.eqb_eq. exact HV. }
    destruct (b_ver b =? 4) eqn:V4.
    + apply Z.eqb_eq in V4. destruct Hip as (_ & e & v & d & z & IQ).
      assert (BD : hasq qDF (s_quirks s) = hasq qDF (q4 e v d z)).
      { rewrite (sq_bit_4 s p qDF Q (eq_trans PVb V4) eq_refl), PQ, Htq, !hasq_lor, IQ, qt_low, (OQ qDF eq_refl), existsb_oq_other
          by (reflexivity || (unfold qDF; lia)). rewrite !orb_false_r. reflexivity. }
      assert (BN : hasq qNZID (s_quirks s) = hasq qNZID (q4 e v d z)).
      { rewrite (sq_bit_4 s p qNZID Q (eq_trans PVb V4) eq_refl), PQ, Htq, !hasq_lor, IQ, qt_low, (OQ qNZID eq_refl), existsb_oq_other
          by (reflexivity || (unfold qNZID; lia)). rewrite !orb_false_r. reflexivity. }
      assert (BZ : hasq qZID (s_quirks s) = hasq qZID (q4 e v d z)).
      { rewrite (sq_bit_4 s p qZID Q (eq_trans PVb V4) eq_refl), PQ, Htq, !hasq_lor, IQ, qt_low, (OQ qZID eq_refl), existsb_oq_other
          by (reflexivity || (unfold qZID; lia)). rewrite !orb_false_r. reflexivity. }
      assert (BF : negb (hasq qFLOW (s_quirks s)) || (s_ver s =? -1) = true).
      { destruct (s_ver s =? -1) eqn:V1; [apply orb_true_r|]. rewrite (SV eq_refl), V4 in Hinv.
        rewrite (inv_bits _ _ qFLOW Hinv eq_refl). reflexivity. }
      rewrite BD, BN, BZ, BF.
      pose proof (q4_nzid e v d z) as N1. pose proof (q4_zid e v d z) as N2.
      destruct (hasq qNZID (q4 e v d z)), (hasq qDF (q4 e v d z)), (hasq qZID (q4 e v d z)); cbn [negb andb orb];
        try reflexivity; try (specialize (N1 eq_refl); discriminate); try (specialize (N2 eq_refl); discriminate).
    + assert (V6 : b_ver b = 6) by (apply Z.eqb_neq in V4; destruct Hver; [contradiction | assumption]).
      destruct (s_ver s =? -1) eqn:V1; [reflexivity|]. rewrite (SV eq_refl), V6 in Hinv.
      rewrite (inv_bits _ _ qDF Hinv eq_refl), (inv_bits _ _ qNZID Hinv eq_refl), (inv_bits _ _ qZID Hinv eq_refl),
        (inv_bits _ _ qMBZ Hinv eq_refl). reflexivity.
  - (* ack+ / ack- exclusive *)
    rewrite (BITS qNZACK eq_refl eq_refl eq_refl), (BITS qZACK eq_refl eq_refl eq_refl).
    rewrite !existsb_oq_other by reflexivity. rewrite !orb_false_r.
    destruct (hasq qNZACK (qt ca cb fA cd ce cf cg ch)) eqn:E1, (hasq qZACK (qt ca cb fA cd ce cf cg ch)) eqn:E2; try reflexivity.
    apply qt_nzack in E1. apply qt_zack in E2. congruence.
  - (* uptr+ / urgf+ exclusive *)
    rewrite (BITS qNZURG eq_refl eq_refl eq_refl), (BITS qURG eq_refl eq_refl eq_refl).
    rewrite !existsb_oq_other by reflexivity. rewrite !orb_false_r.
    apply negb_true_iff. apply qt_urg.
  - (* ack+ only on SYN *)
    rewrite (BITS qNZACK eq_refl eq_refl eq_refl), existsb_oq_other by reflexivity. rewrite orb_false_r.
    destruct (hasq qNZACK (qt ca cb fA cd ce cf cg ch)) eqn:E1; [|reflexivity].
    apply qt_nzack in E1. specialize (HfA0 E1). apply Z.eqb_eq. rewrite <- Hty. lia.
  - (* ack- only on SYN+ACK *)
    rewrite (BITS qZACK eq_refl eq_refl eq_refl), existsb_oq_other by reflexivity. rewrite orb_false_r.
    destruct (hasq qZACK (qt ca cb fA cd ce cf cg ch)) eqn:E1; [|reflexivity].
    apply qt_zack in E1. specialize (HfA1 E1). apply negb_true_iff. apply Z.eqb_neq. rewrite <- Hty. lia.
  - (* timestamps *)
    rewrite C8.
    rewrite (BITS qNZTS2 eq_refl eq_refl eq_refl), (hasq_lt _ 12 qNZTS2 (qt_lt _ _ _ _ _ _ _ _)) by (unfold qNZTS2; lia).
    cbn [orb].
    destruct (Nat.eqb (count_kind 8 (map kind_of l)) 0) eqn:E8.
    + apply Nat.eqb_eq in E8. destruct (ts_count l syn Hl E8) as [T1 T2].
      rewrite (BITS qZTS1 eq_refl eq_refl eq_refl), (hasq_lt _ 12 qZTS1 (qt_lt _ _ _ _ _ _ _ _)) by (unfold qZTS1; lia).
      rewrite T1, T2. reflexivity.
    + destruct (existsb (oq syn qNZTS2) l) eqn:E; [|reflexivity].
      subst syn. destruct (t_type (k_tcp k) =? fSYN) eqn:S; [|rewrite ts2_syn in E; discriminate].
      apply Z.eqb_eq in S. unfold fSYN in S. apply Z.eqb_eq. rewrite <- Hty. exact S.
  - (* window scale *)
    rewrite C3 in *.
    rewrite (BITS qEXWS eq_refl eq_refl eq_refl), (hasq_lt _ 12 qEXWS (qt_lt _ _ _ _ _ _ _ _)) by (unfold qEXWS; lia).
    cbn [orb].
    destruct (Nat.eqb (count_kind 3 (map kind_of l)) 0) eqn:E3.
    + apply Nat.eqb_eq in E3. destruct (proj1 (ws_count l Hl 0 syn) E3) as [L1 L2].
      rewrite L2. cbn [negb andb].
      destruct HWs as [H|H]; rewrite H; [reflexivity|]. rewrite PW, OW, L1. reflexivity.
    + apply Nat.eqb_neq in E3.
      assert (H1 : count_kind 3 (map kind_of l) = 1%nat) by lia.
      destruct (s_wscale s =? -1) eqn:E; [reflexivity|].
      destruct HWs as [H|H]; [rewrite H in E; discriminate|].
      rewrite H, PW, OW, (proj2 (ws_count l Hl 0 syn) H1). apply eqb_reflx.
  - (* MSS *)
    rewrite C2.
    destruct (Nat.eqb (count_kind 2 (map kind_of l)) 0) eqn:E2; [|reflexivity].
    apply Nat.eqb_eq in E2.
    destruct HWm as [H|H]; rewrite H; [reflexivity|]. rewrite PM, OM, (mss_count l Hl 0 E2). reflexivity.
  - apply N.ltb_lt. exact Hlt.
Qed.

(* hence the impersonation theorem in the property's own terms *)
Theorem satisfiable_supported_sound : forall md s b hops mtu t x t',
  wf_sig s -> (s_quirks s < 2 ^ 17)%N -> N.land (s_quirks s) (invalid_for (s_ver s)) = 0%N ->
  supported_b s = true -> admissible_base b -> Satisfiable md s b ->
  0 <= hops < s_ttl s -> hops <= md ->
  imp_tcp s b hops mtu None t = Ok (x, t') ->
  oracle md s x = Ok (Some Exact, hops).
Proof.
  intros md s b hops mtu t x t' W Hlt Hinv U A S Hh Hmd Hrun.
  apply (supported_sound md s b hops mtu t x t' W U (satisfiable_coherent md s b W Hlt Hinv U A S) A Hh Hmd Hrun).
Qed.

Print Assumptions satisfiable_coherent.
Print Assumptions satisfiable_supported_sound.
