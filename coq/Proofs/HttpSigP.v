(* Property C09 (HTTP part): a printable HTTP signature parses back from its text. *)
From Coq Require Import Lia String.
From PV Require Import Model.Prelude Model.Bits Model.Sig Model.Text Model.SigParse Model.DbParse Model.Dump Proofs.TextP.

(* characters with a meaning in the grammar *)
Definition plain (t : text) : Prop := Forall (fun c => c <> 58 /\ c <> 44 /\ c <> 61 /\ c <> 91 /\ c <> 93) t.   (* no : , = [ ] *)
Definition value_ok (t : text) : Prop := Forall (fun c => c <> 58 /\ c <> 91 /\ c <> 93) t.                      (* no : [ ] (commas allowed) *)
Definition header_ok (h : sig_header) : Prop :=
  sh_name h <> [] /\ plain (sh_name h) /\ (match sh_name h with c :: _ => c <> 63 | [] => True end) /\     (* a name does not start with '?' *)
  match sh_value h with Some v => value_ok v | None => True end.
Definition lower_case (t : text) : Prop := Forall (fun c => ~ (65 <= c <= 90)) t.
Definition printable_http (h : http_sig) : Prop :=
  (hs_version h = -1 \/ hs_version h = 0 \/ hs_version h = 1) /\
  Forall header_ok (hs_headers h) /\
  Forall (fun a => a <> [] /\ plain a /\ lower_case a) (hs_absent h) /\
  match hs_software h with Some s => s <> [] /\ Forall (fun c => c <> 58) s | None => True end.

(* ---------- membership ---------- *)

Lemma hs_mem_app c (a b : text) : mem c (a ++ b) = mem c a || mem c b.
Proof. unfold mem. apply existsb_app. Qed.

Lemma hs_mem_false c (t : text) : Forall (fun x => x <> c) t -> mem c t = false.
Proof.
  intro H. induction H as [|x t Hx Ht IH]; [reflexivity|].
  unfold mem in *. cbn [existsb]. rewrite IH, orb_false_r. apply Z.eqb_neq. congruence.
Qed.

Lemma hs_mem_cons_false sep c (x : text) :
  mem sep (c :: x) = false -> (c =? sep) = false /\ mem sep x = false.
Proof.
  unfold mem. cbn [existsb]. intro H. apply orb_false_iff in H. destruct H as [Hc Hx].
  rewrite Z.eqb_sym. split; assumption.
Qed.

Lemma hs_mem_join c sep (l : list text) :
  mem c sep = false -> Forall (fun p => mem c p = false) l -> mem c (join sep l) = false.
Proof.
  intros Hs H. induction H as [|x l Hx Hl IH]; [reflexivity|].
  destruct l as [|y l]; [exact Hx|].
  change (join sep (x :: y :: l)) with (x ++ sep ++ join sep (y :: l)).
  rewrite !hs_mem_app, Hx, Hs, IH. reflexivity.
Qed.

(* ---------- split_max / split_parts for 4 colon-free pieces ---------- *)

Lemma hs_split_max_app_sep sep n x rest :
  mem sep x = false -> split_max sep (S n) (x ++ sep :: rest) = x :: split_max sep n rest.
Proof.
  induction x as [|c x IH]; intro H.
  - cbn [app split_max]. rewrite Z.eqb_refl. reflexivity.
  - apply hs_mem_cons_false in H. destruct H as [Hc Hx].
    cbn [app]. cbn [split_max]. rewrite Hc.
    rewrite (IH Hx). reflexivity.
Qed.

Lemma hs_split_max_free sep n x : mem sep x = false -> split_max sep (S n) x = [x].
Proof.
  induction x as [|c x IH]; intro H; [reflexivity|].
  apply hs_mem_cons_false in H. destruct H as [Hc Hx].
  cbn [split_max]. rewrite Hc.
  rewrite (IH Hx). reflexivity.
Qed.

Lemma split_parts_4 (a b c d : text) :
  mem 58 a = false -> mem 58 b = false -> mem 58 c = false -> mem 58 d = false ->
  split_parts (join [58] [a; b; c; d]) 4 58 = [a; b; c; d].
Proof.
  intros Ha Hb Hc Hd. unfold split_parts.
  cbn [join]. cbn [app].
  rewrite (hs_split_max_app_sep 58 3 a _ Ha).
  rewrite (hs_split_max_app_sep 58 2 b _ Hb).
  rewrite (hs_split_max_app_sep 58 1 c _ Hc).
  rewrite (hs_split_max_free 58 0 d Hd).
  reflexivity.
Qed.

(* ---------- the shape of a printed header ---------- *)

Definition hpre (h : sig_header) : text := (if sh_optional h then [63] else []) ++ sh_name h.

Lemma print_header_eq h :
  print_header h = hpre h ++ match sh_value h with Some v => 61 :: 91 :: v ++ [93] | None => [] end.
Proof.
  unfold print_header, hpre. rewrite <- app_assoc. destruct (sh_optional h), (sh_value h); reflexivity.
Qed.

Lemma plain_mem t : plain t ->
  mem 58 t = false /\ mem 44 t = false /\ mem 61 t = false /\ mem 91 t = false /\ mem 93 t = false.
Proof.
  intro H. repeat split; apply hs_mem_false; (eapply Forall_impl; [|exact H]); cbv beta; intros a Ha; tauto.
Qed.

Lemma hpre_mem h k : k <> 63 -> mem k (sh_name h) = false -> mem k (hpre h) = false.
Proof.
  intros Hk Hm. unfold hpre. rewrite hs_mem_app, Hm, orb_false_r.
  destruct (sh_optional h); [|reflexivity].
  unfold mem. cbn [existsb]. rewrite orb_false_r. apply Z.eqb_neq. exact Hk.
Qed.

Lemma print_header_colon h : header_ok h -> mem 58 (print_header h) = false.
Proof.
  intros (Hne & Hp & Hq & Hv). rewrite print_header_eq.
  destruct (plain_mem _ Hp) as (H58 & _).
  rewrite hs_mem_app, (hpre_mem h 58) by (try lia; assumption).
  destruct (sh_value h) as [v|]; [|reflexivity].
  change (61 :: 91 :: v ++ [93]) with ([61; 91] ++ v ++ [93]).
  rewrite !hs_mem_app.
  rewrite (hs_mem_false 58 v); [reflexivity|].
  eapply Forall_impl; [|exact Hv]. cbv beta. intros a Ha. tauto.
Qed.

Lemma print_header_nonempty h : header_ok h -> print_header h <> [].
Proof.
  intros (Hne & _) H. rewrite print_header_eq in H. unfold hpre in H.
  apply app_eq_nil in H. destruct H as [H _].
  apply app_eq_nil in H. destruct H as [_ H]. contradiction.
Qed.

(* ---------- close_first ---------- *)

Lemma close_first_skip x t :
  mem 91 x = false -> mem 93 x = false -> close_first (x ++ t) = close_first t.
Proof.
  induction x as [|c x IH]; intros H1 H2; [reflexivity|].
  apply hs_mem_cons_false in H1. destruct H1 as [Hc1 Hx1].
  apply hs_mem_cons_false in H2. destruct H2 as [Hc2 Hx2].
  cbn [app close_first]. rewrite Hc1, Hc2. apply IH; assumption.
Qed.

Lemma close_first_value v t : value_ok v -> close_first (v ++ 93 :: t) = true.
Proof.
  intro H. rewrite close_first_skip.
  - reflexivity.
  - apply hs_mem_false. eapply Forall_impl; [|exact H]. cbv beta. intros a Ha. tauto.
  - apply hs_mem_false. eapply Forall_impl; [|exact H]. cbv beta. intros a Ha. tauto.
Qed.

Lemma close_first_header h t : header_ok h ->
  close_first (print_header h ++ t) = match sh_value h with Some _ => false | None => close_first t end.
Proof.
  intros (Hne & Hp & Hq & Hv). rewrite print_header_eq.
  destruct (plain_mem _ Hp) as (_ & _ & _ & H91 & H93).
  rewrite <- app_assoc. rewrite close_first_skip by (apply hpre_mem; [lia | assumption]).
  destruct (sh_value h) as [v|]; reflexivity.
Qed.

Lemma close_first_join hs : Forall header_ok hs -> close_first (join [44] (map print_header hs)) = false.
Proof.
  intro H. induction H as [|h hs Hh Hhs IH]; [reflexivity|].
  destruct hs as [|h2 hs].
  - cbn [map join]. rewrite <- (app_nil_r (print_header h)).
    rewrite (close_first_header h [] Hh). destruct (sh_value h); reflexivity.
  - change (join [44] (map print_header (h :: h2 :: hs)))
      with (print_header h ++ 44 :: join [44] (map print_header (h2 :: hs))).
    rewrite (close_first_header h _ Hh). destruct (sh_value h); [reflexivity|].
    cbn [close_first]. change (44 =? 93) with false. change (44 =? 91) with false. cbv iota. exact IH.
Qed.

(* ---------- hsplit ---------- *)

Definition happ (p : text) (l : list text) : list text :=
  match l with [] => [p] | h :: tl => (p ++ h) :: tl end.

Lemma hsplit_ne t : hsplit t <> [].
Proof.
  destruct t as [|c r]; cbn [hsplit]; [discriminate|].
  destruct ((c =? 44) && negb (close_first r)); [discriminate|].
  destruct (hsplit r); discriminate.
Qed.

Lemma happ_nil l : l <> [] -> happ [] l = l.
Proof. destruct l; [congruence | reflexivity]. Qed.

Lemma happ_happ a b l : happ a (happ b l) = happ (a ++ b) l.
Proof. destruct l; cbn [happ]; rewrite <- ?app_assoc; reflexivity. Qed.

Lemma hsplit_cons_nosplit c r :
  (c =? 44) && negb (close_first r) = false -> hsplit (c :: r) = happ [c] (hsplit r).
Proof.
  intro H. cbn [hsplit]. rewrite H. destruct (hsplit r) eqn:E; [exfalso; exact (hsplit_ne _ E)|]. reflexivity.
Qed.

Lemma hsplit_app_free p t : mem 44 p = false -> hsplit (p ++ t) = happ p (hsplit t).
Proof.
  induction p as [|c p IH]; intro H.
  - cbn [app]. symmetry. apply happ_nil. apply hsplit_ne.
  - apply hs_mem_cons_false in H. destruct H as [Hc Hp].
    cbn [app]. rewrite hsplit_cons_nosplit by (rewrite Hc; reflexivity).
    rewrite (IH Hp), happ_happ. reflexivity.
Qed.

Lemma hsplit_app_value v t : value_ok v -> hsplit (v ++ 93 :: t) = happ v (hsplit (93 :: t)).
Proof.
  induction v as [|c v IH]; intro H.
  - cbn [app]. symmetry. apply happ_nil. apply hsplit_ne.
  - inversion H as [|? ? Hc Hv]; subst.
    cbn [app]. rewrite hsplit_cons_nosplit.
    + rewrite (IH Hv), happ_happ. reflexivity.
    + rewrite (close_first_value v t Hv). apply andb_false_r.
Qed.

Lemma hsplit_header h t : header_ok h -> hsplit (print_header h ++ t) = happ (print_header h) (hsplit t).
Proof.
  intros (Hne & Hp & Hq & Hv). rewrite print_header_eq.
  destruct (plain_mem _ Hp) as (_ & H44 & _).
  assert (Hpre : mem 44 (hpre h) = false) by (apply hpre_mem; [lia | assumption]).
  rewrite <- app_assoc. rewrite (hsplit_app_free _ _ Hpre).
  destruct (sh_value h) as [v|].
  - change ((61 :: 91 :: v ++ [93]) ++ t) with ([61; 91] ++ ((v ++ [93]) ++ t)).
    rewrite <- app_assoc. change ([93] ++ t) with (93 :: t).
    rewrite (hsplit_app_free [61; 91]) by reflexivity.
    rewrite (hsplit_app_value v t Hv).
    rewrite (hsplit_cons_nosplit 93 t) by reflexivity.
    rewrite !happ_happ. f_equal.
    change (61 :: 91 :: v ++ [93]) with ([61; 91] ++ v ++ [93]).
    rewrite <- !app_assoc. reflexivity.
  - cbn [app]. rewrite app_nil_r. reflexivity.
Qed.

Lemma hsplit_join hs : Forall header_ok hs -> hs <> [] ->
  hsplit (join [44] (map print_header hs)) = map print_header hs.
Proof.
  intro H. induction H as [|h hs Hh Hhs IH]; intros Hne; [congruence|].
  destruct hs as [|h2 hs].
  - cbn [map join]. rewrite <- (app_nil_r (print_header h)) at 1.
    rewrite (hsplit_header h [] Hh). cbn [hsplit happ]. rewrite app_nil_r. reflexivity.
  - change (join [44] (map print_header (h :: h2 :: hs)))
      with (print_header h ++ 44 :: join [44] (map print_header (h2 :: hs))).
    rewrite (hsplit_header h _ Hh).
    cbn [hsplit]. rewrite (close_first_join (h2 :: hs) Hhs).
    rewrite Z.eqb_refl. cbn [negb andb happ]. rewrite app_nil_r.
    rewrite IH by discriminate. reflexivity.
Qed.

(* ---------- parse_header ---------- *)

Lemma partition_on_sep sep p r : mem sep p = false -> partition_on sep (p ++ sep :: r) = (p, true, r).
Proof.
  induction p as [|c p IH]; intro H.
  - cbn [app partition_on]. rewrite Z.eqb_refl. reflexivity.
  - apply hs_mem_cons_false in H. destruct H as [Hc Hp].
    cbn [app partition_on]. rewrite Hc, (IH Hp). reflexivity.
Qed.

Lemma partition_on_free sep p : mem sep p = false -> partition_on sep p = (p, false, []).
Proof.
  induction p as [|c p IH]; intro H; [reflexivity|].
  apply hs_mem_cons_false in H. destruct H as [Hc Hp].
  cbn [partition_on]. rewrite Hc, (IH Hp). reflexivity.
Qed.

Lemma hpre_opt h : header_ok h ->
  starts_with (str "?") (hpre h) = sh_optional h /\
  (if sh_optional h then tl (hpre h) else hpre h) = sh_name h.
Proof.
  intros (Hne & Hp & Hq & Hv). unfold hpre. change (str "?") with [63].
  destruct (sh_optional h).
  - split; reflexivity.
  - cbn [app]. split; [|reflexivity].
    destruct (sh_name h) as [|c n]; [congruence|].
    cbn [starts_with]. rewrite andb_true_r. apply Z.eqb_neq. congruence.
Qed.

Lemma parse_print_header h : header_ok h -> parse_header (print_header h) = h.
Proof.
  intro Hok. pose proof Hok as (Hne & Hp & Hq & Hv).
  destruct (plain_mem _ Hp) as (_ & _ & H61 & _).
  assert (Hpre : mem 61 (hpre h) = false) by (apply hpre_mem; [lia | assumption]).
  destruct (hpre_opt h Hok) as [Hs Ht].
  rewrite print_header_eq. unfold parse_header.
  destruct h as [name opt value]. cbn [sh_name sh_optional sh_value] in *.
  destruct value as [v|].
  - rewrite (partition_on_sep 61 _ _ Hpre). rewrite Hs.
    f_equal; [exact Ht|]. f_equal. unfold slice_1_m1. cbn [tl]. apply removelast_last.
  - rewrite app_nil_r. rewrite (partition_on_free 61 _ Hpre). rewrite Hs. f_equal. exact Ht.
Qed.

Lemma filter_nonempty (l : list text) : Forall (fun t => t <> []) l ->
  filter (fun h : text => match h with [] => false | _ => true end) l = l.
Proof.
  intro H. induction H as [|x l Hx Hl IH]; [reflexivity|].
  cbn [filter]. destruct x; [congruence|]. rewrite IH. reflexivity.
Qed.

Lemma parse_print_headers hs : Forall header_ok hs ->
  parse_headers (join [44] (map print_header hs)) = hs.
Proof.
  intro H. unfold parse_headers. destruct hs as [|h hs]; [reflexivity|].
  rewrite (hsplit_join _ H) by discriminate.
  rewrite filter_nonempty.
  - rewrite map_map. rewrite <- (map_id (h :: hs)) at 2. apply map_ext_in.
    intros a Ha. apply parse_print_header. rewrite Forall_forall in H. apply H. exact Ha.
  - apply Forall_map. eapply Forall_impl; [|exact H]. intros a Ha. apply print_header_nonempty. exact Ha.
Qed.

(* ---------- absent list ---------- *)

Lemma lower_id t : lower_case t -> lower t = t.
Proof.
  intro H. induction H as [|c t Hc Ht IH]; [reflexivity|].
  unfold lower in *. cbn [map]. rewrite IH. f_equal.
  unfold lower_c. destruct ((65 <=? c) && (c <=? 90)) eqn:E; [|reflexivity]. lia.
Qed.

Lemma parse_absent (l : list text) : Forall (fun a => a <> [] /\ plain a /\ lower_case a) l ->
  match join [44] l with [] => [] | a => map lower (split_on 44 a) end = l.
Proof.
  intro H. destruct l as [|x l]; [reflexivity|].
  assert (Hj : map lower (split_on 44 (join [44] (x :: l))) = x :: l).
  { rewrite split_join.
    - rewrite <- (map_id (x :: l)) at 2. apply map_ext_in. intros a Ha.
      rewrite Forall_forall in H. apply lower_id. apply (H a Ha).
    - discriminate.
    - eapply Forall_impl; [|exact H]. cbv beta. intros a (_ & Hp & _). apply (plain_mem _ Hp). }
  destruct (join [44] (x :: l)) as [|c r] eqn:E; [|exact Hj].
  exfalso. inversion H as [|? ? (Hx & _) _]; subst.
  destruct l as [|y l].
  - cbn [join] in E. contradiction.
  - change (join [44] (x :: y :: l)) with (x ++ [44] ++ join [44] (y :: l)) in E.
    apply app_eq_nil in E. destruct E as [E _]. contradiction.
Qed.

(* ---------- str.encode(): printing commutes with UTF-8 encoding, because all the punctuation is ASCII ---------- *)

Definition encode_header (h : sig_header) : sig_header :=
  {| sh_name := utf8 (sh_name h); sh_optional := sh_optional h; sh_value := option_map utf8 (sh_value h) |}.
Definition encode_http (h : http_sig) : http_sig :=
  {| hs_version := hs_version h; hs_headers := map encode_header (hs_headers h); hs_absent := map utf8 (hs_absent h);
     hs_software := option_map utf8 (hs_software h) |}.
Definition ascii_text (t : text) : Prop := Forall (fun c => 0 <= c < 128) t.

(* a property of characters that holds of every byte >= 128 is preserved by encoding (for ANY integer code points:
   a code point below 128 is its own encoding, and every byte of the encoding of a code point >= 128 is >= 128) *)
Lemma utf8_Forall (P : Z -> Prop) t : (forall b, 128 <= b -> P b) -> Forall P t -> Forall P (utf8 t).
Proof.
  intros HP H. induction H as [|c t Hc Ht IH]; [constructor|].
  rewrite utf8_cons. apply Forall_app. split; [|exact IH].
  destruct (Z_lt_le_dec c 128) as [L|L].
  - rewrite (enc_c_ascii c L). constructor; [exact Hc | constructor].
  - eapply Forall_impl; [|exact (enc_c_high c L)]. intros a Ha. apply HP. exact Ha.
Qed.

Lemma utf8_nil t : utf8 t = [] -> t = [].
Proof.
  destruct t as [|c t]; [reflexivity|]. rewrite utf8_cons. intro H.
  apply app_eq_nil in H. destruct H as [H _]. exfalso. exact (enc_c_nonempty _ H).
Qed.

Lemma utf8_join sep l : utf8 (join sep l) = join (utf8 sep) (map utf8 l).
Proof.
  induction l as [|x l IH]; [reflexivity|].
  destruct l as [|y l]; [reflexivity|].
  change (join sep (x :: y :: l)) with (x ++ sep ++ join sep (y :: l)).
  rewrite !utf8_app, IH. reflexivity.
Qed.

Theorem utf8_ascii : forall t, ascii_text t -> utf8 t = t.
Proof.
  intros t H. induction H as [|c t Hc Ht IH]; [reflexivity|].
  rewrite utf8_cons, IH, enc_c_ascii by lia. reflexivity.
Qed.

Lemma utf8_print_header h : utf8 (print_header h) = print_header (encode_header h).
Proof.
  destruct h as [name opt value]. unfold print_header, encode_header. cbn [sh_name sh_optional sh_value].
  rewrite !utf8_app. destruct opt, value as [v|]; cbn [option_map]; rewrite ?utf8_app; reflexivity.
Qed.

Lemma utf8_print_headers hs :
  utf8 (join [44] (map print_header hs)) = join [44] (map print_header (map encode_header hs)).
Proof.
  rewrite utf8_join, !map_map. change (utf8 [44]) with [44]. f_equal.
  apply map_ext. intro a. apply utf8_print_header.
Qed.

Lemma plain_utf8 t : plain t -> plain (utf8 t).
Proof. apply utf8_Forall. intros b Hb. lia. Qed.

Lemma value_ok_utf8 t : value_ok t -> value_ok (utf8 t).
Proof. apply utf8_Forall. intros b Hb. lia. Qed.

Lemma lower_case_utf8 t : lower_case t -> lower_case (utf8 t).
Proof. apply utf8_Forall. intros b Hb. lia. Qed.

Lemma header_ok_encode h : header_ok h -> header_ok (encode_header h).
Proof.
  destruct h as [name opt value]. unfold header_ok, encode_header. cbn [sh_name sh_optional sh_value].
  intros (Hne & Hp & Hq & Hv). repeat split.
  - intro H. apply Hne. apply utf8_nil. exact H.
  - apply plain_utf8. exact Hp.
  - destruct name as [|c n]; [congruence|]. rewrite utf8_cons.
    destruct (Z_lt_le_dec c 128) as [L|L].
    + rewrite (enc_c_ascii c L). exact Hq.
    + pose proof (enc_c_high c L) as Hh. destruct (enc_c c) as [|b bs] eqn:Eb; [exfalso; exact (enc_c_nonempty _ Eb)|].
      inversion Hh as [|? ? Hb _]; subst. cbn [app]. lia.
  - destruct value as [v|]; cbn [option_map]; [|exact I]. apply value_ok_utf8. exact Hv.
Qed.

Lemma parse_absent_utf8 (l : list text) : Forall (fun a => a <> [] /\ plain a /\ lower_case a) l ->
  match join [44] l with [] => [] | a => map lower (split_on 44 (utf8 a)) end = map utf8 l.
Proof.
  intro H.
  assert (H' : Forall (fun a => a <> [] /\ plain a /\ lower_case a) (map utf8 l)).
  { apply Forall_map. eapply Forall_impl; [|exact H]. cbv beta. intros a (Hne & Hp & Hl).
    split; [|split].
    - intro E. apply Hne. apply utf8_nil. exact E.
    - apply plain_utf8. exact Hp.
    - apply lower_case_utf8. exact Hl. }
  pose proof (parse_absent (map utf8 l) H') as P.
  change [44] with (utf8 [44]) in P at 1. rewrite <- utf8_join in P.
  destruct (join [44] l) as [|c r] eqn:E; [exact P|].
  destruct (utf8 (c :: r)) as [|b bs] eqn:E2; [|exact P].
  apply utf8_nil in E2. discriminate.
Qed.

(* ---------- the theorem ---------- *)

(* C09: every HTTP signature within the grammar denotes exactly what its text denotes: the fields of the signature are texts of
   code points (the signature text is a str), the fields of the parsed signature are their UTF-8 encodings (bytes).  No bound on the
   code points is needed: below 128 a code point is its own encoding, and all bytes of any other are >= 128. *)
Theorem parse_print_http_sig : forall h, printable_http h -> parse_http_sig (print_http_sig h) = Ok (encode_http h).
Proof.
  intros [ver hs ab sw] (Hver & Hhs & Hab & Hsw). cbn [hs_version hs_headers hs_absent hs_software] in *.
  unfold parse_http_sig, print_http_sig, encode_http. cbn [hs_version hs_headers hs_absent hs_software].
  change (str ":") with [58]. change (str ",") with [44].
  rewrite split_parts_4.
  - unfold part. cbn [nth].
    rewrite utf8_print_headers.
    rewrite (parse_print_headers (map encode_header hs))
      by (apply Forall_map; eapply Forall_impl; [|exact Hhs]; intros a Ha; apply header_ok_encode; exact Ha).
    rewrite (parse_absent_utf8 ab Hab).
    assert (Hv : parse_http_version (print_wild ver) = Ok ver)
      by (destruct Hver as [->|[->| ->]]; vm_compute; reflexivity).
    rewrite Hv. cbn [bind]. f_equal. f_equal.
    destruct sw as [s|]; [|reflexivity]. destruct Hsw as [Hne _]. destruct s; [congruence | reflexivity].
  - destruct Hver as [->|[->| ->]]; vm_compute; reflexivity.
  - apply hs_mem_join; [reflexivity|]. apply Forall_map.
    eapply Forall_impl; [|exact Hhs]. intros a Ha. apply print_header_colon. exact Ha.
  - apply hs_mem_join; [reflexivity|].
    eapply Forall_impl; [|exact Hab]. cbv beta. intros a (_ & Hp & _). apply (plain_mem _ Hp).
  - destruct sw as [s|]; [|reflexivity]. destruct Hsw as [_ Hs]. apply hs_mem_false. exact Hs.
Qed.

(* an all-ASCII signature is its own encoding *)
Lemma encode_header_ascii x :
  ascii_text (sh_name x) /\ match sh_value x with Some v => ascii_text v | None => True end -> encode_header x = x.
Proof.
  destruct x as [name opt value]. unfold encode_header. cbn [sh_name sh_optional sh_value]. intros [Hn Hv].
  rewrite (utf8_ascii name Hn). destruct value as [v|]; cbn [option_map]; [|reflexivity].
  rewrite (utf8_ascii v Hv). reflexivity.
Qed.

Theorem parse_print_http_sig_ascii : forall h, printable_http h ->
  Forall (fun x => ascii_text (sh_name x) /\ match sh_value x with Some v => ascii_text v | None => True end) (hs_headers h) ->
  Forall ascii_text (hs_absent h) -> match hs_software h with Some s => ascii_text s | None => True end ->
  parse_http_sig (print_http_sig h) = Ok h.
Proof.
  intros h Hp Hhs Hab Hsw. rewrite (parse_print_http_sig h Hp). f_equal.
  destruct h as [ver hs ab sw]. unfold encode_http. cbn [hs_version hs_headers hs_absent hs_software] in *.
  f_equal.
  - rewrite <- (map_id hs) at 2. apply map_ext_in. intros a Ha.
    rewrite Forall_forall in Hhs. apply encode_header_ascii. apply Hhs. exact Ha.
  - rewrite <- (map_id ab) at 2. apply map_ext_in. intros a Ha.
    rewrite Forall_forall in Hab. apply utf8_ascii. apply Hab. exact Ha.
  - destruct sw as [s|]; cbn [option_map]; [|reflexivity]. rewrite (utf8_ascii s Hsw). reflexivity.
Qed.

Print Assumptions parse_print_http_sig.
Print Assumptions utf8_ascii.
Print Assumptions parse_print_http_sig_ascii.
