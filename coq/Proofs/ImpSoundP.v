(* C05: soundness of the TCP impersonator on supported, coherent signatures. *)
From Coq Require Import Lia.
From PV Require Import Model.Prelude Model.Bits Model.Sig Model.Matcher Model.Select Model.Options Model.Wire Model.Imperson
  Spec.C01 Spec.C03 Spec.C05 Proofs.BitsP Proofs.MatcherP Proofs.WireP Proofs.OptionsP Proofs.ExtractP.

Ltac Zify.zify_post_hook ::= Z.to_euclidean_division_equations.

(* ------------------------------------------------------------------ *)
(* 1. A Hoare logic for the tape monad                                 *)
(* ------------------------------------------------------------------ *)
(* [hoare m P]: on every tape, [m] either returns a value satisfying [P] or runs out of tape *)
Definition hoare {A} (m : M A) (P : A -> Prop) : Prop :=
  forall t, match m t with Ok (a, _) => P a | Err e => e = OutOfFuel end.

Lemma hoare_ret {A} (a : A) (P : A -> Prop) : P a -> hoare (ret a) P.
Proof. intros H t. exact H. Qed.

Lemma hoare_bind {A B} (m : M A) (f : A -> M B) (P : A -> Prop) (Q : B -> Prop) :
  hoare m P -> (forall a, P a -> hoare (f a) Q) -> hoare (mbind m f) Q.
Proof.
  intros Hm Hf t. unfold mbind. specialize (Hm t). destruct (m t) as [[a t1]|e].
  - apply (Hf a Hm t1).
  - exact Hm.
Qed.

Lemma hoare_weaken {A} (m : M A) (P Q : A -> Prop) :
  hoare m P -> (forall a, P a -> Q a) -> hoare m Q.
Proof.
  intros Hm HPQ t. specialize (Hm t). destruct (m t) as [[a t1]|e]; auto.
Qed.

Lemma hoare_draw lo hi : lo < hi -> hoare (draw lo hi) (fun v => lo <= v < hi).
Proof.
  intros Hlt t. unfold draw.
  destruct (hi <=? lo) eqn:E; [apply Z.leb_le in E; lia|].
  destruct t as [|v t1]; [reflexivity|].
  destruct ((lo <=? v) && (v <? hi)) eqn:E2; [|reflexivity].
  apply andb_true_iff in E2. destruct E2 as [E2 E3]. apply Z.leb_le in E2. apply Z.ltb_lt in E3. lia.
Qed.

Lemma hoare_run {A} (m : M A) (P : A -> Prop) t a t' : hoare m P -> m t = Ok (a, t') -> P a.
Proof. intros H E. specialize (H t). rewrite E in H. exact H. Qed.

Lemma hoare_total {A} (m : M A) (P : A -> Prop) t :
  hoare m P -> (exists a t', m t = Ok (a, t')) \/ m t = Err OutOfFuel.
Proof.
  intros H. specialize (H t). destruct (m t) as [[a t1]|e].
  - left. exists a, t1. reflexivity.
  - right. rewrite H. reflexivity.
Qed.

Ltac hdraw := eapply hoare_weaken; [apply hoare_draw; lia | cbv beta].
Ltac hbdraw v Hv := eapply hoare_bind; [apply hoare_draw; lia|]; intros v Hv; cbv beta in Hv.

(* exhaustive checking over an initial segment of Z *)
Lemma forall_range (P : Z -> bool) (n : nat) :
  forallb (fun i => P (Z.of_nat i)) (seq 0 n) = true -> forall z, 0 <= z < Z.of_nat n -> P z = true.
Proof.
  intros H z Hz. rewrite forallb_forall in H. specialize (H (Z.to_nat z)).
  rewrite Z2Nat.id in H by lia. apply H. apply in_seq. lia.
Qed.

(* ------------------------------------------------------------------ *)
(* 2. Hypotheses in usable form                                        *)
(* ------------------------------------------------------------------ *)
Definition is_syn (b : base) : bool := Z.land (b_flags b) 18 =? 2.

Record Coh (s : tcp_sig) (b : base) : Prop := {
  c_ver : s_ver s = -1 \/ s_ver s = b_ver b;
  c_v4 : b_ver b = 4 -> (hasb qNZID s = true -> hasb qDF s = true) /\ (hasb qZID s = true -> hasb qDF s = false)
                        /\ (hasb qFLOW s = true -> s_ver s = -1);
  c_v6 : b_ver b <> 4 -> s_ver s = -1 \/ (hasb qDF s = false /\ hasb qNZID s = false /\ hasb qZID s = false /\ hasb qMBZ s = false);
  c_ack : negb (hasb qNZACK s && hasb qZACK s) = true;
  c_urg : negb (hasb qNZURG s && hasb qURG s) = true;
  c_nzack : (if hasb qNZACK s then is_syn b else true) = true;
  c_zack : (if hasb qZACK s then negb (is_syn b) else true) = true;
  c_ts0 : ~ In 8 (body_of (s_layout s)) -> hasb qZTS1 s = false /\ hasb qNZTS2 s = false;
  c_ts : hasb qNZTS2 s = true -> is_syn b = true;
  c_ws0 : ~ In 3 (body_of (s_layout s)) -> hasb qEXWS s = false /\ (s_wscale s = -1 \/ s_wscale s = 0);
  c_ws : In 3 (body_of (s_layout s)) -> s_wscale s = -1 \/ hasb qEXWS s = (s_wscale s >? 14);
  c_mss0 : ~ In 2 (body_of (s_layout s)) -> s_mss s = -1 \/ s_mss s = 0;
  c_lt : (s_quirks s < 2 ^ 17)%N }.

Lemma count_kind_0 k l : Nat.eqb (count_kind k l) 0 = true <-> ~ In k l.
Proof.
  unfold count_kind. rewrite Nat.eqb_eq. split.
  - intros H Hin. assert (In k (filter (Z.eqb k) l)) as Hf.
    { apply filter_In. split; [exact Hin | apply Z.eqb_refl]. }
    destruct (filter (Z.eqb k) l); [destruct Hf | discriminate].
  - intros H. destruct (filter (Z.eqb k) l) as [|x r] eqn:E; [reflexivity|].
    exfalso. apply H. assert (In x (filter (Z.eqb k) l)) as Hf by (rewrite E; left; reflexivity).
    apply filter_In in Hf. destruct Hf as [Hin Hx]. apply Z.eqb_eq in Hx. subst. exact Hin.
Qed.

Lemma count_kind_pos k l : Nat.eqb (count_kind k l) 0 = false <-> In k l.
Proof.
  pose proof (count_kind_0 k l) as H. destruct (Nat.eqb (count_kind k l) 0).
  - split; [discriminate|]. intros Hin. exfalso. apply (proj1 H eq_refl Hin).
  - split; [|reflexivity]. intros _. destruct (in_dec Z.eq_dec k l) as [Hin|Hn]; [exact Hin|].
    apply H in Hn. discriminate.
Qed.

Lemma coherent_facts s b : coherent_b s b = true -> Coh s b.
Proof.
  unfold coherent_b. cbv zeta. fold (is_syn b).
  repeat rewrite andb_true_iff.
  intros (((((((((Hv & H46) & Hack) & Hurg) & Hnz) & Hz) & Hts) & Hws) & Hmss) & Hlt).
  change (hasq qNZID (s_quirks s)) with (hasb qNZID s) in *.
  change (hasq qDF (s_quirks s)) with (hasb qDF s) in *.
  change (hasq qZID (s_quirks s)) with (hasb qZID s) in *.
  change (hasq qMBZ (s_quirks s)) with (hasb qMBZ s) in *.
  change (hasq qFLOW (s_quirks s)) with (hasb qFLOW s) in *.
  change (hasq qNZACK (s_quirks s)) with (hasb qNZACK s) in *.
  change (hasq qZACK (s_quirks s)) with (hasb qZACK s) in *.
  change (hasq qNZURG (s_quirks s)) with (hasb qNZURG s) in *.
  change (hasq qURG (s_quirks s)) with (hasb qURG s) in *.
  change (hasq qZTS1 (s_quirks s)) with (hasb qZTS1 s) in *.
  change (hasq qNZTS2 (s_quirks s)) with (hasb qNZTS2 s) in *.
  change (hasq qEXWS (s_quirks s)) with (hasb qEXWS s) in *.
  constructor.
  - destruct (s_ver s =? -1) eqn:E; [left; apply Z.eqb_eq; exact E | right; apply Z.eqb_eq; exact Hv].
  - intros H4. rewrite H4 in H46. cbn [Z.eqb Pos.eqb] in H46.
    destruct (hasb qNZID s), (hasb qDF s), (hasb qZID s), (hasb qFLOW s); cbn [negb andb orb] in H46;
      try discriminate; repeat split; try congruence; intros _; apply Z.eqb_eq; exact H46.
  - intros H4. destruct (b_ver b =? 4) eqn:E; [apply Z.eqb_eq in E; contradiction|].
    destruct (s_ver s =? -1) eqn:E1; [left; apply Z.eqb_eq; exact E1|]. right.
    cbn [orb] in H46.
    destruct (hasb qDF s), (hasb qNZID s), (hasb qZID s), (hasb qMBZ s); cbn [negb orb] in H46; try discriminate; auto.
  - exact Hack.
  - exact Hurg.
  - exact Hnz.
  - exact Hz.
  - intros Hn. apply count_kind_0 in Hn. rewrite Hn in Hts.
    destruct (hasb qZTS1 s), (hasb qNZTS2 s); cbn [negb andb] in Hts; try discriminate; auto.
  - intros Hq. destruct (Nat.eqb (count_kind 8 (body_of (s_layout s))) 0).
    + rewrite Hq in Hts. rewrite andb_false_r in Hts. discriminate.
    + rewrite Hq in Hts. exact Hts.
  - intros Hn. apply count_kind_0 in Hn. rewrite Hn in Hws.
    apply andb_true_iff in Hws. destruct Hws as [Hw1 Hw2]. split.
    + destruct (hasb qEXWS s); [discriminate | reflexivity].
    + apply orb_true_iff in Hw2. destruct Hw2 as [Hw2|Hw2]; apply Z.eqb_eq in Hw2; auto.
  - intros Hin. apply count_kind_pos in Hin. rewrite Hin in Hws.
    destruct (s_wscale s =? -1) eqn:E; [left; apply Z.eqb_eq; exact E|]. right. apply eqb_prop. exact Hws.
  - intros Hn. apply count_kind_0 in Hn. rewrite Hn in Hmss.
    apply orb_true_iff in Hmss. destruct Hmss as [H|H]; apply Z.eqb_eq in H; auto.
  - apply N.ltb_lt. exact Hlt.
Qed.

Definition body_len (s : tcp_sig) : Z := fold_right (fun k a => kind_size k + a) 0 (body_of (s_layout s)).

Record Sup (s : tcp_sig) : Prop := {
  u_olen : s_olen s = 0;
  u_known : forallb known_kind (body_of (s_layout s)) = true;
  u_eol : if has_eol (s_layout s)
          then s_eol_pad s = (- (body_len s + 1)) mod 4 /\ body_len s + 1 + s_eol_pad s <= 40
          else body_len s mod 4 = 0 /\ body_len s <= 40 /\ s_eol_pad s = 0;
  u_eolnz : hasb qEOLNZ s = false;
  u_bad : hasb qBAD s = false;
  u_win : match s_wtype s with
          | WNormal | WAny | WMod => True
          | Sig.WMss => In 2 (body_of (s_layout s)) /\
                    (if s_mss s =? -1 then s_wsize s <= 655 else 100 <= s_mss s /\ s_mss s * s_wsize s <= 65535)
          | WMtu => False
          end }.

Lemma supported_facts s : supported_b s = true -> Sup s.
Proof.
  unfold supported_b. cbv zeta. fold (body_len s).
  repeat rewrite andb_true_iff.
  intros ((((((((Ho & Hk) & He) & Hz) & Hb) & H2) & H3) & H8) & Hw).
  constructor.
  - apply Z.eqb_eq. exact Ho.
  - exact Hk.
  - destruct (has_eol (s_layout s)).
    + apply andb_true_iff in He. destruct He as [H1 H4]. apply Z.eqb_eq in H1. apply Z.leb_le in H4. auto.
    + apply andb_true_iff in He. destruct He as [H1 H4]. apply andb_true_iff in H1. destruct H1 as [H1 H5].
      apply Z.eqb_eq in H1. apply Z.eqb_eq in H4. apply Z.leb_le in H5. auto.
  - apply negb_true_iff in Hz. exact Hz.
  - apply negb_true_iff in Hb. exact Hb.
  - destruct (s_wtype s); try exact I; try discriminate.
    apply andb_true_iff in Hw. destruct Hw as [Hw1 Hw2]. split.
    + apply count_kind_pos. apply Nat.eqb_eq in Hw1. rewrite Hw1. reflexivity.
    + destruct (s_mss s =? -1).
      * apply Z.leb_le. exact Hw2.
      * apply andb_true_iff in Hw2. destruct Hw2 as [Hw2 Hw3]. apply Z.leb_le in Hw2. apply Z.leb_le in Hw3. auto.
Qed.

(* ------------------------------------------------------------------ *)
(* 3. The IP part                                                      *)
(* ------------------------------------------------------------------ *)
Definition IpOk (s : tcp_sig) (b : base) (r : Z * Z * Z * Z) : Prop :=
  let '(tos, idn, ipfl, fl) := r in
  0 <= tos < 4 /\ (tos =? 0) = negb (hasb qECN s) /\ 0 <= idn < 65536 /\
  (b_ver b = 6 -> 0 <= fl < 1048576 /\ (fl =? 0) = negb (hasb qFLOW s)) /\
  (b_ver b = 4 -> ipfl = 4 * b2z (hasb qMBZ s) + 2 * b2z (hasb qDF s)
      /\ (hasb qDF s && negb (idn =? 0)) = hasb qNZID s /\ (negb (hasb qDF s) && (idn =? 0)) = hasb qZID s).

Lemma ipfl_calc x (df mbz : bool) : 0 <= x < 8 -> Z.land x 1 = 0 ->
  (let fl := if df then Z.lor x 2 else clearbits x 2 in if mbz then Z.lor fl 4 else clearbits fl 4)
  = 4 * b2z mbz + 2 * b2z df.
Proof.
  intros Hx Hl.
  assert (x = 0 \/ x = 1 \/ x = 2 \/ x = 3 \/ x = 4 \/ x = 5 \/ x = 6 \/ x = 7) as Hc by lia.
  destruct Hc as [E|[E|[E|[E|[E|[E|[E|E]]]]]]]; subst x; try (vm_compute in Hl; discriminate);
    destruct df, mbz; reflexivity.
Qed.

Lemma hoare_ecn s : hoare (if hasb qECN s then draw 1 4 else ret 0)
                          (fun tos => 0 <= tos < 4 /\ (tos =? 0) = negb (hasb qECN s)).
Proof.
  destruct (hasb qECN s).
  - hdraw. intros v Hv. split; [lia|]. apply Z.eqb_neq. lia.
  - apply hoare_ret. split; [lia | reflexivity].
Qed.

Lemma hoare_id b : 0 <= b_id b < 65536 ->
  hoare (if b_id b =? 0 then let* i := draw 1 65536 in ret i else ret (b_id b))
        (fun id => 0 <= id < 65536 /\ (id =? 0) = false).
Proof.
  intros Hb. destruct (b_id b =? 0) eqn:E.
  - hbdraw v Hv. apply hoare_ret. split; [lia|]. apply Z.eqb_neq. lia.
  - apply hoare_ret. split; [lia | exact E].
Qed.

Lemma imp_ip_hoare s b hops : admissible_base b -> Coh s b -> hoare (imp_ip s b hops) (IpOk s b).
Proof.
  intros (Hver & _ & _ & _ & _ & _ & _ & _ & _ & _ & _ & _ & H4 & _) C.
  unfold imp_ip. destruct (b_ver b =? 6) eqn:E6.
  - apply Z.eqb_eq in E6.
    eapply hoare_bind with (P := fun fl => 0 <= fl < 1048576 /\ (fl =? 0) = negb (hasb qFLOW s)).
    { destruct (hasb qFLOW s).
      - hdraw. intros v Hv. split; [lia|]. apply Z.eqb_neq. lia.
      - apply hoare_ret. split; [lia | reflexivity]. }
    intros fl Hfl. eapply hoare_bind; [apply hoare_ecn|]. intros tos Htos. apply hoare_ret.
    unfold IpOk. destruct Htos as [T1 T2]. repeat split; try lia; try tauto; try (intros; lia).
  - apply Z.eqb_neq in E6. assert (b_ver b = 4) as E4 by lia.
    destruct (H4 E4) as (_ & _ & _ & _ & Hid & Hfl & Hmf & _ & _).
    destruct (c_v4 s b C E4) as (Cnz & Cz & _).
    eapply hoare_bind with (P := fun fi => fst fi = (if hasb qDF s then Z.lor (b_ipflags b) 2 else clearbits (b_ipflags b) 2)
         /\ 0 <= snd fi < 65536 /\ (hasb qDF s && negb (snd fi =? 0)) = hasb qNZID s
         /\ (negb (hasb qDF s) && (snd fi =? 0)) = hasb qZID s).
    { destruct (hasb qDF s) eqn:Edf.
      - destruct (hasb qNZID s) eqn:Enz.
        + destruct (b_id b =? 0) eqn:Eid.
          * hbdraw v Hv. apply hoare_ret. cbn [fst snd].
            assert ((v =? 0) = false) as -> by (apply Z.eqb_neq; lia).
            destruct (hasb qZID s); [specialize (Cz eq_refl); discriminate|]. repeat split; lia.
          * apply hoare_ret. cbn [fst snd]. rewrite Eid.
            destruct (hasb qZID s); [specialize (Cz eq_refl); discriminate|]. repeat split; lia.
        + apply hoare_ret. cbn [fst snd].
          destruct (hasb qZID s); [specialize (Cz eq_refl); discriminate|]. repeat split; lia.
      - destruct (hasb qNZID s) eqn:Enz; [specialize (Cnz eq_refl); discriminate|].
        destruct (hasb qZID s) eqn:Ez.
        + apply hoare_ret. cbn [fst snd]. repeat split; lia.
        + destruct (b_id b =? 0) eqn:Eid.
          * hbdraw v Hv. apply hoare_ret. cbn [fst snd].
            assert ((v =? 0) = false) as -> by (apply Z.eqb_neq; lia). repeat split; lia.
          * apply hoare_ret. cbn [fst snd]. rewrite Eid. repeat split; lia. }
    intros [fl id] (F1 & F2 & F3 & F4). cbn [fst snd] in *.
    eapply hoare_bind; [apply hoare_ecn|]. intros tos [T1 T2]. apply hoare_ret.
    unfold IpOk. split; [exact T1|]. split; [exact T2|]. split; [exact F2|]. split; [intros; lia|].
    intros _. split; [|split; assumption].
    rewrite F1. apply (ipfl_calc (b_ipflags b) (hasb qDF s) (hasb qMBZ s) Hfl Hmf).
Qed.

(* ------------------------------------------------------------------ *)
(* 4. Sequence number, flags, ack, urg                                 *)
(* ------------------------------------------------------------------ *)
Definition fin_flags (bf : Z) (nzack zack nzurg urg push ecn : bool) : Z :=
  let f1 := if nzack then clear_tcpflag bf 16 else if zack then Z.lor bf 16 else bf in
  let f2 := if nzurg then clear_tcpflag f1 32 else if urg then Z.lor f1 32 else f1 in
  let f3 := if push then Z.lor f2 8 else clear_tcpflag f2 8 in
  if ecn then f3 else Z.land f3 63.

Definition flag_check (bf : Z) (nzack zack nzurg urg push ecn : bool) : bool :=
  let syn := Z.land bf 18 =? 2 in
  let adm := (syn || (Z.land bf 18 =? 18)) && (Z.land bf 5 =? 0) && (Z.land bf 32 =? 0) in
  let coh := negb (nzack && zack) && negb (nzurg && urg) && (if nzack then syn else true) && (if zack then negb syn else true) in
  let F := fin_flags bf nzack zack nzurg urg push ecn in
  implb (adm && coh)
    ((0 <=? F) && (F <? 512) && Z.testbit F 1 && negb (Z.testbit F 0) && negb (Z.testbit F 2)
     && Bool.eqb (Z.testbit F 4) (negb syn) && Bool.eqb (Z.land bf 16 =? 0) syn
     && Bool.eqb (Z.testbit F 5) urg && Bool.eqb (Z.testbit F 3) push
     && (ecn || negb (Z.testbit F 6 || Z.testbit F 7 || Z.testbit F 8))).

Definition all_bools (f : bool -> bool) : bool := f true && f false.

Lemma all_bools_spec f : all_bools f = true -> forall x, f x = true.
Proof. unfold all_bools. intros H x. apply andb_true_iff in H. destruct x; tauto. Qed.

Lemma flag_check_all : forall bf, 0 <= bf < 512 -> forall a b c d e f, flag_check bf a b c d e f = true.
Proof.
  intros bf Hbf a b c d e f.
  pose proof (forall_range (fun z => all_bools (fun a => all_bools (fun b => all_bools (fun c => all_bools (fun d =>
     all_bools (fun e => all_bools (fun f => flag_check z a b c d e f))))))) 512%nat) as H.
  cbv beta in H. assert (Hc : 0 <= bf < Z.of_nat 512) by lia.
  assert (Hall : forallb (fun i => (fun z => all_bools (fun a => all_bools (fun b => all_bools (fun c => all_bools (fun d =>
     all_bools (fun e => all_bools (fun f => flag_check z a b c d e f))))))) (Z.of_nat i)) (seq 0 512) = true)
    by (vm_compute; reflexivity).
  specialize (H Hall bf Hc).
  pose proof (all_bools_spec _ H a) as H1. cbv beta in H1.
  pose proof (all_bools_spec _ H1 b) as H2. cbv beta in H2.
  pose proof (all_bools_spec _ H2 c) as H3. cbv beta in H3.
  pose proof (all_bools_spec _ H3 d) as H4. cbv beta in H4.
  pose proof (all_bools_spec _ H4 e) as H5. cbv beta in H5.
  exact (all_bools_spec _ H5 f).
Qed.

Definition flag_split_check (F : Z) : bool :=
  (F / 256 =? 0 * 2 + b2z (Z.testbit F 8)) &&
  (F mod 256 =? b2z (Z.testbit F 7) * 128 + b2z (Z.testbit F 6) * 64 + b2z (Z.testbit F 5) * 32 + b2z (Z.testbit F 4) * 16
                + b2z (Z.testbit F 3) * 8 + b2z (Z.testbit F 2) * 4 + b2z (Z.testbit F 1) * 2 + b2z (Z.testbit F 0)).

Lemma flag_split F : 0 <= F < 512 ->
  F / 256 = 0 * 2 + b2z (Z.testbit F 8) /\
  F mod 256 = b2z (Z.testbit F 7) * 128 + b2z (Z.testbit F 6) * 64 + b2z (Z.testbit F 5) * 32 + b2z (Z.testbit F 4) * 16
              + b2z (Z.testbit F 3) * 8 + b2z (Z.testbit F 2) * 4 + b2z (Z.testbit F 1) * 2 + b2z (Z.testbit F 0).
Proof.
  intros HF. assert (Hc : 0 <= F < Z.of_nat 512) by lia.
  assert (Hall : forallb (fun i => flag_split_check (Z.of_nat i)) (seq 0 512) = true) by (vm_compute; reflexivity).
  pose proof (forall_range flag_split_check 512%nat Hall F Hc) as H.
  unfold flag_split_check in H. apply andb_true_iff in H. destruct H as [H1 H2].
  apply Z.eqb_eq in H1. apply Z.eqb_eq in H2. split; assumption.
Qed.

(* ------------------------------------------------------------------ *)
(* 5. Options                                                          *)
(* ------------------------------------------------------------------ *)
Definition of_w (o : wopt) : oopt :=
  match o with
  | WNop => OoNop | WMss v => OoMss v | WWs v => OoWs v | WSok => OoSok | WTs a c => OoTs a c
  | WSack _ => OoNop | WUnk _ _ => OoNop
  end.

Definition opt_ok (s : tcp_sig) (b : base) (o : wopt) : Prop :=
  match o with
  | WNop | WSok => True
  | WMss v => 0 <= v < 65536 /\ (s_mss s = -1 \/ s_mss s = v) /\ (s_wtype s = Sig.WMss -> 100 <= v /\ v * s_wsize s <= 65535)
  | WWs v => 0 <= v < 256 /\ (s_wscale s = -1 \/ s_wscale s = v) /\ (v >? 14) = hasb qEXWS s
  | WTs a c => 0 <= a < 4294967296 /\ 0 <= c < 4294967296 /\ (a =? 0) = hasb qZTS1 s
               /\ (negb (c =? 0) && is_syn b) = hasb qNZTS2 s
  | WSack _ | WUnk _ _ => False
  end.

Definition gen_opt (s : tcp_sig) (b : base) (uptime : option Z) (k : Z) : M (option oopt) :=
      (if k =? 2 then
         let is_mss := match s_wtype s with Sig.WMss => true | _ => false end in
         let max_mss := 65535 / (if is_mss then s_wsize s else 1) in
         let min_mss := if is_mss then 100 else 0 in
         if s_mss s =? -1 then
           match b_mss b with
           | Some h => if (min_mss <=? h) && (h <=? max_mss) then ret (Some (OoMss h)) else let* v := draw 100 (max_mss + 1) in ret (Some (OoMss v))
           | None => let* v := draw 100 (max_mss + 1) in ret (Some (OoMss v))
           end
         else ret (Some (OoMss (s_mss s)))
       else if k =? 3 then
         if s_wscale s =? -1 then
           if hasb qEXWS s then
             match b_ws b with
             | Some h => if (14 <? h) && (h <? 256) then ret (Some (OoWs h)) else let* v := draw 15 256 in ret (Some (OoWs v))
             | None => let* v := draw 15 256 in ret (Some (OoWs v))
             end
           else
             match b_ws b with
             | Some h => if (0 <=? h) && (h <=? 14) then ret (Some (OoWs h)) else let* v := draw 1 14 in ret (Some (OoWs v))
             | None => let* v := draw 1 14 in ret (Some (OoWs v))
             end
         else ret (Some (OoWs (s_wscale s)))
       else if k =? 8 then
         let* t1 := (if hasb qZTS1 s then ret 0
                     else match uptime with
                          | Some u => ret u
                          | None => match b_ts1 b with
                                    | Some h => if (0 <? h) && (h <? 4294967296) then ret h else draw 120 3153600001
                                    | None => draw 120 3153600001
                                    end
                          end) in
         let* t2 := (if hasb qNZTS2 s && (Z.land (b_flags b) 18 =? 2) then
                       match b_ts2 b with
                       | Some h => if (0 <? h) && (h <? 4294967296) then ret h else draw 1 4294967296
                       | None => draw 1 4294967296
                       end
                     else if Z.land (b_flags b) 18 =? 2 then ret 0
                     else match b_ts2 b with
                          | Some h => if (0 <=? h) && (h <? 4294967296) then ret h else ret 0
                          | None => ret 0
                          end) in
         ret (Some (OoTs t1 t2))
       else if k =? 1 then ret (Some OoNop)
       else if k =? 4 then ret (Some OoSok)
       else if k =? 0 then ret (Some OoEol)
       else if k =? 5 then let* i := draw 0 4 in ret (Some (OoSack (8 + 8 * i)))
       else ret None).

Lemma imp_options_cons s b u k rest :
  imp_options s b u (k :: rest) =
  (let* o := gen_opt s b u k in let* r := imp_options s b u rest in ret (match o with Some x => x :: r | None => r end)).
Proof. reflexivity. Qed.

Lemma div_bound v w : 1 <= w -> 0 <= v <= 65535 / w -> v * w <= 65535 /\ v <= 65535.
Proof. intros Hw Hv. pose proof (Z.mul_div_le 65535 w ltac:(lia)). nia. Qed.

Definition OneOk (s : tcp_sig) (b : base) (k : Z) (r : option oopt) : Prop :=
  exists w, r = Some (of_w w) /\ kind_of w = k /\ opt_ok s b w.

Lemma gen_mss s b : wf_sig s -> Sup s -> hoare (gen_opt s b None 2) (OneOk s b 2).
Proof.
  intros W U. unfold gen_opt. cbn [Z.eqb Pos.eqb]. cbv zeta.
  destruct W as (_ & _ & _ & Wm & _ & _ & _ & Ww).
  pose proof (u_win s U) as Uw.
  set (is_mss := match s_wtype s with Sig.WMss => true | _ => false end).
  assert (Hm : (is_mss = true /\ s_wtype s = Sig.WMss /\ 1 <= s_wsize s <= 1000) \/ (is_mss = false /\ s_wtype s <> Sig.WMss)).
  { subst is_mss. destruct (s_wtype s); try (right; split; [reflexivity | discriminate]). left. auto. }
  clearbody is_mss.
  assert (Hgood : forall v, (if is_mss then 100 else 0) <= v <= 65535 / (if is_mss then s_wsize s else 1) ->
            s_mss s = -1 -> OneOk s b 2 (Some (OoMss v))).
  { intros v Hv Hs. exists (WMss v). split; [reflexivity|]. split; [reflexivity|]. cbn [opt_ok].
    destruct Hm as [(-> & Hw & Hr)|(-> & Hw)].
    - destruct (div_bound v (s_wsize s) ltac:(lia) ltac:(lia)).
      split; [lia|]. split; [left; exact Hs|]. intros _. lia.
    - split; [lia|]. split; [left; exact Hs|]. intros Hc. contradiction. }
  assert (Hdraw : s_mss s = -1 -> hoare (let* v := draw 100 (65535 / (if is_mss then s_wsize s else 1) + 1) in ret (Some (OoMss v))) (OneOk s b 2)).
  { intros Hs. eapply hoare_bind with (P := fun v => 100 <= v < 65535 / (if is_mss then s_wsize s else 1) + 1).
    - apply hoare_draw. destruct Hm as [(-> & Hw & Hr)|(-> & Hw)]; [|lia].
      rewrite Hw in Uw. destruct Uw as [_ Uw]. rewrite Hs in Uw. cbn [Z.eqb Pos.eqb] in Uw.
      assert (100 <= 65535 / s_wsize s) by (apply Z.div_le_lower_bound; lia). lia.
    - intros v Hv. apply hoare_ret. apply Hgood; [|exact Hs]. destruct is_mss; lia. }
  destruct (s_mss s =? -1) eqn:E.
  - apply Z.eqb_eq in E. destruct (b_mss b) as [h|]; [|apply Hdraw; exact E].
    destruct (((if is_mss then 100 else 0) <=? h) && (h <=? 65535 / (if is_mss then s_wsize s else 1))) eqn:Eh; [|apply Hdraw; exact E].
    apply hoare_ret. apply Hgood; [|exact E]. apply andb_true_iff in Eh. destruct Eh as [E1 E2].
    apply Z.leb_le in E1. apply Z.leb_le in E2. lia.
  - apply Z.eqb_neq in E. apply hoare_ret. exists (WMss (s_mss s)). split; [reflexivity|]. split; [reflexivity|]. cbn [opt_ok].
    split; [lia|]. split; [right; reflexivity|]. intros Hw. rewrite Hw in Uw. destruct Uw as [_ Uw].
    destruct (s_mss s =? -1) eqn:E2; [apply Z.eqb_eq in E2; contradiction|]. exact Uw.
Qed.

Lemma gen_ws s b : wf_sig s -> Coh s b -> In 3 (body_of (s_layout s)) -> hoare (gen_opt s b None 3) (OneOk s b 3).
Proof.
  intros W C Hin. unfold gen_opt. cbn [Z.eqb Pos.eqb].
  destruct W as (_ & _ & _ & _ & Ww & _).
  assert (Hhi : forall v, 15 <= v < 256 -> s_wscale s = -1 -> hasb qEXWS s = true -> OneOk s b 3 (Some (OoWs v))).
  { intros v Hv Hs Hq. exists (WWs v). split; [reflexivity|]. split; [reflexivity|]. cbn [opt_ok].
    split; [lia|]. split; [left; exact Hs|]. rewrite Hq. apply Z.gtb_lt. lia. }
  assert (Hlo : forall v, 0 <= v < 15 -> s_wscale s = -1 -> hasb qEXWS s = false -> OneOk s b 3 (Some (OoWs v))).
  { intros v Hv Hs Hq. exists (WWs v). split; [reflexivity|]. split; [reflexivity|]. cbn [opt_ok].
    split; [lia|]. split; [left; exact Hs|]. rewrite Hq. rewrite Z.gtb_ltb. apply Z.ltb_ge. lia. }
  destruct (s_wscale s =? -1) eqn:E.
  - apply Z.eqb_eq in E. destruct (hasb qEXWS s) eqn:Eq.
    + assert (Hd : hoare (let* v := draw 15 256 in ret (Some (OoWs v))) (OneOk s b 3)).
      { hbdraw v Hv. apply hoare_ret. apply Hhi; auto. }
      destruct (b_ws b) as [h|]; [|exact Hd].
      destruct ((14 <? h) && (h <? 256)) eqn:Eh; [|exact Hd].
      apply andb_true_iff in Eh. destruct Eh as [E1 E2]. apply Z.ltb_lt in E1. apply Z.ltb_lt in E2.
      apply hoare_ret. apply Hhi; auto. lia.
    + assert (Hd : hoare (let* v := draw 1 14 in ret (Some (OoWs v))) (OneOk s b 3)).
      { hbdraw v Hv. apply hoare_ret. apply Hlo; auto. lia. }
      destruct (b_ws b) as [h|]; [|exact Hd].
      destruct ((0 <=? h) && (h <=? 14)) eqn:Eh; [|exact Hd].
      apply andb_true_iff in Eh. destruct Eh as [E1 E2]. apply Z.leb_le in E1. apply Z.leb_le in E2.
      apply hoare_ret. apply Hlo; auto. lia.
  - apply Z.eqb_neq in E. apply hoare_ret. exists (WWs (s_wscale s)). split; [reflexivity|]. split; [reflexivity|].
    cbn [opt_ok]. split; [lia|]. split; [right; reflexivity|].
    destruct (c_ws s b C Hin) as [Hc|Hc]; [contradiction | symmetry; exact Hc].
Qed.

Lemma gen_ts s b : Coh s b -> hoare (gen_opt s b None 8) (OneOk s b 8).
Proof.
  intros C. unfold gen_opt. cbn [Z.eqb Pos.eqb]. fold (is_syn b).
  eapply hoare_bind with (P := fun a => 0 <= a < 4294967296 /\ (a =? 0) = hasb qZTS1 s).
  { destruct (hasb qZTS1 s).
    - apply hoare_ret. split; [lia | reflexivity].
    - assert (Hd : hoare (draw 120 3153600001) (fun a => 0 <= a < 4294967296 /\ (a =? 0) = false)).
      { hdraw. intros v Hv. split; [lia|]. apply Z.eqb_neq. lia. }
      destruct (b_ts1 b) as [h|]; [|exact Hd].
      destruct ((0 <? h) && (h <? 4294967296)) eqn:Eh; [|exact Hd].
      apply andb_true_iff in Eh. destruct Eh as [E1 E2]. apply Z.ltb_lt in E1. apply Z.ltb_lt in E2.
      apply hoare_ret. split; [lia|]. apply Z.eqb_neq. lia. }
  intros a [Ha1 Ha2].
  eapply hoare_bind with (P := fun c => 0 <= c < 4294967296 /\ (negb (c =? 0) && is_syn b) = hasb qNZTS2 s).
  { destruct (hasb qNZTS2 s) eqn:Eq.
    - rewrite (c_ts s b C Eq). cbn [andb].
      assert (Hd : hoare (draw 1 4294967296) (fun c => 0 <= c < 4294967296 /\ negb (c =? 0) && true = true)).
      { hdraw. intros v Hv. split; [lia|]. rewrite andb_true_r. apply negb_true_iff. apply Z.eqb_neq. lia. }
      destruct (b_ts2 b) as [h|]; [|exact Hd].
      destruct ((0 <? h) && (h <? 4294967296)) eqn:Eh; [|exact Hd].
      apply andb_true_iff in Eh. destruct Eh as [E1 E2]. apply Z.ltb_lt in E1. apply Z.ltb_lt in E2.
      apply hoare_ret. split; [lia|]. rewrite andb_true_r. apply negb_true_iff. apply Z.eqb_neq. lia.
    - cbn [andb]. destruct (is_syn b).
      + apply hoare_ret. split; [lia | reflexivity].
      + assert (Hd : hoare (ret 0) (fun c => 0 <= c < 4294967296 /\ negb (c =? 0) && false = false)).
        { apply hoare_ret. split; [lia | reflexivity]. }
        destruct (b_ts2 b) as [h|]; [|exact Hd].
        destruct ((0 <=? h) && (h <? 4294967296)) eqn:Eh; [|exact Hd].
        apply andb_true_iff in Eh. destruct Eh as [E1 E2]. apply Z.leb_le in E1. apply Z.ltb_lt in E2.
        apply hoare_ret. split; [lia|]. apply andb_false_r. }
  intros c [Hc1 Hc2]. apply hoare_ret. exists (WTs a c). split; [reflexivity|]. split; [reflexivity|].
  cbn [opt_ok]. auto.
Qed.

Lemma gen_nop s b : hoare (gen_opt s b None 1) (OneOk s b 1).
Proof. unfold gen_opt. cbn [Z.eqb Pos.eqb]. apply hoare_ret. exists WNop. repeat split. Qed.

Lemma gen_sok s b : hoare (gen_opt s b None 4) (OneOk s b 4).
Proof. unfold gen_opt. cbn [Z.eqb Pos.eqb]. apply hoare_ret. exists WSok. repeat split. Qed.

Lemma known_kind_cases k : known_kind k = true -> k = 1 \/ k = 2 \/ k = 3 \/ k = 4 \/ k = 8.
Proof.
  unfold known_kind. rewrite !orb_true_iff, !Z.eqb_eq. tauto.
Qed.

(* the options of the body, followed by the (already analysed) tail *)
Lemma imp_options_body s b (Q : list oopt -> Prop) tlk : wf_sig s -> Sup s -> Coh s b ->
  hoare (imp_options s b None tlk) Q ->
  forall body, forallb known_kind body = true -> (In 3 body -> In 3 (body_of (s_layout s))) ->
  hoare (imp_options s b None (body ++ tlk))
        (fun opts => exists l tl, opts = map of_w l ++ tl /\ Q tl /\ map kind_of l = body /\ Forall (opt_ok s b) l).
Proof.
  intros W U C Htl. induction body as [|k body IH]; intros Hk H3.
  - cbn [app]. eapply hoare_weaken; [exact Htl|]. intros tl Hq. exists [], tl. repeat split; auto.
  - cbn [forallb] in Hk. apply andb_true_iff in Hk. destruct Hk as [Hk Hk'].
    cbn [app]. rewrite imp_options_cons.
    eapply hoare_bind with (P := OneOk s b k).
    { destruct (known_kind_cases k Hk) as [->|[->|[->|[->| ->]]]].
      - apply gen_nop. - apply gen_mss; assumption.
      - apply gen_ws; try assumption. apply H3. left. reflexivity.
      - apply gen_sok. - apply gen_ts; assumption. }
    intros o (w & -> & Hkw & Hok).
    eapply hoare_bind; [apply IH; [exact Hk' | intros Hi; apply H3; right; exact Hi]|].
    intros r (l & tl & -> & Hq & Hm & Hf). apply hoare_ret.
    exists (w :: l), tl. cbn [map app]. split; [reflexivity|]. split; [exact Hq|]. split; [congruence|].
    constructor; assumption.
Qed.

Lemma layout_split lay : lay = body_of lay ++ (if has_eol lay then [0] else []).
Proof.
  unfold body_of, has_eol. destruct (rev lay) as [|x r] eqn:E.
  - rewrite app_nil_r. reflexivity.
  - assert (lay = rev r ++ [x]) as E2.
    { rewrite <- (rev_involutive lay). rewrite E. reflexivity. }
    destruct x; try (rewrite app_nil_r; reflexivity). exact E2.
Qed.

Definition OptsOk (s : tcp_sig) (b : base) (opts : list oopt) : Prop :=
  exists l, opts = map of_w l ++ (if has_eol (s_layout s) then [OoEol] else []) /\
            map kind_of l = body_of (s_layout s) /\ Forall (opt_ok s b) l.

Lemma imp_options_hoare s b : wf_sig s -> Sup s -> Coh s b -> hoare (imp_options s b None (s_layout s)) (OptsOk s b).
Proof.
  intros W U C. pose proof (layout_split (s_layout s)) as E. rewrite E.
  eapply hoare_weaken.
  - apply (imp_options_body s b (fun tl => tl = if has_eol (s_layout s) then [OoEol] else []) _ W U C).
    + destruct (has_eol (s_layout s)); intro t; vm_compute; reflexivity.
    + apply (u_known s U).
    + tauto.
  - cbv beta. intros opts (l & tl & -> & -> & Hm & Hf). exists l. auto.
Qed.

(* ---- encoding of the generated options ---- *)
Lemma enc_of_w s b l : Forall (opt_ok s b) l -> flat_map enc_oopt (map of_w l) = enc_opts l.
Proof.
  induction 1 as [|o l Ho Hl IH]; [reflexivity|].
  cbn [map flat_map enc_opts]. fold (enc_opts l). rewrite IH. f_equal.
  destruct o; cbn [opt_ok] in Ho; try contradiction; reflexivity.
Qed.

Lemma opt_ok_wf s b l : Forall (opt_ok s b) l -> Forall wf_opt l.
Proof.
  induction 1 as [|o l Ho Hl IH]; constructor; [|exact IH].
  destruct o; cbn [opt_ok wf_opt] in *; try tauto.
Qed.

Lemma enc_opts_len s b l : Forall (opt_ok s b) l ->
  len (enc_opts l) = fold_right (fun k a => kind_size k + a) 0 (map kind_of l).
Proof.
  induction 1 as [|o l Ho Hl IH]; [reflexivity|].
  cbn [enc_opts flat_map map fold_right]. fold (enc_opts l). rewrite len_app, IH. f_equal.
  destruct o; cbn [opt_ok] in Ho; try contradiction; reflexivity.
Qed.

Lemma enc_opts_bytes s b l : Forall (opt_ok s b) l -> bytes (enc_opts l).
Proof.
  induction 1 as [|o l Ho Hl IH]; [constructor|].
  cbn [enc_opts flat_map]. fold (enc_opts l). apply Forall_app. split; [|exact IH].
  destruct o; cbn [opt_ok] in Ho; try contradiction; cbn [enc_opt b16 b32 app]; unfold byte;
    repeat (constructor; try lia).
Qed.

Definition opt_fits (o : oopt) : bool :=
  match o with OoMss v => fits v 65536 | OoWs v => fits v 256
             | OoTs a b => fits a 4294967296 && fits b 4294967296 | _ => true end.

Lemma fits_true v n : 0 <= v < n -> fits v n = true.
Proof. intros H. unfold fits. apply andb_true_iff. split; [apply Z.leb_le | apply Z.ltb_lt]; lia. Qed.

Lemma opts_fit s b l tl : Forall (opt_ok s b) l -> forallb opt_fits tl = true ->
  forallb opt_fits (map of_w l ++ tl) = true.
Proof.
  intros H Htl. induction H as [|o l Ho Hl IH]; [exact Htl|].
  cbn [map app forallb]. rewrite IH, andb_true_r.
  destruct o; cbn [opt_ok of_w opt_fits] in *; try reflexivity; try contradiction.
  - apply fits_true; lia.
  - apply fits_true; lia.
  - rewrite !fits_true by lia. reflexivity.
Qed.

Lemma all_zero_repeat n : all_zero (repeat 0 n) = true.
Proof. induction n; [reflexivity|]. cbn [repeat all_zero forallb]. exact IHn. Qed.

Lemma len_repeat (x : Z) n : len (repeat x n) = Z.of_nat n.
Proof. unfold len. rewrite repeat_length. reflexivity. Qed.

Lemma bytes_repeat0 n : bytes (repeat 0 n).
Proof. induction n; [constructor|]. cbn [repeat]. constructor; [unfold byte; lia | exact IHn]. Qed.

Definition wtail (s : tcp_sig) : option (list Z) :=
  if has_eol (s_layout s) then Some (repeat 0 (Z.to_nat (s_eol_pad s))) else None.

Lemma enc_oopts_eq s b opts l : Sup s ->
  opts = map of_w l ++ (if has_eol (s_layout s) then [OoEol] else []) ->
  map kind_of l = body_of (s_layout s) -> Forall (opt_ok s b) l ->
  enc_oopts opts = enc_opts l ++ enc_tail (wtail s) /\
  len (enc_oopts opts) mod 4 = 0 /\ len (enc_oopts opts) <= 40 /\ bytes (enc_oopts opts).
Proof.
  intros U -> Hm Hf. unfold enc_oopts. cbv zeta. rewrite flat_map_app, (enc_of_w s b l Hf).
  pose proof (enc_opts_len s b l Hf) as HL. rewrite Hm in HL. fold (body_len s) in HL.
  pose proof (u_eol s U) as He. unfold wtail.
  pose proof (enc_opts_bytes s b l Hf) as Hb.
  destruct (has_eol (s_layout s)).
  - destruct He as [He1 He2]. cbn [flat_map enc_oopt app enc_tail].
    rewrite len_app, HL. change (len [0]) with 1. rewrite <- He1.
    rewrite <- app_assoc. cbn [app]. split; [reflexivity|].
    rewrite len_app, len_cons, len_repeat, HL.
    assert (0 <= s_eol_pad s) by lia. rewrite Z2Nat.id by lia.
    split; [lia|]. split; [lia|]. apply Forall_app. split; [exact Hb|].
    constructor; [unfold byte; lia | apply bytes_repeat0].
  - destruct He as (He1 & He2 & He3). cbn [flat_map app enc_tail]. rewrite app_nil_r, HL.
    replace (- body_len s mod 4) with 0 by lia. cbn [Z.to_nat repeat]. rewrite app_nil_r.
    split; [reflexivity|]. rewrite HL. split; [lia|]. split; [lia|]. exact Hb.
Qed.

(* ---- what the walker reports on these options ---- *)
Definition foldo (syn : bool) (l : list wopt) (st : wst) : wst := fold_left (fun st o => apply_opt syn o st) l st.

Fixpoint lastm (l : list wopt) (d : Z) : Z :=
  match l with [] => d | WMss v :: r => lastm r v | _ :: r => lastm r d end.
Fixpoint lastw (l : list wopt) (d : Z) : Z :=
  match l with [] => d | WWs v :: r => lastw r v | _ :: r => lastw r d end.

Definition oq (syn : bool) (k : N) (o : wopt) : bool :=
  match o with
  | WWs v => (v >? 14) && N.eqb k qEXWS
  | WTs a c => ((a =? 0) && N.eqb k qZTS1) || (negb (c =? 0) && syn && N.eqb k qNZTS2)
  | _ => false
  end.

Lemma foldo_layout syn l : forall st, w_rlayout (foldo syn l st) = rev (map kind_of l) ++ w_rlayout st.
Proof.
  induction l as [|o l IH]; intros st; [reflexivity|].
  unfold foldo in *. cbn [fold_left map rev]. rewrite IH, <- app_assoc. cbn [app]. f_equal. f_equal.
  destruct o as [|v|v| |a c|bd|kk bd]; cbn [apply_opt kind_of]; try reflexivity.
  - destruct (v >? 14); reflexivity.
  - destruct (a =? 0), (negb (c =? 0) && syn); reflexivity.
Qed.

Lemma foldo_eol syn l : forall st, w_eol (foldo syn l st) = w_eol st.
Proof.
  induction l as [|o l IH]; intros st; [reflexivity|].
  unfold foldo in *. cbn [fold_left]. rewrite IH.
  destruct o as [|v|v| |a c|bd|kk bd]; cbn [apply_opt kind_of]; try reflexivity.
  - destruct (v >? 14); reflexivity.
  - destruct (a =? 0), (negb (c =? 0) && syn); reflexivity.
Qed.

Lemma foldo_mss syn l : forall st, w_mss (foldo syn l st) = lastm l (w_mss st).
Proof.
  induction l as [|o l IH]; intros st; [reflexivity|].
  unfold foldo in *. cbn [fold_left]. rewrite IH.
  destruct o as [|v|v| |a c|bd|kk bd]; cbn [apply_opt kind_of lastm]; try reflexivity.
  - destruct (v >? 14); reflexivity.
  - destruct (a =? 0), (negb (c =? 0) && syn); reflexivity.
Qed.

Lemma foldo_ws syn l : forall st, w_ws (foldo syn l st) = lastw l (w_ws st).
Proof.
  induction l as [|o l IH]; intros st; [reflexivity|].
  unfold foldo in *. cbn [fold_left]. rewrite IH.
  destruct o as [|v|v| |a c|bd|kk bd]; cbn [apply_opt kind_of lastw]; try reflexivity.
  - destruct (v >? 14); reflexivity.
  - destruct (a =? 0), (negb (c =? 0) && syn); reflexivity.
Qed.

Lemma foldo_q syn k l : forall st, hasq k (w_q (foldo syn l st)) = hasq k (w_q st) || existsb (oq syn k) l.
Proof.
  induction l as [|o l IH]; intros st; [cbn [existsb foldo fold_left]; rewrite orb_false_r; reflexivity|].
  unfold foldo in *. cbn [fold_left existsb]. rewrite IH. rewrite orb_assoc. f_equal.
  destruct o as [|v|v| |a c|bd|kk bd]; cbn [apply_opt kind_of oq w_q w_push w_set_mss];
    try (rewrite orb_false_r; reflexivity).
  - destruct (v >? 14); cbn [w_quirk w_set_ws w_push w_q andb].
    + rewrite hasq_setq. reflexivity.
    + rewrite orb_false_r. reflexivity.
  - destruct (a =? 0), (negb (c =? 0) && syn); cbn [w_quirk w_set_ts w_push w_q andb orb];
      rewrite ?hasq_setq, ?orb_false_r, ?orb_assoc; reflexivity.
Qed.

Lemma existsb_false {A} (f : A -> bool) l : (forall x, In x l -> f x = false) -> existsb f l = false.
Proof.
  intros H. induction l as [|a l IH]; [reflexivity|]. cbn [existsb].
  rewrite (H a (or_introl eq_refl)), IH; [reflexivity|]. intros x Hx. apply H. right. exact Hx.
Qed.

Lemma in_kind_mss s b l : Forall (opt_ok s b) l -> In 2 (map kind_of l) -> exists v, In (WMss v) l.
Proof.
  intros Hf Hin. apply in_map_iff in Hin. destruct Hin as (o & Hk & Hin).
  rewrite Forall_forall in Hf. specialize (Hf o Hin).
  destruct o; cbn [kind_of opt_ok] in *; try discriminate; try contradiction. eexists; exact Hin.
Qed.
Lemma in_kind_ws s b l : Forall (opt_ok s b) l -> In 3 (map kind_of l) -> exists v, In (WWs v) l.
Proof.
  intros Hf Hin. apply in_map_iff in Hin. destruct Hin as (o & Hk & Hin).
  rewrite Forall_forall in Hf. specialize (Hf o Hin).
  destruct o; cbn [kind_of opt_ok] in *; try discriminate; try contradiction. eexists; exact Hin.
Qed.
Lemma in_kind_ts s b l : Forall (opt_ok s b) l -> In 8 (map kind_of l) -> exists a c, In (WTs a c) l.
Proof.
  intros Hf Hin. apply in_map_iff in Hin. destruct Hin as (o & Hk & Hin).
  rewrite Forall_forall in Hf. specialize (Hf o Hin).
  destruct o; cbn [kind_of opt_ok] in *; try discriminate; try contradiction. eexists; eexists; exact Hin.
Qed.

(* quirk bits set by the walker = the signature's option quirks *)
Lemma opts_quirks s b l k : Coh s b -> Forall (opt_ok s b) l -> map kind_of l = body_of (s_layout s) ->
  existsb (oq (is_syn b) k) l = hasq k (s_quirks s) && (N.eqb k qZTS1 || N.eqb k qNZTS2 || N.eqb k qEXWS).
Proof.
  intros C Hf Hm. pose proof Hf as Hf'. rewrite Forall_forall in Hf'.
  change (hasq k (s_quirks s)) with (hasb k s).
  destruct (N.eqb_spec k qZTS1) as [->|N1]; [|destruct (N.eqb_spec k qNZTS2) as [->|N2]; [|destruct (N.eqb_spec k qEXWS) as [->|N3]]];
    cbn [orb]; rewrite ?andb_true_r, ?andb_false_r.
  - destruct (hasb qZTS1 s) eqn:Eq.
    + destruct (in_dec Z.eq_dec 8 (body_of (s_layout s))) as [Hin|Hn]; [|destruct (c_ts0 s b C Hn); congruence].
      rewrite <- Hm in Hin. destruct (in_kind_ts s b l Hf Hin) as (a & c & Hac).
      apply existsb_exists. exists (WTs a c). split; [exact Hac|].
      destruct (Hf' _ Hac) as (_ & _ & Ha & _). cbn [oq]. rewrite Ha, Eq. reflexivity.
    + apply existsb_false. intros o Ho. specialize (Hf' o Ho).
      destruct o as [|v|v| |a c|bd|kk bd]; cbn [oq opt_ok] in *; try reflexivity.
      * destruct (v >? 14); reflexivity.
      * destruct Hf' as (_ & _ & Ha & _). rewrite Ha, Eq. destruct (negb (c =? 0) && is_syn b); reflexivity.
  - destruct (hasb qNZTS2 s) eqn:Eq.
    + destruct (in_dec Z.eq_dec 8 (body_of (s_layout s))) as [Hin|Hn]; [|destruct (c_ts0 s b C Hn); congruence].
      rewrite <- Hm in Hin. destruct (in_kind_ts s b l Hf Hin) as (a & c & Hac).
      apply existsb_exists. exists (WTs a c). split; [exact Hac|].
      destruct (Hf' _ Hac) as (_ & _ & _ & Hc). cbn [oq]. rewrite Hc, Eq. apply orb_true_r.
    + apply existsb_false. intros o Ho. specialize (Hf' o Ho).
      destruct o as [|v|v| |a c|bd|kk bd]; cbn [oq opt_ok] in *; try reflexivity.
      * destruct (v >? 14); reflexivity.
      * destruct Hf' as (_ & _ & _ & Hc). rewrite Hc, Eq. destruct (a =? 0); reflexivity.
  - destruct (hasb qEXWS s) eqn:Eq.
    + destruct (in_dec Z.eq_dec 3 (body_of (s_layout s))) as [Hin|Hn]; [|destruct (c_ws0 s b C Hn); congruence].
      rewrite <- Hm in Hin. destruct (in_kind_ws s b l Hf Hin) as (v & Hv).
      apply existsb_exists. exists (WWs v). split; [exact Hv|].
      destruct (Hf' _ Hv) as (_ & _ & Ha). cbn [oq]. rewrite Ha, Eq. reflexivity.
    + apply existsb_false. intros o Ho. specialize (Hf' o Ho).
      destruct o as [|v|v| |a c|bd|kk bd]; cbn [oq opt_ok] in *; try reflexivity.
      * destruct Hf' as (_ & _ & Ha). rewrite Ha, Eq. reflexivity.
      * destruct (a =? 0), (negb (c =? 0) && is_syn b); reflexivity.
  - apply existsb_false. intros o Ho. destruct o; cbn [oq]; try reflexivity.
    + apply N.eqb_neq in N3. rewrite N3. apply andb_false_r.
    + apply N.eqb_neq in N1. apply N.eqb_neq in N2. rewrite N1, N2. rewrite !andb_false_r. reflexivity.
Qed.

Lemma lastm_ok s b l : Forall (opt_ok s b) l -> forall d,
  (~ In 2 (map kind_of l) /\ lastm l d = d) \/
  (In 2 (map kind_of l) /\ opt_ok s b (WMss (lastm l d))).
Proof.
  induction 1 as [|o l Ho Hl IH]; intros d; [left; split; [intros []|reflexivity]|].
  destruct o as [|v|v| |a c|bd|kk bd]; cbn [opt_ok] in Ho; try contradiction; cbn [lastm map kind_of].
  2:{ right. destruct (IH v) as [[Hn E]|[Hi Hk]].
      - rewrite E. split; [left; reflexivity | exact Ho].
      - split; [left; reflexivity | exact Hk]. }
  all: destruct (IH d) as [[Hn E]|[Hi Hk]];
    [left; split; [intros [Hc|Hc]; [discriminate | contradiction] | exact E]
    | right; split; [right; exact Hi | exact Hk]].
Qed.

Lemma lastw_ok s b l : Forall (opt_ok s b) l -> forall d,
  (~ In 3 (map kind_of l) /\ lastw l d = d) \/
  (In 3 (map kind_of l) /\ opt_ok s b (WWs (lastw l d))).
Proof.
  induction 1 as [|o l Ho Hl IH]; intros d; [left; split; [intros []|reflexivity]|].
  destruct o as [|v|v| |a c|bd|kk bd]; cbn [opt_ok] in Ho; try contradiction; cbn [lastw map kind_of].
  3:{ right. destruct (IH v) as [[Hn E]|[Hi Hk]].
      - rewrite E. split; [left; reflexivity | exact Ho].
      - split; [left; reflexivity | exact Hk]. }
  all: destruct (IH d) as [[Hn E]|[Hi Hk]];
    [left; split; [intros [Hc|Hc]; [discriminate | contradiction] | exact E]
    | right; split; [right; exact Hi | exact Hk]].
Qed.

(* the impersonator's own view of the MSS it emitted *)
Lemma lmo_some l tl : forall d, last_mss_opt (map of_w l ++ tl) (Some d) = last_mss_opt tl (Some (lastm l d)).
Proof.
  induction l as [|o l IH]; intros d; [reflexivity|].
  destruct o; cbn [map of_w app last_mss_opt lastm]; apply IH.
Qed.

Lemma lmo_none s b l tl : Forall (opt_ok s b) l -> In 2 (map kind_of l) ->
  last_mss_opt (map of_w l ++ tl) None = last_mss_opt tl (Some (lastm l 0)).
Proof.
  induction 1 as [|o l Ho Hl IH]; intros Hin; [destruct Hin|].
  destruct o as [|v|v| |a c|bd|kk bd]; cbn [opt_ok] in Ho; try contradiction;
    cbn [map of_w app last_mss_opt lastm kind_of] in *.
  2: apply lmo_some.
  all: destruct Hin as [Hc|Hin]; [discriminate | apply IH; exact Hin].
Qed.

(* ------------------------------------------------------------------ *)
(* 6. Flags, window, payload                                           *)
(* ------------------------------------------------------------------ *)
Definition out_flags (s : tcp_sig) (b : base) : Z :=
  fin_flags (b_flags b) (hasb qNZACK s) (hasb qZACK s) (hasb qNZURG s) (hasb qURG s) (hasb qPUSH s) (hasb qECN s).

Lemma flags_facts s b : admissible_base b -> Coh s b ->
  let F := out_flags s b in
  0 <= F < 512 /\ Z.testbit F 1 = true /\ Z.testbit F 0 = false /\ Z.testbit F 2 = false /\
  Z.testbit F 4 = negb (is_syn b) /\ (Z.land (b_flags b) 16 =? 0) = is_syn b /\
  Z.testbit F 5 = hasb qURG s /\ Z.testbit F 3 = hasb qPUSH s /\
  (hasb qECN s = false -> Z.testbit F 6 = false /\ Z.testbit F 7 = false /\ Z.testbit F 8 = false).
Proof.
  intros (_ & Hsyn & Hfr & Hu & _ & _ & Hr & _) C. cbv zeta.
  pose proof (flag_check_all (b_flags b) Hr (hasb qNZACK s) (hasb qZACK s) (hasb qNZURG s) (hasb qURG s) (hasb qPUSH s) (hasb qECN s)) as H.
  unfold flag_check in H. cbv zeta in H. fold (out_flags s b) in H. fold (is_syn b) in H.
  rewrite (c_ack s b C), (c_urg s b C), (c_nzack s b C), (c_zack s b C) in H.
  rewrite Hfr, Hu in H. cbn [Z.eqb andb] in H.
  assert (is_syn b || (Z.land (b_flags b) 18 =? 18) = true) as Hs.
  { unfold is_syn. destruct Hsyn as [-> | ->]; reflexivity. }
  rewrite Hs in H. cbn [implb andb] in H.
  repeat rewrite andb_true_iff in H.
  destruct H as (((((((((H1 & H2) & H3) & H4) & H5) & H6) & H7) & H8) & H9) & H10).
  apply Z.leb_le in H1. apply Z.ltb_lt in H2. apply negb_true_iff in H4. apply negb_true_iff in H5.
  apply eqb_prop in H6. apply eqb_prop in H7. apply eqb_prop in H8. apply eqb_prop in H9.
  split; [lia|]. split; [exact H3|]. split; [exact H4|]. split; [exact H5|]. split; [exact H6|].
  split; [exact H7|]. split; [exact H8|]. split; [exact H9|].
  intros He; rewrite He in H10; cbn [orb] in H10; apply negb_true_iff in H10;
    apply orb_false_iff in H10; destruct H10 as [H10 H11]; apply orb_false_iff in H10; destruct H10 as [H10 H12].
  auto.
Qed.

Definition SeqOk (s : tcp_sig) (v : Z) : Prop := 0 <= v < 4294967296 /\ (v =? 0) = hasb qZSEQ s.
Definition AckOk (s : tcp_sig) (b : base) (v : Z) : Prop :=
  0 <= v < 4294967296 /\ (negb (is_syn b) && (v =? 0)) = hasb qZACK s /\ (is_syn b && negb (v =? 0)) = hasb qNZACK s.
Definition UrgOk (s : tcp_sig) (v : Z) : Prop := 0 <= v < 65536 /\ (v =? 0) = negb (hasb qNZURG s).

Definition WinOk (s : tcp_sig) (l : list wopt) (win : Z) : Prop :=
  0 <= win < 65536 /\
  match s_wtype s with
  | WNormal => win = s_wsize s
  | WAny => True
  | WMod => win mod s_wsize s = 0
  | Sig.WMss => In 2 (map kind_of l) /\ win = lastm l 0 * s_wsize s
  | WMtu => False
  end.

Lemma imp_window_hoare s b l mtu : wf_sig s -> Sup s -> admissible_base b ->
  map kind_of l = body_of (s_layout s) -> Forall (opt_ok s b) l ->
  hoare (imp_window s b (map of_w l ++ (if has_eol (s_layout s) then [OoEol] else [])) mtu) (WinOk s l).
Proof.
  intros W U A Hm Hf. unfold imp_window, WinOk.
  destruct W as (_ & _ & _ & _ & _ & _ & _ & Ww). pose proof (u_win s U) as Uw.
  destruct (s_wtype s) eqn:Wt.
  - apply hoare_ret. split; [lia | reflexivity].
  - apply hoare_ret. destruct A as (_ & _ & _ & _ & _ & _ & _ & _ & _ & Hw & _). split; [lia | exact I].
  - eapply hoare_bind with (P := fun k => 1 <= k < 65535 / s_wsize s + 1).
    + apply hoare_draw. assert (1 <= 65535 / s_wsize s) by (apply Z.div_le_lower_bound; lia). lia.
    + intros k Hk. apply hoare_ret. destruct (div_bound k (s_wsize s) ltac:(lia) ltac:(lia)) as [B1 B2].
      split; [nia|]. rewrite Z.mul_comm. apply Z.mod_mul. lia.
  - destruct Uw as [Hin _]. rewrite <- Hm in Hin.
    rewrite (lmo_none s b l _ Hf Hin).
    assert (last_mss_opt (if has_eol (s_layout s) then [OoEol] else []) (Some (lastm l 0)) = Some (lastm l 0)) as ->
      by (destruct (has_eol (s_layout s)); reflexivity).
    apply hoare_ret.
    destruct (lastm_ok s b l Hf 0) as [[Hn _]|[_ Hk]]; [contradiction|].
    cbn [opt_ok] in Hk. destruct Hk as (Hr & _ & Hw). specialize (Hw Wt). split; [nia|]. split; [exact Hin | reflexivity].
  - contradiction.
Qed.

Lemma draw_chars_hoare n : hoare (draw_chars n) (fun cs => length cs = n).
Proof.
  induction n as [|n IH]; cbn [draw_chars]; [apply hoare_ret; reflexivity|].
  hbdraw i Hi. eapply hoare_bind; [exact IH|]. intros r Hr. apply hoare_ret. cbn [length]. congruence.
Qed.

Definition PayOk (s : tcp_sig) (pay : list Z) : Prop :=
  len pay < 60000 /\ (s_pay s = -1 \/ s_pay s = b2z (match pay with [] => false | _ => true end)).

Lemma imp_payload_hoare s b : wf_sig s -> admissible_base b -> hoare (imp_payload s b) (PayOk s).
Proof.
  intros W A. unfold imp_payload, PayOk.
  destruct W as (_ & _ & _ & _ & _ & Wp & _).
  destruct A as (_ & _ & _ & _ & _ & _ & _ & _ & _ & _ & _ & _ & _ & _ & Hl & _).
  destruct (s_pay s =? -1) eqn:E1.
  - apply Z.eqb_eq in E1. apply hoare_ret. split; [exact Hl | left; exact E1].
  - apply Z.eqb_neq in E1. destruct (s_pay s =? 0) eqn:E0.
    + apply Z.eqb_eq in E0. apply hoare_ret. split; [reflexivity | right; exact E0].
    + apply Z.eqb_neq in E0. assert (s_pay s = 1) as E by lia.
      destruct (b_payload b) as [|c r] eqn:Ep.
      * hbdraw n Hn. eapply hoare_bind; [apply draw_chars_hoare|]. intros cs Hcs. apply hoare_ret.
        assert (length (map char_of cs) = Z.to_nat n) as Hlen by (rewrite map_length; exact Hcs).
        split; [unfold len; lia|]. right. rewrite E.
        destruct (map char_of cs); [cbn [length] in Hlen; lia | reflexivity].
      * apply hoare_ret. split; [exact Hl | right; rewrite E; reflexivity].
Qed.

(* ------------------------------------------------------------------ *)
(* 7. The whole call                                                   *)
(* ------------------------------------------------------------------ *)
Definition Good (s : tcp_sig) (b : base) (hops : Z) (x : outp) : Prop :=
  x_ver x = b_ver b /\ x_src x = b_src b /\ x_dst x = b_dst b /\ x_ttl x = s_ttl s - hops /\
  x_frag x = b_frag b /\ x_proto x = b_proto b /\ x_sport x = b_sport b /\ x_dport x = b_dport b /\
  IpOk s b (x_tos x, x_id x, x_ipflags x, x_fl x) /\ SeqOk s (x_seq x) /\ AckOk s b (x_ack x) /\ UrgOk s (x_urg x) /\
  x_flags x = out_flags s b /\ PayOk s (x_payload x) /\
  exists l, x_opts x = map of_w l ++ (if has_eol (s_layout s) then [OoEol] else []) /\
            map kind_of l = body_of (s_layout s) /\ Forall (opt_ok s b) l /\ WinOk s l (x_win x).

Lemma imp_tcp_hoare s b hops mtu : wf_sig s -> Sup s -> Coh s b -> admissible_base b ->
  hoare (imp_tcp s b hops mtu None) (Good s b hops).
Proof.
  intros W U C A. unfold imp_tcp.
  assert (negb (s_ver s =? -1) && negb (b_ver b =? s_ver s) = false) as ->.
  { destruct (c_ver s b C) as [E|E]; rewrite E; [reflexivity|]. rewrite Z.eqb_refl. apply andb_false_r. }
  pose proof (flags_facts s b A C) as FF. cbv zeta in FF. destruct FF as (_ & _ & _ & _ & _ & F16 & _).
  pose proof A as A'.
  destruct A' as (_ & _ & _ & _ & Hurg0 & Hack & Hfr & Hseq & Hackr & _).
  assert (Hack0 : (b_ack b =? 0) = is_syn b).
  { rewrite <- F16. destruct (Z.land (b_flags b) 16 =? 0) eqn:E.
    - apply Z.eqb_eq in E. apply Z.eqb_eq. apply Hack. exact E.
    - apply Z.eqb_neq in E. apply Z.eqb_neq. intros Hc. apply E. apply Hack. exact Hc. }
  eapply hoare_bind; [apply (imp_ip_hoare s b hops A C)|].
  intros [[[tos idn] ipfl] fl] Hip. cbv beta iota.
  eapply hoare_bind with (P := SeqOk s).
  { unfold SeqOk. destruct (hasb qZSEQ s).
    - apply hoare_ret. split; [lia | reflexivity].
    - destruct (b_seq b =? 0) eqn:E.
      + hdraw. intros v Hv. split; [lia|]. apply Z.eqb_neq. lia.
      + apply hoare_ret. split; [lia | exact E]. }
  intros seq Hsq.
  eapply hoare_bind with (P := fun fa => fst fa = (if hasb qNZACK s then clear_tcpflag (b_flags b) 16
                                                   else if hasb qZACK s then Z.lor (b_flags b) 16 else b_flags b)
                                         /\ AckOk s b (snd fa)).
  { unfold AckOk. pose proof (c_ack s b C) as Ca. pose proof (c_nzack s b C) as Cn. pose proof (c_zack s b C) as Cz.
    destruct (hasb qNZACK s).
    - destruct (hasb qZACK s); [discriminate|]. rewrite Hack0, Cn.
      hbdraw a Ha. apply hoare_ret. cbn [fst snd]. split; [reflexivity|]. split; [lia|]. cbn [negb andb].
      split; [reflexivity|]. apply negb_true_iff. apply Z.eqb_neq. lia.
    - destruct (hasb qZACK s).
      + apply hoare_ret. cbn [fst snd]. apply negb_true_iff in Cz. rewrite Cz. split; [reflexivity|].
        split; [lia|]. split; reflexivity.
      + apply hoare_ret. cbn [fst snd]. rewrite Hack0. split; [reflexivity|]. split; [lia|].
        destruct (is_syn b); split; reflexivity. }
  intros [f1 ack] [Hf1 Hak]. cbn [fst snd] in Hf1, Hak. cbv beta iota.
  eapply hoare_bind with (P := fun fu => fst fu = (if hasb qNZURG s then clear_tcpflag f1 32
                                                   else if hasb qURG s then Z.lor f1 32 else f1)
                                         /\ UrgOk s (snd fu)).
  { unfold UrgOk. rewrite Hurg0. cbn [Z.eqb]. destruct (hasb qNZURG s).
    - hbdraw u Hu. apply hoare_ret. cbn [fst snd]. split; [reflexivity|]. split; [lia|]. apply Z.eqb_neq. lia.
    - destruct (hasb qURG s); apply hoare_ret; cbn [fst snd]; (split; [reflexivity|]); split; try lia; reflexivity. }
  intros [f2 urg] [Hf2 Hug]. cbn [fst snd] in Hf2, Hug. cbv beta iota.
  eapply hoare_bind; [apply (imp_options_hoare s b W U C)|].
  intros opts (l & -> & Hm & Hf).
  eapply hoare_bind; [apply (imp_window_hoare s b l mtu W U A Hm Hf)|].
  intros win Hwin.
  eapply hoare_bind; [apply (imp_payload_hoare s b W A)|].
  intros pay Hpay. apply hoare_ret.
  unfold Good. cbn [x_ver x_src x_dst x_ttl x_tos x_id x_ipflags x_frag x_proto x_fl x_sport x_dport x_seq x_ack
                    x_flags x_urg x_win x_opts x_payload].
  repeat (split; [first [reflexivity | assumption]|]).
  split.
  { subst f1 f2. reflexivity. }
  split; [exact Hpay|]. exists l. auto.
Qed.

Theorem supported_no_raise : forall s b hops mtu t,
  wf_sig s -> supported_b s = true -> coherent_b s b = true -> admissible_base b ->
  0 <= hops < s_ttl s ->
  (exists x t', imp_tcp s b hops mtu None t = Ok (x, t')) \/ imp_tcp s b hops mtu None t = Err OutOfFuel.
Proof.
  intros s b hops mtu t W U C A _. eapply hoare_total.
  apply (imp_tcp_hoare s b hops mtu W (supported_facts s U) (coherent_facts s b C) A).
Qed.

(* ------------------------------------------------------------------ *)
(* 8. What the dissector's option walker reports                       *)
(* ------------------------------------------------------------------ *)
Definition optq (k : N) : bool := N.eqb k qZTS1 || N.eqb k qNZTS2 || N.eqb k qEXWS.

Lemma opts_parse s b l opts : Sup s -> Coh s b ->
  opts = map of_w l ++ (if has_eol (s_layout s) then [OoEol] else []) ->
  map kind_of l = body_of (s_layout s) -> Forall (opt_ok s b) l ->
  exists o, parse_options (enc_oopts opts) (is_syn b) = Ok o /\
    o_layout o = s_layout s /\ o_eol o = s_eol_pad s /\ o_mss o = lastm l 0 /\ o_ws o = lastw l 0 /\
    forall k, hasq k (o_quirks o) = hasq k (s_quirks s) && optq k.
Proof.
  intros U C Eo Hm Hf.
  destruct (enc_oopts_eq s b opts l U Eo Hm Hf) as (E & _).
  rewrite E. unfold parse_options.
  rewrite walk_complete by (auto using le_n, (opt_ok_wf s b l Hf)).
  eexists. split; [reflexivity|].
  unfold expected. fold (foldo (is_syn b) l w0).
  pose proof (layout_split (s_layout s)) as LS. pose proof (u_eol s U) as He. unfold wtail.
  assert (Hq : forall k, hasq k (w_q (foldo (is_syn b) l w0)) = hasq k (s_quirks s) && optq k).
  { intros k. rewrite foldo_q. cbn [w0 w_q]. rewrite hasq_0. cbn [orb]. apply (opts_quirks s b l k C Hf Hm). }
  destruct (has_eol (s_layout s)).
  - cbn [apply_tail]. rewrite all_zero_repeat.
    cbn [finish o_layout o_eol o_mss o_ws o_quirks w_set_eol w_push w_rlayout w_q w_mss w_ws w_eol].
    rewrite foldo_layout, foldo_mss, foldo_ws. cbn [w0 w_rlayout w_mss w_ws]. rewrite app_nil_r.
    cbn [rev]. rewrite rev_involutive, Hm. split; [symmetry; exact LS|].
    split; [rewrite len_repeat; lia|]. auto.
  - cbn [apply_tail finish o_layout o_eol o_mss o_ws o_quirks].
    rewrite foldo_layout, foldo_mss, foldo_ws, foldo_eol. cbn [w0 w_rlayout w_mss w_ws w_eol]. rewrite app_nil_r.
    rewrite rev_involutive, Hm. rewrite app_nil_r in LS. split; [symmetry; exact LS|].
    split; [lia|]. auto.
Qed.

(* ------------------------------------------------------------------ *)
(* 9. The matcher on a packet with the right fields                    *)
(* ------------------------------------------------------------------ *)
Lemma match_exact md s p hops :
  p_layout p = s_layout s -> (s_ver s = -1 \/ s_ver s = p_ver p) -> sq_of s p = p_quirks p ->
  p_eol_pad p = s_eol_pad s -> p_olen p = s_olen s -> p_ttl p = s_ttl s - hops -> 0 <= hops <= md ->
  (s_mss s = -1 \/ s_mss s = p_mss p) -> (s_wscale s = -1 \/ s_wscale s = p_ws p) ->
  (s_pay s = -1 \/ s_pay s = b2z (p_payload p)) -> win_b s p = true ->
  tcp_match md s p = Some Exact.
Proof.
  intros Hl Hv Hq He Ho Ht Hh Hm Hw Hp Hwin.
  rewrite tcp_match_nf.
  assert (all_b s p = true) as ->.
  { unfold all_b, layout_b, ver_b, quirks_b, fixed_b, ttl_b, wild_b. cbv zeta.
    rewrite Hl, list_eqb_refl, Hq, N.eqb_refl, He, Ho, !Z.eqb_refl, Hwin. cbn [andb orb].
    assert ((s_ver s =? -1) || (s_ver s =? p_ver p) = true) as ->.
    { apply orb_true_iff. destruct Hv as [E|E]; [left|right]; apply Z.eqb_eq; exact E. }
    assert ((s_ttl s <? p_ttl p) = false) as -> by (apply Z.ltb_ge; lia).
    rewrite andb_false_r. cbn [negb andb].
    assert ((s_mss s =? -1) || (s_mss s =? p_mss p) = true) as ->.
    { apply orb_true_iff. destruct Hm as [E|E]; [left|right]; apply Z.eqb_eq; exact E. }
    assert ((s_wscale s =? -1) || (s_wscale s =? p_ws p) = true) as ->.
    { apply orb_true_iff. destruct Hw as [E|E]; [left|right]; apply Z.eqb_eq; exact E. }
    assert ((s_pay s =? -1) || (s_pay s =? b2z (p_payload p)) = true) as ->.
    { apply orb_true_iff. destruct Hp as [E|E]; [left|right]; apply Z.eqb_eq; exact E. }
    reflexivity. }
  unfold type_of.
  assert ((s_ttl s <? p_ttl p) = false) as -> by (apply Z.ltb_ge; lia).
  assert ((s_ttl s - p_ttl p >? md) = false) as -> by (rewrite Z.gtb_ltb; apply Z.ltb_ge; lia).
  cbn [orb]. rewrite andb_false_r, Hq, N.eqb_refl. reflexivity.
Qed.

Lemma win_ok s b l p : wf_sig s -> Forall (opt_ok s b) l -> WinOk s l (p_win p) -> p_mss p = lastm l 0 ->
  win_b s p = true.
Proof.
  intros W Hf [Hr Hw] Hm. unfold win_b.
  destruct W as (_ & _ & _ & _ & _ & _ & _ & Ww).
  destruct (s_wtype s) eqn:Wt.
  - apply Z.eqb_eq. symmetry. exact Hw.
  - reflexivity.
  - apply Z.eqb_eq. exact Hw.
  - destruct Hw as [Hin Hw].
    destruct (lastm_ok s b l Hf 0) as [[Hn _]|[_ Hk]]; [contradiction|].
    cbn [opt_ok] in Hk. destruct Hk as (_ & _ & Hk). specialize (Hk Wt). destruct Hk as [Hk1 Hk2].
    assert (win_multi p = (p_win p / p_mss p, false)) as E.
    { eapply (win_multi_first p (p_mss p) false []).
      - rewrite Hw. nia.
      - rewrite Hm. exact Hk1.
      - reflexivity.
      - split; [rewrite Hm; lia|]. rewrite Hw, Hm. exists (s_wsize s). apply Z.mul_comm.
      - intros e []. }
    rewrite E. cbn [fst snd negb andb]. apply Z.eqb_eq.
    rewrite Hw, Hm. rewrite Z.mul_comm. rewrite Z.div_mul by lia. reflexivity.
  - contradiction.
Qed.

(* ------------------------------------------------------------------ *)
(* 10. enc_out produces the C03 header encodings                       *)
(* ------------------------------------------------------------------ *)
Definition mk_th (x : outp) : tcp_hdr :=
  {| th_sport := x_sport x; th_dport := x_dport x; th_seq := x_seq x; th_ack := x_ack x; th_res := 0;
     th_ns := Z.testbit (x_flags x) 8; th_cwr := Z.testbit (x_flags x) 7; th_ece := Z.testbit (x_flags x) 6;
     th_urg := Z.testbit (x_flags x) 5; th_ackf := Z.testbit (x_flags x) 4; th_psh := Z.testbit (x_flags x) 3;
     th_rst := Z.testbit (x_flags x) 2; th_syn := Z.testbit (x_flags x) 1; th_fin := Z.testbit (x_flags x) 0;
     th_win := x_win x; th_c1 := 0; th_c2 := 0; th_urgp := x_urg x; th_opts := enc_oopts (x_opts x) |}.

Definition tcp_bytes (x : outp) : list Z :=
  let opts := enc_oopts (x_opts x) in
  w16 (x_sport x) ++ w16 (x_dport x) ++ w32 (x_seq x) ++ w32 (x_ack x)
  ++ [(5 + len opts / 4) * 16 + x_flags x / 256; x_flags x mod 256] ++ w16 (x_win x) ++ [0; 0] ++ w16 (x_urg x)
  ++ opts ++ x_payload x.

Lemma tcp_bytes_eq x : 0 <= x_flags x < 512 -> tcp_bytes x = enc_tcp (mk_th x) (x_payload x).
Proof.
  intros HF. destruct (flag_split (x_flags x) HF) as [E1 E2].
  unfold tcp_bytes, enc_tcp, flag_byte, mk_th. cbv zeta.
  cbn [th_sport th_dport th_seq th_ack th_res th_ns th_cwr th_ece th_urg th_ackf th_psh th_rst th_syn th_fin
       th_win th_c1 th_c2 th_urgp th_opts].
  rewrite <- E2.
  replace ((5 + len (enc_oopts (x_opts x)) / 4) * 16 + 0 * 2 + b2z (Z.testbit (x_flags x) 8))
    with ((5 + len (enc_oopts (x_opts x)) / 4) * 16 + x_flags x / 256) by (rewrite E1; lia).
  reflexivity.
Qed.

Definition out_checks (x : outp) : bool :=
  fits (x_ttl x) 256 && fits (x_tos x) 256 && fits (x_id x) 65536 && fits (x_win x) 65536 && fits (x_seq x) 4294967296
  && fits (x_ack x) 4294967296 && fits (x_urg x) 65536 && fits (x_flags x) 512 && (len (enc_oopts (x_opts x)) <=? 40)
  && forallb opt_fits (x_opts x).

Lemma enc_out_v6 x : out_checks x = true -> x_ver x = 6 ->
  enc_out x = Ok ([96 + x_tos x / 16; (x_tos x mod 16) * 16 + x_fl x / 65536; (x_fl x / 256) mod 256; x_fl x mod 256]
        ++ w16 (len (tcp_bytes x)) ++ [6; x_ttl x] ++ x_src x ++ x_dst x ++ tcp_bytes x).
Proof.
  intros Hc Hv. unfold enc_out. cbv zeta. fold opt_fits. unfold out_checks in Hc. unfold opt_fits in *. rewrite Hc.
  cbn [negb]. rewrite Hv. reflexivity.
Qed.

Lemma enc_out_v4 x : out_checks x = true -> x_ver x = 4 ->
  enc_out x = Ok ([69; x_tos x] ++ w16 (20 + len (tcp_bytes x)) ++ w16 (x_id x)
        ++ [x_ipflags x * 32 + x_frag x / 256; x_frag x mod 256; x_ttl x; x_proto x; 0; 0]
        ++ x_src x ++ x_dst x ++ tcp_bytes x).
Proof.
  intros Hc Hv. unfold enc_out. cbv zeta. unfold out_checks in Hc. unfold opt_fits in *. rewrite Hc.
  cbn [negb]. rewrite Hv. reflexivity.
Qed.

Lemma len_enc_tcp th pay : len (enc_tcp th pay) = 20 + len (th_opts th) + len pay.
Proof.
  unfold enc_tcp, b16, b32, len. rewrite !app_length. cbn [length]. rewrite !Nat2Z.inj_add. lia.
Qed.

Definition mk_h6 (x : outp) : ip6_hdr :=
  {| h6_tc := x_tos x; h6_fl := x_fl x; h6_nh := 6; h6_hlim := x_ttl x; h6_src := x_src x; h6_dst := x_dst x |}.

Lemma v6_bytes_eq x tcp :
  [96 + x_tos x / 16; (x_tos x mod 16) * 16 + x_fl x / 65536; (x_fl x / 256) mod 256; x_fl x mod 256]
        ++ w16 (len tcp) ++ [6; x_ttl x] ++ x_src x ++ x_dst x ++ tcp = enc_ip6 (mk_h6 x) tcp.
Proof. reflexivity. Qed.

Definition mk_h4 (x : outp) (evil df : bool) (src dst : Z * Z * Z * Z) : ip4_hdr :=
  {| h4_tos := x_tos x; h4_id := x_id x; h4_evil := evil; h4_df := df; h4_mf := false; h4_off := 0; h4_ttl := x_ttl x;
     h4_proto := 6; h4_c1 := 0; h4_c2 := 0; h4_src := src; h4_dst := dst; h4_opts := [] |}.

Lemma v4_bytes_eq x evil df src dst tcp :
  x_ipflags x = 4 * b2z evil + 2 * b2z df -> x_frag x = 0 -> x_proto x = 6 -> x_src x = quad src -> x_dst x = quad dst ->
  [69; x_tos x] ++ w16 (20 + len tcp) ++ w16 (x_id x)
        ++ [x_ipflags x * 32 + x_frag x / 256; x_frag x mod 256; x_ttl x; x_proto x; 0; 0]
        ++ x_src x ++ x_dst x ++ tcp = enc_ip4 (mk_h4 x evil df src dst) tcp.
Proof.
  intros -> -> -> -> ->. destruct evil, df; reflexivity.
Qed.

(* ------------------------------------------------------------------ *)
(* 11. Quirk sets                                                      *)
(* ------------------------------------------------------------------ *)
Lemma bits17 (f g : N -> bool) :
  (forall k, (17 <= k)%N -> f k = g k) ->
  f 0%N = g 0%N -> f 1%N = g 1%N -> f 2%N = g 2%N -> f 3%N = g 3%N -> f 4%N = g 4%N -> f 5%N = g 5%N ->
  f 6%N = g 6%N -> f 7%N = g 7%N -> f 8%N = g 8%N -> f 9%N = g 9%N -> f 10%N = g 10%N -> f 11%N = g 11%N ->
  f 12%N = g 12%N -> f 13%N = g 13%N -> f 14%N = g 14%N -> f 15%N = g 15%N -> f 16%N = g 16%N ->
  forall k, f k = g k.
Proof.
  intros Hhi H0 H1 H2 H3 H4 H5 H6 H7 H8 H9 H10 H11 H12 H13 H14 H15 H16 k.
  destruct (N.le_gt_cases 17 k) as [Hk|Hk]; [apply Hhi; exact Hk|].
  assert (k = 0 \/ k = 1 \/ k = 2 \/ k = 3 \/ k = 4 \/ k = 5 \/ k = 6 \/ k = 7 \/ k = 8 \/ k = 9 \/ k = 10 \/ k = 11
          \/ k = 12 \/ k = 13 \/ k = 14 \/ k = 15 \/ k = 16)%N as Hc by lia.
  repeat (destruct Hc as [->|Hc]; [assumption|]). subst k. assumption.
Qed.

Lemma ip4_quirk_hi h k : (17 <= k)%N -> ip4_quirk h k = false.
Proof.
  intros Hk. unfold ip4_quirk, qECN, qMBZ, qDF, qNZID, qZID.
  repeat (match goal with |- context [N.eqb k ?c] => destruct (N.eqb_spec k c); [lia|] end). reflexivity.
Qed.
Lemma ip6_quirk_hi h k : (17 <= k)%N -> ip6_quirk h k = false.
Proof.
  intros Hk. unfold ip6_quirk, qECN, qFLOW.
  repeat (match goal with |- context [N.eqb k ?c] => destruct (N.eqb_spec k c); [lia|] end). reflexivity.
Qed.
Lemma tcp_quirk_hi h k : (17 <= k)%N -> tcp_quirk h k = false.
Proof.
  intros Hk. unfold tcp_quirk, qECN, qZSEQ, qZACK, qNZACK, qURG, qNZURG, qPUSH.
  repeat (match goal with |- context [N.eqb k ?c] => destruct (N.eqb_spec k c); [lia|] end). reflexivity.
Qed.
Lemma hasq_hi q k : (q < 2 ^ 17)%N -> (17 <= k)%N -> hasq k q = false.
Proof.
  intros Hq Hk. unfold hasq. destruct (N.eq_dec q 0) as [->|Hn]; [apply N.bits_0|].
  apply N.bits_above_log2. apply N.log2_lt_pow2 in Hq; lia.
Qed.

Definition tcpset (k : N) : bool := existsb (N.eqb k) [qZSEQ; qZACK; qNZACK; qURG; qNZURG; qPUSH].

Lemma tq s b hops x : admissible_base b -> Coh s b -> Good s b hops x ->
  forall k, N.eqb k qECN || tcp_quirk (mk_th x) k = N.eqb k qECN || (hasq k (s_quirks s) && tcpset k).
Proof.
  intros A C G.
  destruct G as (_ & _ & _ & _ & _ & _ & _ & _ & _ & [_ Hsq] & (_ & Hza & Hnza) & [_ Hug] & Hfl & _).
  pose proof (flags_facts s b A C) as FF. cbv zeta in FF. rewrite <- Hfl in FF.
  destruct FF as (_ & T1 & T0 & T2 & T4 & _ & T5 & T3 & _).
  pose proof (c_urg s b C) as Cu.
  unfold hasb, qECN, qZSEQ, qZACK, qNZACK, qURG, qNZURG, qPUSH in *.
  set (q := s_quirks s) in *.
  apply bits17.
  1:{ intros k Hk. rewrite tcp_quirk_hi by exact Hk. rewrite (hasq_hi q k (c_lt s b C) Hk). reflexivity. }
  all: cbn -[Z.testbit]; rewrite ?andb_false_r, ?andb_true_r, ?orb_false_r; try reflexivity.
  - exact Hsq.
  - rewrite T4, T2, negb_involutive. cbn [negb]. rewrite andb_true_r. exact Hnza.
  - rewrite T4. exact Hza.
  - rewrite T5, Hug. destruct (hasq 9 q), (hasq 10 q); try reflexivity; discriminate.
  - exact T5.
  - exact T3.
Qed.

Lemma tq_ecn s b hops x : admissible_base b -> Coh s b -> Good s b hops x ->
  hasb qECN s = false -> tcp_quirk (mk_th x) qECN = false.
Proof.
  intros A C G He.
  destruct G as (_ & _ & _ & _ & _ & _ & _ & _ & _ & _ & _ & _ & Hfl & _).
  pose proof (flags_facts s b A C) as FF. cbv zeta in FF. rewrite <- Hfl in FF.
  destruct FF as (_ & _ & _ & _ & _ & _ & _ & _ & T).
  destruct (T He) as (T6 & T7 & T8).
  change (tcp_quirk (mk_th x) qECN) with (Z.testbit (x_flags x) 6 || Z.testbit (x_flags x) 7 || Z.testbit (x_flags x) 8).
  rewrite T6, T7, T8. reflexivity.
Qed.

Lemma good_checks s b hops x : wf_sig s -> Sup s -> Coh s b -> admissible_base b -> 0 <= hops < s_ttl s ->
  Good s b hops x -> out_checks x = true.
Proof.
  intros W U C A Hh G.
  pose proof (flags_facts s b A C) as FF. cbv zeta in FF.
  destruct G as (_ & _ & _ & Httl & _ & _ & _ & _ & Hip & [Hsq _] & (Hak & _) & [Hug _] & Hfl & _ & (l & Ho & Hm & Hf & [Hw _])).
  rewrite <- Hfl in FF. destruct FF as (HF & _).
  destruct Hip as (Htos & _ & Hid & _).
  destruct W as (_ & Wt & _).
  destruct (enc_oopts_eq s b (x_opts x) l U Ho Hm Hf) as (_ & _ & Hlen & _).
  unfold out_checks. rewrite !fits_true by lia.
  assert ((len (enc_oopts (x_opts x)) <=? 40) = true) as -> by (apply Z.leb_le; exact Hlen).
  rewrite Ho. rewrite (opts_fit s b l _ Hf); [reflexivity|]. destruct (has_eol (s_layout s)); reflexivity.
Qed.

Lemma good_tcp s b hops x : wf_sig s -> Sup s -> Coh s b -> admissible_base b ->
  Good s b hops x ->
  wf_tcp (mk_th x) /\ (type_of_hdr (mk_th x) =? fSYN) = is_syn b.
Proof.
  intros W U C A G.
  pose proof (flags_facts s b A C) as FF. cbv zeta in FF.
  destruct G as (_ & _ & _ & _ & _ & _ & Hsp & Hdp & _ & [Hsq _] & (Hak & _) & [Hug _] & Hfl & _ & (l & Ho & Hm & Hf & [Hw _])).
  rewrite <- Hfl in FF. destruct FF as (_ & T1 & T0 & T2 & T4 & _).
  destruct A as (_ & _ & _ & _ & _ & _ & _ & _ & _ & _ & Asp & Adp & _).
  destruct (enc_oopts_eq s b (x_opts x) l U Ho Hm Hf) as (_ & Hmod & Hlen & Hby).
  split.
  - unfold wf_tcp, mk_th, byte.
    cbn [th_sport th_dport th_seq th_ack th_res th_win th_c1 th_c2 th_urgp th_opts].
    rewrite Hsp, Hdp. repeat split; try lia; assumption.
  - unfold type_of_hdr, mk_th. cbn [th_fin th_syn th_rst th_ackf]. rewrite T0, T1, T2, T4.
    destruct (is_syn b); reflexivity.
Qed.

Lemma tq' s b hops x : admissible_base b -> Coh s b -> Good s b hops x ->
  forall k, k <> 0%N -> tcp_quirk (mk_th x) k = hasq k (s_quirks s) && tcpset k.
Proof.
  intros A C G k Hk. pose proof (tq s b hops x A C G k) as H.
  apply N.eqb_neq in Hk. unfold qECN in H. rewrite Hk in H. exact H.
Qed.

Lemma pq4 s b hops x src dst : Sup s -> Coh s b -> admissible_base b -> Good s b hops x -> b_ver b = 4 ->
  forall k, ip4_quirk (mk_h4 x (hasb qMBZ s) (hasb qDF s) src dst) k
            || (tcp_quirk (mk_th x) k || (hasq k (s_quirks s) && optq k))
            = hasq k (s_quirks s) && negb (N.eqb k qFLOW).
Proof.
  intros U C A G E4.
  pose proof (tq' s b hops x A C G) as TQ. pose proof (tq_ecn s b hops x A C G) as TE.
  destruct G as (_ & _ & _ & _ & _ & _ & _ & _ & Hip & _).
  destruct Hip as (Htos & Htos0 & _ & _ & H4). destruct (H4 E4) as (_ & Hnz & Hz).
  pose proof (u_eolnz s U) as Ue. pose proof (u_bad s U) as Ub.
  apply bits17.
  1:{ intros k Hk. rewrite ip4_quirk_hi, tcp_quirk_hi, (hasq_hi _ k (c_lt s b C) Hk) by exact Hk. reflexivity. }
  1:{ change (ip4_quirk (mk_h4 x (hasb qMBZ s) (hasb qDF s) src dst) 0%N) with (negb (x_tos x mod 4 =? 0)).
      change (optq 0) with false. change (N.eqb 0 qFLOW) with false. rewrite andb_false_r, orb_false_r. cbn [negb]. rewrite andb_true_r.
      unfold hasb, qECN in *. destruct (hasq 0 (s_quirks s)).
      - cbn [negb] in Htos0. apply Z.eqb_neq in Htos0.
        assert ((x_tos x mod 4 =? 0) = false) as -> by (apply Z.eqb_neq; lia). reflexivity.
      - cbn [negb] in Htos0. apply Z.eqb_eq in Htos0. rewrite Htos0. rewrite (TE eq_refl). reflexivity. }
  all: rewrite TQ by discriminate.
  all: unfold hasb in *; cbn -[Z.testbit hasq Z.modulo]; rewrite ?andb_false_r, ?andb_true_r, ?orb_false_r; try reflexivity.
  - exact Hnz.
  - exact Hz.
  - symmetry. exact Ue.
  - symmetry. exact Ub.
Qed.

Lemma pq6 s b hops x : Sup s -> Coh s b -> admissible_base b -> Good s b hops x -> b_ver b = 6 ->
  forall k, ip6_quirk (mk_h6 x) k || (tcp_quirk (mk_th x) k || (hasq k (s_quirks s) && optq k))
            = hasq k (s_quirks s) && negb (existsb (N.eqb k) v4_only).
Proof.
  intros U C A G E6.
  pose proof (tq' s b hops x A C G) as TQ. pose proof (tq_ecn s b hops x A C G) as TE.
  destruct G as (_ & _ & _ & _ & _ & _ & _ & _ & Hip & _).
  destruct Hip as (Htos & Htos0 & _ & H6 & _). destruct (H6 E6) as (_ & Hfl).
  pose proof (u_eolnz s U) as Ue. pose proof (u_bad s U) as Ub.
  apply bits17.
  1:{ intros k Hk. rewrite ip6_quirk_hi, tcp_quirk_hi, (hasq_hi _ k (c_lt s b C) Hk) by exact Hk. reflexivity. }
  1:{ change (ip6_quirk (mk_h6 x) 0%N) with (negb (x_tos x mod 4 =? 0)).
      change (optq 0) with false. change (existsb (N.eqb 0) v4_only) with false. rewrite andb_false_r, orb_false_r. cbn [negb]. rewrite andb_true_r.
      unfold hasb, qECN in *. destruct (hasq 0 (s_quirks s)).
      - cbn [negb] in Htos0. apply Z.eqb_neq in Htos0.
        assert ((x_tos x mod 4 =? 0) = false) as -> by (apply Z.eqb_neq; lia). reflexivity.
      - cbn [negb] in Htos0. apply Z.eqb_eq in Htos0. rewrite Htos0. rewrite (TE eq_refl). reflexivity. }
  all: rewrite TQ by discriminate.
  all: unfold hasb in *; cbn -[Z.testbit hasq Z.modulo]; rewrite ?andb_false_r, ?andb_true_r, ?orb_false_r; try reflexivity.
  - rewrite Hfl. apply negb_involutive.
  - symmetry. exact Ue.
  - symmetry. exact Ub.
Qed.

Lemma sq4 s b p : Coh s b -> b_ver b = 4 -> p_ver p = 4 ->
  forall k, N.testbit (sq_of s p) k = hasq k (s_quirks s) && negb (N.eqb k qFLOW).
Proof.
  intros C E4 Ep k. unfold sq_of. rewrite Ep. cbn [Z.eqb Pos.eqb].
  destruct (s_ver s =? -1) eqn:Ev.
  - rewrite N.ldiff_spec, testbit_mask_of. cbn [v6_only existsb]. rewrite orb_false_r. reflexivity.
  - apply Z.eqb_neq in Ev. destruct (c_v4 s b C E4) as (_ & _ & Hf).
    destruct (N.eqb_spec k qFLOW) as [->|Hn]; cbn [negb]; [|rewrite andb_true_r; reflexivity].
    rewrite andb_false_r. fold (hasq qFLOW (s_quirks s)). fold (hasb qFLOW s).
    destruct (hasb qFLOW s); [specialize (Hf eq_refl); contradiction | reflexivity].
Qed.

Lemma sq6 s b p : Coh s b -> b_ver b = 6 -> p_ver p = 6 ->
  forall k, N.testbit (sq_of s p) k = hasq k (s_quirks s) && negb (existsb (N.eqb k) v4_only).
Proof.
  intros C E6 Ep k. unfold sq_of. rewrite Ep. cbn [Z.eqb Pos.eqb].
  destruct (s_ver s =? -1) eqn:Ev.
  - rewrite N.ldiff_spec, testbit_mask_of. reflexivity.
  - apply Z.eqb_neq in Ev. destruct (c_v6 s b C ltac:(lia)) as [Hc|(H1 & H2 & H3 & H4)]; [contradiction|].
    unfold hasb in *. fold (hasq k (s_quirks s)). cbn [v4_only existsb].
    destruct (N.eqb_spec k qDF) as [->|N1]; [rewrite H1; reflexivity|].
    destruct (N.eqb_spec k qNZID) as [->|N2]; [rewrite H2; reflexivity|].
    destruct (N.eqb_spec k qZID) as [->|N3]; [rewrite H3; reflexivity|].
    destruct (N.eqb_spec k qMBZ) as [->|N4]; [rewrite H4; reflexivity|].
    cbn [orb negb]. rewrite andb_true_r. reflexivity.
Qed.

(* ------------------------------------------------------------------ *)
(* 12. Assembly                                                        *)
(* ------------------------------------------------------------------ *)
Lemma list4 (l : list Z) : length l = 4%nat -> Forall (fun c => 0 <= c < 256) l ->
  exists q, l = quad q /\ wf_quad q.
Proof.
  intros Hl Hf. destruct l as [|a [|b0 [|c [|d [|e r]]]]]; try discriminate.
  exists (a, b0, c, d). split; [reflexivity|].
  inversion Hf as [|? ? Ha Hf1]; subst. inversion Hf1 as [|? ? Hb Hf2]; subst.
  inversion Hf2 as [|? ? Hc Hf3]; subst. inversion Hf3 as [|? ? Hd Hf4]; subst.
  unfold wf_quad, byte. auto.
Qed.

Lemma good_oracle md s b hops x : wf_sig s -> Sup s -> Coh s b -> admissible_base b ->
  0 <= hops < s_ttl s -> hops <= md -> Good s b hops x -> oracle md s x = Ok (Some Exact, hops).
Proof.
  intros W U C A Hh Hmd G.
  pose proof (good_checks s b hops x W U C A Hh G) as Hck.
  destruct (good_tcp s b hops x W U C A G) as [Wth Hty].
  pose proof (flags_facts s b A C) as FF. cbv zeta in FF. destruct FF as (HF & _).
  pose proof G as G'.
  destruct G' as (Hver & Hsrc & Hdst & Httl & Hfrag & Hproto & _ & _ & Hip & _ & _ & _ & Hfl & Hpay & (l & Ho & Hm & Hf & Hwin)).
  rewrite <- Hfl in HF.
  destruct (opts_parse s b l (x_opts x) U C Ho Hm Hf) as (o & Hpo & Hol & Hoe & Homss & Hows & Hoq).
  assert (Hpo' : parse_options (th_opts (mk_th x)) (type_of_hdr (mk_th x) =? fSYN) = Ok o).
  { rewrite Hty. exact Hpo. }
  destruct (enc_oopts_eq s b (x_opts x) l U Ho Hm Hf) as (_ & _ & Hlen & _).
  destruct Hpay as [Hpl Hps].
  pose proof (len_nonneg (x_payload x)) as Hpl0. pose proof (len_nonneg (enc_oopts (x_opts x))) as Hol0.
  assert (Hmss : s_mss s = -1 \/ s_mss s = o_mss o).
  { rewrite Homss. destruct (lastm_ok s b l Hf 0) as [[Hn E]|[_ Hk]].
    - rewrite E. rewrite Hm in Hn. apply (c_mss0 s b C Hn).
    - cbn [opt_ok] in Hk. tauto. }
  assert (Hws : s_wscale s = -1 \/ s_wscale s = o_ws o).
  { rewrite Hows. destruct (lastw_ok s b l Hf 0) as [[Hn E]|[_ Hk]].
    - rewrite E. rewrite Hm in Hn. apply (c_ws0 s b C Hn).
    - cbn [opt_ok] in Hk. tauto. }
  pose proof W as W'. destruct W' as (_ & Wttl & _).
  pose proof A as A'. destruct A' as (Av & _ & _ & _ & _ & _ & _ & _ & _ & _ & _ & _ & A4 & A6 & _).
  unfold oracle.
  destruct Av as [E4|E6].
  - (* IPv4 *)
    destruct (A4 E4) as (Ls & Ld & Fs & Fd & _ & _ & _ & Afrag & Aproto).
    destruct (list4 _ Ls Fs) as (src & Es & Wsrc). destruct (list4 _ Ld Fd) as (dst & Ed & Wdst).
    destruct Hip as (Htos & _ & Hid & _ & H4). destruct (H4 E4) as (Hipfl & _).
    rewrite (enc_out_v4 x Hck) by congruence.
    rewrite (v4_bytes_eq x (hasb qMBZ s) (hasb qDF s) src dst) by congruence.
    rewrite (tcp_bytes_eq x HF). cbn [bind]. rewrite Hver, E4.
    set (h := mk_h4 x (hasb qMBZ s) (hasb qDF s) src dst).
    assert (W4 : wf_ip4 h (enc_tcp (mk_th x) (x_payload x))).
    { unfold wf_ip4, h, mk_h4, byte.
      cbn [h4_tos h4_id h4_off h4_ttl h4_proto h4_c1 h4_c2 h4_src h4_dst h4_opts].
      rewrite len_enc_tcp. cbn [mk_th th_opts]. change (len []) with 0.
      repeat split; try lia; try assumption. constructor. }
    destruct (extract4 h (mk_th x) (x_payload x) o 0 W4 eq_refl eq_refl Wth Hpo') as (k & Hpk & _ & _ & _ & _ & _ & SF & PQ).
    rewrite Hpk.
    destruct SF as (Pv & Pol & Pttl & Pwin & Play & Pmss & Pws & _ & Peol & _ & Ppay & _).
    cbn [h h4_ttl h4_opts mk_h4 mk_th th_win] in Pttl, Pol, Pwin.
    set (p := sig_of k 0) in *.
    assert (Hq : sq_of s p = p_quirks p).
    { apply N.bits_inj. intro i. rewrite (sq4 s b p C E4 Pv i).
      change (N.testbit (p_quirks p) i) with (hasq i (p_quirks p)). rewrite PQ, Hoq.
      symmetry. apply (pq4 s b hops x src dst U C A G E4). }
    assert (M1 : p_layout p = s_layout s) by (rewrite Play; exact Hol).
    assert (M2 : s_ver s = -1 \/ s_ver s = p_ver p).
    { destruct (c_ver s b C) as [Ev|Ev]; [left; exact Ev | right; rewrite Ev, Pv; assumption]. }
    assert (M3 : p_eol_pad p = s_eol_pad s) by (rewrite Peol; exact Hoe).
    assert (M4 : p_olen p = s_olen s) by (rewrite Pol, (u_olen s U); reflexivity).
    assert (M5 : p_ttl p = s_ttl s - hops) by (rewrite Pttl; exact Httl).
    assert (M6 : 0 <= hops <= md) by lia.
    assert (M7 : s_mss s = -1 \/ s_mss s = p_mss p) by (rewrite Pmss; exact Hmss).
    assert (M8 : s_wscale s = -1 \/ s_wscale s = p_ws p) by (rewrite Pws; exact Hws).
    assert (M9 : s_pay s = -1 \/ s_pay s = b2z (p_payload p)) by (rewrite Ppay; exact Hps).
    assert (M10 : win_b s p = true).
    { apply (win_ok s b l p W Hf); [rewrite Pwin; exact Hwin | rewrite Pmss; exact Homss]. }
    rewrite (match_exact md s p hops M1 M2 Hq M3 M4 M5 M6 M7 M8 M9 M10).
    f_equal. f_equal. lia.
  - (* IPv6 *)
    destruct (A6 E6) as (Ls & Ld).
    destruct Hip as (Htos & _ & Hid & H6 & _). destruct (H6 E6) as (Hflr & _).
    rewrite (enc_out_v6 x Hck) by congruence.
    rewrite v6_bytes_eq.
    rewrite (tcp_bytes_eq x HF). cbn [bind]. rewrite Hver, E6.
    set (h := mk_h6 x).
    assert (W6 : wf_ip6 h (enc_tcp (mk_th x) (x_payload x))).
    { unfold wf_ip6, h, mk_h6, byte.
      cbn [h6_tc h6_fl h6_nh h6_hlim h6_src h6_dst].
      rewrite len_enc_tcp. cbn [mk_th th_opts].
      repeat split; try lia; try congruence. }
    destruct (extract6 h (mk_th x) (x_payload x) o 0 W6 eq_refl Wth Hpo') as (k & Hpk & _ & _ & _ & _ & _ & SF & PQ).
    rewrite Hpk.
    destruct SF as (Pv & Pol & Pttl & Pwin & Play & Pmss & Pws & _ & Peol & _ & Ppay & _).
    cbn [h h6_hlim mk_h6 mk_th th_win] in Pttl, Pwin.
    set (p := sig_of k 0) in *.
    assert (Hq : sq_of s p = p_quirks p).
    { apply N.bits_inj. intro i. rewrite (sq6 s b p C E6 Pv i).
      change (N.testbit (p_quirks p) i) with (hasq i (p_quirks p)). rewrite PQ, Hoq.
      symmetry. apply (pq6 s b hops x U C A G E6). }
    assert (M1 : p_layout p = s_layout s) by (rewrite Play; exact Hol).
    assert (M2 : s_ver s = -1 \/ s_ver s = p_ver p).
    { destruct (c_ver s b C) as [Ev|Ev]; [left; exact Ev | right; rewrite Ev, Pv; assumption]. }
    assert (M3 : p_eol_pad p = s_eol_pad s) by (rewrite Peol; exact Hoe).
    assert (M4 : p_olen p = s_olen s) by (rewrite Pol, (u_olen s U); reflexivity).
    assert (M5 : p_ttl p = s_ttl s - hops) by (rewrite Pttl; exact Httl).
    assert (M6 : 0 <= hops <= md) by lia.
    assert (M7 : s_mss s = -1 \/ s_mss s = p_mss p) by (rewrite Pmss; exact Hmss).
    assert (M8 : s_wscale s = -1 \/ s_wscale s = p_ws p) by (rewrite Pws; exact Hws).
    assert (M9 : s_pay s = -1 \/ s_pay s = b2z (p_payload p)) by (rewrite Ppay; exact Hps).
    assert (M10 : win_b s p = true).
    { apply (win_ok s b l p W Hf); [rewrite Pwin; exact Hwin | rewrite Pmss; exact Homss]. }
    rewrite (match_exact md s p hops M1 M2 Hq M3 M4 M5 M6 M7 M8 M9 M10).
    f_equal. f_equal. lia.
Qed.

Theorem supported_sound : forall md s b hops mtu t x t',
  wf_sig s -> supported_b s = true -> coherent_b s b = true -> admissible_base b ->
  0 <= hops < s_ttl s -> hops <= md ->
  imp_tcp s b hops mtu None t = Ok (x, t') ->
  oracle md s x = Ok (Some Exact, hops).
Proof.
  intros md s b hops mtu t x t' W U C A Hh Hmd Hrun.
  pose proof (supported_facts s U) as U'. pose proof (coherent_facts s b C) as C'.
  apply (good_oracle md s b hops x W U' C' A Hh Hmd).
  apply (hoare_run _ _ t x t' (imp_tcp_hoare s b hops mtu W U' C' A) Hrun).
Qed.

Print Assumptions supported_sound.
Print Assumptions supported_no_raise.
