(* pyp0f/fingerprint/mtu.py, pyp0f/net/signatures/mtu.py, pyp0f/impersonate/mtu.py *)
From PV Require Import Model.Prelude Model.Select.

Definition hdr_of (ver : Z) : Z := if ver =? 4 then 40 else 60.
Record mtu_rec := { m_line : Z; m_mtu : Z }.

Definition valid_mtu_fp (frag : bool) (ty mss : Z) : bool :=
  should_fp frag ty && (mss >? 0) && ((ty =? fSYN) || (ty =? fSYN + fACK)).

Definition find_mtu (recs : list mtu_rec) (mtu : Z) : option mtu_rec :=
  find (fun r => m_mtu r =? mtu) recs.

(* fingerprint_mtu after dissection: (mtu, matched record) *)
Definition fp_mtu (db : option (list mtu_rec)) (frag : bool) (ty ver mss : Z) : res (Z * option mtu_rec) :=
  if negb (valid_mtu_fp frag ty mss) then Err PacketError else
  let mtu := mss + hdr_of ver in
  match db with
  | None => Err DatabaseError
  | Some recs => Ok (mtu, find_mtu recs mtu)
  end.

(* TCP option list of the base packet: an MSS option or any other option (opaque id). *)
Inductive topt := OMss (v : Z) | OOther (id : Z).
Definition is_mss (o : topt) : bool := match o with OMss _ => true | OOther _ => false end.

Definition imp_mtu (m ver : Z) (opts : list topt) : list topt :=
  let v := OMss (m - hdr_of ver) in
  if existsb is_mss opts then map (fun o => if is_mss o then v else o) opts else v :: opts.

(* the MSS a dissector reads from an option list: the last MSS option *)
Fixpoint last_mss (opts : list topt) (acc : Z) : Z :=
  match opts with
  | [] => acc
  | OMss v :: r => last_mss r v
  | OOther _ :: r => last_mss r acc
  end.
