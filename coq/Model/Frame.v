(* Which objects the public calls allocate, read and write (C12).  A heap of objects addressed
   by index; the caller owns the objects present before a call.  The calls are composed of the
   primitives the code actually uses: parse_packet = copy_packet(assemble) + read-only dissection;
   read_payload = copy_buffer + extract_lines ON THE COPY; impersonate_tcp builds new layers from
   fields it reads; impersonate_mtu assigns tcp.options of ITS ARGUMENT.  Labelled partial: that
   bytes(packet) and Scapy's "/" do not touch their operands is runtime behaviour (see the tie). *)
From PV Require Import Model.Prelude.

Inductive obj :=
| Pkt (bytes : list Z) (opts : list Z)          (* a Scapy packet: wire bytes and its TCP option list *)
| Buf (data : list Z) (consumed : nat).         (* bytes / bytearray / ReceiveBuffer with a consumed prefix *)
Definition heap := list obj.

Fixpoint update (h : heap) (i : nat) (o : obj) : heap :=
  match h, i with
  | [], _ => []
  | _ :: r, O => o :: r
  | x :: r, S i' => x :: update r i' o
  end.

(* primitives *)
Definition copy (h : heap) (i : nat) : heap * nat :=
  match nth_error h i with Some o => (h ++ [o], length h) | None => (h, i) end.
Definition consume (h : heap) (j n : nat) : heap :=
  match nth_error h j with Some (Buf d c) => update h j (Buf d (c + n)) | _ => h end.
Definition set_opts (h : heap) (j : nat) (o : list Z) : heap :=
  match nth_error h j with Some (Pkt b _) => update h j (Pkt b o) | _ => h end.
Definition alloc (h : heap) (o : obj) : heap * nat := (h ++ [o], length h).

Inductive call :=
| CFingerprintPacket (i : nat)                 (* fingerprint_tcp / mtu / uptime on packet i *)
| CFingerprintHttp (b : nat) (head : nat)      (* fingerprint_http on buffer b; head = bytes up to the blank line *)
| CImpersonateTcp (i : nat) (newbytes newopts : list Z)
| CImpersonateMtu (i : nat) (newopts : list Z).

Definition exec_call (h : heap) (c : call) : heap :=
  match c with
  | CFingerprintPacket i => fst (copy h i)                               (* works on the assembled copy *)
  | CFingerprintHttp b head => let '(h1, j) := copy h b in consume h1 j head   (* extract_lines consumes the COPY *)
  | CImpersonateTcp i nb no => fst (alloc h (Pkt nb no))                 (* a new packet is returned *)
  | CImpersonateMtu i no => set_opts h i no                              (* documented: modifies its argument *)
  end.
Definition run_calls (h : heap) (cs : list call) : heap := fold_left exec_call cs h.

Definition mtu_target (c : call) (k : nat) : bool := match c with CImpersonateMtu i _ => Nat.eqb i k | _ => false end.
