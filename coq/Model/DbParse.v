(* pyp0f/database/parse/parser.py: _parse_file (the line loop with ParserState) and
   records_database.py: create / add.  Input: the lines of the file without terminators. *)
From Coq Require Import String.
From PV Require Import Model.Prelude Model.Bits Model.Sig Model.Text Model.SigParse.
Local Open Scope string_scope.
Local Open Scope Z_scope.
Local Open Scope list_scope.

Inductive kind := KMtu | KTcp | KHttp.
Inductive dir := Req | Resp.
Inductive sigv := SMtu (m : Z) | STcp (s : tcp_sig) | SHttp (h : http_sig).
Record rec := { rc_line : Z; rc_label : label; rc_raw : text; rc_sig : sigv }.
Record db := { d_mtu : option (list rec); d_tcp_req : option (list rec); d_tcp_resp : option (list rec);
               d_http_req : option (list rec); d_http_resp : option (list rec) }.
Definition empty_db := {| d_mtu := None; d_tcp_req := None; d_tcp_resp := None; d_http_req := None; d_http_resp := None |}.

Inductive pstate := NeedSection | NeedLabel | NeedSys | NeedSig.
Record st := { p_db : db; p_state : pstate; p_label : option label; p_sec : option (kind * option dir) }.
Definition st0 := {| p_db := empty_db; p_state := NeedSection; p_label := None; p_sec := None |}.

Definition parse_section (line : text) : res (kind * option dir) :=
  let p := split_parts (slice_1_m1 line) 2 58 in
  do k <- from_options (part p 0) [(str "mtu", KMtu); (str "tcp", KTcp); (str "http", KHttp)];
  let d := part p 1 in
  let has_dir := match d with [] => false | _ => true end in
  if Bool.eqb (match k with KMtu => true | _ => false end) has_dir then Err FieldError else
  if has_dir then do dd <- from_options d [(str "request", Req); (str "response", Resp)]; Ok (k, Some dd)
  else Ok (k, None).

Definition ensure (l : option (list rec)) : option (list rec) := match l with None => Some [] | s => s end.
Definition push (l : option (list rec)) (r : rec) : option (list rec) :=
  match l with None => None | Some x => Some (x ++ [r]) end.
Definition on_section (f : option (list rec) -> option (list rec)) (sec : kind * option dir) (d : db) : db :=
  match sec with
  | (KMtu, _) => {| d_mtu := f (d_mtu d); d_tcp_req := d_tcp_req d; d_tcp_resp := d_tcp_resp d; d_http_req := d_http_req d; d_http_resp := d_http_resp d |}
  | (KTcp, Some Req) => {| d_mtu := d_mtu d; d_tcp_req := f (d_tcp_req d); d_tcp_resp := d_tcp_resp d; d_http_req := d_http_req d; d_http_resp := d_http_resp d |}
  | (KTcp, _) => {| d_mtu := d_mtu d; d_tcp_req := d_tcp_req d; d_tcp_resp := f (d_tcp_resp d); d_http_req := d_http_req d; d_http_resp := d_http_resp d |}
  | (KHttp, Some Req) => {| d_mtu := d_mtu d; d_tcp_req := d_tcp_req d; d_tcp_resp := d_tcp_resp d; d_http_req := f (d_http_req d); d_http_resp := d_http_resp d |}
  | (KHttp, _) => {| d_mtu := d_mtu d; d_tcp_req := d_tcp_req d; d_tcp_resp := d_tcp_resp d; d_http_req := d_http_req d; d_http_resp := f (d_http_resp d) |}
  end.

Definition parse_sig (k : kind) (v : text) : res sigv :=
  match k with
  | KMtu => do m <- parse_mtu_sig v; Ok (SMtu m)
  | KTcp => do s <- parse_tcp_sig v; Ok (STcp s)
  | KHttp => do h <- parse_http_sig v; Ok (SHttp h)
  end.
Definition parse_label (k : kind) (v : text) : res label :=
  match k with KMtu => Ok (LMtu v) | _ => parse_os_label v end.

Definition skipped_params : list text := [str "classes"; str "ua_os"].

(* FieldError inside a line becomes ParsingError(line); anything else passes through *)
Definition wrap {A} (n : Z) (r : res A) : res A :=
  match r with Err FieldError => Err (ParsingError n) | x => x end.

(* one line; None = line skipped *)
Definition step (s : st) (n : Z) (raw : text) : res st :=
  match raw with
  | [] => Ok s                                            (* "\n" *)
  | c0 :: _ =>
    if c0 =? 59 then Ok s else                            (* ';' in column 0 *)
    let line := strip raw in
    match line with
    | [] => Ok s                                          (* whitespace only *)
    | c :: _ =>
      if c =? 91 then                                     (* '[' *)
        do sec <- wrap n (parse_section line);
        Ok {| p_db := on_section ensure sec (p_db s); p_state := NeedLabel; p_label := p_label s; p_sec := Some sec |}
      else
        let '(pa, _, va) := partition_on 61 line in
        let param := strip pa in let value := strip va in
        if text_eqb param (str "sig") then
          match p_state s, p_sec s with
          | NeedSig, Some sec =>
              match p_label s with
              | None => Err (Crash COther)                (* unreachable: NeedSig implies a label *)
              | Some lab =>
                do sg <- wrap n (parse_sig (fst sec) value);
                let r := {| rc_line := n; rc_label := lab; rc_raw := value; rc_sig := sg |} in
                Ok {| p_db := on_section (fun l => push l r) sec (p_db s); p_state := NeedSig; p_label := p_label s; p_sec := p_sec s |}
              end
          | _, _ => Err (ParsingError n)
          end
        else if text_eqb param (str "label") then
          match p_state s, p_sec s with
          | NeedLabel, Some sec | NeedSig, Some sec =>
              do lab <- wrap n (parse_label (fst sec) value);
              Ok {| p_db := p_db s; p_state := if is_user_app lab then NeedSys else NeedSig; p_label := Some lab; p_sec := p_sec s |}
          | _, _ => Err (ParsingError n)
          end
        else if text_eqb param (str "sys") then
          match p_state s, p_label s with
          | NeedSys, Some (LOs g c nm f _) =>
              Ok {| p_db := p_db s; p_state := NeedSig; p_label := Some (LOs g c nm f (split_on 44 value)); p_sec := p_sec s |}
          | _, _ => Err (ParsingError n)
          end
        else if existsb (text_eqb param) skipped_params then Ok s
        else Err (ParsingError n)
    end
  end.

Fixpoint run (s : st) (n : Z) (lines : list text) : res st :=
  match lines with
  | [] => Ok s
  | l :: r => do s' <- step s n l; run s' (n + 1) r
  end.
Definition parse_file (lines : list text) : res db := do s <- run st0 1 lines; Ok (p_db s).

Definition db_len (d : db) : Z :=
  let n l := match l with None => 0 | Some x => Z.of_nat (length x) end in
  n (d_mtu d) + n (d_tcp_req d) + n (d_tcp_resp d) + n (d_http_req d) + n (d_http_resp d).

(* ---- the text-mode reading glue: `open(path, "r")` iterates lines with universal newlines:
   "\r\n" and a lone "\r" are read as "\n"; a line ends after each "\n"; a final unterminated piece
   is a line only when it is non-empty.  Lines are handed to [step] without their terminator. ---- *)
Fixpoint univ_nl (t : text) : text :=
  match t with
  | [] => []
  | c :: r =>
    if c =? 13 then
      10 :: match r with
            | d :: r' => if d =? 10 then univ_nl r' else univ_nl r
            | [] => []
            end
    else c :: univ_nl r
  end.
Fixpoint split_nl (cur : text) (t : text) : list text :=
  match t with
  | [] => match cur with [] => [] | _ => [rev cur] end
  | c :: r => if c =? 10 then rev cur :: split_nl [] r else split_nl (c :: cur) r
  end.
Definition file_lines (t : text) : list text := split_nl [] (univ_nl t).
Definition parse_text (t : text) : res db := parse_file (file_lines t).
