(* pyp0f/net/layers/http/read.py: read_payload (with h11's maybe_extract_lines), read_first_line,
   read_headers.  Payloads are byte lists. *)
From Coq Require Import String.
From PV Require Import Model.Prelude Model.Text.
Local Open Scope string_scope.
Local Open Scope Z_scope.
Local Open Scope list_scope.

Definition is_blank_line (p : text) : bool := match p with [] => true | [13] => true | _ => false end.
Definition strip_cr (p : text) : text :=
  match rev p with 13 :: r => rev r | _ => p end.

(* pieces = data.split(b"\n"); every piece but the last is LF-terminated.
   Returns the lines before the first LF-terminated blank piece at index >= 1. *)
Fixpoint take_until_blank (pieces : list text) : option (list text) :=
  match pieces with
  | [] => None
  | [_] => None                                   (* the last piece is not LF-terminated *)
  | p :: rest => if is_blank_line p then Some [] else
                 match take_until_blank rest with Some l => Some (strip_cr p :: l) | None => None end
  end.
(* h11 ReceiveBuffer.maybe_extract_lines *)
Definition extract_lines (data : text) : option (list text) :=
  match split_on 10 data with
  | p0 :: (_ :: _) as rest =>
      if is_blank_line p0 then Some []                      (* immediate empty line *)
      else match take_until_blank rest with Some l => Some (strip_cr p0 :: l) | None => None end
  | _ => None
  end.

(* bytes.split(None, maxsplit=2) *)
Fixpoint take_word (t : text) : text * text :=
  match t with
  | [] => ([], [])
  | c :: r => if is_space_bytes c then ([], t) else let '(w, rest) := take_word r in (c :: w, rest)
  end.
Definition split_ws2 (t : text) : list text :=
  let t0 := lstrip_by is_space_bytes t in
  match t0 with [] => [] | _ =>
    let '(w1, r1) := take_word t0 in
    let t1 := lstrip_by is_space_bytes r1 in
    match t1 with [] => [w1] | _ =>
      let '(w2, r2) := take_word t1 in
      let t2 := lstrip_by is_space_bytes r2 in
      match t2 with [] => [w1; w2] | _ => [w1; w2; t2] end
    end
  end.

(* ^HTTP/1\.(\d)$ on a string without '\n' *)
Definition minor_version (v : text) : res Z :=
  match v with
  | [72; 84; 84; 80; 47; 49; 46; d] => if is_digit d then Ok (d - 48) else Err PacketError
  | _ => Err PacketError
  end.

Inductive direction := Request | Response.
Definition read_first_line (line : text) : res (direction * Z) :=
  match split_ws2 line with
  | [] => Err PacketError                                   (* parts[0]: IndexError -> PacketError *)
  | p0 :: rest =>
      if text_eqb p0 (str "GET") || text_eqb p0 (str "HEAD") then
        match rest with
        | [_; v] => do m <- minor_version v; Ok (Request, m)
        | _ => Err PacketError                              (* parts[2]: IndexError -> PacketError *)
        end
      else do m <- minor_version p0; Ok (Response, m)
  end.

Record pkt_header := { ph_name : text; ph_value : text }.
Fixpoint read_headers (lines : list text) (acc : list pkt_header) : res (list pkt_header) :=
  match lines with
  | [] => Ok (rev acc)
  | line :: rest =>
    match line with
    | [] => Err (Crash CIndex)                              (* line[0] on an empty line: cannot happen after extract_lines *)
    | c :: _ =>
      if (c =? 32) || (c =? 9) then
        match acc with
        | [] => Err PacketError
        | h :: acc' => read_headers rest ({| ph_name := ph_name h; ph_value := ph_value h ++ [13; 10; 32] ++ bstrip line |} :: acc')
        end
      else
        let '(name, found, value) := partition_on 58 line in
        if negb found then Err PacketError
        else match name with
             | [] => Err PacketError
             | _ => read_headers rest ({| ph_name := name; ph_value := bstrip value |} :: acc)
             end
    end
  end.

Definition read_payload (data : text) : res (direction * Z * list pkt_header) :=
  match extract_lines data with
  | None => Err PacketError
  | Some [] => Err PacketError
  | Some (first :: rest) =>
      do dv <- read_first_line first;
      do hs <- read_headers rest [];
      Ok (fst dv, snd dv, hs)
  end.
