(* pyp0f/database/parse/utils.py, database/signatures/{tcp,mtu,http}.py, database/labels/*.py *)
From Coq Require Import String.
From PV Require Import Model.Prelude Model.Bits Model.Sig Model.Text.
Local Open Scope string_scope.
Local Open Scope Z_scope.
Local Open Scope list_scope.

Definition num_in_range (t : text) (lo hi : Z) (wild : bool) : res Z :=
  if wild && text_eqb t (str "*") then Ok (-1) else
  match py_int t with
  | Some v => if (lo <=? v) && (v <=? hi) then Ok v else Err FieldError
  | None => Err FieldError
  end.

Fixpoint from_options {A} (t : text) (opts : list (text * A)) : res A :=
  match opts with
  | [] => Err FieldError
  | (k, v) :: r => if text_eqb t k then Ok v else from_options t r
  end.

(* split_parts(data, parts, sep): first [parts] pieces of split(sep, maxsplit=parts), padded with "" *)
Definition split_parts (t : text) (parts : nat) (sep : Z) : list text :=
  let l := firstn parts (split_max sep parts t) in
  l ++ repeat [] (parts - length l).
Definition part (l : list text) (i : nat) : text := nth i l [].

(* ---------------- TCP signature ---------------- *)
Definition parse_ip_version (t : text) : res Z :=
  if text_eqb t (str "*") then Ok (-1) else from_options t [(str "4", 4); (str "6", 6)].
Definition parse_payload_class (t : text) : res Z :=
  if text_eqb t (str "*") then Ok (-1) else from_options t [(str "0", 0); (str "+", 1)].

Definition parse_ttl (f : text) : res (Z * bool) :=
  if ends_with (str "-") f then
    do v <- num_in_range (removelast f) 1 255 false; Ok (v, true)
  else if mem 43 f then
    let '(a, _, b) := partition_on 43 f in
    do dist <- num_in_range b 0 255 false;
    do v <- num_in_range a 1 255 false;
    if v + dist >? 255 then Err FieldError else Ok (v + dist, false)
  else do v <- num_in_range f 1 255 false; Ok (v, false).

Definition parse_window (f : text) : res (wtype * Z * Z) :=
  let '(rw, _, rs) := partition_on 44 f in
  do ts <- (if text_eqb rw (str "*") then Ok (WAny, -1)
            else if starts_with (str "mss*") rw || starts_with (str "mtu*") rw then
              do c <- index rw 1;
              do n <- num_in_range (skipn 4 rw) 1 1000 false;
              Ok (if c =? 115 then WMss else WMtu, n)
            else if starts_with (str "%") rw then
              do n <- num_in_range (tl rw) 2 65535 false; Ok (WMod, n)
            else do n <- num_in_range rw 0 65535 false; Ok (WNormal, n));
  do sc <- num_in_range rs 0 255 true;
  Ok (fst ts, snd ts, sc).

Definition option_names : list (text * Z) :=
  [(str "eol+{padding_length}", 0); (str "nop", 1); (str "mss", 2); (str "ws", 3); (str "sok", 4); (str "sack", 5); (str "ts", 8)].

Fixpoint parse_option_list (l : list text) (eol : Z) : res (list Z * Z) :=
  match l with
  | [] => Ok ([], eol)
  | o :: r =>
      do ke <- (if starts_with (str "?") o then do n <- num_in_range (tl o) 0 255 false; Ok (n, eol)
                else if starts_with (str "eol+") o then do n <- num_in_range (skipn 4 o) 0 255 false; Ok (0, n)
                else do k <- from_options o option_names; Ok (k, eol));
      do rest <- parse_option_list r (snd ke);
      Ok (fst ke :: fst rest, snd rest)
  end.
Definition parse_layout (f : text) : res (list Z * Z) :=
  match f with [] => Ok ([], 0) | _ => parse_option_list (split_on 44 f) 0 end.

Definition quirk_names : list (text * N) :=
  [(str "ecn", qECN); (str "df", qDF); (str "id+", qNZID); (str "id-", qZID); (str "0+", qMBZ); (str "flow", qFLOW);
   (str "seq-", qZSEQ); (str "ack+", qNZACK); (str "ack-", qZACK); (str "uptr+", qNZURG); (str "urgf+", qURG);
   (str "pushf+", qPUSH); (str "ts1-", qZTS1); (str "ts2+", qNZTS2); (str "opt+", qEOLNZ); (str "exws", qEXWS);
   (str "bad", qBAD)].
Definition invalid_for (ver : Z) : N :=
  if ver =? 4 then mask_of v6_only else if ver =? 6 then mask_of v4_only else 0%N.
Fixpoint parse_quirk_list (l : list text) (ver : Z) (acc : N) : res N :=
  match l with
  | [] => Ok acc
  | q :: r => do k <- from_options q quirk_names;
              if hasq k (invalid_for ver) then Err FieldError else parse_quirk_list r ver (setq k acc)
  end.
Definition parse_quirks (f : text) (ver : Z) : res N :=
  match f with [] => Ok 0%N | _ => parse_quirk_list (split_on 44 f) ver 0%N end.

Definition parse_tcp_sig (t : text) : res tcp_sig :=
  let p := split_parts t 8 58 in
  do ver <- parse_ip_version (part p 0);
  do tv <- parse_ttl (part p 1);
  do mss <- num_in_range (part p 3) 0 65535 true;
  do lay <- parse_layout (part p 5);
  do olen <- num_in_range (part p 2) 0 255 false;
  do w <- parse_window (part p 4);
  do pay <- parse_payload_class (part p 7);
  do q <- parse_quirks (part p 6) ver;
  let '(wt, wsize, wscale) := w in
  Ok {| s_ver := ver; s_olen := olen; s_ttl := fst tv; s_bad_ttl := snd tv; s_wtype := wt; s_wsize := wsize;
        s_wscale := wscale; s_layout := fst lay; s_mss := mss; s_eol_pad := snd lay; s_pay := pay; s_quirks := q |}.

(* ---------------- MTU signature ---------------- *)
Definition parse_mtu_sig (t : text) : res Z := num_in_range t 1 65535 false.

(* ---------------- HTTP signature ----------------
   The signature TEXT is a str (code points); the header list, the absent list and the software are .encode()d first, so the
   fields of an http_sig are BYTE strings (they are compared with the bytes of a request / response). *)
Record sig_header := { sh_name : text; sh_optional : bool; sh_value : option text }.
Record http_sig := { hs_version : Z; hs_headers : list sig_header; hs_absent : list text; hs_software : option text }.

(* first of '[' / ']' in r is ']' *)
Fixpoint close_first (r : text) : bool :=
  match r with
  | [] => false
  | c :: r' => if c =? 93 then true else if c =? 91 then false else close_first r'
  end.
(* re.split(rb",(?![^\[]*\])", t) *)
Fixpoint hsplit (t : text) : list text :=
  match t with
  | [] => [[]]
  | c :: r => if (c =? 44) && negb (close_first r) then [] :: hsplit r
              else match hsplit r with
                   | [] => [[c]]
                   | h :: tl => (c :: h) :: tl
                   end
  end.
Definition parse_header (h : text) : sig_header :=
  let '(name, _, value) := partition_on 61 h in
  let opt := starts_with (str "?") name in
  {| sh_name := if opt then tl name else name; sh_optional := opt;
     sh_value := match value with [] => None | _ => Some (slice_1_m1 value) end |}.
Definition parse_headers (f : text) : list sig_header :=
  map parse_header (filter (fun h => match h with [] => false | _ => true end) (hsplit f)).
Definition parse_http_version (t : text) : res Z :=
  if text_eqb t (str "*") then Ok (-1) else from_options t [(str "0", 0); (str "1", 1)].
Definition parse_http_sig (t : text) : res http_sig :=
  let p := split_parts t 4 58 in
  let absent := match part p 2 with [] => [] | a => map lower (split_on 44 (utf8 a)) end in
  do v <- parse_http_version (part p 0);
  Ok {| hs_version := v; hs_headers := parse_headers (utf8 (part p 1)); hs_absent := absent;
        hs_software := match part p 3 with [] => None | s => Some (utf8 s) end |}.

(* ---------------- labels ---------------- *)
Inductive label :=
| LMtu (name : text)
| LOs (generic : bool) (cls name flavor : text) (sys : list text).
Definition parse_os_label (t : text) : res label :=
  let p := split_parts t 4 58 in
  do g <- from_options (part p 0) [(str "s", false); (str "g", true)];
  Ok (LOs g (part p 1) (part p 2) (part p 3) []).
Definition dump_label (l : label) : text :=
  match l with
  | LMtu n => n
  | LOs g c n f _ => join (str ":") [if g then str "g" else str "s"; c; n; f]
  end.
Definition is_user_app (l : label) : bool :=
  match l with LOs _ c _ _ _ => text_eqb c (str "!") | LMtu _ => false end.
Definition is_generic (l : label) : bool :=
  match l with LOs g _ _ _ _ => g | LMtu _ => false end.
Definition set_sys (l : label) (s : list text) : label :=
  match l with LOs g c n f _ => LOs g c n f s | LMtu n => LMtu n end.
