(* pyp0f/fingerprint/uptime.py: fingerprint_uptime; results/uptime.py: Uptime, round_frequency.
   32-bit timestamp arithmetic is written out as mod 2^32.  Thresholds are rationals (n, d);
   the raw frequency is the exact rational num/ms (see DESIGN.md C13 for the float argument). *)
From PV Require Import Model.Prelude Model.Select.

Record uopts := { min_wait : Z; max_wait : Z; grace : Z; min_sc : Z * Z; max_sc : Z * Z }.
Definition two32 : Z := 4294967296.

Definition round_freq (f : Z) : Z :=
  if f =? 0 then 1
  else if (1 <=? f) && (f <=? 10) then f
  else if (11 <=? f) && (f <=? 50) then (f + 3) / 5 * 5
  else if (51 <=? f) && (f <=? 100) then (f + 7) / 10 * 10
  else if (101 <=? f) && (f <=? 500) then (f + 33) / 50 * 50
  else (f + 67) / 100 * 100.

Definition valid_uptime (frag : bool) (ty : Z) : bool :=
  should_fp frag ty && ((ty =? fSYN) || (ty =? fSYN + fACK) || (ty =? fACK)).

(* a/b <= c/d for positive denominators *)
Definition le_q (x y : Z * Z) : bool := fst x * snd y <=? fst y * snd x.

Inductive verdict := NoVerdict | BadTps | Up (tps num den mins days : Z).

Definition ticks_of (ts last : Z) : Z := (ts - last) mod two32.
Definition raw_num (ticks : Z) : Z :=
  let inv := two32 - 1 - ticks in
  if ticks >? inv then - (inv * 1000) else ticks * 1000.
Definition grace_case (o : uopts) (ms ticks : Z) : bool :=
  (ms <? grace o) && ((two32 - 1 - ticks) / 1000 * snd (max_sc o) * grace o <? fst (max_sc o)).

Definition uptime (o : uopts) (frag : bool) (ty ts last ms : Z) : res verdict :=
  if negb (valid_uptime frag ty) then Err PacketError else
  if (ts =? 0) || (last =? 0) then Ok NoVerdict else
  let ticks := ticks_of ts last in
  if negb ((min_wait o <=? ms) && (ms <=? max_wait o)) || (ticks <? 5) || grace_case o ms ticks
  then Ok NoVerdict else
  let num := raw_num ticks in
  if negb (le_q (min_sc o) (num, ms) && le_q (num, ms) (max_sc o))
  then Ok (if ty =? fSYN then NoVerdict else BadTps)
  else let f := round_freq (Z.quot num ms) in
       Ok (Up f num ms (ts / f / 60) (4294967295 / (f * 86400))).
