(* pyp0f/net/layers/tcp/options.py: TCPOptions.parse -- the TLV walker, same break/continue
   structure, on the remaining suffix of the option area.  Fuel = one unit per loop iteration. *)
From PV Require Import Model.Prelude Model.Bits.

Record topts := { o_layout : list Z; o_quirks : N; o_mss : Z; o_ts1 : Z; o_ws : Z; o_eol : Z }.

Definition be16 (a b : Z) : Z := a * 256 + b.
Definition be32 (a b c d : Z) : Z := ((a * 256 + b) * 256 + c) * 256 + d.

Definition all_zero (l : list Z) : bool := forallb (fun b => b =? 0) l.
Definition len (l : list Z) : Z := Z.of_nat (length l).

(* size of the value of a fixed-format option: OPTION_FORMATS *)
Definition fmt_size (kind : Z) : option Z :=
  if kind =? 3 then Some 1 else if kind =? 8 then Some 8 else if kind =? 2 then Some 2
  else if kind =? 4 then Some 0 else None.

(* accumulator: layout is kept reversed *)
Record wst := { w_rlayout : list Z; w_q : N; w_mss : Z; w_ts1 : Z; w_ws : Z; w_eol : Z }.
Definition w0 := {| w_rlayout := []; w_q := 0%N; w_mss := 0; w_ts1 := 0; w_ws := 0; w_eol := 0 |}.
Definition w_push k s := {| w_rlayout := k :: w_rlayout s; w_q := w_q s; w_mss := w_mss s; w_ts1 := w_ts1 s; w_ws := w_ws s; w_eol := w_eol s |}.
Definition w_quirk k s := {| w_rlayout := w_rlayout s; w_q := setq k (w_q s); w_mss := w_mss s; w_ts1 := w_ts1 s; w_ws := w_ws s; w_eol := w_eol s |}.
Definition w_set_eol n s := {| w_rlayout := w_rlayout s; w_q := w_q s; w_mss := w_mss s; w_ts1 := w_ts1 s; w_ws := w_ws s; w_eol := n |}.
Definition w_set_mss n s := {| w_rlayout := w_rlayout s; w_q := w_q s; w_mss := n; w_ts1 := w_ts1 s; w_ws := w_ws s; w_eol := w_eol s |}.
Definition w_set_ws n s := {| w_rlayout := w_rlayout s; w_q := w_q s; w_mss := w_mss s; w_ts1 := w_ts1 s; w_ws := n; w_eol := w_eol s |}.
Definition w_set_ts n s := {| w_rlayout := w_rlayout s; w_q := w_q s; w_mss := w_mss s; w_ts1 := n; w_ws := w_ws s; w_eol := w_eol s |}.
Definition finish (s : wst) : topts :=
  {| o_layout := rev (w_rlayout s); o_quirks := w_q s; o_mss := w_mss s; o_ts1 := w_ts1 s; o_ws := w_ws s; o_eol := w_eol s |}.

(* effect of a well-sized fixed-format option whose value bytes are v *)
Definition apply_value (kind : Z) (v : list Z) (is_syn : bool) (s : wst) : wst :=
  match kind, v with
  | 2, [a; b] => w_set_mss (be16 a b) s
  | 3, [a] => let s' := w_set_ws a s in if a >? 14 then w_quirk qEXWS s' else s'
  | 8, [a; b; c; d; e; f; g; h] =>
      let t1 := be32 a b c d in let t2 := be32 e f g h in
      let s1 := w_set_ts t1 s in
      let s2 := if t1 =? 0 then w_quirk qZTS1 s1 else s1 in
      if negb (t2 =? 0) && is_syn then w_quirk qNZTS2 s2 else s2
  | _, _ => s
  end.

Fixpoint walk (fuel : nat) (buf : list Z) (is_syn : bool) (s : wst) : option wst :=
  match fuel with
  | O => match buf with [] => Some s | _ => None end       (* None = out of fuel *)
  | S fuel' =>
    match buf with
    | [] => Some s
    | kind :: rest =>
      let s := w_push kind s in
      if kind =? 0 then                                     (* EOL *)
        let s := w_set_eol (len rest) s in
        Some (if all_zero rest then s else w_quirk qEOLNZ s)
      else if kind =? 1 then walk fuel' rest is_syn s       (* NOP *)
      else match rest with
      | [] => Some (w_quirk qBAD s)                         (* no room for the length byte *)
      | olen :: body =>
        if olen - 2 >? len body then Some (w_quirk qBAD s)  (* would end past the option area *)
        else if olen <? 2 then Some (w_quirk qBAD s)        (* shorter than its own header *)
        else
          let next := skipn (Z.to_nat (olen - 2)) body in
          if kind =? 5 then
            if (10 <=? olen) && (olen <=? 34) then walk fuel' next is_syn s else Some (w_quirk qBAD s)
          else match fmt_size kind with
          | Some sz =>
              if olen =? 2 + sz
              then walk fuel' next is_syn (apply_value kind (firstn (Z.to_nat sz) body) is_syn s)
              else walk fuel' next is_syn (w_quirk qBAD s)
          | None =>
              if (2 <=? olen) && (olen <=? 40) then walk fuel' next is_syn s else Some (w_quirk qBAD s)
          end
      end
    end
  end.

Definition parse_options (buf : list Z) (is_syn : bool) : res topts :=
  match walk (length buf) buf is_syn w0 with
  | Some s => Ok (finish s)
  | None => Err OutOfFuel
  end.
