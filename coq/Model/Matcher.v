(* pyp0f/net/signatures/tcp.py: calculate_window_multiplier
   pyp0f/fingerprint/tcp.py:    tcp_signatures_match            (same order of tests) *)
From PV Require Import Model.Prelude Model.Bits Model.Sig.

Definition divisors (p : pkt_sig) : list (Z * bool) :=
  [(p_mss p, false)]
  ++ (if p_ts1 p =? 0 then [] else [(p_mss p - 12, false)])
  ++ [(1460, false); (1448, false)]
  ++ (if p_ver p =? 6 then [(1440, false); (1428, false)] else [])
  ++ [(p_mss p + 40, true); (p_mss p + p_hdrlen p, true)]
  ++ (if p_ver p =? 6 then [(p_mss p + 60, true)] else [])
  ++ [(1500, true)]
  ++ (if p_syn_mss p =? 0 then [] else [(p_syn_mss p, false); (p_syn_mss p - 12, false)]).

Definition divides_win (p : pkt_sig) (d : Z * bool) : bool :=
  negb (fst d =? 0) && (p_win p mod fst d =? 0).

(* (-1, false) is WindowMultiplier(WILDCARD, is_mtu=False) *)
Definition win_multi (p : pkt_sig) : Z * bool :=
  if (p_win p =? 0) || (p_mss p <? 100) then (-1, false)
  else match find (divides_win p) (divisors p) with
       | Some (d, m) => (p_win p / d, m)
       | None => (-1, false)
       end.

Definition sq_of (s : tcp_sig) (p : pkt_sig) : N :=
  if s_ver s =? -1
  then (if p_ver p =? 4 then N.ldiff (s_quirks s) (mask_of v6_only)
        else N.ldiff (s_quirks s) (mask_of v4_only))
  else s_quirks s.

Definition tcp_match (md : Z) (s : tcp_sig) (p : pkt_sig) : option mtype :=
  if negb (list_eqb (s_layout s) (p_layout p)) then None else
  if negb (s_ver s =? -1) && negb (s_ver s =? p_ver p) then None else
  let sq := sq_of s p in
  let pq := p_quirks p in
  let x := N.lxor sq pq in
  let deleted := N.land x sq in
  let added := N.land x pq in
  let qdiff := negb (N.eqb sq pq) in
  if qdiff && (negb (N.eqb (N.ldiff deleted (mask_of [qDF; qNZID])) 0)
               || negb (N.eqb (N.ldiff added (mask_of [qZID; qECN])) 0)) then None else
  let t0 := if qdiff then FuzzyQuirks else Exact in
  if negb (s_eol_pad s =? p_eol_pad p) || negb (s_olen s =? p_olen p) then None else
  let ttl_res : option mtype :=
    if s_bad_ttl s then (if s_ttl s <? p_ttl p then None else Some t0)
    else if (s_ttl s <? p_ttl p) || (s_ttl s - p_ttl p >? md) then Some FuzzyTTL else Some t0 in
  match ttl_res with
  | None => None
  | Some t =>
    if (negb (s_mss s =? -1) && negb (s_mss s =? p_mss p))
       || (negb (s_wscale s =? -1) && negb (s_wscale s =? p_ws p))
       || (negb (s_pay s =? -1) && negb (s_pay s =? b2z (p_payload p))) then None else
    let wm := win_multi p in
    let bad_win :=
      match s_wtype s with
      | WNormal => negb (s_wsize s =? p_win p)
      | WMod => negb (p_win p mod s_wsize s =? 0)
      | WMss => snd wm || negb (s_wsize s =? fst wm)
      | WMtu => negb (snd wm) || negb (s_wsize s =? fst wm)
      | WAny => false
      end in
    if bad_win then None else Some t
  end.
