(* Dissection of IPv4/IPv6 + TCP headers from raw bytes, and the packet signature pyp0f
   extracts (pyp0f/net/layers/ip.py, tcp/tcp.py, net/packet.py, net/signatures/tcp.py).
   Scapy is NOT modelled: a byte string that is not a well-framed TCP segment (as built by
   harness/wire.py) is [Unframed].  Fields are decoded with / and mod. *)
From PV Require Import Model.Prelude Model.Bits Model.Sig Model.Select Model.Options.

Record ip_info := { i_ver : Z; i_ttl : Z; i_olen : Z; i_hlen : Z; i_frag : bool; i_fragoff : Z;
                    i_proto : Z; i_q : N; i_src : list Z; i_dst : list Z; i_id : Z; i_tos : Z; i_payload : list Z }.

Definition ip4 (b : list Z) : option ip_info :=
  match b with
  | b0 :: tos :: l1 :: l2 :: id1 :: id2 :: f1 :: f2 :: ttl :: proto :: c1 :: c2 ::
    s1 :: s2 :: s3 :: s4 :: d1 :: d2 :: d3 :: d4 :: rest =>
      let ihl := b0 mod 16 in
      let total := be16 l1 l2 in
      if negb (b0 / 16 =? 4) || (ihl <? 5) || negb (total =? len b) || (ihl * 4 - 20 >? len rest) then None else
      let olen := ihl * 4 - 20 in
      let id := be16 id1 id2 in
      let evil := (f1 / 128) mod 2 =? 1 in
      let df := (f1 / 64) mod 2 =? 1 in
      let mf := (f1 / 32) mod 2 =? 1 in
      let off := be16 (f1 mod 32) f2 in
      let q := setq_if (negb (tos mod 4 =? 0)) qECN 0%N in
      let q := setq_if evil qMBZ q in
      let q := setq_if df qDF q in
      let q := setq_if (df && negb (id =? 0)) qNZID q in
      let q := setq_if (negb df && (id =? 0)) qZID q in
      Some {| i_ver := 4; i_ttl := ttl; i_olen := olen; i_hlen := ihl * 4; i_frag := mf || negb (off =? 0);
              i_fragoff := off; i_proto := proto; i_q := q; i_src := [s1; s2; s3; s4]; i_dst := [d1; d2; d3; d4];
              i_id := id; i_tos := tos; i_payload := skipn (Z.to_nat olen) rest |}
  | _ => None
  end.

Definition ip6 (b : list Z) : option ip_info :=
  match b with
  | b0 :: b1 :: b2 :: b3 :: l1 :: l2 :: nh :: hlim :: rest =>
      if negb (b0 / 16 =? 6) || (len rest <? 32) || negb (be16 l1 l2 =? len rest - 32) then None else
      let tc := (b0 mod 16) * 16 + b1 / 16 in
      let fl := ((b1 mod 16) * 256 + b2) * 256 + b3 in
      let q := setq_if (negb (fl =? 0)) qFLOW 0%N in
      let q := setq_if (negb (tc mod 4 =? 0)) qECN q in
      Some {| i_ver := 6; i_ttl := hlim; i_olen := 0; i_hlen := 40; i_frag := false; i_fragoff := 0;
              i_proto := nh; i_q := q; i_src := firstn 16 rest; i_dst := firstn 16 (skipn 16 rest);
              i_id := 0; i_tos := tc; i_payload := skipn 32 rest |}
  | _ => None
  end.

Record tcp_info := { t_flags : Z; t_type : Z; t_sport : Z; t_dport : Z; t_win : Z; t_seq : Z; t_ack : Z; t_urg : Z;
                     t_hlen : Z; t_opts : topts; t_q : N; t_payload : list Z }.

Definition bit (x : Z) (k : Z) : bool := (x / 2 ^ k) mod 2 =? 1.

Definition tcp_seg (b : list Z) : option (res tcp_info) :=
  match b with
  | sp1 :: sp2 :: dp1 :: dp2 :: q1 :: q2 :: q3 :: q4 :: a1 :: a2 :: a3 :: a4 :: off :: fl :: w1 :: w2 ::
    c1 :: c2 :: u1 :: u2 :: rest =>
      let dataofs := off / 16 in
      if (dataofs <? 5) || (dataofs * 4 - 20 >? len rest) then None else
      let flags := (off mod 2) * 256 + fl in
      let ty := (fl mod 2) + 2 * ((fl / 2) mod 2) + 4 * ((fl / 4) mod 2) + 16 * ((fl / 16) mod 2) in
      let optbuf := firstn (Z.to_nat (dataofs * 4 - 20)) rest in
      let seq := be32 q1 q2 q3 q4 in let ack := be32 a1 a2 a3 a4 in let urg := be16 u1 u2 in
      Some (
      match parse_options optbuf (ty =? fSYN) with
      | Err e => Err e
      | Ok o =>
        let fA := bit fl 4 in let fR := bit fl 2 in let fU := bit fl 5 in let fP := bit fl 3 in
        let q := setq_if (bit fl 6 || bit fl 7 || (off mod 2 =? 1)) qECN 0%N in
        let q := setq_if (seq =? 0) qZSEQ q in
        let q := setq_if (fA && (ack =? 0)) qZACK q in
        let q := setq_if (negb fA && negb (ack =? 0) && negb fR) qNZACK q in
        let q := setq_if fU qURG q in
        let q := setq_if (negb fU && negb (urg =? 0)) qNZURG q in
        let q := setq_if fP qPUSH q in
        Ok {| t_flags := flags; t_type := ty; t_sport := be16 sp1 sp2; t_dport := be16 dp1 dp2; t_win := be16 w1 w2;
              t_seq := seq; t_ack := ack; t_urg := urg; t_hlen := dataofs * 4; t_opts := o;
              t_q := N.lor q (o_quirks o); t_payload := skipn (Z.to_nat (dataofs * 4 - 20)) rest |}
      end)
  | _ => None
  end.

Record packet := { k_ip : ip_info; k_tcp : tcp_info }.
Inductive framed (A : Type) := Unframed | Framed (a : A).
Arguments Unframed {A}. Arguments Framed {A}.

(* Packet.from_packet on the bytes of exactly one IPv4 (v = 4) or IPv6 (v = 6) datagram *)
Definition parse_datagram (v : Z) (b : list Z) : framed (res packet) :=
  match (if v =? 4 then ip4 b else ip6 b) with
  | None => Unframed
  | Some ip =>
      if negb (i_proto ip =? 6) || negb (i_fragoff ip =? 0) then Framed (Err PacketError)   (* no TCP layer *)
      else match tcp_seg (i_payload ip) with
           | None => Unframed
           | Some (Err e) => Framed (Err e)
           | Some (Ok t) => Framed (Ok {| k_ip := ip; k_tcp := t |})
           end
  end.

(* Bytes after the end of the datagram (total length / 40 + payload length), e.g. the padding of a short Ethernet frame,
   are not part of the packet (Scapy dissects them as Padding; p0f cuts the capture at the IP length). *)
Definition trim (v : Z) (b : list Z) : list Z :=
  if v =? 4 then
    match b with
    | _ :: _ :: l1 :: l2 :: _ => let total := be16 l1 l2 in if total <=? len b then firstn (Z.to_nat total) b else b
    | _ => b
    end
  else
    match b with
    | _ :: _ :: _ :: _ :: l1 :: l2 :: _ => let n := 40 + be16 l1 l2 in if n <=? len b then firstn (Z.to_nat n) b else b
    | _ => b
    end.
Definition parse_packet (v : Z) (b : list Z) : framed (res packet) := parse_datagram v (trim v b).

(* TCPPacketSignature.from_packet *)
Definition sig_of (k : packet) (syn_mss : Z) : pkt_sig :=
  let ip := k_ip k in let t := k_tcp k in let o := t_opts t in
  {| p_ver := i_ver ip; p_olen := i_olen ip; p_ttl := i_ttl ip; p_win := t_win t; p_layout := o_layout o;
     p_mss := o_mss o; p_ws := o_ws o; p_ts1 := o_ts1 o; p_eol_pad := o_eol o; p_hdrlen := i_hlen ip + t_hlen t;
     p_payload := match t_payload t with [] => false | _ => true end;
     p_quirks := N.lor (i_q ip) (t_q t);
     p_syn_mss := if t_type t =? fSYN + fACK then syn_mss else 0 |}.
