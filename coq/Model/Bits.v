(* Quirk sets as N bit masks; bit numbers are those of pyp0f.net.quirks.Quirk. *)
From PV Require Import Model.Prelude.

Fixpoint mask_of (l : list N) : N :=
  match l with [] => 0%N | k :: r => N.lor (N.shiftl 1 k) (mask_of r) end.

Definition qECN := 0%N.   Definition qDF := 1%N.    Definition qNZID := 2%N.
Definition qZID := 3%N.   Definition qMBZ := 4%N.   Definition qFLOW := 5%N.
Definition qZSEQ := 6%N.  Definition qNZACK := 7%N. Definition qZACK := 8%N.
Definition qNZURG := 9%N. Definition qURG := 10%N.  Definition qPUSH := 11%N.
Definition qZTS1 := 12%N. Definition qNZTS2 := 13%N. Definition qEOLNZ := 14%N.
Definition qEXWS := 15%N. Definition qBAD := 16%N.

Definition hasq (k : N) (m : N) : bool := N.testbit m k.
Definition setq (k : N) (m : N) : N := N.lor m (N.shiftl 1 k).
Definition setq_if (b : bool) (k : N) (m : N) : N := if b then setq k m else m.

Definition v4_only : list N := [qDF; qNZID; qZID; qMBZ].
Definition v6_only : list N := [qFLOW].
