(* Python string primitives over ASCII text (list of code points), as used by the database
   parser and the HTTP reader.  Each is modelled individually; see DESIGN.md section 3. *)
From Coq Require Import String Ascii.
From PV Require Import Model.Prelude.

Definition text := list Z.
Definition str (s : string) : text := map (fun b => Z.of_N (Byte.to_N b)) (list_byte_of_string s).

Fixpoint text_eqb (a b : text) : bool :=
  match a, b with
  | [], [] => true
  | x :: a', y :: b' => (x =? y) && text_eqb a' b'
  | _, _ => false
  end.

Fixpoint starts_with (p t : text) : bool :=
  match p, t with
  | [], _ => true
  | x :: p', y :: t' => (x =? y) && starts_with p' t'
  | _ :: _, [] => false
  end.
Definition ends_with (p t : text) : bool := starts_with (rev p) (rev t).

(* str.split(sep) for a one-character separator: never returns [] *)
Fixpoint split_on (sep : Z) (t : text) : list text :=
  match t with
  | [] => [[]]
  | c :: r => if c =? sep then [] :: split_on sep r
              else match split_on sep r with
                   | [] => [[c]]
                   | h :: tl => (c :: h) :: tl
                   end
  end.
(* str.split(sep, maxsplit=n): at most n splits, the remainder stays in the last piece *)
Fixpoint split_max (sep : Z) (n : nat) (t : text) : list text :=
  match n with
  | O => [t]
  | S n' =>
    match t with
    | [] => [[]]
    | c :: r => if c =? sep then [] :: split_max sep n' r
                else match split_max sep n r with
                     | [] => [[c]]
                     | h :: tl => (c :: h) :: tl
                     end
    end
  end.
(* str.partition(sep): (before, found, after) *)
Fixpoint partition_on (sep : Z) (t : text) : text * bool * text :=
  match t with
  | [] => ([], false, [])
  | c :: r => if c =? sep then ([], true, r)
              else let '(a, f, b) := partition_on sep r in (c :: a, f, b)
  end.
Definition mem (c : Z) (t : text) : bool := existsb (Z.eqb c) t.

Fixpoint join (sep : text) (l : list text) : text :=
  match l with [] => [] | [x] => x | x :: r => x ++ sep ++ join sep r end.

(* whitespace: str.strip() for ASCII text; bytes.strip() (and int()) use the smaller set *)
(* str.isspace() of CPython 3.12 (Unicode 15.0): the ASCII controls / blank, and the non-ASCII white space NEL, NBSP, OGHAM SPACE MARK,
   U+2000..U+200A, LINE / PARAGRAPH SEPARATOR, U+202F, U+205F, U+3000 *)
Definition uni_space (c : Z) : bool :=
  (c =? 133) || (c =? 160) || (c =? 5760) || ((8192 <=? c) && (c <=? 8202)) || (c =? 8232) || (c =? 8233) || (c =? 8239) || (c =? 8287) || (c =? 12288).
Definition is_space_str (c : Z) : bool := ((9 <=? c) && (c <=? 13)) || ((28 <=? c) && (c <=? 32)) || uni_space c.
Definition is_space_bytes (c : Z) : bool := ((9 <=? c) && (c <=? 13)) || (c =? 32).
Fixpoint lstrip_by (f : Z -> bool) (t : text) : text :=
  match t with c :: r => if f c then lstrip_by f r else t | [] => [] end.
Definition strip_by (f : Z -> bool) (t : text) : text := rev (lstrip_by f (rev (lstrip_by f t))).
Definition strip := strip_by is_space_str.
Definition bstrip := strip_by is_space_bytes.

Definition lower_c (c : Z) : Z := if (65 <=? c) && (c <=? 90) then c + 32 else c.
Definition lower (t : text) : text := map lower_c t.

(* t[1:-1] *)
Definition slice_1_m1 (t : text) : text := removelast (tl t).
(* t[i] as a partial operation *)
Definition index (t : text) (i : nat) : res Z :=
  match nth_error t i with Some c => Ok c | None => Err (Crash CIndex) end.

(* substring test: needle in hay *)
Fixpoint infix (needle hay : text) : bool :=
  starts_with needle hay || match hay with [] => false | _ :: r => infix needle r end.

(* int(): optional surrounding blanks, optional sign, digits with single inner underscores *)
Definition is_digit (c : Z) : bool := (48 <=? c) && (c <=? 57).
Fixpoint digits (t : text) (acc : Z) (prev_digit : bool) : option Z :=
  match t with
  | [] => if prev_digit then Some acc else None
  | c :: r => if is_digit c then digits r (acc * 10 + (c - 48)) true
              else if (c =? 95) && prev_digit then
                     match r with d :: _ => if is_digit d then digits r acc false else None | [] => None end
              else None
  end.
Definition py_int_ascii (t : text) : option Z :=
  match strip_by is_space_bytes t with
  | [] => None
  | c :: r => if c =? 43 then digits r 0 false
              else if c =? 45 then option_map Z.opp (digits r 0 false)
              else digits (c :: r) 0 false
  end.

(* int(str) first rewrites the text to ASCII (_PyUnicode_TransformDecimalAndSpaceToASCII): code points below 127 stay, non-ASCII white
   space becomes a blank, every Unicode decimal digit (category Nd: runs of ten code points, listed by their zero) becomes its ASCII
   digit, anything else becomes '?' (which no number contains) *)
Definition nd_zeros : list Z :=
  [1632; 1776; 1984; 2406; 2534; 2662; 2790; 2918; 3046; 3174; 3302; 3430; 3558; 3664; 3792; 3872; 4160; 4240; 6112; 6160; 6470; 6608; 6784;
   6800; 6992; 7088; 7232; 7248; 42528; 43216; 43264; 43472; 43504; 43600; 44016; 65296; 66720; 68912; 69734; 69872; 69942; 70096; 70384;
   70736; 70864; 71248; 71360; 71472; 71904; 72016; 72784; 73040; 73120; 73552; 92768; 92864; 93008; 120782; 120792; 120802; 120812;
   120822; 123200; 123632; 124144; 125264; 130032].
Definition uni_digit (c : Z) : option Z :=
  match find (fun z => (z <=? c) && (c <? z + 10)) nd_zeros with Some z => Some (c - z) | None => None end.
Definition to_ascii_c (c : Z) : Z :=
  if c <? 127 then c else if uni_space c then 32 else match uni_digit c with Some d => 48 + d | None => 63 end.
Definition py_int (t : text) : option Z := py_int_ascii (map to_ascii_c t).

(* str.encode(): UTF-8.  A `text` that models a Python str is a list of CODE POINTS; one that models bytes is a list of byte values. *)
Definition enc_c (c : Z) : text :=
  if c <? 128 then [c]
  else if c <? 2048 then [192 + c / 64; 128 + c mod 64]
  else if c <? 65536 then [224 + c / 4096; 128 + (c / 64) mod 64; 128 + c mod 64]
  else [240 + c / 262144; 128 + (c / 4096) mod 64; 128 + (c / 64) mod 64; 128 + c mod 64].
Definition utf8 (t : text) : text := flat_map enc_c t.

(* decimal printing of a non-negative number (str(n)); 20 digits suffice for every number here *)
Fixpoint dec_f (fuel : nat) (n : Z) : text :=
  match fuel with
  | O => []
  | S f => if n <? 10 then [48 + n] else dec_f f (n / 10) ++ [48 + n mod 10]
  end.
Definition dec (n : Z) : text := dec_f 20 n.
