(* Python string primitives over ASCII text (list of code points), as used by the database
   parser and the HTTP reader.  Each is modelled individually; see DESIGN.md section 3. *)
From Coq Require Import String Ascii.
From PV Require Import Model.Prelude.

Definition text := list Z.
Definition str (s : string) : text := map (fun b => Z.of_N (Byte.to_N b)) (list_byte_of_string s).

Fixpoint text_eqb (a b : text) : bool :=
  match a, b with
  | [], [] => true
  | x :: a', y :: b' => (x =? y) && text_eqb a' b'
  | _, _ => false
  end.

Fixpoint starts_with (p t : text) : bool :=
  match p, t with
  | [], _ => true
  | x :: p', y :: t' => (x =? y) && starts_with p' t'
  | _ :: _, [] => false
  end.
Definition ends_with (p t : text) : bool := starts_with (rev p) (rev t).

(* str.split(sep) for a one-character separator: never returns [] *)
Fixpoint split_on (sep : Z) (t : text) : list text :=
  match t with
  | [] => [[]]
  | c :: r => if c =? sep then [] :: split_on sep r
              else match split_on sep r with
                   | [] => [[c]]
                   | h :: tl => (c :: h) :: tl
                   end
  end.
(* str.split(sep, maxsplit=n): at most n splits, the remainder stays in the last piece *)
Fixpoint split_max (sep : Z) (n : nat) (t : text) : list text :=
  match n with
  | O => [t]
  | S n' =>
    match t with
    | [] => [[]]
    | c :: r => if c =? sep then [] :: split_max sep n' r
                else match split_max sep n r with
                     | [] => [[c]]
                     | h :: tl => (c :: h) :: tl
                     end
    end
  end.
(* str.partition(sep): (before, found, after) *)
Fixpoint partition_on (sep : Z) (t : text) : text * bool * text :=
  match t with
  | [] => ([], false, [])
  | c :: r => if c =? sep then ([], true, r)
              else let '(a, f, b) := partition_on sep r in (c :: a, f, b)
  end.
Definition mem (c : Z) (t : text) : bool := existsb (Z.eqb c) t.

Fixpoint join (sep : text) (l : list text) : text :=
  match l with [] => [] | [x] => x | x :: r => x ++ sep ++ join sep r end.

(* whitespace: str.strip() for ASCII text; bytes.strip() (and int()) use the smaller set *)
Definition is_space_str (c : Z) : bool := ((9 <=? c) && (c <=? 13)) || ((28 <=? c) && (c <=? 32)).
Definition is_space_bytes (c : Z) : bool := ((9 <=? c) && (c <=? 13)) || (c =? 32).
Fixpoint lstrip_by (f : Z -> bool) (t : text) : text :=
  match t with c :: r => if f c then lstrip_by f r else t | [] => [] end.
Definition strip_by (f : Z -> bool) (t : text) : text := rev (lstrip_by f (rev (lstrip_by f t))).
Definition strip := strip_by is_space_str.
Definition bstrip := strip_by is_space_bytes.

Definition lower_c (c : Z) : Z := if (65 <=? c) && (c <=? 90) then c + 32 else c.
Definition lower (t : text) : text := map lower_c t.

(* t[1:-1] *)
Definition slice_1_m1 (t : text) : text := removelast (tl t).
(* t[i] as a partial operation *)
Definition index (t : text) (i : nat) : res Z :=
  match nth_error t i with Some c => Ok c | None => Err (Crash CIndex) end.

(* substring test: needle in hay *)
Fixpoint infix (needle hay : text) : bool :=
  starts_with needle hay || match hay with [] => false | _ :: r => infix needle r end.

(* int(): optional surrounding blanks, optional sign, digits with single inner underscores *)
Definition is_digit (c : Z) : bool := (48 <=? c) && (c <=? 57).
Fixpoint digits (t : text) (acc : Z) (prev_digit : bool) : option Z :=
  match t with
  | [] => if prev_digit then Some acc else None
  | c :: r => if is_digit c then digits r (acc * 10 + (c - 48)) true
              else if (c =? 95) && prev_digit then
                     match r with d :: _ => if is_digit d then digits r acc false else None | [] => None end
              else None
  end.
Definition py_int (t : text) : option Z :=
  match strip_by is_space_bytes t with
  | [] => None
  | c :: r => if c =? 43 then digits r 0 false
              else if c =? 45 then option_map Z.opp (digits r 0 false)
              else digits (c :: r) 0 false
  end.

(* decimal printing of a non-negative number (str(n)); 20 digits suffice for every number here *)
Fixpoint dec_f (fuel : nat) (n : Z) : text :=
  match fuel with
  | O => []
  | S f => if n <? 10 then [48 + n] else dec_f f (n / 10) ++ [48 + n mod 10]
  end.
Definition dec (n : Z) : text := dec_f 20 n.
