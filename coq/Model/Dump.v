(* pyp0f/net/layers/tcp/options.py: TCPOptions.dump; pyp0f/net/quirks.py: dump_quirks;
   pyp0f/database/records_database.py: get_random (label lookup). *)
From Coq Require Import String.
From PV Require Import Model.Prelude Model.Bits Model.Text Model.SigParse Model.DbParse.
Local Open Scope string_scope.
Local Open Scope Z_scope.
Local Open Scope list_scope.

Definition dump_option (eol : Z) (k : Z) : text :=
  if k =? 0 then str "eol+" ++ dec eol
  else if k =? 1 then str "nop" else if k =? 2 then str "mss" else if k =? 3 then str "ws"
  else if k =? 4 then str "sok" else if k =? 5 then str "sack" else if k =? 8 then str "ts"
  else str "?" ++ dec k.
Definition dump_layout (layout : list Z) (eol : Z) : text := join (str ",") (map (dump_option eol) layout).

(* names in the order of QUIRK_STRINGS, i.e. by bit number *)
Definition dump_quirks (q : N) : text :=
  join (str ",") (map fst (filter (fun nk => hasq (snd nk) q) quirk_names)).

(* get_random(raw_label, key, direction): the candidates random.choice picks from *)
Definition candidates (raw : text) (recs : list rec) : list rec :=
  filter (fun r => text_eqb raw (dump_label (rc_label r))) recs.
Definition lookup (raw : text) (section : option (list rec)) (pick : nat) : res rec :=
  match section with
  | None => Err DatabaseError
  | Some recs => match candidates raw recs with
                 | [] => Err DatabaseError
                 | c => match nth_error c pick with Some r => Ok r | None => Err (Crash CIndex) end
                 end
  end.
