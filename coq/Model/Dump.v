(* pyp0f/net/layers/tcp/options.py: TCPOptions.dump; pyp0f/net/quirks.py: dump_quirks;
   pyp0f/database/records_database.py: get_random (label lookup). *)
From Coq Require Import String.
From PV Require Import Model.Prelude Model.Bits Model.Sig Model.Text Model.SigParse Model.DbParse.
Local Open Scope string_scope.
Local Open Scope Z_scope.
Local Open Scope list_scope.

Definition dump_option (eol : Z) (k : Z) : text :=
  if k =? 0 then str "eol+" ++ dec eol
  else if k =? 1 then str "nop" else if k =? 2 then str "mss" else if k =? 3 then str "ws"
  else if k =? 4 then str "sok" else if k =? 5 then str "sack" else if k =? 8 then str "ts"
  else str "?" ++ dec k.
Definition dump_layout (layout : list Z) (eol : Z) : text := join (str ",") (map (dump_option eol) layout).

(* names in the order of QUIRK_STRINGS, i.e. by bit number *)
Definition dump_quirks (q : N) : text :=
  join (str ",") (map fst (filter (fun nk => hasq (snd nk) q) quirk_names)).

(* get_random(raw_label, key, direction): the candidates random.choice picks from *)
Definition candidates (raw : text) (recs : list rec) : list rec :=
  filter (fun r => text_eqb raw (dump_label (rc_label r))) recs.
Definition lookup (raw : text) (section : option (list rec)) (pick : nat) : res rec :=
  match section with
  | None => Err DatabaseError
  | Some recs => match candidates raw recs with
                 | [] => Err DatabaseError
                 | c => match nth_error c pick with Some r => Ok r | None => Err (Crash CIndex) end
                 end
  end.

(* ---- printing a whole TCP signature in the p0f grammar (the inverse of parse_tcp_sig) ---- *)
Definition print_wild (v : Z) : text := if v =? -1 then str "*" else dec v.
Definition print_window (s : tcp_sig) : text :=
  match s_wtype s with
  | WNormal => dec (s_wsize s)
  | WAny => str "*"
  | WMod => str "%" ++ dec (s_wsize s)
  | WMss => str "mss*" ++ dec (s_wsize s)
  | WMtu => str "mtu*" ++ dec (s_wsize s)
  end.
Definition print_tcp_sig (s : tcp_sig) : text :=
  join (str ":")
    [print_wild (s_ver s);
     dec (s_ttl s) ++ (if s_bad_ttl s then str "-" else []);
     dec (s_olen s);
     print_wild (s_mss s);
     print_window s ++ str "," ++ print_wild (s_wscale s);
     dump_layout (s_layout s) (s_eol_pad s);
     dump_quirks (s_quirks s);
     (if s_pay s =? -1 then str "*" else if s_pay s =? 0 then str "0" else str "+")].

(* the signature one writes down from an observed packet: everything fixed, literal window *)
Definition sig_of_pkt (p : pkt_sig) : tcp_sig :=
  {| s_ver := p_ver p; s_olen := p_olen p; s_ttl := p_ttl p; s_bad_ttl := false; s_wtype := WNormal; s_wsize := p_win p;
     s_wscale := p_ws p; s_layout := p_layout p; s_mss := p_mss p; s_eol_pad := p_eol_pad p; s_pay := b2z (p_payload p);
     s_quirks := p_quirks p |}.

(* ---- printing an HTTP signature in the p0f grammar (the inverse of parse_http_sig) ---- *)
Definition print_header (h : sig_header) : text :=
  (if sh_optional h then str "?" else []) ++ sh_name h ++
  match sh_value h with Some v => str "=[" ++ v ++ str "]" | None => [] end.
Definition print_http_sig (h : http_sig) : text :=
  join (str ":")
    [print_wild (hs_version h);
     join (str ",") (map print_header (hs_headers h));
     join (str ",") (hs_absent h);
     match hs_software h with Some s => s | None => [] end].
