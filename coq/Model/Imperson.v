(* pyp0f/impersonate/tcp.py: impersonate = _impersonate_ip / _impersonate_tcp / _impersonate_payload.
   Randomness is an input tape consumed in the code's own order of draws; the base packet is
   abstracted to the fields the code reads.  The result is an abstract packet; [enc_out] writes it
   on the wire the way Scapy does (options padded with zero bytes to a multiple of 4). *)
From PV Require Import Model.Prelude Model.Bits Model.Sig Model.Options.

Record base := {
  b_ver : Z; b_src : list Z; b_dst : list Z; b_id : Z; b_ipflags : Z; b_frag : Z; b_proto : Z;
  b_sport : Z; b_dport : Z; b_seq : Z; b_ack : Z; b_flags : Z; b_urg : Z; b_win : Z;
  b_mss : option Z; b_ws : option Z; b_ts1 : option Z; b_ts2 : option Z; b_payload : list Z }.

Inductive oopt := OoMss (v : Z) | OoWs (v : Z) | OoTs (a b : Z) | OoNop | OoSok | OoEol | OoSack (n : Z).
Record outp := {
  x_ver : Z; x_src : list Z; x_dst : list Z; x_ttl : Z; x_tos : Z; x_id : Z; x_ipflags : Z; x_frag : Z; x_proto : Z; x_fl : Z;
  x_sport : Z; x_dport : Z; x_seq : Z; x_ack : Z; x_flags : Z; x_urg : Z; x_win : Z; x_opts : list oopt; x_payload : list Z }.

(* ---- the random tape ---- *)
Definition tape := list Z.
Definition M (A : Type) := tape -> res (A * tape).
Definition ret {A} (a : A) : M A := fun t => Ok (a, t).
Definition mbind {A B} (m : M A) (f : A -> M B) : M B :=
  fun t => match m t with Ok (a, t') => f a t' | Err e => Err e end.
Notation "'let*' x ':=' m 'in' k" := (mbind m (fun x => k)) (at level 200, x pattern, m at level 100, k at level 200).
Definition fail {A} (e : err) : M A := fun _ => Err e.
(* random.randrange(lo, hi): ValueError on an empty range; the tape entry must lie in [lo, hi) *)
Definition draw (lo hi : Z) : M Z := fun t =>
  if hi <=? lo then Err (Crash CValue) else
  match t with
  | v :: t' => if (lo <=? v) && (v <? hi) then Ok (v, t') else Err OutOfFuel
  | [] => Err OutOfFuel
  end.

Definition hasb (k : N) (s : tcp_sig) : bool := hasq k (s_quirks s).
Definition clearbits (x m : Z) : Z := Z.land x (Z.lnot m).
(* x & ~TCPFlag.F on Python >= 3.11: the complement is taken within the 8 defined flag bits, so bit 8 (NS) is cleared too *)
Definition clear_tcpflag (x f : Z) : Z := Z.land x (255 - f).

(* ---- IP ---- *)
Definition imp_ip (s : tcp_sig) (b : base) (hops : Z) : M (Z * Z * Z * Z) (* tos, id, ipflags, fl *) :=
  if b_ver b =? 6 then
    let* fl := (if hasb qFLOW s then draw 1 1048576 else ret 0) in
    let* tc := (if hasb qECN s then draw 1 4 else ret 0) in
    ret (tc, 0, 0, fl)
  else
    let* fi := (if hasb qDF s then
                  let fl := Z.lor (b_ipflags b) 2 in
                  if hasb qNZID s then
                    (if b_id b =? 0 then let* i := draw 1 65536 in ret (fl, i) else ret (fl, b_id b))
                  else ret (fl, 0)
                else
                  let fl := clearbits (b_ipflags b) 2 in
                  if hasb qZID s then ret (fl, 0)
                  else if b_id b =? 0 then let* i := draw 1 65536 in ret (fl, i) else ret (fl, b_id b)) in
    let '(fl, id) := fi in
    let fl := if hasb qMBZ s then Z.lor fl 4 else clearbits fl 4 in
    let* tos := (if hasb qECN s then draw 1 4 else ret 0) in
    ret (tos, id, fl, 0).

(* ---- TCP options ---- *)
Definition nonzero_hint (h : option Z) : option Z := match h with Some v => if v =? 0 then None else Some v | None => None end.

Fixpoint imp_options (s : tcp_sig) (b : base) (uptime : option Z) (layout : list Z) : M (list oopt) :=
  match layout with
  | [] => ret []
  | k :: rest =>
    let* o :=
      (if k =? 2 then
         let is_mss := match s_wtype s with WMss => true | _ => false end in
         let max_mss := 65535 / (if is_mss then s_wsize s else 1) in
         let min_mss := if is_mss then 100 else 0 in
         if s_mss s =? -1 then
           match b_mss b with
           | Some h => if (min_mss <=? h) && (h <=? max_mss) then ret (Some (OoMss h)) else let* v := draw 100 (max_mss + 1) in ret (Some (OoMss v))
           | None => let* v := draw 100 (max_mss + 1) in ret (Some (OoMss v))
           end
         else ret (Some (OoMss (s_mss s)))
       else if k =? 3 then
         if s_wscale s =? -1 then
           if hasb qEXWS s then
             match b_ws b with
             | Some h => if (14 <? h) && (h <? 256) then ret (Some (OoWs h)) else let* v := draw 15 256 in ret (Some (OoWs v))
             | None => let* v := draw 15 256 in ret (Some (OoWs v))
             end
           else
             match b_ws b with
             | Some h => if (0 <=? h) && (h <=? 14) then ret (Some (OoWs h)) else let* v := draw 1 14 in ret (Some (OoWs v))
             | None => let* v := draw 1 14 in ret (Some (OoWs v))
             end
         else ret (Some (OoWs (s_wscale s)))
       else if k =? 8 then
         let* t1 := (if hasb qZTS1 s then ret 0
                     else match uptime with
                          | Some u => ret u
                          | None => match b_ts1 b with
                                    | Some h => if (0 <? h) && (h <? 4294967296) then ret h else draw 120 3153600001
                                    | None => draw 120 3153600001
                                    end
                          end) in
         let* t2 := (if hasb qNZTS2 s && (Z.land (b_flags b) 18 =? 2) then
                       match b_ts2 b with
                       | Some h => if (0 <? h) && (h <? 4294967296) then ret h else draw 1 4294967296
                       | None => draw 1 4294967296
                       end
                     else if Z.land (b_flags b) 18 =? 2 then ret 0
                     else match b_ts2 b with
                          | Some h => if (0 <=? h) && (h <? 4294967296) then ret h else ret 0
                          | None => ret 0
                          end) in
         ret (Some (OoTs t1 t2))
       else if k =? 1 then ret (Some OoNop)
       else if k =? 4 then ret (Some OoSok)
       else if k =? 0 then ret (Some OoEol)
       else if k =? 5 then let* i := draw 0 4 in ret (Some (OoSack (8 + 8 * i)))
       else ret None) in
    let* r := imp_options s b uptime rest in
    ret (match o with Some x => x :: r | None => r end)
  end.

Fixpoint last_mss_opt (l : list oopt) (acc : option Z) : option Z :=
  match l with [] => acc | OoMss v :: r => last_mss_opt r (Some v) | _ :: r => last_mss_opt r acc end.

Definition imp_window (s : tcp_sig) (b : base) (opts : list oopt) (mtu : Z) : M Z :=
  match s_wtype s with
  | WNormal => ret (s_wsize s)
  | WMss => match last_mss_opt opts None with Some m => ret (m * s_wsize s) | None => fail ValueErr end
  | WMod => let* k := draw 1 (65535 / s_wsize s + 1) in ret (s_wsize s * k)
  | WMtu => ret (mtu * s_wsize s)
  | WAny => ret (b_win b)
  end.

Fixpoint draw_chars (n : nat) : M (list Z) :=
  match n with O => ret [] | S n' => let* i := draw 0 62 in let* r := draw_chars n' in ret (i :: r) end.
(* string.ascii_uppercase + ascii_lowercase + digits *)
Definition char_of (i : Z) : Z := if i <? 26 then 65 + i else if i <? 52 then 97 + (i - 26) else 48 + (i - 52).

Definition imp_payload (s : tcp_sig) (b : base) : M (list Z) :=
  if s_pay s =? -1 then ret (b_payload b)
  else if s_pay s =? 0 then ret []
  else match b_payload b with
       | _ :: _ => ret (b_payload b)
       | [] => let* n := draw 1 11 in let* cs := draw_chars (Z.to_nat n) in ret (map char_of cs)
       end.

(* ---- the whole call ---- *)
Definition imp_tcp (s : tcp_sig) (b : base) (hops mtu : Z) (uptime : option Z) : M outp :=
  if negb (s_ver s =? -1) && negb (b_ver b =? s_ver s) then fail ValueErr else
  let* ip := imp_ip s b hops in
  let '(tos, id, ipfl, fl) := ip in
  let* seq := (if hasb qZSEQ s then ret 0 else if b_seq b =? 0 then draw 1 4294967296 else ret (b_seq b)) in
  let* fa := (if hasb qNZACK s then
                let f := clear_tcpflag (b_flags b) 16 in
                if b_ack b =? 0 then let* a := draw 1 4294967296 in ret (f, a) else ret (f, b_ack b)
              else if hasb qZACK s then ret (Z.lor (b_flags b) 16, 0)
              else ret (b_flags b, b_ack b)) in
  let '(f1, ack) := fa in
  let* fu := (if hasb qNZURG s then
                let f := clear_tcpflag f1 32 in
                if b_urg b =? 0 then let* u := draw 1 65536 in ret (f, u) else ret (f, b_urg b)
              else if hasb qURG s then ret (Z.lor f1 32, b_urg b)
              else ret (f1, b_urg b)) in
  let '(f2, urg) := fu in
  let f3 := if hasb qPUSH s then Z.lor f2 8 else clear_tcpflag f2 8 in
  let f3 := if hasb qECN s then f3 else Z.land f3 63 in        (* ECE, CWR, NS cleared *)
  let* opts := imp_options s b uptime (s_layout s) in
  let* win := imp_window s b opts mtu in
  let* pay := imp_payload s b in
  ret {| x_ver := b_ver b; x_src := b_src b; x_dst := b_dst b; x_ttl := s_ttl s - hops; x_tos := tos; x_id := id;
         x_ipflags := ipfl; x_frag := b_frag b; x_proto := b_proto b; x_fl := fl;
         x_sport := b_sport b; x_dport := b_dport b; x_seq := seq; x_ack := ack; x_flags := f3; x_urg := urg; x_win := win;
         x_opts := opts; x_payload := pay |}.

(* ---- wire encoding (Scapy's layout) ---- *)
Definition w16 (v : Z) : list Z := [v / 256; v mod 256].
Definition w32 (v : Z) : list Z := [v / 16777216; (v / 65536) mod 256; (v / 256) mod 256; v mod 256].
Definition enc_oopt (o : oopt) : list Z :=
  match o with
  | OoMss v => 2 :: 4 :: w16 v
  | OoWs v => [3; 3; v]
  | OoTs a b => 8 :: 10 :: w32 a ++ w32 b
  | OoNop => [1]
  | OoSok => [4; 2]
  | OoEol => [0]
  | OoSack n => 5 :: (n + 2) :: repeat 0 (Z.to_nat n)
  end.
Definition enc_oopts (l : list oopt) : list Z :=
  let raw := flat_map enc_oopt l in
  raw ++ repeat 0 (Z.to_nat ((- len raw) mod 4)).

Definition fits (v bound : Z) : bool := (0 <=? v) && (v <? bound).
Definition enc_out (x : outp) : res (list Z) :=
  let opts := enc_oopts (x_opts x) in
  if negb (fits (x_ttl x) 256 && fits (x_tos x) 256 && fits (x_id x) 65536 && fits (x_win x) 65536 && fits (x_seq x) 4294967296
           && fits (x_ack x) 4294967296 && fits (x_urg x) 65536 && fits (x_flags x) 512 && (len opts <=? 40)
           && forallb (fun o => match o with OoMss v => fits v 65536 | OoWs v => fits v 256
                                           | OoTs a b => fits a 4294967296 && fits b 4294967296 | _ => true end) (x_opts x))
  then Err (Crash COther) else
  let tcp := w16 (x_sport x) ++ w16 (x_dport x) ++ w32 (x_seq x) ++ w32 (x_ack x)
             ++ [(5 + len opts / 4) * 16 + x_flags x / 256; x_flags x mod 256] ++ w16 (x_win x) ++ [0; 0] ++ w16 (x_urg x)
             ++ opts ++ x_payload x in
  if x_ver x =? 6 then
    Ok ([96 + x_tos x / 16; (x_tos x mod 16) * 16 + x_fl x / 65536; (x_fl x / 256) mod 256; x_fl x mod 256]
        ++ w16 (len tcp) ++ [6; x_ttl x] ++ x_src x ++ x_dst x ++ tcp)
  else
    Ok ([69; x_tos x] ++ w16 (20 + len tcp) ++ w16 (x_id x) ++ [x_ipflags x * 32 + x_frag x / 256; x_frag x mod 256; x_ttl x; x_proto x; 0; 0]
        ++ x_src x ++ x_dst x ++ tcp).
