(* pyp0f/database/database.py: Database.load = _replace(parse_file(path)), seen as a small-step
   machine: the shared mapping, and a running load job that parses into a LOCAL database one
   line at a time and commits at the very end.  [visible] is what a reader of the shared
   database sees: the index of the load whose contents are installed (0 = never loaded). *)
From PV Require Import Model.Prelude Model.Text Model.SigParse Model.DbParse.

Record job := { j_state : st; j_line : Z; j_rest : list text }.
Record loader := { l_shared : db; l_version : nat; l_loads : nat; l_job : option job }.
Definition loader0 := {| l_shared := empty_db; l_version := 0; l_loads := 0; l_job := None |}.

Definition begin_load (l : loader) (lines : list text) : loader :=
  {| l_shared := l_shared l; l_version := l_version l; l_loads := S (l_loads l);
     l_job := Some {| j_state := st0; j_line := 1; j_rest := lines |} |}.

(* one line-read point: parse the next line into the local database, or commit / abort *)
Definition tick (l : loader) : loader * option (res unit) :=
  match l_job l with
  | None => (l, None)
  | Some j =>
    match j_rest j with
    | [] => ({| l_shared := p_db (j_state j); l_version := l_loads l; l_loads := l_loads l; l_job := None |}, Some (Ok tt))
    | x :: r =>
      match step (j_state j) (j_line j) x with
      | Ok s' => ({| l_shared := l_shared l; l_version := l_version l; l_loads := l_loads l;
                     l_job := Some {| j_state := s'; j_line := j_line j + 1; j_rest := r |} |}, None)
      | Err e => ({| l_shared := l_shared l; l_version := l_version l; l_loads := l_loads l; l_job := None |}, Some (Err e))
      end
    end
  end.

(* run a whole load, recording the version a reader sees BEFORE each line-read point and after the end *)
Fixpoint run_load (fuel : nat) (l : loader) (seen : list nat) : loader * res unit * list nat :=
  match fuel with
  | O => (l, Err OutOfFuel, rev seen)
  | S f =>
    let seen := l_version l :: seen in
    match tick l with
    | (l', None) => run_load f l' seen
    | (l', Some r) => (l', r, rev (l_version l' :: seen))
    end
  end.
Definition load (l : loader) (lines : list text) : loader * res unit * list nat :=
  run_load (S (length lines)) (begin_load l lines) [].

(* the atomic specification *)
Definition load_spec (shared : db) (lines : list text) : db * res unit :=
  match parse_file lines with Ok d => (d, Ok tt) | Err e => (shared, Err e) end.

Fixpoint history (l : loader) (files : list (list text)) : list (res unit * list nat) :=
  match files with
  | [] => []
  | f :: rest => let '(l', r, seen) := load l f in (r, seen) :: history l' rest
  end.
