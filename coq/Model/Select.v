(* pyp0f/fingerprint/tcp.py: find_tcp_match, fingerprint_tcp (selection part)
   pyp0f/fingerprint/results/tcp.py: TCPResult.distance, guess_distance
   pyp0f/net/packet.py: should_fingerprint *)
From PV Require Import Model.Prelude Model.Bits Model.Sig Model.Matcher.

Record tcp_rec := { r_line : Z; r_generic : bool; r_userapp : bool; r_sig : tcp_sig }.
Definition tmatch := (mtype * tcp_rec)%type.

Definition first_some {A} (a b : option A) : option A := match a with Some _ => a | None => b end.

(* the single-pass loop with its two "first seen" accumulators and the early return *)
Fixpoint find_loop (md : Z) (p : pkt_sig) (recs : list tcp_rec) (fuzzy generic : option tmatch) : option tmatch :=
  match recs with
  | [] =>
      match generic with
      | Some g => Some g
      | None => match fuzzy with
                | Some (t, r) => if r_userapp r then None else Some (t, r)
                | None => None
                end
      end
  | r :: rest =>
      match tcp_match md (r_sig r) p with
      | None => find_loop md p rest fuzzy generic
      | Some Exact =>
          if negb (r_generic r) then Some (Exact, r)
          else find_loop md p rest fuzzy (first_some generic (Some (Exact, r)))
      | Some t => find_loop md p rest (first_some fuzzy (Some (t, r))) generic
      end
  end.
Definition find_tcp_match md recs p := find_loop md p recs None None.

(* TCP flag bits and packet gate *)
Definition fFIN := 1. Definition fSYN := 2. Definition fRST := 4. Definition fACK := 16.
Definition has_all (ty m : Z) : bool := Z.land ty m =? m.
Definition should_fp (frag : bool) (ty : Z) : bool :=
  negb frag && negb (ty =? 0) && negb (has_all ty (fSYN + fFIN)) && negb (has_all ty (fSYN + fRST))
  && negb (has_all ty (fFIN + fRST)).
Definition valid_tcp_fp (frag : bool) (ty : Z) : bool :=
  should_fp frag ty && ((ty =? fSYN) || (ty =? fSYN + fACK)).

Definition guess_distance (ttl : Z) : Z :=
  if ttl <=? 32 then 32 - ttl else if ttl <=? 64 then 64 - ttl else if ttl <=? 128 then 128 - ttl else 255 - ttl.

Definition distance (m : option tmatch) (p : pkt_sig) : Z :=
  match m with
  | None => guess_distance (p_ttl p)
  | Some (FuzzyTTL, _) => guess_distance (p_ttl p)
  | Some (_, r) => s_ttl (r_sig r) - p_ttl p
  end.

(* database: one optional list per direction (None = section never created) *)
Record tcp_db := { db_req : option (list tcp_rec); db_resp : option (list tcp_rec) }.

(* fingerprint_tcp after dissection: ty = flags masked to SYN|ACK|FIN|RST *)
Definition fp_tcp (md : Z) (db : tcp_db) (frag : bool) (ty : Z) (p : pkt_sig) : res (option tmatch * Z) :=
  if negb (valid_tcp_fp frag ty) then Err PacketError else
  match (if ty =? fSYN then db_req db else db_resp db) with
  | None => Err DatabaseError
  | Some recs => let m := find_tcp_match md recs p in Ok (m, distance m p)
  end.
