(* pyp0f/fingerprint/http.py: headers_match, http_signatures_match, find_http_match, fingerprint_http;
   results/http.py: dishonest; net/layers/http/http.py: software. *)
From Coq Require Import String.
From PV Require Import Model.Prelude Model.Text Model.SigParse Model.DbParse Model.HttpRead.
Local Open Scope string_scope.
Local Open Scope Z_scope.
Local Open Scope list_scope.

Definition lname (h : pkt_header) : text := lower (ph_name h).

(* first header at or after the cursor with the given lower-case name: (it, the suffix after it) *)
Fixpoint find_from (name : text) (rest : list pkt_header) : option (pkt_header * list pkt_header) :=
  match rest with
  | [] => None
  | h :: r => if text_eqb name (lname h) then Some (h, r) else find_from name r
  end.
Definition occurs (name : text) (all : list pkt_header) : bool := existsb (fun h => text_eqb name (lname h)) all.

Fixpoint headers_match (sh : list sig_header) (all rest : list pkt_header) : bool :=
  match sh with
  | [] => true
  | h :: sh' =>
    let name := lower (sh_name h) in
    match find_from name rest with
    | None =>
        if negb (sh_optional h) then false
        else if occurs name all then false
        else headers_match sh' all rest
    | Some (ph, after) =>
        match sh_value h with
        | Some v => if infix v (ph_value ph) then headers_match sh' all after else false
        | None => headers_match sh' all after
        end
    end
  end.

Definition http_sig_match (s : http_sig) (ver : Z) (hs : list pkt_header) : bool :=
  ((hs_version s =? -1) || (hs_version s =? ver))
  && forallb (fun h => sh_optional h || occurs (lower (sh_name h)) hs) (hs_headers s)
  && negb (existsb (fun a => occurs a hs) (hs_absent s))
  && headers_match (hs_headers s) hs hs.

Definition http_of (r : rec) : option http_sig := match rc_sig r with SHttp h => Some h | _ => None end.
Definition rec_matches (ver : Z) (hs : list pkt_header) (r : rec) : bool :=
  match http_of r with Some s => http_sig_match s ver hs | None => false end.

Fixpoint find_http_loop (ver : Z) (hs : list pkt_header) (recs : list rec) (generic : option rec) : option rec :=
  match recs with
  | [] => generic
  | r :: rest =>
      if negb (rec_matches ver hs r) then find_http_loop ver hs rest generic
      else if negb (is_generic (rc_label r)) then Some r
      else find_http_loop ver hs rest (match generic with None => Some r | g => g end)
  end.

Definition header_value (name : text) (hs : list pkt_header) : option text :=
  match find_from name hs with Some (h, _) => Some (ph_value h) | None => None end.
(* User-Agent value, or Server when that is missing or empty *)
Definition software (hs : list pkt_header) : option text :=
  match header_value (str "user-agent") hs with
  | Some (c :: v) => Some (c :: v)
  | _ => header_value (str "server") hs
  end.
Definition dishonest (m : option rec) (hs : list pkt_header) : bool :=
  match m with
  | None => false
  | Some r => match software hs, http_of r with
              | Some sw, Some s => match hs_software s with Some e => negb (infix e sw) | None => false end
              | _, _ => false
              end
  end.

Definition fp_http (d : db) (data : text) : res (option rec * bool * (direction * Z * list pkt_header)) :=
  do p <- read_payload data;
  let '(dir, ver, hs) := p in
  match (match dir with Request => d_http_req d | Response => d_http_resp d end) with
  | None => Err DatabaseError
  | Some recs => let m := find_http_loop ver hs recs None in Ok (m, dishonest m hs, p)
  end.
