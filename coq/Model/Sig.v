(* Database TCP signature and packet signature, as the matcher sees them.
   -1 is pyp0f's WILDCARD. *)
From PV Require Import Model.Prelude.

Inductive wtype := WNormal | WAny | WMod | WMss | WMtu.
Record tcp_sig := { s_ver : Z; s_olen : Z; s_ttl : Z; s_bad_ttl : bool; s_wtype : wtype;
  s_wsize : Z; s_wscale : Z; s_layout : list Z; s_mss : Z; s_eol_pad : Z; s_pay : Z;
  s_quirks : N }.
Record pkt_sig := { p_ver : Z; p_olen : Z; p_ttl : Z; p_win : Z; p_layout : list Z;
  p_mss : Z; p_ws : Z; p_ts1 : Z; p_eol_pad : Z; p_hdrlen : Z; p_payload : bool;
  p_quirks : N; p_syn_mss : Z }.
Inductive mtype := Exact | FuzzyTTL | FuzzyQuirks.
