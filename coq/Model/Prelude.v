(* Shared definitions of the pyp0f models.  Model/ files contain definitions only (no
   proofs), so the executable model still builds when a proof breaks. *)
From Coq Require Export ZArith NArith List Bool.
Export ListNotations.
Open Scope Z_scope.

(* Outcome of a modelled Python call.  [Crash] stands for any Python exception other than
   the one the API documents (IndexError, ValueError, TypeError, ...); [OutOfFuel] for a
   loop that did not terminate within its fuel. *)
Inductive crash := CIndex | CValue | CType | CKey | COther.
Inductive err :=
| PacketError                 (* pyp0f.exceptions.PacketError *)
| FieldError                  (* FieldError outside a line context *)
| ParsingError (line : Z)     (* ParsingError with its 1-based line number *)
| DatabaseError               (* any other DatabaseError *)
| ValueErr                    (* documented ValueError of the impersonation API *)
| Crash (c : crash)
| OutOfFuel.
Inductive res (A : Type) := Ok (a : A) | Err (e : err).
Arguments Ok {A}. Arguments Err {A}.

Definition bind {A B} (r : res A) (f : A -> res B) : res B :=
  match r with Ok a => f a | Err e => Err e end.
Notation "'do' x <- r ; k" := (bind r (fun x => k)) (at level 200, x pattern, r at level 100, k at level 200).

Fixpoint list_eqb (a b : list Z) : bool :=
  match a, b with
  | [], [] => true
  | x :: a', y :: b' => (x =? y) && list_eqb a' b'
  | _, _ => false
  end.

Definition b2z (b : bool) : Z := if b then 1 else 0.
