(* The public API as a state machine whose only state is the loaded database (C16, C11, C12):
   load / fingerprint_tcp / fingerprint_mtu / fingerprint_http / calls that must not change state. *)
From PV Require Import Model.Prelude Model.Bits Model.Sig Model.Matcher Model.Select Model.Mtu Model.Options Model.Wire
  Model.Text Model.SigParse Model.DbParse Model.HttpRead Model.HttpMatch Model.DbState.

Definition tcp_rec_of (r : rec) : option tcp_rec :=
  match rc_sig r with
  | STcp s => Some {| r_line := rc_line r; r_generic := is_generic (rc_label r); r_userapp := is_user_app (rc_label r); r_sig := s |}
  | _ => None
  end.
Fixpoint keep_some {A B} (f : A -> option B) (l : list A) : list B :=
  match l with [] => [] | x :: r => match f x with Some y => y :: keep_some f r | None => keep_some f r end end.
Definition tcp_db_of (d : db) : tcp_db :=
  {| db_req := option_map (keep_some tcp_rec_of) (d_tcp_req d); db_resp := option_map (keep_some tcp_rec_of) (d_tcp_resp d) |}.
Definition mtu_rec_of (r : rec) : option mtu_rec :=
  match rc_sig r with SMtu m => Some {| m_line := rc_line r; m_mtu := m |} | _ => None end.
Definition mtu_db_of (d : db) : option (list mtu_rec) := option_map (keep_some mtu_rec_of) (d_mtu d).

Inductive out :=
| OLoadOk | OErr (e : err) | OUnframed
| OTcp (line : option Z) (t : option mtype) (dist : Z)
| OMtu (mtu : Z) (line : option Z)
| OHttp (line : option Z) (dishonest : bool)
| ONone.

Definition api_fp_tcp (d : db) (md syn_mss v : Z) (b : list Z) : out :=
  match parse_packet v b with
  | Unframed => OUnframed
  | Framed (Err e) => OErr e
  | Framed (Ok k) =>
      match fp_tcp md (tcp_db_of d) (i_frag (k_ip k)) (t_type (k_tcp k)) (sig_of k syn_mss) with
      | Ok (m, dist) => OTcp (option_map (fun x => r_line (snd x)) m) (option_map fst m) dist
      | Err e => OErr e
      end
  end.
Definition api_fp_mtu (d : db) (v : Z) (b : list Z) : out :=
  match parse_packet v b with
  | Unframed => OUnframed
  | Framed (Err e) => OErr e
  | Framed (Ok k) =>
      match fp_mtu (mtu_db_of d) (i_frag (k_ip k)) (t_type (k_tcp k)) (i_ver (k_ip k)) (o_mss (t_opts (k_tcp k))) with
      | Ok (m, r) => OMtu m (option_map m_line r)
      | Err e => OErr e
      end
  end.
Definition api_fp_http (d : db) (data : text) : out :=
  match fp_http d data with
  | Ok (m, dis, _) => OHttp (option_map rc_line m) dis
  | Err e => OErr e
  end.

Inductive op :=
| Load (lines : list text)
| FpTcp (md syn_mss v : Z) (b : list Z)
| FpMtu (v : Z) (b : list Z)
| FpHttp (data : text)
| Other.            (* impersonate_tcp / impersonate_mtu / uptime / anything else: no effect on the database *)

Definition exec (d : db) (o : op) : db * out :=
  match o with
  | Load lines => match load_spec d lines with (d', Ok _) => (d', OLoadOk) | (d', Err e) => (d', OErr e) end
  | FpTcp md syn v b => (d, api_fp_tcp d md syn v b)
  | FpMtu v b => (d, api_fp_mtu d v b)
  | FpHttp data => (d, api_fp_http d data)
  | Other => (d, ONone)
  end.
Fixpoint run_ops (d : db) (ops : list op) : db * list out :=
  match ops with
  | [] => (d, [])
  | o :: r => let '(d1, x) := exec d o in let '(d2, xs) := run_ops d1 r in (d2, x :: xs)
  end.

(* the database in force after a history: that of the last successful load *)
Fixpoint last_loaded (d : db) (ops : list op) : db :=
  match ops with
  | [] => d
  | Load lines :: r => last_loaded (fst (load_spec d lines)) r
  | _ :: r => last_loaded d r
  end.
(* the history-free value of a call *)
Definition pure_out (d : db) (o : op) : out := snd (exec d o).
