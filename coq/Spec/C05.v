(* Declarative side of C05/C14: which signatures the impersonator supports, which base packets
   are admissible, and the oracle (encode -> dissect -> match). *)
From PV Require Import Model.Prelude Model.Bits Model.Sig Model.Matcher Model.Select Model.Options Model.Wire Model.Imperson.

(* ---- the oracle: what pyp0f's own fingerprint says about an abstract output packet ---- *)
Definition oracle (md : Z) (s : tcp_sig) (x : outp) : res (option mtype * Z) :=
  do bytes <- enc_out x;
  match parse_datagram (x_ver x) bytes with
  | Framed (Ok k) => let p := sig_of k 0 in Ok (tcp_match md s p, s_ttl s - p_ttl p)
  | Framed (Err e) => Err e
  | Unframed => Err (Crash COther)
  end.

(* ---- admissible base packets (the property's own list) ---- *)
Definition admissible_base (b : base) : Prop :=
  (b_ver b = 4 \/ b_ver b = 6) /\
  (Z.land (b_flags b) 18 = 2 \/ Z.land (b_flags b) 18 = 18) /\          (* SYN or SYN+ACK ... *)
  Z.land (b_flags b) 5 = 0 /\                                            (* ... without FIN / RST *)
  Z.land (b_flags b) 32 = 0 /\ b_urg b = 0 /\                            (* URG clear, urgent pointer zero *)
  (b_ack b = 0 <-> Z.land (b_flags b) 16 = 0) /\                         (* ACK number zero exactly when ACK is clear *)
  0 <= b_flags b < 512 /\ 0 <= b_seq b < 4294967296 /\ 0 <= b_ack b < 4294967296 /\
  0 <= b_win b < 65536 /\ 0 <= b_sport b < 65536 /\ 0 <= b_dport b < 65536 /\
  (b_ver b = 4 -> length (b_src b) = 4%nat /\ length (b_dst b) = 4%nat /\ Forall (fun c => 0 <= c < 256) (b_src b) /\ Forall (fun c => 0 <= c < 256) (b_dst b)
                  /\ 0 <= b_id b < 65536 /\ 0 <= b_ipflags b < 8 /\ Z.land (b_ipflags b) 1 = 0 /\ b_frag b = 0 /\ b_proto b = 6) /\   (* not a fragment *)
  (b_ver b = 6 -> length (b_src b) = 16%nat /\ length (b_dst b) = 16%nat) /\
  len (b_payload b) < 60000 /\ Forall (fun c => 0 <= c < 256) (b_payload b).

(* ---- supported signatures ---- *)
Definition kind_size (k : Z) : Z := if k =? 1 then 1 else if k =? 2 then 4 else if k =? 3 then 3 else if k =? 4 then 2 else if k =? 8 then 10 else 0.
Definition known_kind (k : Z) : bool := (k =? 1) || (k =? 2) || (k =? 3) || (k =? 4) || (k =? 8).
Definition count_kind (k : Z) (l : list Z) : nat := length (filter (Z.eqb k) l).
Definition body_of (layout : list Z) : list Z := match rev layout with 0 :: r => rev r | _ => layout end.
Definition has_eol (layout : list Z) : bool := match rev layout with 0 :: _ => true | _ => false end.

Definition supported_b (s : tcp_sig) : bool :=
  let body := body_of (s_layout s) in
  let L := fold_right (fun k a => kind_size k + a) 0 body in
  (s_olen s =? 0)
  && forallb known_kind body                                             (* no ?n kinds, no SACK, EOL only as the last entry *)
  && (if has_eol (s_layout s) then (s_eol_pad s =? (- (L + 1)) mod 4) && (L + 1 + s_eol_pad s <=? 40)
      else (L mod 4 =? 0) && (L <=? 40) && (s_eol_pad s =? 0))
  && negb (hasq qEOLNZ (s_quirks s)) && negb (hasq qBAD (s_quirks s))
  && (Nat.leb (count_kind 2 body) 1) && (Nat.leb (count_kind 3 body) 1) && (Nat.leb (count_kind 8 body) 1)
  && match s_wtype s with
     | WNormal | WAny | WMod => true
     | WMss => (Nat.eqb (count_kind 2 body) 1)
               && (if s_mss s =? -1 then s_wsize s <=? 655 else (100 <=? s_mss s) && (s_mss s * s_wsize s <=? 65535))
     | WMtu => false
     end.

(* quirk sets a real packet of the base's kind can show (consequences of satisfiability) *)
Definition coherent_b (s : tcp_sig) (b : base) : bool :=
  let q := s_quirks s in let body := body_of (s_layout s) in
  let is_syn := Z.land (b_flags b) 18 =? 2 in
  (if s_ver s =? -1 then true else s_ver s =? b_ver b)
  && (if b_ver b =? 4
      then negb (hasq qNZID q && negb (hasq qDF q)) && negb (hasq qZID q && hasq qDF q) && (negb (hasq qFLOW q) || (s_ver s =? -1))
      else (s_ver s =? -1) || negb (hasq qDF q || hasq qNZID q || hasq qZID q || hasq qMBZ q))
  && negb (hasq qNZACK q && hasq qZACK q) && negb (hasq qNZURG q && hasq qURG q)
  && (if hasq qNZACK q then is_syn else true) && (if hasq qZACK q then negb is_syn else true)   (* the ack quirks agree with the base's type *)
  && (if Nat.eqb (count_kind 8 body) 0 then negb (hasq qZTS1 q) && negb (hasq qNZTS2 q) else (if hasq qNZTS2 q then is_syn else true))
  && (if Nat.eqb (count_kind 3 body) 0 then negb (hasq qEXWS q) && ((s_wscale s =? -1) || (s_wscale s =? 0))
      else if s_wscale s =? -1 then true else Bool.eqb (hasq qEXWS q) (s_wscale s >? 14))
  && (if Nat.eqb (count_kind 2 body) 0 then (s_mss s =? -1) || (s_mss s =? 0) else true)
  && (N.ltb q (2 ^ 17)).

(* a tape whose entries are in the ranges the code asks for never makes the model run dry *)
Definition tape_ok {A} (r : res A) : Prop := r <> Err OutOfFuel.

(* ---- satisfiability, relative to the base packet's IP version and SYN / SYN+ACK type ---- *)
Definition Satisfiable (md : Z) (s : tcp_sig) (b : base) : Prop :=
  exists pk k, Forall (fun c => 0 <= c < 256) pk /\
    parse_datagram (b_ver b) pk = Framed (Ok k) /\
    t_type (k_tcp k) = Z.land (b_flags b) 18 /\
    tcp_match md s (sig_of k 0) = Some Exact.
