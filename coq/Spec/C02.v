(* Declarative reading of C02: three "first such record" searches. *)
From PV Require Import Model.Prelude Model.Sig Model.Matcher Model.Select.

Definition exact_b md p (r : tcp_rec) : bool :=
  match tcp_match md (r_sig r) p with Some Exact => true | _ => false end.
Definition fuzzy_b md p (r : tcp_rec) : bool :=
  match tcp_match md (r_sig r) p with Some FuzzyTTL | Some FuzzyQuirks => true | _ => false end.
Definition mtype_of md p (r : tcp_rec) : mtype :=
  match tcp_match md (r_sig r) p with Some t => t | None => Exact end.

Definition select_spec (md : Z) (recs : list tcp_rec) (p : pkt_sig) : option tmatch :=
  match find (fun r => exact_b md p r && negb (r_generic r)) recs with
  | Some r => Some (Exact, r)                      (* earliest non-generic exact match *)
  | None =>
    match find (fun r => exact_b md p r) recs with
    | Some r => Some (Exact, r)                    (* else earliest generic exact match *)
    | None =>
      match find (fuzzy_b md p) recs with          (* else earliest fuzzy match, unless '!' *)
      | Some r => if r_userapp r then None else Some (mtype_of md p r, r)
      | None => None
      end
    end
  end.
