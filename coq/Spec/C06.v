(* Declarative reading of C06. *)
From Coq Require Import String.
From PV Require Import Model.Prelude Model.Text Model.SigParse Model.DbParse Model.HttpRead Model.HttpMatch.
Local Open Scope Z_scope.
Local Open Scope list_scope.

Definition Contains (needle hay : text) : Prop := exists a b, hay = a ++ needle ++ b.
Definition Named (name : text) (h : pkt_header) : Prop := lname h = name.

(* Walking the signature's headers in order over the message: [rest] is the part of the
   message at or after the previous match, [all] the whole message. *)
Inductive Walk (all : list pkt_header) : list sig_header -> list pkt_header -> Prop :=
| W_nil : forall rest, Walk all [] rest
| W_found : forall h sh rest pre ph after,
    rest = pre ++ ph :: after ->
    (forall x, In x pre -> ~ Named (lower (sh_name h)) x) ->          (* ph is the first occurrence at or after the cursor *)
    Named (lower (sh_name h)) ph ->
    (forall v, sh_value h = Some v -> Contains v (ph_value ph)) ->    (* demanded substring inside that occurrence's value *)
    Walk all sh after ->                                              (* cursor moves past it *)
    Walk all (h :: sh) rest
| W_optional : forall h sh rest,
    sh_optional h = true ->
    (forall x, In x rest -> ~ Named (lower (sh_name h)) x) ->
    (forall x, In x all -> ~ Named (lower (sh_name h)) x) ->          (* allowed only if it occurs nowhere *)
    Walk all sh rest ->                                               (* cursor unchanged *)
    Walk all (h :: sh) rest.

Definition Matches (s : http_sig) (ver : Z) (hs : list pkt_header) : Prop :=
  (hs_version s = -1 \/ hs_version s = ver) /\
  (forall h, In h (hs_headers s) -> sh_optional h = false -> exists x, In x hs /\ Named (lower (sh_name h)) x) /\
  (forall a, In a (hs_absent s) -> forall x, In x hs -> ~ Named a x) /\
  Walk hs (hs_headers s) hs.

Definition select_spec (ver : Z) (hs : list pkt_header) (recs : list rec) : option rec :=
  match find (fun r => rec_matches ver hs r && negb (is_generic (rc_label r))) recs with
  | Some r => Some r                                   (* earliest non-generic match *)
  | None => find (fun r => rec_matches ver hs r) recs  (* else the earliest (generic) one *)
  end.

(* first value of the header with that (lower-case) name *)
Definition FirstValue (name : text) (hs : list pkt_header) (v : text) : Prop :=
  exists pre h post, hs = pre ++ h :: post /\ Named name h /\ ph_value h = v /\ forall x, In x pre -> ~ Named name x.
Definition NoHeader (name : text) (hs : list pkt_header) : Prop := forall x, In x hs -> ~ Named name x.
