(* Declarative side of C07: how a well-formed HTTP/1.x head is written on the wire. *)
From Coq Require Import String.
From PV Require Import Model.Prelude Model.Text Model.HttpRead.
Local Open Scope Z_scope.
Local Open Scope list_scope.

Definition CRLF : text := [13; 10].
Definition LF : text := [10].
Definition eol (crlf : bool) : text := if crlf then CRLF else LF.

(* a physical line: content (no LF, not ending in CR, not blank) and its line ending *)
Definition good_line (l : text) : Prop :=
  mem 10 l = false /\ l <> [] /\ (forall r, l <> r ++ [13]).
Definition render_lines (ls : list (text * bool)) : text := flat_map (fun lb => fst lb ++ eol (snd lb)) ls.
(* head = lines, then a blank line, then arbitrary body bytes *)
Definition render_head (ls : list (text * bool)) (blank_crlf : bool) (body : text) : text :=
  render_lines ls ++ eol blank_crlf ++ body.

Definition blanks (t : text) : Prop := Forall (fun c => c = 32 \/ c = 9) t.
Definition no_ws (t : text) : Prop := Forall (fun c => is_space_bytes c = false) t.
Definition trimmed (t : text) : Prop :=
  match t with [] => True | c :: _ => is_space_bytes c = false end /\
  match rev t with [] => True | c :: _ => is_space_bytes c = false end.

(* request / status lines *)
Definition request_line (meth uri : text) (minor : Z) : text :=
  meth ++ [32] ++ uri ++ [32] ++ [72; 84; 84; 80; 47; 49; 46; 48 + minor].
Definition status_line (minor : Z) (rest : text) : text :=
  [72; 84; 84; 80; 47; 49; 46; 48 + minor] ++ rest.

(* a header field: name ":" blanks value blanks, followed by folded continuation lines *)
Record hfield := { hf_name : text; hf_pre : text; hf_value : text; hf_post : text;
                   hf_cont : list (text * text * text) (* leading blanks (non-empty), content, trailing blanks *) }.
Definition wf_field (f : hfield) : Prop :=
  hf_name f <> [] /\ mem 58 (hf_name f) = false /\
  (match hf_name f with c :: _ => c <> 32 /\ c <> 9 | [] => False end) /\
  blanks (hf_pre f) /\ blanks (hf_post f) /\ trimmed (hf_value f) /\
  Forall (fun c => let '(lead, body, trail) := c in
                   lead <> [] /\ blanks lead /\ blanks trail /\ trimmed body) (hf_cont f).
Definition field_lines (f : hfield) : list text :=
  (hf_name f ++ [58] ++ hf_pre f ++ hf_value f ++ hf_post f)
  :: map (fun c => let '(lead, body, trail) := c in lead ++ body ++ trail) (hf_cont f).
Definition field_value (f : hfield) : text :=
  fold_left (fun v c => let '(_, body, _) := c in v ++ [13; 10; 32] ++ body) (hf_cont f) (hf_value f).
Definition expected_header (f : hfield) : pkt_header := {| ph_name := hf_name f; ph_value := field_value f |}.
