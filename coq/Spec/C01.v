(* Declarative reading of property C01 (and of the "no multiplier" part of C17). *)
From PV Require Import Model.Prelude Model.Bits Model.Sig Model.Matcher.

Definition has (k : N) (m : N) : Prop := N.testbit m k = true.

(* Ranges accepted by the database grammar (what "well-formed TCP signature" means). *)
Definition wf_sig (s : tcp_sig) : Prop :=
  (s_ver s = -1 \/ s_ver s = 4 \/ s_ver s = 6) /\
  1 <= s_ttl s <= 255 /\ 0 <= s_olen s <= 255 /\
  (s_mss s = -1 \/ 0 <= s_mss s <= 65535) /\
  (s_wscale s = -1 \/ 0 <= s_wscale s <= 255) /\
  (s_pay s = -1 \/ s_pay s = 0 \/ s_pay s = 1) /\
  0 <= s_eol_pad s <= 255 /\
  match s_wtype s with
  | WNormal => 0 <= s_wsize s <= 65535
  | WAny => s_wsize s = -1
  | WMod => 2 <= s_wsize s <= 65535
  | WMss | WMtu => 1 <= s_wsize s <= 1000
  end.

(* The signature's quirks with the other IP family's quirks removed when the signature is
   version-agnostic. *)
Definition other_family (s : tcp_sig) (p : pkt_sig) : list N :=
  if s_ver s =? -1 then (if p_ver p =? 4 then v6_only else v4_only) else [].
Definition eff_has (s : tcp_sig) (p : pkt_sig) (k : N) : Prop :=
  has k (s_quirks s) /\ ~ In k (other_family s p).

Definition QuirksEqual s p : Prop := forall k, eff_has s p k <-> has k (p_quirks p).
Definition QuirksCompatible s p : Prop :=
  (forall k, eff_has s p k -> ~ has k (p_quirks p) -> k = qDF \/ k = qNZID) /\
  (forall k, has k (p_quirks p) -> ~ eff_has s p k -> k = qZID \/ k = qECN).

Definition VersionOK s p : Prop := s_ver s = -1 \/ s_ver s = p_ver p.

Definition WindowFits s p : Prop :=
  match s_wtype s with
  | WNormal => s_wsize s = p_win p
  | WAny => True
  | WMod => (s_wsize s | p_win p)
  | WMss => win_multi p = (s_wsize s, false)
  | WMtu => win_multi p = (s_wsize s, true)
  end.

Definition TtlAdmits s p : Prop := s_bad_ttl s = true -> p_ttl p <= s_ttl s.

Definition Matches s p : Prop :=
  s_layout s = p_layout p /\ s_eol_pad s = p_eol_pad p /\ s_olen s = p_olen p /\
  VersionOK s p /\
  (s_mss s = -1 \/ s_mss s = p_mss p) /\
  (s_wscale s = -1 \/ s_wscale s = p_ws p) /\
  (s_pay s = -1 \/ s_pay s = b2z (p_payload p)) /\
  WindowFits s p /\ QuirksCompatible s p /\ TtlAdmits s p.

Definition TtlWithin md s p : Prop :=
  s_bad_ttl s = true \/ 0 <= s_ttl s - p_ttl p <= md.
