(* Declarative reading of C09: a scanner that only tracks "current section" and "most recent
   label (+ sys)" and lists the sig lines -- no parser state, no validity checks. *)
From Coq Require Import String.
From PV Require Import Model.Prelude Model.Bits Model.Sig Model.Text Model.SigParse Model.DbParse.
Local Open Scope string_scope.
Local Open Scope Z_scope.
Local Open Scope list_scope.

Inductive lclass :=
| LSkip                               (* empty, ';' in column 0, or blank-only *)
| LSection (line : text)              (* starts with '[' after stripping *)
| LParam (name value : text).         (* name = value, both stripped *)

Definition classify (raw : text) : lclass :=
  match raw with
  | [] => LSkip
  | c0 :: _ =>
    if c0 =? 59 then LSkip else
    match strip raw with
    | [] => LSkip
    | (c :: _) as line =>
      if c =? 91 then LSection line
      else let '(pa, _, va) := partition_on 61 line in LParam (strip pa) (strip va)
    end
  end.

Definition is_skip (raw : text) : bool := match classify raw with LSkip => true | _ => false end.
Definition is_sig_line (raw : text) : bool :=
  match classify raw with LParam n _ => text_eqb n (str "sig") | _ => false end.

(* what the scanner knows at a sig line *)
Record found := { f_line : Z; f_sec : kind * option dir; f_label : label; f_raw : text }.

Fixpoint scan (sec : option (kind * option dir)) (lab : option label) (n : Z) (lines : list text) : list found :=
  match lines with
  | [] => []
  | raw :: rest =>
    match classify raw with
    | LSkip => scan sec lab (n + 1) rest
    | LSection line =>
        match parse_section line with
        | Ok s => scan (Some s) lab (n + 1) rest
        | Err _ => scan sec lab (n + 1) rest
        end
    | LParam name value =>
        if text_eqb name (str "sig") then
          match sec, lab with
          | Some s, Some l => {| f_line := n; f_sec := s; f_label := l; f_raw := value |} :: scan sec lab (n + 1) rest
          | _, _ => scan sec lab (n + 1) rest
          end
        else if text_eqb name (str "label") then
          match sec with
          | Some s => match parse_label (fst s) value with
                      | Ok l => scan sec (Some l) (n + 1) rest
                      | Err _ => scan sec lab (n + 1) rest
                      end
          | None => scan sec lab (n + 1) rest
          end
        else if text_eqb name (str "sys") then
          match lab with
          | Some l => scan sec (Some (set_sys l (split_on 44 value))) (n + 1) rest
          | None => scan sec lab (n + 1) rest
          end
        else scan sec lab (n + 1) rest
    end
  end.
Definition spec_records (lines : list text) : list found := scan None None 1 lines.

Definition sec_eqb (a b : kind * option dir) : bool :=
  match a, b with
  | (KMtu, _), (KMtu, _) => true
  | (KTcp, Some Req), (KTcp, Some Req) => true
  | (KTcp, Some Resp), (KTcp, Some Resp) => true
  | (KHttp, Some Req), (KHttp, Some Req) => true
  | (KHttp, Some Resp), (KHttp, Some Resp) => true
  | _, _ => false
  end.
Definition in_section (s : kind * option dir) (l : list found) : list found := filter (fun f => sec_eqb (f_sec f) s) l.
Definition section_of (d : db) (s : kind * option dir) : option (list rec) :=
  match s with
  | (KMtu, _) => d_mtu d
  | (KTcp, Some Req) => d_tcp_req d
  | (KTcp, _) => d_tcp_resp d
  | (KHttp, Some Req) => d_http_req d
  | (KHttp, _) => d_http_resp d
  end.
(* a loaded record corresponds to a found sig line *)
Definition Corresponds (r : rec) (f : found) : Prop :=
  rc_line r = f_line f /\ rc_label r = f_label f /\ rc_raw r = f_raw f /\ parse_sig (fst (f_sec f)) (f_raw f) = Ok (rc_sig r).
Definition recs_of (o : option (list rec)) : list rec := match o with Some l => l | None => [] end.
