(* Declarative side of C03/C04: encoders for well-formed headers and options.  The theorems
   say that the dissector of Model/Wire.v and the walker of Model/Options.v invert them. *)
From PV Require Import Model.Prelude Model.Bits Model.Sig Model.Select Model.Options Model.Wire.

Definition byte (b : Z) : Prop := 0 <= b < 256.
Definition bytes (l : list Z) : Prop := Forall byte l.

(* ---------- TCP options ---------- *)
Inductive wopt :=
| WNop
| WMss (v : Z)                         (* 0 <= v < 2^16 *)
| WWs (v : Z)                          (* 0 <= v < 256 *)
| WSok
| WTs (t1 t2 : Z)                      (* 0 <= t < 2^32 *)
| WSack (body : list Z)                (* 8..32 value bytes *)
| WUnk (kind : Z) (body : list Z).     (* kind not in {0,1,2,3,4,5,8}, 0..38 value bytes *)

Definition b16 (v : Z) : list Z := [v / 256; v mod 256].
Definition b32 (v : Z) : list Z := [v / 16777216; (v / 65536) mod 256; (v / 256) mod 256; v mod 256].

Definition enc_opt (o : wopt) : list Z :=
  match o with
  | WNop => [1]
  | WMss v => 2 :: 4 :: b16 v
  | WWs v => [3; 3; v]
  | WSok => [4; 2]
  | WTs a b => 8 :: 10 :: b32 a ++ b32 b
  | WSack body => 5 :: (len body + 2) :: body
  | WUnk k body => k :: (len body + 2) :: body
  end.
Definition kind_of (o : wopt) : Z :=
  match o with WNop => 1 | WMss _ => 2 | WWs _ => 3 | WSok => 4 | WTs _ _ => 8 | WSack _ => 5 | WUnk k _ => k end.
Definition wf_opt (o : wopt) : Prop :=
  match o with
  | WNop | WSok => True
  | WMss v => 0 <= v < 65536
  | WWs v => 0 <= v < 256
  | WTs a b => 0 <= a < 4294967296 /\ 0 <= b < 4294967296
  | WSack body => 8 <= len body <= 32 /\ bytes body
  | WUnk k body => 0 <= k < 256 /\ k <> 0 /\ k <> 1 /\ k <> 2 /\ k <> 3 /\ k <> 4 /\ k <> 5 /\ k <> 8 /\ len body <= 38 /\ bytes body
  end.
Definition enc_opts (l : list wopt) : list Z := flat_map enc_opt l.

(* optional tail: EOL followed by padding bytes *)
Definition enc_tail (t : option (list Z)) : list Z := match t with None => [] | Some pad => 0 :: pad end.

(* what the walker must report for such an option area *)
Definition apply_opt (is_syn : bool) (o : wopt) (s : wst) : wst :=
  let s := w_push (kind_of o) s in
  match o with
  | WMss v => w_set_mss v s
  | WWs v => let s' := w_set_ws v s in if v >? 14 then w_quirk qEXWS s' else s'
  | WTs a b => let s1 := w_set_ts a s in
               let s2 := if a =? 0 then w_quirk qZTS1 s1 else s1 in
               if negb (b =? 0) && is_syn then w_quirk qNZTS2 s2 else s2
  | _ => s
  end.
Definition apply_tail (t : option (list Z)) (s : wst) : wst :=
  match t with
  | None => s
  | Some pad => let s := w_set_eol (len pad) (w_push 0 s) in if all_zero pad then s else w_quirk qEOLNZ s
  end.
Definition expected (is_syn : bool) (l : list wopt) (t : option (list Z)) (s : wst) : wst :=
  apply_tail t (fold_left (fun s o => apply_opt is_syn o s) l s).

(* An option area is well-formed when it is the encoding of well-formed options, optionally
   followed by EOL and padding. *)
Definition WellFormedArea (buf : list Z) : Prop :=
  exists l t, Forall wf_opt l /\ buf = enc_opts l ++ enc_tail t.

(* ---------- IPv4 / IPv6 / TCP headers ---------- *)
Record ip4_hdr := { h4_tos : Z; h4_id : Z; h4_evil : bool; h4_df : bool; h4_mf : bool; h4_off : Z; h4_ttl : Z;
                    h4_proto : Z; h4_c1 : Z; h4_c2 : Z; h4_src : Z * Z * Z * Z; h4_dst : Z * Z * Z * Z; h4_opts : list Z }.
Definition quad (q : Z * Z * Z * Z) : list Z := let '(a, b, c, d) := q in [a; b; c; d].
Definition wf_quad (q : Z * Z * Z * Z) : Prop := let '(a, b, c, d) := q in byte a /\ byte b /\ byte c /\ byte d.
Definition wf_ip4 (h : ip4_hdr) (payload : list Z) : Prop :=
  byte (h4_tos h) /\ 0 <= h4_id h < 65536 /\ 0 <= h4_off h < 8192 /\ byte (h4_ttl h) /\ byte (h4_proto h) /\
  byte (h4_c1 h) /\ byte (h4_c2 h) /\ wf_quad (h4_src h) /\ wf_quad (h4_dst h) /\ bytes (h4_opts h) /\
  len (h4_opts h) mod 4 = 0 /\ len (h4_opts h) <= 40 /\ 20 + len (h4_opts h) + len payload < 65536.
Definition enc_ip4 (h : ip4_hdr) (payload : list Z) : list Z :=
  let ihl := 5 + len (h4_opts h) / 4 in
  let total := 20 + len (h4_opts h) + len payload in
  [4 * 16 + ihl; h4_tos h; total / 256; total mod 256; h4_id h / 256; h4_id h mod 256;
   b2z (h4_evil h) * 128 + b2z (h4_df h) * 64 + b2z (h4_mf h) * 32 + h4_off h / 256; h4_off h mod 256;
   h4_ttl h; h4_proto h; h4_c1 h; h4_c2 h] ++ quad (h4_src h) ++ quad (h4_dst h) ++ h4_opts h ++ payload.

(* the documented IPv4 quirks *)
Definition ip4_quirk (h : ip4_hdr) (k : N) : bool :=
  if N.eqb k qECN then negb (h4_tos h mod 4 =? 0)
  else if N.eqb k qMBZ then h4_evil h
  else if N.eqb k qDF then h4_df h
  else if N.eqb k qNZID then h4_df h && negb (h4_id h =? 0)
  else if N.eqb k qZID then negb (h4_df h) && (h4_id h =? 0)
  else false.

Record ip6_hdr := { h6_tc : Z; h6_fl : Z; h6_nh : Z; h6_hlim : Z; h6_src : list Z; h6_dst : list Z }.
Definition wf_ip6 (h : ip6_hdr) (payload : list Z) : Prop :=
  byte (h6_tc h) /\ 0 <= h6_fl h < 1048576 /\ byte (h6_nh h) /\ byte (h6_hlim h) /\
  length (h6_src h) = 16%nat /\ length (h6_dst h) = 16%nat /\ len payload < 65536.
Definition enc_ip6 (h : ip6_hdr) (payload : list Z) : list Z :=
  [6 * 16 + h6_tc h / 16; (h6_tc h mod 16) * 16 + h6_fl h / 65536; (h6_fl h / 256) mod 256; h6_fl h mod 256;
   len payload / 256; len payload mod 256; h6_nh h; h6_hlim h] ++ h6_src h ++ h6_dst h ++ payload.
Definition ip6_quirk (h : ip6_hdr) (k : N) : bool :=
  if N.eqb k qFLOW then negb (h6_fl h =? 0)
  else if N.eqb k qECN then negb (h6_tc h mod 4 =? 0)
  else false.

(* TCP: the nine flag bits individually *)
Record tcp_hdr := { th_sport : Z; th_dport : Z; th_seq : Z; th_ack : Z; th_res : Z (* 3 reserved bits *);
                    th_ns : bool; th_cwr : bool; th_ece : bool; th_urg : bool; th_ackf : bool; th_psh : bool; th_rst : bool; th_syn : bool; th_fin : bool;
                    th_win : Z; th_c1 : Z; th_c2 : Z; th_urgp : Z; th_opts : list Z }.
Definition wf_tcp (h : tcp_hdr) : Prop :=
  0 <= th_sport h < 65536 /\ 0 <= th_dport h < 65536 /\ 0 <= th_seq h < 4294967296 /\ 0 <= th_ack h < 4294967296 /\
  0 <= th_res h < 8 /\ 0 <= th_win h < 65536 /\ byte (th_c1 h) /\ byte (th_c2 h) /\ 0 <= th_urgp h < 65536 /\
  bytes (th_opts h) /\ len (th_opts h) mod 4 = 0 /\ len (th_opts h) <= 40.
Definition flag_byte (h : tcp_hdr) : Z :=
  b2z (th_cwr h) * 128 + b2z (th_ece h) * 64 + b2z (th_urg h) * 32 + b2z (th_ackf h) * 16 + b2z (th_psh h) * 8
  + b2z (th_rst h) * 4 + b2z (th_syn h) * 2 + b2z (th_fin h).
Definition enc_tcp (h : tcp_hdr) (payload : list Z) : list Z :=
  b16 (th_sport h) ++ b16 (th_dport h) ++ b32 (th_seq h) ++ b32 (th_ack h)
  ++ [(5 + len (th_opts h) / 4) * 16 + th_res h * 2 + b2z (th_ns h); flag_byte h]
  ++ b16 (th_win h) ++ [th_c1 h; th_c2 h] ++ b16 (th_urgp h) ++ th_opts h ++ payload.
Definition type_of_hdr (h : tcp_hdr) : Z :=
  b2z (th_fin h) + 2 * b2z (th_syn h) + 4 * b2z (th_rst h) + 16 * b2z (th_ackf h).
(* the documented core-TCP quirks (option quirks come from the walker) *)
Definition tcp_quirk (h : tcp_hdr) (k : N) : bool :=
  if N.eqb k qECN then th_ece h || th_cwr h || th_ns h
  else if N.eqb k qZSEQ then th_seq h =? 0
  else if N.eqb k qZACK then th_ackf h && (th_ack h =? 0)
  else if N.eqb k qNZACK then negb (th_ackf h) && negb (th_ack h =? 0) && negb (th_rst h)
  else if N.eqb k qURG then th_urg h
  else if N.eqb k qNZURG then negb (th_urg h) && negb (th_urgp h =? 0)
  else if N.eqb k qPUSH then th_psh h
  else false.
