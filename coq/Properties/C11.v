(* Property C11: database (re)load is atomic, idempotent and never observed half-done. *)
From PV Require Import Model.Prelude Model.Text Model.SigParse Model.DbParse Model.DbState Proofs.DbStateP.

(* The line-by-line load refines the atomic specification; a reader at ANY line-read point sees the
   version installed before the load (complete old contents); only after the last line the new one. *)
Theorem C11_refines : forall l lines,
  l_job l = None ->
  let '(l', r, obs) := load l lines in
  l_job l' = None /\ l_loads l' = S (l_loads l) /\
  (l_shared l', r) = load_spec (l_shared l) lines /\
  match r with
  | Ok _ => l_version l' = S (l_loads l) /\ obs = repeat (l_version l) (S (length lines)) ++ [S (l_loads l)]
  | Err _ => l_version l' = l_version l /\ exists k, obs = repeat (l_version l) k /\ (2 <= k <= S (S (length lines)))%nat
  end.
Proof. exact load_refines. Qed.
Print Assumptions C11_refines.

Theorem C11_failed_load_preserves : forall s lines e, snd (load_spec s lines) = Err e -> fst (load_spec s lines) = s.
Proof. exact failed_load_preserves. Qed.
Print Assumptions C11_failed_load_preserves.

Theorem C11_no_accumulation : forall s1 s2 lines,
  snd (load_spec s1 lines) = Ok tt -> fst (load_spec s1 lines) = fst (load_spec s2 lines).
Proof. exact load_no_accumulation. Qed.
Print Assumptions C11_no_accumulation.

Theorem C11_idempotent : forall s lines, load_spec (fst (load_spec s lines)) lines = load_spec s lines.
Proof. exact load_idempotent. Qed.
Print Assumptions C11_idempotent.

(* before any load the shared database has no section at all (fingerprinting: DatabaseError, see C02_unloaded) *)
Theorem C11_never_loaded : l_shared loader0 = empty_db /\ l_version loader0 = 0%nat.
Proof. exact never_loaded_is_empty. Qed.
Print Assumptions C11_never_loaded.
