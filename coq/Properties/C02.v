(* Property C02: fingerprint_tcp returns the best match in database order, with a sane distance. *)
From PV Require Import Model.Prelude Model.Bits Model.Sig Model.Matcher Model.Select
  Spec.C01 Spec.C02 Proofs.SelectP.

(* The single-pass loop equals the three "earliest such record" searches of the statement. *)
Theorem C02_select : forall md recs p, find_tcp_match md recs p = select_spec md recs p.
Proof. exact find_tcp_match_spec. Qed.
Print Assumptions C02_select.

(* The returned record is one of the list and matches with the reported type. *)
Theorem C02_sound : forall md recs p t r,
  select_spec md recs p = Some (t, r) -> In r recs /\ tcp_match md (r_sig r) p = Some t.
Proof. exact select_spec_sound. Qed.
Print Assumptions C02_sound.

(* Only the section of the packet's direction is consulted. *)
Theorem C02_direction : forall md req resp req' resp' frag p,
  fp_tcp md {| db_req := req; db_resp := resp |} frag fSYN p = fp_tcp md {| db_req := req; db_resp := resp' |} frag fSYN p /\
  fp_tcp md {| db_req := req; db_resp := resp |} frag (fSYN + fACK) p = fp_tcp md {| db_req := req'; db_resp := resp |} frag (fSYN + fACK) p.
Proof. exact fp_tcp_direction. Qed.
Print Assumptions C02_direction.

(* Distance: signature TTL - packet TTL for exact / fuzzy-quirk matches, the gap to the next
   initial TTL otherwise; always within 0..255. *)
Theorem C02_distance : forall md recs p,
  0 <= md -> 0 <= p_ttl p <= 255 -> (forall r, In r recs -> wf_sig (r_sig r)) ->
  let m := find_tcp_match md recs p in
  0 <= distance m p <= 255 /\
  match m with
  | Some (FuzzyTTL, _) | None => distance m p = guess_distance (p_ttl p)
  | Some (_, r) => distance m p = s_ttl (r_sig r) - p_ttl p
  end.
Proof. exact distance_range. Qed.
Print Assumptions C02_distance.

(* Only non-fragment SYN / SYN+ACK are fingerprinted; an unloaded database is a DatabaseError. *)
Theorem C02_gate : forall md db frag ty p, 0 <= ty < 32 ->
  (fp_tcp md db frag ty p <> Err PacketError <-> frag = false /\ (ty = fSYN \/ ty = fSYN + fACK)).
Proof. exact fp_tcp_gate. Qed.
Print Assumptions C02_gate.

Theorem C02_unloaded : forall md frag ty p,
  valid_tcp_fp frag ty = true -> fp_tcp md {| db_req := None; db_resp := None |} frag ty p = Err DatabaseError.
Proof. exact fp_tcp_unloaded. Qed.
Print Assumptions C02_unloaded.

Example C02_example :
  let g := {| r_line := 2; r_generic := true; r_userapp := false; r_sig := MatcherP.ex_sig (-1) 64 false [qDF; qNZID] |} in
  let s := {| r_line := 5; r_generic := false; r_userapp := false; r_sig := MatcherP.ex_sig 4 64 false [qDF; qNZID] |} in
  let f := {| r_line := 1; r_generic := false; r_userapp := true; r_sig := MatcherP.ex_sig 4 59 false [qDF; qNZID] |} in
  find_tcp_match 35 [f; g; s] MatcherP.ex_pkt = Some (Exact, s) /\
  find_tcp_match 35 [f; g] MatcherP.ex_pkt = Some (Exact, g) /\
  find_tcp_match 35 [f] MatcherP.ex_pkt = None /\
  distance (find_tcp_match 35 [f; g; s] MatcherP.ex_pkt) MatcherP.ex_pkt = 4.
Proof. vm_compute. auto. Qed.
