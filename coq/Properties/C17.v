(* Property C17: window size classified as MSS or MTU multiple by the documented divisor order. *)
From PV Require Import Model.Prelude Model.Bits Model.Sig Model.Matcher Spec.C01 Proofs.MatcherP.

(* The first entry of the divisor list that divides the window decides value and kind. *)
Theorem C17_first : forall p d m pre post,
  p_win p <> 0 -> 100 <= p_mss p ->
  divisors p = pre ++ (d, m) :: post -> Divides p d ->
  (forall e, In e pre -> ~ Divides p (fst e)) ->
  win_multi p = (p_win p / d, m).
Proof. exact win_multi_first. Qed.
Print Assumptions C17_first.

(* Conversely every result comes from the first dividing entry, or there is none. *)
Theorem C17_first_inv : forall p v m,
  p_win p <> 0 -> 100 <= p_mss p -> win_multi p = (v, m) ->
  (exists d pre post, divisors p = pre ++ (d, m) :: post /\ Divides p d /\ v = p_win p / d /\
     forall e, In e pre -> ~ Divides p (fst e))
  \/ ((v, m) = (-1, false) /\ forall e, In e (divisors p) -> ~ Divides p (fst e)).
Proof. exact win_multi_first_inv. Qed.
Print Assumptions C17_first_inv.

(* Zero window, MSS < 100 or no divisor: no multiplier. *)
Theorem C17_none : forall p,
  (p_win p = 0 \/ p_mss p < 100 \/ forall e, In e (divisors p) -> ~ Divides p (fst e)) ->
  win_multi p = (-1, false).
Proof. exact win_multi_none. Qed.
Print Assumptions C17_none.

(* The list is the documented sequence for each IP version / timestamp / peer-MSS case. *)
Theorem C17_list : forall p,
  divisors p = documented_divisors (p_ver p =? 6) (negb (p_ts1 p =? 0)) (negb (p_syn_mss p =? 0))
                 (p_mss p) (p_hdrlen p) (p_syn_mss p).
Proof. exact divisors_documented. Qed.
Print Assumptions C17_list.

(* Without a multiplier neither mss*N nor mtu*N signatures can match. *)
Theorem C17_no_match : forall md s p,
  wf_sig s -> win_multi p = (-1, false) -> s_wtype s = WMss \/ s_wtype s = WMtu ->
  tcp_match md s p = None.
Proof. exact no_multiplier_no_match. Qed.
Print Assumptions C17_no_match.

Example C17_example :
  win_multi ex_pkt = (20, false) /\
  win_multi {| p_ver := 6; p_olen := 0; p_ttl := 64; p_win := 28800; p_layout := [2]; p_mss := 1220;
               p_ws := 0; p_ts1 := 0; p_eol_pad := 0; p_hdrlen := 64; p_payload := false;
               p_quirks := 0; p_syn_mss := 0 |} = (20, false) /\
  win_multi {| p_ver := 4; p_olen := 0; p_ttl := 64; p_win := 3000; p_layout := [2]; p_mss := 1400;
               p_ws := 0; p_ts1 := 0; p_eol_pad := 0; p_hdrlen := 44; p_payload := false;
               p_quirks := 0; p_syn_mss := 0 |} = (2, true).
Proof. vm_compute. auto. Qed.
