(* Property C10: malformed databases are rejected with a line-numbered DatabaseError. *)
From Coq Require Import String.
From PV Require Import Model.Prelude Model.Bits Model.Sig Model.Text Model.SigParse Model.DbParse
  Spec.C01 Spec.C09 Proofs.DbParseP.

(* a load ends in a database or in ParsingError(n): never any other exception, never out of fuel *)
Theorem C10_no_crash : forall ls,
  (exists d, parse_file ls = Ok d) \/ (exists n, parse_file ls = Err (ParsingError n)).
Proof. exact parse_file_outcome. Qed.
Print Assumptions C10_no_crash.

(* the number is the 1-based number of the first offending line: everything before it parses *)
Theorem C10_line : forall ls n,
  parse_file ls = Err (ParsingError n) ->
  1 <= n <= Z.of_nat (length ls) /\
  exists s, run st0 1 (firstn (Z.to_nat (n - 1)) ls) = Ok s /\
            step s n (nth (Z.to_nat (n - 1)) ls []) = Err (ParsingError n).
Proof. exact parse_file_error_line. Qed.
Print Assumptions C10_line.

(* out-of-range or unknown values are never silently accepted *)
Theorem C10_ranges_tcp : forall t s, parse_tcp_sig t = Ok s ->
  wf_sig s /\ Forall (fun k => 0 <= k <= 255) (s_layout s) /\
  (s_quirks s < 2 ^ 17)%N /\ N.land (s_quirks s) (invalid_for (s_ver s)) = 0%N.
Proof. exact parse_tcp_sig_wf. Qed.
Print Assumptions C10_ranges_tcp.
Theorem C10_ranges_mtu : forall t m, parse_mtu_sig t = Ok m -> 1 <= m <= 65535.
Proof. exact parse_mtu_sig_wf. Qed.
Print Assumptions C10_ranges_mtu.
Theorem C10_ranges_http : forall t h, parse_http_sig t = Ok h -> hs_version h = -1 \/ hs_version h = 0 \/ hs_version h = 1.
Proof. exact parse_http_sig_wf. Qed.
Print Assumptions C10_ranges_http.

(* whitespace-only, empty and comment lines are not errors: they leave the parser state unchanged *)
Theorem C10_skipped : forall s n raw, is_skip raw = true -> step s n raw = Ok s.
Proof. exact step_skip. Qed.
Print Assumptions C10_skipped.

Local Open Scope string_scope.
Local Open Scope Z_scope.
Local Open Scope list_scope.
Example C10_example :
  parse_file [str "[tcp:request]"; str "   "; str "label = s:unix:L:3"; str "sig = *:64+x:0:*:1,0:::0"] = Err (ParsingError 4) /\
  parse_file [str "[tcp]"] = Err (ParsingError 1) /\
  parse_file [str "sig = 1500"] = Err (ParsingError 1) /\
  parse_file [str "[mtu]"; str "label = A"; str "sig = 65536"] = Err (ParsingError 3) /\
  parse_file [str "[tcp:request]"; str "label = s:unix:L:3"; str "sig = 4:64:0:*:mss*1001,0:::0"] = Err (ParsingError 3) /\
  parse_file [str "[tcp:request]"; str "label = s:unix:L:3"; str "sig = 4:64:0:*:8192,0::flow:0"] = Err (ParsingError 3) /\
  is_skip (str "; comment") = true /\ is_skip (str "  " ++ [9]) = true.
Proof. vm_compute. repeat split; reflexivity. Qed.
