(* Property C03: the signature extracted from wire bytes is what the IP/TCP headers say. *)
From PV Require Import Model.Prelude Model.Bits Model.Sig Model.Select Model.Options Model.Wire
  Spec.C03 Proofs.WireP Proofs.OptionsP Proofs.ExtractP Proofs.TrimP.

(* IPv4 header (IHL 5..15, every field value): dissecting the encoding gives the fields back,
   and the quirk set is exactly the documented one (ip4_quirk: ecn, 0+, df, id+, id-). *)
Theorem C03_fields4 : forall h payload, wf_ip4 h payload ->
  exists q,
  ip4 (enc_ip4 h payload) =
    Some {| i_ver := 4; i_ttl := h4_ttl h; i_olen := len (h4_opts h); i_hlen := 20 + len (h4_opts h);
            i_frag := h4_mf h || negb (h4_off h =? 0); i_fragoff := h4_off h; i_proto := h4_proto h; i_q := q;
            i_src := quad (h4_src h); i_dst := quad (h4_dst h); i_id := h4_id h; i_tos := h4_tos h;
            i_payload := payload |}
  /\ forall k, hasq k q = ip4_quirk h k.
Proof. exact ip4_enc. Qed.
Print Assumptions C03_fields4.

Theorem C03_fields6 : forall h payload, wf_ip6 h payload ->
  exists q,
  ip6 (enc_ip6 h payload) =
    Some {| i_ver := 6; i_ttl := h6_hlim h; i_olen := 0; i_hlen := 40; i_frag := false; i_fragoff := 0;
            i_proto := h6_nh h; i_q := q; i_src := h6_src h; i_dst := h6_dst h; i_id := 0; i_tos := h6_tc h;
            i_payload := payload |}
  /\ forall k, hasq k q = ip6_quirk h k.
Proof. exact ip6_enc. Qed.
Print Assumptions C03_fields6.

(* TCP header: all 9 flag bits, every field; quirks = documented core set (tcp_quirk: ecn, seq-,
   ack+, ack-, uptr+, urgf+, pushf+) joined with the option walker's. *)
Theorem C03_tcp : forall h payload o, wf_tcp h ->
  parse_options (th_opts h) (type_of_hdr h =? fSYN) = Ok o ->
  exists q,
  tcp_seg (enc_tcp h payload) =
    Some (Ok {| t_flags := b2z (th_ns h) * 256 + flag_byte h; t_type := type_of_hdr h;
                t_sport := th_sport h; t_dport := th_dport h; t_win := th_win h; t_seq := th_seq h; t_ack := th_ack h;
                t_urg := th_urgp h; t_hlen := 20 + len (th_opts h); t_opts := o; t_q := q; t_payload := payload |})
  /\ forall k, hasq k q = tcp_quirk h k || hasq k (o_quirks o).
Proof. exact tcp_enc. Qed.
Print Assumptions C03_tcp.

(* Whole packets: every field of the packet signature equals the header field. *)
Theorem C03_packet4 : forall h th payload o syn_mss,
  wf_ip4 h (enc_tcp th payload) -> h4_proto h = 6 -> h4_off h = 0 -> wf_tcp th ->
  parse_options (th_opts th) (type_of_hdr th =? fSYN) = Ok o ->
  exists k, parse_datagram 4 (enc_ip4 h (enc_tcp th payload)) = Framed (Ok k) /\
    i_frag (k_ip k) = h4_mf h /\ t_type (k_tcp k) = type_of_hdr th /\
    t_sport (k_tcp k) = th_sport th /\ t_dport (k_tcp k) = th_dport th /\ t_seq (k_tcp k) = th_seq th /\
    SigFields (sig_of k syn_mss) 4 (len (h4_opts h)) (h4_ttl h) th o (20 + len (h4_opts h) + (20 + len (th_opts th))) payload syn_mss /\
    forall q, hasq q (p_quirks (sig_of k syn_mss)) = ip4_quirk h q || (tcp_quirk th q || hasq q (o_quirks o)).
Proof. exact extract4. Qed.
Print Assumptions C03_packet4.

Theorem C03_packet6 : forall h th payload o syn_mss,
  wf_ip6 h (enc_tcp th payload) -> h6_nh h = 6 -> wf_tcp th ->
  parse_options (th_opts th) (type_of_hdr th =? fSYN) = Ok o ->
  exists k, parse_datagram 6 (enc_ip6 h (enc_tcp th payload)) = Framed (Ok k) /\
    i_frag (k_ip k) = false /\ t_type (k_tcp k) = type_of_hdr th /\
    t_sport (k_tcp k) = th_sport th /\ t_dport (k_tcp k) = th_dport th /\ t_seq (k_tcp k) = th_seq th /\
    SigFields (sig_of k syn_mss) 6 0 (h6_hlim h) th o (40 + (20 + len (th_opts th))) payload syn_mss /\
    forall q, hasq q (p_quirks (sig_of k syn_mss)) = ip6_quirk h q || (tcp_quirk th q || hasq q (o_quirks o)).
Proof. exact extract6. Qed.
Print Assumptions C03_packet6.

(* Option areas made of well-formed options (+ optional EOL and padding): kinds in wire order,
   last MSS / scale / own timestamp, EOL padding length, opt+ iff non-zero padding. *)
Theorem C03_options_wf : forall l t syn s fuel,
  Forall wf_opt l -> (length (enc_opts l ++ enc_tail t) <= fuel)%nat ->
  walk fuel (enc_opts l ++ enc_tail t) syn s = Some (expected syn l t s).
Proof. exact walk_complete. Qed.
Print Assumptions C03_options_wf.

(* ... with the option quirks in the documented wording (exws, ts1-, ts2+ only on an initial SYN, opt+). *)
Theorem C03_option_quirks : forall l t syn k,
  Forall wf_opt l ->
  hasq k (w_q (expected syn l t w0)) = true ->
  (k = qEXWS /\ exists v, In (WWs v) l /\ v > 14) \/
  (k = qZTS1 /\ exists b, In (WTs 0 b) l) \/
  (k = qNZTS2 /\ syn = true /\ exists a b, In (WTs a b) l /\ b <> 0) \/
  (k = qEOLNZ /\ exists pad, t = Some pad /\ all_zero pad = false).
Proof. exact option_quirks_documented. Qed.
Print Assumptions C03_option_quirks.

(* 'bad' is set exactly for the option areas that are not well-formed ... *)
Theorem C03_bad_iff : forall buf syn o,
  bytes buf -> parse_options buf syn = Ok o ->
  (hasq qBAD (o_quirks o) = true <-> ~ WellFormedArea buf).
Proof. exact parse_options_bad_iff. Qed.
Print Assumptions C03_bad_iff.

(* ... and a wrong-length MSS / WS / SACKOK / TS option is never turned into a value. *)
Theorem C03_malformed_no_value : forall fuel kind olen body syn s sz,
  fmt_size kind = Some sz -> kind <> 0 -> kind <> 1 -> kind <> 5 ->
  olen <> 2 + sz -> 2 <= olen -> olen - 2 <= len body ->
  walk (S fuel) (kind :: olen :: body) syn s =
  walk fuel (skipn (Z.to_nat (olen - 2)) body) syn (w_quirk qBAD (w_push kind s)).
Proof. exact wrong_length_no_value. Qed.
Print Assumptions C03_malformed_no_value.

Example C03_example :
  parse_options [2; 4; 5; 180; 4; 2; 8; 10; 0; 0; 0; 0; 0; 0; 0; 7; 1; 3; 3; 15; 0; 0; 9; 0] true =
    Ok {| o_layout := [2; 4; 8; 1; 3; 0]; o_quirks := mask_of [qZTS1; qNZTS2; qEXWS; qEOLNZ]; o_mss := 1460; o_ts1 := 0; o_ws := 15; o_eol := 3 |} /\
  (exists o, parse_options [2; 3; 5; 1] true = Ok o /\ hasq qBAD (o_quirks o) = true /\ o_mss o = 0).
Proof. split; [vm_compute; reflexivity | eexists; vm_compute; repeat split]. Qed.

(* Bytes after the end of the datagram (IPv4 total length / IPv6 40 + payload length) -- the padding of a short Ethernet frame --
   are not part of the packet: a datagram followed by ANY trailer is read exactly as the datagram alone, so every theorem above
   about [parse_datagram] holds for [parse_packet] (what fingerprint_* see) on the padded bytes. *)
Theorem C03_trailer_ignored : forall v b t,
  (v = 4 \/ v = 6) -> (if v =? 4 then ip4 b else ip6 b) <> None ->
  parse_packet v (b ++ t) = parse_datagram v b.
Proof. exact parse_packet_trailer. Qed.
Print Assumptions C03_trailer_ignored.
