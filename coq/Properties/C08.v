(* Property C08: MTU fingerprint and MTU impersonation agree on MSS + header size. *)
From PV Require Import Model.Prelude Model.Select Model.Mtu Proofs.MtuP.

(* MTU = MSS + 40 (IPv4) / + 60 (IPv6); earliest record with exactly that MTU, or no match. *)
Theorem C08_value_first : forall db frag ty ver mss recs,
  db = Some recs -> valid_mtu_fp frag ty mss = true ->
  exists m, fp_mtu db frag ty ver mss = Ok (mss + (if ver =? 4 then 40 else 60), m) /\
    (forall r, m = Some r <->
       exists pre post, recs = pre ++ r :: post /\ m_mtu r = mss + hdr_of ver /\
                        forall x, In x pre -> m_mtu x <> mss + hdr_of ver) /\
    (m = None <-> forall x, In x recs -> m_mtu x <> mss + hdr_of ver).
Proof. exact fp_mtu_value. Qed.
Print Assumptions C08_value_first.

(* Exactly non-fragment SYN / SYN+ACK with MSS > 0 are accepted. *)
Theorem C08_gate : forall db frag ty ver mss, 0 <= ty < 32 ->
  (fp_mtu db frag ty ver mss <> Err PacketError <->
   frag = false /\ 0 < mss /\ (ty = fSYN \/ ty = fSYN + fACK)).
Proof. exact fp_mtu_gate. Qed.
Print Assumptions C08_gate.

(* The MSS a dissector reads from the impersonated option list gives back m. *)
Theorem C08_roundtrip : forall m ver opts acc,
  last_mss (imp_mtu m ver opts) acc = m - hdr_of ver /\
  (0 < m - hdr_of ver -> last_mss (imp_mtu m ver opts) acc + hdr_of ver = m).
Proof. exact imp_mtu_roundtrip. Qed.
Print Assumptions C08_roundtrip.

(* Other options and their order are untouched; every former MSS position still holds an MSS. *)
Theorem C08_untouched : forall m ver opts,
  filter (fun o => negb (is_mss o)) (imp_mtu m ver opts) = filter (fun o => negb (is_mss o)) opts /\
  (existsb is_mss opts = true -> Forall2 (Kept (m - hdr_of ver)) opts (imp_mtu m ver opts)) /\
  (existsb is_mss opts = false -> imp_mtu m ver opts = OMss (m - hdr_of ver) :: opts).
Proof. exact imp_mtu_untouched. Qed.
Print Assumptions C08_untouched.

Example C08_example :
  fp_mtu (Some [{| m_line := 3; m_mtu := 1400 |}; {| m_line := 5; m_mtu := 1500 |}; {| m_line := 7; m_mtu := 1500 |}])
         false fSYN 4 1460 = Ok (1500, Some {| m_line := 5; m_mtu := 1500 |}) /\
  fp_mtu (Some []) false (fSYN + fACK) 6 1440 = Ok (1500, None) /\
  imp_mtu 1500 4 [OOther 1; OMss 536; OOther 2] = [OOther 1; OMss 1460; OOther 2] /\
  imp_mtu 1500 6 [OOther 1; OOther 2] = [OMss 1440; OOther 1; OOther 2].
Proof. vm_compute. auto. Qed.
