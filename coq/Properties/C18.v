(* Property C18: printed option layouts and quirk lists parse back to the same signature fields. *)
From Coq Require Import String.
From PV Require Import Model.Prelude Model.Bits Model.Text Model.SigParse Model.DbParse Model.Dump Model.Options
  Model.Sig Model.Matcher Proofs.TextP Proofs.DumpP Proofs.OptionsP Spec.C03 Proofs.SigTextP.

(* every layout over kinds 0..255 with any EOL padding, unknown kinds included *)
Theorem C18_layout : forall l pad,
  Forall (fun k => 0 <= k <= 255) l -> 0 <= pad <= 255 ->
  parse_layout (dump_layout l pad) = Ok (l, if existsb (Z.eqb 0) l then pad else 0).
Proof. exact parse_dump_layout. Qed.
Print Assumptions C18_layout.

(* all 2^17 quirk sets, for every IP version for which the set is legal *)
Theorem C18_quirks : forall q ver,
  (q < 2 ^ 17)%N -> N.land q (invalid_for ver) = 0%N -> parse_quirks (dump_quirks q) ver = Ok q.
Proof. exact parse_dump_quirks. Qed.
Print Assumptions C18_quirks.

(* decimal numbers printed by the dumper are read back by int() *)
Theorem C18_numbers : forall n, 0 <= n < 10 ^ 20 -> py_int (dec n) = Some n.
Proof. exact py_int_dec. Qed.
Print Assumptions C18_numbers.

(* so a signature written from an observed packet's own fields is accepted by the database parser and matches
   that packet exactly *)
Theorem C18_written_matches : forall p md,
  (p_ver p = 4 \/ p_ver p = 6) -> 1 <= p_ttl p <= 255 -> 0 <= p_olen p <= 255 -> 0 <= p_mss p <= 65535 ->
  0 <= p_ws p <= 255 -> 0 <= p_win p <= 65535 -> 0 <= p_eol_pad p <= 255 ->
  Forall (fun k => 0 <= k <= 255) (p_layout p) ->
  (existsb (Z.eqb 0) (p_layout p) = false -> p_eol_pad p = 0) ->
  (p_quirks p < 2 ^ 17)%N -> N.land (p_quirks p) (invalid_for (p_ver p)) = 0%N -> 0 <= md ->
  parse_tcp_sig (print_tcp_sig (sig_of_pkt p)) = Ok (sig_of_pkt p) /\
  tcp_match md (sig_of_pkt p) p = Some Exact.
Proof. exact written_signature_matches. Qed.
Print Assumptions C18_written_matches.

Local Open Scope string_scope.
Local Open Scope Z_scope.
Local Open Scope list_scope.
Example C18_example :
  dump_layout [2; 4; 8; 1; 3; 77; 0] 5 = str "mss,sok,ts,nop,ws,?77,eol+5" /\
  parse_layout (str "mss,sok,ts,nop,ws,?77,eol+5") = Ok ([2; 4; 8; 1; 3; 77; 0], 5) /\
  dump_quirks (mask_of [qDF; qNZID; qBAD]) = str "df,id+,bad" /\
  parse_quirks (str "df,id+,bad") 4 = Ok (mask_of [qDF; qNZID; qBAD]) /\
  parse_quirks (str "df,flow") 4 = Err FieldError.
Proof. vm_compute. repeat split; reflexivity. Qed.
