(* placeholder: replaced below *)
From PV Require Import Model.Prelude.
Example C05_placeholder : 1 = 1. Proof. reflexivity. Qed.
