(* Property C05: impersonate_tcp output is fingerprinted as the requested signature.
   The full statement (every satisfiable signature, every admissible base) is FALSE of the code: see the
   C05_refuted_* examples, one per known-finding class, each a concrete satisfiable signature + admissible base +
   tape on which the faithful model's output does not pass the oracle.  What holds, and is proved for every random
   tape, is the statement restricted to the decidable class Supported (and quirk-coherent) signatures. *)
From Coq Require Import String.
From PV Require Import Model.Prelude Model.Bits Model.Sig Model.Matcher Model.Select Model.Options Model.Wire Model.Text Model.SigParse Model.Imperson
  Spec.C01 Spec.C05 Proofs.ImpSoundP Proofs.SatCohP Proofs.Refuted.

(* C05_supported_sound: the packet built by the impersonator, written to the wire as Scapy does and dissected as pyp0f
   does, is matched by the requested signature EXACTLY at TTL distance extra_hops -- for every supported, coherent
   signature, every admissible base packet, every extra_hops below the signature TTL and within max distance, every tape. *)
Theorem C05_supported_sound : forall md s b hops mtu t x t',
  wf_sig s -> supported_b s = true -> coherent_b s b = true -> admissible_base b ->
  0 <= hops < s_ttl s -> hops <= md ->
  imp_tcp s b hops mtu None t = Ok (x, t') ->
  oracle md s x = Ok (Some Exact, hops).
Proof. exact supported_sound. Qed.
Print Assumptions C05_supported_sound.

(* The same in the property's own terms: "satisfiable" = some real packet of the base's IP version and SYN / SYN+ACK type
   matches the signature exactly.  Quirk coherence is a CONSEQUENCE of satisfiability (C05_coherence_from_satisfiability). *)
Theorem C05_satisfiable_supported_sound : forall md s b hops mtu t x t',
  wf_sig s -> (s_quirks s < 2 ^ 17)%N -> N.land (s_quirks s) (invalid_for (s_ver s)) = 0%N ->
  supported_b s = true -> admissible_base b -> Satisfiable md s b ->
  0 <= hops < s_ttl s -> hops <= md ->
  imp_tcp s b hops mtu None t = Ok (x, t') ->
  oracle md s x = Ok (Some Exact, hops).
Proof. exact satisfiable_supported_sound. Qed.
Print Assumptions C05_satisfiable_supported_sound.

Theorem C05_coherence_from_satisfiability : forall md s b,
  wf_sig s -> (s_quirks s < 2 ^ 17)%N -> N.land (s_quirks s) (invalid_for (s_ver s)) = 0%N ->
  supported_b s = true -> admissible_base b -> Satisfiable md s b ->
  coherent_b s b = true.
Proof. exact satisfiable_coherent. Qed.
Print Assumptions C05_coherence_from_satisfiability.

(* ... and it does not raise: the only failure of the model is a random tape that is too short or out of range *)
Theorem C05_supported_no_raise : forall s b hops mtu t,
  wf_sig s -> supported_b s = true -> coherent_b s b = true -> admissible_base b ->
  0 <= hops < s_ttl s ->
  (exists x t', imp_tcp s b hops mtu None t = Ok (x, t')) \/ imp_tcp s b hops mtu None t = Err OutOfFuel.
Proof. exact supported_no_raise. Qed.
Print Assumptions C05_supported_no_raise.

(* KF-olen: signature with IP option length != 0: the output has no IP options, so olen differs and nothing matches *)
Example C05_refuted_olen :
  exists s k, parse_tcp_sig refuted_olen_sig = Ok s /\
    parse_datagram 4 refuted_olen_witness = Framed (Ok k) /\ tcp_match 35 s (sig_of k 0) = Some Exact /\
    t_type (k_tcp k) = Z.land (b_flags refuted_olen_base) 18 /\ admissible_base refuted_olen_base /\
    match imp_tcp s refuted_olen_base 0 1500 None refuted_olen_tape with
    | Ok (x, _) => oracle 35 s x <> Ok (Some Exact, 0)
    | Err e => e <> OutOfFuel
    end.
Proof. exact refuted_olen. Qed.

(* KF-unknown-kind: layout with a ?n option kind: the option is silently dropped, the layout differs *)
Example C05_refuted_unknown_kind :
  exists s k, parse_tcp_sig refuted_unknown_kind_sig = Ok s /\
    parse_datagram 4 refuted_unknown_kind_witness = Framed (Ok k) /\ tcp_match 35 s (sig_of k 0) = Some Exact /\
    t_type (k_tcp k) = Z.land (b_flags refuted_unknown_kind_base) 18 /\ admissible_base refuted_unknown_kind_base /\
    match imp_tcp s refuted_unknown_kind_base 0 1500 None refuted_unknown_kind_tape with
    | Ok (x, _) => oracle 35 s x <> Ok (Some Exact, 0)
    | Err e => e <> OutOfFuel
    end.
Proof. exact refuted_unknown_kind. Qed.

(* KF-eol-pad: eol+n with n other than the zero padding Scapy adds up to a multiple of 4: the EOL padding length differs *)
Example C05_refuted_eol_pad :
  exists s k, parse_tcp_sig refuted_eol_pad_sig = Ok s /\
    parse_datagram 4 refuted_eol_pad_witness = Framed (Ok k) /\ tcp_match 35 s (sig_of k 0) = Some Exact /\
    t_type (k_tcp k) = Z.land (b_flags refuted_eol_pad_base) 18 /\ admissible_base refuted_eol_pad_base /\
    match imp_tcp s refuted_eol_pad_base 0 1500 None refuted_eol_pad_tape with
    | Ok (x, _) => oracle 35 s x <> Ok (Some Exact, 0)
    | Err e => e <> OutOfFuel
    end.
Proof. exact refuted_eol_pad. Qed.

(* KF-opt+: opt+ (non-zero bytes after EOL) is never produced *)
Example C05_refuted_optplus :
  exists s k, parse_tcp_sig refuted_optplus_sig = Ok s /\
    parse_datagram 4 refuted_optplus_witness = Framed (Ok k) /\ tcp_match 35 s (sig_of k 0) = Some Exact /\
    t_type (k_tcp k) = Z.land (b_flags refuted_optplus_base) 18 /\ admissible_base refuted_optplus_base /\
    match imp_tcp s refuted_optplus_base 0 1500 None refuted_optplus_tape with
    | Ok (x, _) => oracle 35 s x <> Ok (Some Exact, 0)
    | Err e => e <> OutOfFuel
    end.
Proof. exact refuted_optplus. Qed.

(* KF-bad: 'bad' (malformed option) is never produced *)
Example C05_refuted_bad :
  exists s k, parse_tcp_sig refuted_bad_sig = Ok s /\
    parse_datagram 4 refuted_bad_witness = Framed (Ok k) /\ tcp_match 35 s (sig_of k 0) = Some Exact /\
    t_type (k_tcp k) = Z.land (b_flags refuted_bad_base) 18 /\ admissible_base refuted_bad_base /\
    match imp_tcp s refuted_bad_base 0 1500 None refuted_bad_tape with
    | Ok (x, _) => oracle 35 s x <> Ok (Some Exact, 0)
    | Err e => e <> OutOfFuel
    end.
Proof. exact refuted_bad. Qed.

(* KF-sack: SACK length is drawn without regard to the 40-byte option area: with other options present the header can overflow / the packet is not well framed *)
Example C05_refuted_sack :
  exists s k, parse_tcp_sig refuted_sack_sig = Ok s /\
    parse_datagram 4 refuted_sack_witness = Framed (Ok k) /\ tcp_match 35 s (sig_of k 0) = Some Exact /\
    t_type (k_tcp k) = Z.land (b_flags refuted_sack_base) 18 /\ admissible_base refuted_sack_base /\
    match imp_tcp s refuted_sack_base 0 1500 None refuted_sack_tape with
    | Ok (x, _) => oracle 35 s x <> Ok (Some Exact, 0)
    | Err e => e <> OutOfFuel
    end.
Proof. exact refuted_sack. Qed.

(* KF-repeated-option: a value option occurring twice (e.g. ws,ws with exws from the first and the scale from the last): every copy gets the same value *)
Example C05_refuted_repeated_option :
  exists s k, parse_tcp_sig refuted_repeated_option_sig = Ok s /\
    parse_datagram 4 refuted_repeated_option_witness = Framed (Ok k) /\ tcp_match 35 s (sig_of k 0) = Some Exact /\
    t_type (k_tcp k) = Z.land (b_flags refuted_repeated_option_base) 18 /\ admissible_base refuted_repeated_option_base /\
    match imp_tcp s refuted_repeated_option_base 0 1500 None refuted_repeated_option_tape with
    | Ok (x, _) => oracle 35 s x <> Ok (Some Exact, 0)
    | Err e => e <> OutOfFuel
    end.
Proof. exact refuted_repeated_option. Qed.

(* KF-window-search: mss*N with an MSS for which MSS*N does not fit 16 bits or a free MSS that must avoid earlier divisors, and mtu*N: a satisfying window/MSS pair exists but must be searched; the code writes MSS*N or mtu*N blindly *)
Example C05_refuted_window_search :
  exists s k, parse_tcp_sig refuted_window_search_sig = Ok s /\
    parse_datagram 4 refuted_window_search_witness = Framed (Ok k) /\ tcp_match 35 s (sig_of k 0) = Some Exact /\
    t_type (k_tcp k) = Z.land (b_flags refuted_window_search_base) 18 /\ admissible_base refuted_window_search_base /\
    match imp_tcp s refuted_window_search_base 0 1500 None refuted_window_search_tape with
    | Ok (x, _) => oracle 35 s x <> Ok (Some Exact, 0)
    | Err e => e <> OutOfFuel
    end.
Proof. exact refuted_window_search. Qed.

(* non-vacuity of the Supported class: a signature from the shipped database *)
Local Open Scope string_scope.
Local Open Scope Z_scope.
Local Open Scope list_scope.
Example C05_supported_example :
  match parse_tcp_sig (str "*:64:0:*:mss*20,7:mss,sok,ts,nop,ws:df,id+:0") with
  | Ok s => supported_b s = true /\   (* wf_sig s follows from C10_ranges_tcp *)
      let b := {| b_ver := 4; b_src := [10; 0; 0; 1]; b_dst := [10; 0; 0; 2]; b_id := 0; b_ipflags := 0; b_frag := 0; b_proto := 6; b_sport := 1234;
                  b_dport := 80; b_seq := 0; b_ack := 0; b_flags := 194; b_urg := 0; b_win := 512; b_mss := Some 1400; b_ws := None;
                  b_ts1 := None; b_ts2 := Some 7; b_payload := [65] |} in
      coherent_b s b = true /\
      match imp_tcp s b 3 1500 None [4242; 99; 123456] with
      | Ok (x, _) => oracle 35 s x = Ok (Some Exact, 3)
      | Err _ => False
      end
  | Err _ => False
  end.
Proof. vm_compute. repeat split; reflexivity. Qed.
