(* Property C15: records are addressable by the label text shown in the database. *)
From Coq Require Import String.
From PV Require Import Model.Prelude Model.Bits Model.Text Model.SigParse Model.DbParse Model.Dump Proofs.TextP Proofs.LabelsP.

(* type:class:name:flavour (colon-free parts, names/flavours with spaces and punctuation, empty
   flavour) parses to its components and dumps back to exactly the same text *)
Theorem C15_roundtrip : forall (g : bool) c n f,
  colon_free c -> colon_free n -> colon_free f ->
  let t := join [58] [(if g then [103] else [115]); c; n; f] in
  parse_os_label t = Ok (LOs g c n f []) /\ dump_label (LOs g c n f []) = t.
Proof. exact label_roundtrip. Qed.
Print Assumptions C15_roundtrip.

(* the sys list does not take part in the label text *)
Theorem C15_sys_irrelevant : forall l s, dump_label (set_sys l s) = dump_label l.
Proof. exact dump_label_set_sys. Qed.
Print Assumptions C15_sys_irrelevant.

(* a lookup returns only records of the requested list whose dumped label equals the text exactly *)
Theorem C15_sound : forall raw sec pick r,
  lookup raw sec pick = Ok r -> exists recs, sec = Some recs /\ In r recs /\ dump_label (rc_label r) = raw.
Proof. exact lookup_sound. Qed.
Print Assumptions C15_sound.

(* ... can return every such record (for some random choice) ... *)
Theorem C15_complete : forall raw recs r,
  In r recs -> dump_label (rc_label r) = raw ->
  exists pick, (pick < length (candidates raw recs))%nat /\ lookup raw (Some recs) pick = Ok r.
Proof. exact lookup_complete. Qed.
Print Assumptions C15_complete.

Theorem C15_in_range : forall raw recs pick,
  (pick < length (candidates raw recs))%nat -> exists r, lookup raw (Some recs) pick = Ok r.
Proof. exact lookup_in_range. Qed.
Print Assumptions C15_in_range.

(* ... and raises DatabaseError when there is none (or nothing is loaded) *)
Theorem C15_none : forall raw recs pick,
  (forall r, In r recs -> dump_label (rc_label r) <> raw) -> lookup raw (Some recs) pick = Err DatabaseError.
Proof. exact lookup_none. Qed.
Print Assumptions C15_none.
Theorem C15_unloaded : forall raw pick, lookup raw None pick = Err DatabaseError.
Proof. exact lookup_unloaded. Qed.
Print Assumptions C15_unloaded.

Local Open Scope string_scope.
Local Open Scope Z_scope.
Local Open Scope list_scope.
Example C15_example :
  parse_os_label (str "s:unix:Mac OS X:10.x (a, b)") = Ok (LOs false (str "unix") (str "Mac OS X") (str "10.x (a, b)") []) /\
  dump_label (LOs true (str "!") (str "curl") [] [str "Linux"]) = str "g:!:curl:" /\
  parse_os_label (str "x:unix:L:1") = Err FieldError.
Proof. vm_compute. repeat split; reflexivity. Qed.
