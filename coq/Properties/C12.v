(* Property C12 (partial, see DESIGN.md): fingerprinting and TCP impersonation never modify the
   caller's objects.  The theorem is a frame property of a heap model of which objects each call
   allocates, reads and writes; the runtime half (Scapy/h11 object behaviour) is carried by the
   before/after monitor of the correspondence check. *)
From PV Require Import Model.Prelude Model.Frame Proofs.FrameP Model.Text Model.SigParse Model.DbParse Model.DbState Model.Api Proofs.ApiP.

Theorem C12_frame : forall h cs k,
  (k < length h)%nat -> (forall c, In c cs -> mtu_target c k = false) ->
  nth_error (run_calls h cs) k = nth_error h k.
Proof. exact frame. Qed.
Print Assumptions C12_frame.

Theorem C12_impersonate_tcp_new_packet : forall h i nb no,
  nth_error (exec_call h (CImpersonateTcp i nb no)) (length h) = Some (Pkt nb no).
Proof. exact impersonate_tcp_fresh. Qed.
Print Assumptions C12_impersonate_tcp_new_packet.

(* no call other than load changes the database *)
Theorem C12_database_untouched : forall d o, (forall lines, o <> Load lines) -> fst (exec d o) = d.
Proof. exact non_load_preserves. Qed.
Print Assumptions C12_database_untouched.

Example C12_example :
  run_calls [Pkt [1; 2] [9]; Buf [71; 69; 84] 0] [CFingerprintPacket 0; CFingerprintHttp 1 3; CImpersonateTcp 0 [7] [8]]
  = [Pkt [1; 2] [9]; Buf [71; 69; 84] 0; Pkt [1; 2] [9]; Buf [71; 69; 84] 3; Pkt [7] [8]].
Proof. vm_compute. reflexivity. Qed.
