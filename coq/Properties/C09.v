(* Property C09: loading a database yields exactly the records written in the file. *)
From Coq Require Import String.
From PV Require Import Model.Prelude Model.Bits Model.Sig Model.Text Model.SigParse Model.DbParse Model.Dump
  Model.Matcher Spec.C01 Spec.C09 Proofs.DbParseP Proofs.DumpP Proofs.LabelsP Proofs.SigTextP Proofs.HttpSigP.

(* After a successful load, for each of the five sections the records are, in file order, exactly
   the sig lines the scanner attributes to that section: same line number, most recent label (with
   its sys list), raw text, and the structured signature is the parse of that text; len(db) is the
   number of sig lines -- also when a section header occurs more than once. *)
Theorem C09_bijection : forall ls d, parse_file ls = Ok d ->
  (forall sec, In sec canonical_sections ->
     Forall2 Corresponds (recs_of (section_of d sec)) (in_section sec (spec_records ls))) /\
  db_len d = Z.of_nat (length (spec_records ls)) /\
  length (spec_records ls) = length (filter is_sig_line ls).
Proof. exact parse_file_records. Qed.
Print Assumptions C09_bijection.

(* the same statement for the file as a text: the lines are those Python's text-mode iteration yields
   (universal newlines: "\n", "\r\n" and a lone "\r" end a line; nothing else does) *)
Theorem C09_bijection_text : forall t d, parse_text t = Ok d ->
  (forall sec, In sec canonical_sections ->
     Forall2 Corresponds (recs_of (section_of d sec)) (in_section sec (spec_records (file_lines t)))) /\
  db_len d = Z.of_nat (length (spec_records (file_lines t))) /\
  length (spec_records (file_lines t)) = length (filter is_sig_line (file_lines t)).
Proof. exact parse_text_records. Qed.
Print Assumptions C09_bijection_text.
Theorem C09_file_lines : forall ls, Forall nl_free ls ->
  file_lines (concat (map (fun l => l ++ [10]) ls)) = ls.
Proof. exact file_lines_join. Qed.
Print Assumptions C09_file_lines.

(* what a structured TCP signature denotes: every accepted text lies in the documented ranges *)
Theorem C09_tcp_sig_ranges : forall t s, parse_tcp_sig t = Ok s ->
  wf_sig s /\ Forall (fun k => 0 <= k <= 255) (s_layout s) /\
  (s_quirks s < 2 ^ 17)%N /\ N.land (s_quirks s) (invalid_for (s_ver s)) = 0%N.
Proof. exact parse_tcp_sig_wf. Qed.
Print Assumptions C09_tcp_sig_ranges.

(* C09_sig_roundtrip: every structured TCP signature within the documented ranges denotes exactly what its text
   denotes in the p0f grammar (every field, wildcard, ttl form, window form, option, quirk) *)
Theorem C09_sig_roundtrip : forall s, printable s -> parse_tcp_sig (print_tcp_sig s) = Ok s.
Proof. exact parse_print_tcp_sig. Qed.
Print Assumptions C09_sig_roundtrip.

(* ... and the same for HTTP signatures: version, required/optional headers with or without bracketed values
   (commas allowed inside the brackets), absent list, software *)
Theorem C09_http_sig_roundtrip : forall h, printable_http h -> parse_http_sig (print_http_sig h) = Ok (encode_http h).
Proof. exact parse_print_http_sig. Qed.
Print Assumptions C09_http_sig_roundtrip.
Theorem C09_http_sig_roundtrip_ascii : forall h, printable_http h ->
  Forall (fun x => ascii_text (sh_name x) /\ match sh_value x with Some v => ascii_text v | None => True end) (hs_headers h) ->
  Forall ascii_text (hs_absent h) -> match hs_software h with Some s => ascii_text s | None => True end ->
  parse_http_sig (print_http_sig h) = Ok h.
Proof. exact parse_print_http_sig_ascii. Qed.
Print Assumptions C09_http_sig_roundtrip_ascii.

(* option layouts and quirk lists denote what their text says (printer/parser round trip) *)
Theorem C09_layout_text : forall l pad,
  Forall (fun k => 0 <= k <= 255) l -> 0 <= pad <= 255 ->
  parse_layout (dump_layout l pad) = Ok (l, if existsb (Z.eqb 0) l then pad else 0).
Proof. exact parse_dump_layout. Qed.
Print Assumptions C09_layout_text.
Theorem C09_quirks_text : forall q ver,
  (q < 2 ^ 17)%N -> N.land q (invalid_for ver) = 0%N -> parse_quirks (dump_quirks q) ver = Ok q.
Proof. exact parse_dump_quirks. Qed.
Print Assumptions C09_quirks_text.
Theorem C09_label_text : forall (g : bool) c n f,
  colon_free c -> colon_free n -> colon_free f ->
  let t := join [58] [(if g then [103] else [115]); c; n; f] in
  parse_os_label t = Ok (LOs g c n f []) /\ dump_label (LOs g c n f []) = t.
Proof. exact label_roundtrip. Qed.
Print Assumptions C09_label_text.

Local Open Scope string_scope.
Local Open Scope Z_scope.
Local Open Scope list_scope.
Example C09_example :
  let f := [str "[mtu]"; str "label = A"; str "sig = 1500"; str "[tcp:request]"; str "label = s:unix:L:3"; str "sig = *:64:0:*:mss*20,7:mss::0";
            str "; c"; str "[mtu]"; str "label = B"; str "sig = 1400"] in
  (exists d, parse_file f = Ok d /\ db_len d = 3 /\
     map rc_line (recs_of (d_mtu d)) = [3; 10] /\ map rc_line (recs_of (d_tcp_req d)) = [6]) /\
  length (spec_records f) = 3%nat.
Proof. split; [eexists; vm_compute; repeat split; reflexivity | vm_compute; reflexivity]. Qed.
