(* Property C14: impersonation keeps the connection identity and every admissible hint.
   Per field: a value the signature fixes overrides the hint; an admissible hint is kept; an inadmissible or missing
   hint is replaced by an admissible value -- for EVERY random tape.  (Statements about the impersonation model.) *)
From PV Require Import Model.Prelude Model.Bits Model.Sig Model.Options Model.Imperson Proofs.ImpFieldsP.

(* connection identity *)
Theorem C14_identity : forall s b hops mtu up t x t',
  imp_tcp s b hops mtu up t = Ok (x, t') ->
  x_src x = b_src b /\ x_dst x = b_dst b /\ x_sport x = b_sport b /\ x_dport x = b_dport b /\ x_ver x = b_ver b /\
  x_ttl x = s_ttl s - hops.
Proof. exact imp_identity. Qed.
Print Assumptions C14_identity.

(* SYN bit kept; ACK bit kept unless ack+ / ack- dictate it *)
Theorem C14_syn_ack_nature : forall s b hops mtu up t x t',
  0 <= b_flags b < 512 ->
  imp_tcp s b hops mtu up t = Ok (x, t') ->
  Z.land (x_flags x) 2 = Z.land (b_flags b) 2 /\
  Z.land (x_flags x) 16 = (if hasq qNZACK (s_quirks s) then 0 else if hasq qZACK (s_quirks s) then 16 else Z.land (b_flags b) 16).
Proof. exact imp_flags. Qed.
Print Assumptions C14_syn_ack_nature.

(* sequence number: zero iff seq-, the base's own when it is non-zero *)
Theorem C14_sequence_number : forall s b hops mtu up t x t',
  imp_tcp s b hops mtu up t = Ok (x, t') ->
  (hasq qZSEQ (s_quirks s) = true -> x_seq x = 0) /\
  (hasq qZSEQ (s_quirks s) = false -> b_seq b <> 0 -> x_seq x = b_seq b) /\
  (hasq qZSEQ (s_quirks s) = false -> x_seq x <> 0).
Proof. exact imp_seq. Qed.
Print Assumptions C14_sequence_number.


Theorem C14_mss : forall s b up layout t opts t',
  imp_options s b up layout t = Ok (opts, t') -> In 2 layout ->
  exists v, out_mss opts = Some v /\
    (s_mss s <> -1 -> v = s_mss s) /\
    (s_mss s = -1 -> forall h, b_mss b = Some h -> fst (mss_bounds s) <= h <= snd (mss_bounds s) -> v = h) /\
    (s_mss s = -1 -> (b_mss b = None \/ exists h, b_mss b = Some h /\ ~ (fst (mss_bounds s) <= h <= snd (mss_bounds s))) ->
       100 <= v <= snd (mss_bounds s)).
Proof. exact imp_mss. Qed.
Print Assumptions C14_mss.


Theorem C14_window_scale : forall s b up layout t opts t',
  imp_options s b up layout t = Ok (opts, t') -> In 3 layout ->
  exists v, out_ws opts = Some v /\
    (s_wscale s <> -1 -> v = s_wscale s) /\
    (s_wscale s = -1 -> forall h, b_ws b = Some h -> ws_admissible s h -> v = h) /\
    (s_wscale s = -1 -> ws_admissible s v).
Proof. exact imp_ws. Qed.
Print Assumptions C14_window_scale.

(* timestamps *)
Theorem C14_timestamps : forall s b layout t opts t',
  imp_options s b None layout t = Ok (opts, t') -> In 8 layout ->
  exists t1 t2, out_ts opts = Some (t1, t2) /\
    (hasq qZTS1 (s_quirks s) = true -> t1 = 0) /\
    (hasq qZTS1 (s_quirks s) = false -> t1 <> 0 /\ forall h, b_ts1 b = Some h -> 0 < h < 4294967296 -> t1 = h) /\
    (is_syn_base b = true -> (hasq qNZTS2 (s_quirks s) = true -> t2 <> 0 /\ forall h, b_ts2 b = Some h -> 0 < h < 4294967296 -> t2 = h)
                             /\ (hasq qNZTS2 (s_quirks s) = false -> t2 = 0)) /\
    (is_syn_base b = false -> forall h, b_ts2 b = Some h -> 0 <= h < 4294967296 -> t2 = h).
Proof. exact imp_ts. Qed.
Print Assumptions C14_timestamps.


Theorem C14_window : forall s b hops mtu up t x t',
  imp_tcp s b hops mtu up t = Ok (x, t') ->
  (s_wtype s = WAny -> x_win x = b_win b) /\ (s_wtype s = WNormal -> x_win x = s_wsize s).
Proof. exact imp_window_any. Qed.
Print Assumptions C14_window.

(* IPv4 id *)
Theorem C14_ip_id : forall s b hops mtu up t x t',
  b_ver b <> 6 ->
  imp_tcp s b hops mtu up t = Ok (x, t') ->
  let q := s_quirks s in
  (hasq qDF q = true -> hasq qNZID q = true -> x_id x <> 0 /\ (b_id b <> 0 -> x_id x = b_id b)) /\
  (hasq qDF q = true -> hasq qNZID q = false -> x_id x = 0) /\
  (hasq qDF q = false -> hasq qZID q = true -> x_id x = 0) /\
  (hasq qDF q = false -> hasq qZID q = false -> x_id x <> 0 /\ (b_id b <> 0 -> x_id x = b_id b)).
Proof. exact imp_ip_id. Qed.
Print Assumptions C14_ip_id.

(* payload *)
Theorem C14_payload : forall s b hops mtu up t x t',
  imp_tcp s b hops mtu up t = Ok (x, t') ->
  (s_pay s = -1 -> x_payload x = b_payload b) /\
  (s_pay s = 0 -> x_payload x = []) /\
  (s_pay s <> -1 -> s_pay s <> 0 -> (b_payload b <> [] -> x_payload x = b_payload b) /\ x_payload x <> []).
Proof. exact imp_payload_spec. Qed.
Print Assumptions C14_payload.

Example C14_example :
  let s := {| s_ver := 4; s_olen := 0; s_ttl := 64; s_bad_ttl := false; s_wtype := WNormal; s_wsize := 8192; s_wscale := -1;
              s_layout := [2; 3; 8; 1]; s_mss := -1; s_eol_pad := 0; s_pay := 0; s_quirks := mask_of [qDF; qNZID] |} in
  let b := {| b_ver := 4; b_src := [10; 0; 0; 1]; b_dst := [10; 0; 0; 2]; b_id := 7; b_ipflags := 2; b_frag := 0; b_proto := 6; b_sport := 1234;
              b_dport := 80; b_seq := 1000; b_ack := 0; b_flags := 2; b_urg := 0; b_win := 512; b_mss := Some 1400; b_ws := Some 15;
              b_ts1 := Some 97256; b_ts2 := Some 5; b_payload := [] |} in
  match imp_tcp s b 0 1500 None [9] with
  | Ok (x, _) => x_opts x = [OoMss 1400; OoWs 9; OoTs 97256 0; OoNop] /\ x_id x = 7 /\ x_seq x = 1000
  | Err _ => False
  end.
Proof. vm_compute. repeat split; reflexivity. Qed.
