(* placeholder: replaced below *)
From PV Require Import Model.Prelude.
Example C14_placeholder : 1 = 1. Proof. reflexivity. Qed.
