(* Property C16: fingerprint results are a pure function of (input, database, options). *)
From PV Require Import Model.Prelude Model.Text Model.SigParse Model.DbParse Model.DbState Model.Api Proofs.ApiP.

(* the result of a call after ANY history of loads, fingerprints and impersonations is its
   history-free value on the database of the last successful load *)
Theorem C16_history : forall d h o,
  last (snd (run_ops d (h ++ [o]))) ONone = pure_out (last_loaded d h) o.
Proof. exact history_independence. Qed.
Print Assumptions C16_history.

Theorem C16_same_load_same_result : forall d h1 h2 o,
  last_loaded d h1 = last_loaded d h2 ->
  last (snd (run_ops d (h1 ++ [o]))) ONone = last (snd (run_ops d (h2 ++ [o]))) ONone.
Proof. exact same_load_same_result. Qed.
Print Assumptions C16_same_load_same_result.

(* fingerprinting and impersonating leave the database as it is; repeating a call repeats its result *)
Theorem C16_non_load_preserves : forall d o, (forall lines, o <> Load lines) -> fst (exec d o) = d.
Proof. exact non_load_preserves. Qed.
Print Assumptions C16_non_load_preserves.
Theorem C16_repeat : forall d o, (forall lines, o <> Load lines) -> snd (exec (fst (exec d o)) o) = snd (exec d o).
Proof. exact repeat_same. Qed.
Print Assumptions C16_repeat.
