(* Property C06: HTTP signature matching and selection follow the p0f rules. *)
From Coq Require Import String.
From PV Require Import Model.Prelude Model.Text Model.SigParse Model.DbParse Model.HttpRead Model.HttpMatch Spec.C06 Proofs.HttpMatchP.

(* the header walk: each signature header is found at or after the previous match, the demanded
   substring lies inside that first occurrence, an optional header may be missing only if it
   occurs nowhere *)
Theorem C06_walk : forall sh all rest, headers_match sh all rest = true <-> Walk all sh rest.
Proof. exact headers_match_walk. Qed.
Print Assumptions C06_walk.

(* a signature matches exactly when version, required headers, absent headers and the walk agree *)
Theorem C06_match_iff : forall s ver hs, http_sig_match s ver hs = true <-> Matches s ver hs.
Proof. exact http_sig_match_iff. Qed.
Print Assumptions C06_match_iff.

Theorem C06_substring : forall v t, infix v t = true <-> Contains v t.
Proof. exact infix_spec. Qed.
Print Assumptions C06_substring.

(* earliest non-generic match, else the earliest generic one *)
Theorem C06_select : forall ver hs recs, find_http_loop ver hs recs None = select_spec ver hs recs.
Proof. exact find_http_select. Qed.
Print Assumptions C06_select.

(* software string = first non-empty User-Agent value, else first Server value *)
Theorem C06_software : forall hs sw,
  software hs = Some sw <->
  (FirstValue (str "user-agent") hs sw /\ sw <> []) \/
  ((NoHeader (str "user-agent") hs \/ FirstValue (str "user-agent") hs []) /\ FirstValue (str "server") hs sw).
Proof. exact software_spec. Qed.
Print Assumptions C06_software.

(* dishonest exactly when the record expects a software string, the message has one, and it is not contained *)
Theorem C06_dishonest_iff : forall m hs,
  dishonest m hs = true <->
  exists r s sw e, m = Some r /\ http_of r = Some s /\ software hs = Some sw /\ hs_software s = Some e /\ ~ Contains e sw.
Proof. exact dishonest_iff. Qed.
Print Assumptions C06_dishonest_iff.

(* fingerprint_http: request or response section by the first line *)
Theorem C06_fingerprint : forall d data dir ver hs,
  read_payload data = Ok (dir, ver, hs) ->
  fp_http d data =
  match (match dir with Request => d_http_req d | Response => d_http_resp d end) with
  | None => Err DatabaseError
  | Some recs => Ok (select_spec ver hs recs, dishonest (select_spec ver hs recs) hs, (dir, ver, hs))
  end.
Proof. exact fp_http_spec. Qed.
Print Assumptions C06_fingerprint.

Local Open Scope string_scope.
Local Open Scope Z_scope.
Local Open Scope list_scope.
Example C06_example :
  let hs := [{| ph_name := str "Host"; ph_value := str "a" |}; {| ph_name := str "ACCEPT"; ph_value := str "text/html" |};
             {| ph_name := str "User-Agent"; ph_value := str "curl/7" |}] in
  let sh n o v := {| sh_name := str n; sh_optional := o; sh_value := v |} in
  headers_match [sh "host" false None; sh "Accept" false (Some (str "html")); sh "Via" true None] hs hs = true /\
  headers_match [sh "Accept" false None; sh "Host" false None] hs hs = false /\
  headers_match [sh "Accept" false None; sh "Host" true None] hs hs = false /\
  software hs = Some (str "curl/7").
Proof. vm_compute. repeat split; reflexivity. Qed.
