(* Property C04: any packet or payload yields a result or PacketError, in bounded time. *)
From Coq Require Import String.
From PV Require Import Model.Prelude Model.Bits Model.Options Model.Text Model.HttpRead Model.HttpMatch Model.DbParse
  Model.Sig Model.Select Model.Wire Model.Mtu Model.Uptime
  Spec.C03 Proofs.OptionsP Proofs.HttpReadP Proofs.HttpMatchP Proofs.TotalP.

(* termination: one loop iteration per option byte suffices, for every byte string *)
Theorem C04_walk_fuel : forall fuel buf syn s, (length buf <= fuel)%nat -> walk fuel buf syn s <> None.
Proof. exact walk_fuel. Qed.
Print Assumptions C04_walk_fuel.
Theorem C04_options_total : forall buf syn, exists o, parse_options buf syn = Ok o.
Proof. exact parse_options_total. Qed.
Print Assumptions C04_options_total.

(* memory: the option layout never has more entries than there are option bytes *)
Theorem C04_layout_le : forall fuel buf syn s s',
  walk fuel buf syn s = Some s' -> (length (w_rlayout s') <= length (w_rlayout s) + length buf)%nat.
Proof. exact walk_layout_len. Qed.
Print Assumptions C04_layout_le.

(* packets: whatever bytes the dissector model accepts as a datagram, it yields a packet or
   PacketError, and the three packet fingerprints yield a result, PacketError, or (database not
   loaded) DatabaseError -- nothing else, no fuel exhaustion *)
Theorem C04_packet_total : forall v b r,
  parse_datagram v b = Framed r -> (exists k, r = Ok k) \/ r = Err PacketError.
Proof. exact parse_datagram_total. Qed.
Print Assumptions C04_packet_total.
Theorem C04_fp_tcp_total : forall md db frag ty p,
  (exists r, fp_tcp md db frag ty p = Ok r) \/ fp_tcp md db frag ty p = Err PacketError \/ fp_tcp md db frag ty p = Err DatabaseError.
Proof. exact fp_tcp_total. Qed.
Print Assumptions C04_fp_tcp_total.
Theorem C04_fp_mtu_total : forall db frag ty ver mss,
  (exists r, fp_mtu db frag ty ver mss = Ok r) \/ fp_mtu db frag ty ver mss = Err PacketError \/ fp_mtu db frag ty ver mss = Err DatabaseError.
Proof. exact fp_mtu_total. Qed.
Print Assumptions C04_fp_mtu_total.
Theorem C04_uptime_total : forall o frag ty ts last ms,
  (exists r, uptime o frag ty ts last ms = Ok r) \/ uptime o frag ty ts last ms = Err PacketError.
Proof. exact uptime_total. Qed.
Print Assumptions C04_uptime_total.

(* HTTP: for EVERY byte string the reader returns a result or PacketError (no other exception:
   in particular payloads starting with CR/LF, bare LF, folded lines, non-ASCII bytes) *)
Theorem C04_http_total : forall data,
  (exists r, read_payload data = Ok r) \/ read_payload data = Err PacketError.
Proof. exact read_payload_total. Qed.
Print Assumptions C04_http_total.
Theorem C04_http_fingerprint : forall d data e, read_payload data = Err e -> fp_http d data = Err e.
Proof. exact fp_http_packet_error. Qed.
Print Assumptions C04_http_fingerprint.

Example C04_example :
  (exists o, parse_options [2; 0; 0; 0] true = Ok o /\ o_layout o = [2] /\ hasq qBAD (o_quirks o) = true) /\
  read_payload [13; 10; 71; 69; 84] = Err PacketError /\ read_payload [] = Err PacketError /\ read_payload [10] = Err PacketError.
Proof. split; [eexists; vm_compute; repeat split | vm_compute; repeat split]. Qed.
