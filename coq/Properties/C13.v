(* Property C13: uptime detection with 32-bit timestamp arithmetic. *)
From PV Require Import Model.Prelude Model.Select Model.Uptime Proofs.UptimeP.

(* Verdict iff the gate holds; inside the gate the frequency decides between a verdict,
   tps = -1, and (on a pure SYN) no verdict. *)
Theorem C13_gate : forall o frag ty ts last ms,
  valid_uptime frag ty = true ->
  (Gate o ts last ms ->
     let num := raw_num (ticks_of ts last) in
     (InScale o num ms ->
        uptime o frag ty ts last ms =
        Ok (Up (round_freq (Z.quot num ms)) num ms (ts / round_freq (Z.quot num ms) / 60)
               (4294967295 / (round_freq (Z.quot num ms) * 86400)))) /\
     (~ InScale o num ms ->
        uptime o frag ty ts last ms = Ok (if ty =? fSYN then NoVerdict else BadTps))) /\
  (~ Gate o ts last ms -> uptime o frag ty ts last ms = Ok NoVerdict).
Proof. exact uptime_gate. Qed.
Print Assumptions C13_gate.

(* Forward progress by d ticks, also across the 2^32 wrap, reads as d*1000/ms. *)
Theorem C13_forward : forall last d, 0 <= last < two32 -> 0 <= d < 2147483648 ->
  ticks_of ((last + d) mod two32) last = d /\ raw_num d = d * 1000.
Proof. exact forward_pack. Qed.
Print Assumptions C13_forward.

(* A backward step by b ticks reads as a non-positive frequency -(b-1)*1000/ms. *)
Theorem C13_backward : forall last b, 0 <= last < two32 -> 0 < b <= 2147483648 ->
  ticks_of ((last - b) mod two32) last = two32 - b /\ raw_num (two32 - b) = - ((b - 1) * 1000).
Proof. exact backward_pack. Qed.
Print Assumptions C13_backward.

(* Rounding: for EVERY non-negative integer frequency. *)
Theorem C13_round_table : forall f, 0 <= f ->
  (f = 0 -> round_freq f = 1) /\ (1 <= f <= 10 -> round_freq f = f) /\
  (11 <= f <= 50 -> round_freq f mod 5 = 0 /\ f - 2 <= round_freq f <= f + 3) /\
  (51 <= f <= 100 -> round_freq f mod 10 = 0 /\ f - 3 <= round_freq f <= f + 7) /\
  (101 <= f <= 500 -> round_freq f mod 50 = 0 /\ f - 17 <= round_freq f <= f + 33) /\
  (501 <= f -> round_freq f mod 100 = 0 /\ f - 33 <= round_freq f <= f + 67).
Proof. exact round_freq_table. Qed.
Print Assumptions C13_round_table.

Theorem C13_round_pos_mono_idem : forall a b, 0 <= a <= b ->
  1 <= round_freq a /\ round_freq a <= round_freq b /\ round_freq (round_freq a) = round_freq a.
Proof. exact round_pack. Qed.
Print Assumptions C13_round_pos_mono_idem.

(* Fields of a verdict; tps >= 1 under sane thresholds. *)
Theorem C13_fields : forall o frag ty ts last ms tps num den mins days,
  0 < fst (min_sc o) -> 0 < snd (min_sc o) -> 0 < min_wait o ->
  uptime o frag ty ts last ms = Ok (Up tps num den mins days) ->
  1 <= tps /\ tps = round_freq (Z.quot num den) /\ mins = ts / tps / 60 /\ days = 4294967295 / (tps * 86400) /\ den = ms.
Proof. exact uptime_tps_pos. Qed.
Print Assumptions C13_fields.

(* Only non-fragment SYN, SYN+ACK or ACK packets are accepted. *)
Theorem C13_packet_gate : forall o frag ty ts last ms, 0 <= ty < 32 ->
  (uptime o frag ty ts last ms <> Err PacketError <->
   frag = false /\ (ty = fSYN \/ ty = fSYN + fACK \/ ty = fACK)).
Proof. exact uptime_packet_gate. Qed.
Print Assumptions C13_packet_gate.

Definition defaults := {| min_wait := 25; max_wait := 600000; grace := 100; min_sc := (7, 10); max_sc := (1500, 1) |}.
Example C13_example :
  uptime defaults false fACK 1050 1000 500 = Ok (Up 100 50000 500 0 497) /\
  uptime defaults false fACK 50 (two32 - 50) 500 = Ok (Up 200 100000 500 0 248) /\
  uptime defaults false fACK 1000 1050 500 = Ok BadTps /\
  uptime defaults false fSYN 1000 1050 500 = Ok NoVerdict /\
  uptime defaults false fACK 1004 1000 500 = Ok NoVerdict /\
  Gate defaults 1050 1000 500.
Proof. vm_compute. repeat split; auto; discriminate. Qed.
