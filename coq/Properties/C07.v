(* Property C07: HTTP payload parsing recovers first line and headers faithfully. *)
From Coq Require Import String.
From PV Require Import Model.Prelude Model.Text Model.HttpRead Spec.C07 Proofs.HttpReadP.

(* the lines of the head are recovered whatever the line endings (CRLF / bare LF per line) and
   whatever bytes follow the blank line *)
Theorem C07_lines : forall ls bcrlf body,
  ls <> [] -> Forall (fun lb => good_line (fst lb)) ls ->
  extract_lines (render_head ls bcrlf body) = Some (map fst ls).
Proof. exact extract_rendered. Qed.
Print Assumptions C07_lines.

(* request line -> request direction and minor digit; status line -> response *)
Theorem C07_request_line : forall meth uri minor,
  (meth = str "GET" \/ meth = str "HEAD") -> uri <> [] -> no_ws uri -> 0 <= minor <= 9 ->
  read_first_line (request_line meth uri minor) = Ok (Request, minor).
Proof. exact first_line_request. Qed.
Print Assumptions C07_request_line.
Theorem C07_status_line : forall minor rest,
  0 <= minor <= 9 -> (rest = [] \/ exists c r, rest = c :: r /\ is_space_bytes c = true) ->
  read_first_line (status_line minor rest) = Ok (Response, minor).
Proof. exact first_line_status. Qed.
Print Assumptions C07_status_line.

(* headers in wire order, names as sent, values stripped, folded lines appended *)
Theorem C07_headers : forall fs,
  Forall wf_field fs -> read_headers (flat_map field_lines fs) [] = Ok (map expected_header fs).
Proof. exact read_headers_fields. Qed.
Print Assumptions C07_headers.

(* the whole message *)
Theorem C07_roundtrip : forall first dirv fs eols bcrlf body,
  read_first_line first = Ok dirv ->
  Forall wf_field fs ->
  length eols = length (first :: flat_map field_lines fs) ->
  Forall good_line (first :: flat_map field_lines fs) ->
  read_payload (render_head (combine (first :: flat_map field_lines fs) eols) bcrlf body)
  = Ok (fst dirv, snd dirv, map expected_header fs).
Proof. exact read_payload_roundtrip. Qed.
Print Assumptions C07_roundtrip.

(* rejections: no terminating blank line, other method, other protocol version, header line
   without a colon, empty header name, continuation with nothing to continue *)
Theorem C07_reject_unterminated : forall ls,
  Forall (fun lb => good_line (fst lb)) ls -> extract_lines (render_lines ls) = None.
Proof. exact extract_unterminated. Qed.
Print Assumptions C07_reject_unterminated.
Theorem C07_reject_method : forall meth uri minor,
  meth <> [] -> no_ws meth -> meth <> str "GET" -> meth <> str "HEAD" ->
  (forall m, minor_version meth <> Ok m) ->
  read_first_line (request_line meth uri minor) = Err PacketError.
Proof. exact first_line_other_method. Qed.
Print Assumptions C07_reject_method.
Theorem C07_version : forall v m,
  minor_version v = Ok m <-> (0 <= m <= 9 /\ v = [72; 84; 84; 80; 47; 49; 46; 48 + m]).
Proof. exact minor_version_spec. Qed.
Print Assumptions C07_version.
Theorem C07_reject_no_colon : forall l rest acc c r,
  l = c :: r -> c <> 32 -> c <> 9 -> mem 58 l = false -> read_headers (l :: rest) acc = Err PacketError.
Proof. exact read_headers_no_colon. Qed.
Print Assumptions C07_reject_no_colon.
Theorem C07_reject_empty_name : forall l rest acc r,
  l = 58 :: r -> read_headers (l :: rest) acc = Err PacketError.
Proof. exact read_headers_empty_name. Qed.
Print Assumptions C07_reject_empty_name.

Local Open Scope string_scope.
Local Open Scope Z_scope.
Local Open Scope list_scope.
Example C07_example :
  read_payload (str "GET / HTTP/1.1" ++ [13; 10] ++ str "Host:  a " ++ [10] ++ str "X: 1" ++ [13; 10; 9] ++ str "two" ++ [13; 10; 13; 10] ++ str "body")
  = Ok (Request, 1, [{| ph_name := str "Host"; ph_value := str "a" |}; {| ph_name := str "X"; ph_value := str "1" ++ [13; 10; 32] ++ str "two" |}]) /\
  read_payload (str "POST / HTTP/1.1" ++ [13; 10; 13; 10]) = Err PacketError /\
  read_payload ([13; 10] ++ str "GET / HTTP/1.1" ++ [13; 10; 13; 10]) = Err PacketError.
Proof. vm_compute. repeat split; reflexivity. Qed.
