(* Property C01: a TCP signature matches a packet exactly when the p0f rules say so.
   Theorems only: each is closed by [exact] of a lemma proved in Proofs/, followed by
   Print Assumptions. *)
From PV Require Import Model.Prelude Model.Bits Model.Sig Model.Matcher Spec.C01 Proofs.MatcherP.

(* The matcher returns a match exactly for the pairs the statement lists; nothing else matches. *)
Theorem C01_match_iff : forall md s p, wf_sig s -> (tcp_match md s p <> None <-> Matches s p).
Proof. exact tcp_match_iff. Qed.
Print Assumptions C01_match_iff.

(* Exact iff quirks equal and TTL within the distance (or 'ttl-'); the two fuzzy kinds. *)
Theorem C01_type : forall md s p t, tcp_match md s p = Some t ->
  (t = Exact <-> (QuirksEqual s p /\ TtlWithin md s p)) /\
  (t = FuzzyTTL <-> ~ TtlWithin md s p) /\
  (t = FuzzyQuirks <-> TtlWithin md s p /\ ~ QuirksEqual s p).
Proof. exact tcp_match_type. Qed.
Print Assumptions C01_type.

(* 'ttl-' never matches a larger packet TTL and ignores the distance limit. *)
Theorem C01_ttl_minus : forall md s p, s_bad_ttl s = true ->
  (p_ttl p > s_ttl s -> tcp_match md s p = None) /\ tcp_match md s p <> Some FuzzyTTL.
Proof. exact tcp_match_bad_ttl. Qed.
Print Assumptions C01_ttl_minus.

(* The code's xor/and mask formulation is the set formulation of the statement. *)
Theorem C01_bits_are_sets : forall s p,
  (has_sq_of_stmt s p) /\ (quirks_b s p = true <-> QuirksCompatible s p).
Proof. exact bits_are_sets. Qed.
Print Assumptions C01_bits_are_sets.

(* Non-vacuity: concrete signatures/packets for each outcome. *)
Example C01_examples : C01_examples_stmt.
Proof. exact C01_examples_proof. Qed.
