(* Corollaries: the signature-text theorems of C09 / C10 / C18, restated for the parsers as TRANSLATED from pyp0f's source on this
   run (Gen/GeneratedSig.v).  Hand-written; compiled after Gen/GenSigP.v. *)
From Coq Require Import String ZArith NArith List Bool Lia.
From PV Require Import Model.Prelude Model.Bits Model.Sig Model.Matcher Model.Text Model.SigParse Model.Dump Spec.C01 Proofs.DbParseP Proofs.DumpP Proofs.SigTextP
  Gen.GeneratedSig Gen.GenSigP.
Import ListNotations.
Local Open Scope Z_scope.

(* C10: whatever TCPSignature.parse accepts lies in the documented ranges *)
Theorem C10_translated_tcp_ranges : forall t s, gen_TCPSignature_parse t = Ok s ->
  wf_sig s /\ Forall (fun k => 0 <= k <= 255) (s_layout s) /\
  (s_quirks s < 2 ^ 17)%N /\ N.land (s_quirks s) (invalid_for (s_ver s)) = 0%N.
Proof. intros t s H. rewrite gen_TCPSignature_parse_eq in H. exact (parse_tcp_sig_wf t s H). Qed.

(* C09: every structured signature within the ranges is what TCPSignature.parse reads from its text *)
Theorem C09_translated_sig_roundtrip : forall s, printable s -> gen_TCPSignature_parse (print_tcp_sig s) = Ok s.
Proof. intros s H. rewrite gen_TCPSignature_parse_eq. exact (parse_print_tcp_sig s H). Qed.

(* C18: layouts and quirk lists printed by the code's own TCPOptions.dump / dump_quirks parse back through its own _parse_options / _parse_quirks *)
Theorem C18_translated_layout : forall l pad,
  Forall (fun k => 0 <= k <= 255) l -> 0 <= pad <= 255 ->
  gen_parse_options (gen_TCPOptions_dump l pad) = Ok (l, if existsb (Z.eqb 0) l then pad else 0).
Proof. intros l pad Hl Hp. rewrite gen_TCPOptions_dump_eq, gen_parse_options_eq. exact (parse_dump_layout l pad Hl Hp). Qed.

Theorem C18_translated_quirks : forall q ver,
  (q < 2 ^ 17)%N -> N.land q (invalid_for ver) = 0%N -> gen_parse_quirks (gen_dump_quirks q) ver = Ok q.
Proof. intros q ver Hq Hi. rewrite gen_dump_quirks_eq, gen_parse_quirks_eq. exact (parse_dump_quirks q ver Hq Hi). Qed.

Theorem C10_translated_mtu_range : forall t m, gen_MTUSignature_parse t = Ok m -> 1 <= m <= 65535.
Proof.
  intros t m H. rewrite gen_MTUSignature_parse_eq in H. unfold parse_mtu_sig, num_in_range in H.
  cbn [andb] in H. destruct (py_int t) as [v|]; [|discriminate].
  destruct ((1 <=? v) && (v <=? 65535)) eqn:E; [|discriminate].
  injection H as <-. apply andb_true_iff in E. destruct E as [E1 E2].
  apply Z.leb_le in E1. apply Z.leb_le in E2. lia.
Qed.

Print Assumptions C10_translated_tcp_ranges.
Print Assumptions C09_translated_sig_roundtrip.
Print Assumptions C18_translated_layout.
Print Assumptions C18_translated_quirks.
Print Assumptions C10_translated_mtu_range.
