(* The three regular expressions of the verified code, read from the CURRENT sources through CPython's own pattern parser
   (Gen/GeneratedRe.v, by translate/re2coq.py), mean - under the generic semantics of Gen/GenReLib.v - exactly what the hand
   recognisers say that the rest of the development uses:

     gen_re_version  ^HTTP/1\.(?P<version>\d)$   .match(v), .group("version")         = GeneratedHttp.gen_re_http_version v
     gen_re_blank    \n\r?\n  (re.MULTILINE)     .search(data, start), .span(0)[-1]   = GenH11Lib.find_blank_end data start
     gen_re_header   ,(?![^\[]*\])               .split(t)                            = SigParse.hsplit t

   Hand-written.  The proofs do not compute a matcher: each pattern gets a characterisation lemma of its relational meaning
   (by inversion of the generated term), which is then connected to the function by induction on the subject. *)
From Coq Require Import String ZArith NArith List Bool Lia.
From PV Require Import Model.Prelude Model.Text Model.SigParse Proofs.HttpReadP.
From PV Require Import Gen.GeneratedSig Gen.GeneratedHttp Gen.GenH11Lib Gen.GenReLib Gen.GeneratedRe.
Import ListNotations.
Local Open Scope nat_scope.

(* ------------------------------------------------------------------------------------------------------------------ *)
(* lists                                                                                                              *)
(* ------------------------------------------------------------------------------------------------------------------ *)
Lemma nth_error_skipn {A} : forall n (l : list A) k, nth_error (skipn n l) k = nth_error l (n + k).
Proof. induction n as [|n IH]; intros [|x l] k; cbn [skipn plus nth_error]; try reflexivity. - destruct k; reflexivity. - apply IH. Qed.
Lemma skipn_skipn {A} : forall a b (l : list A), skipn a (skipn b l) = skipn (b + a) l.
Proof.
  intros a b; revert a. induction b as [|b IH]; intros a l; [reflexivity|].
  destruct l as [|x l]; cbn [skipn plus]; [apply skipn_nil | apply IH].
Qed.
Lemma skipn_cons_nth {A} : forall n (l : list A) x r, skipn n l = x :: r -> nth_error l n = Some x /\ skipn (S n) l = r /\ n < length l.
Proof.
  induction n as [|n IH]; intros [|y l] x r H; cbn [skipn] in H; try discriminate.
  - injection H as -> ->. cbn [nth_error skipn length]. repeat split. lia.
  - destruct (IH _ _ _ H) as (H1 & H2 & H3). cbn [nth_error length]. repeat split; [exact H1 | exact H2 | lia].
Qed.
Lemma skipn_nil_len {A} : forall n (l : list A), skipn n l = [] -> length l <= n.
Proof. induction n as [|n IH]; intros [|y l] H; cbn [skipn length] in *; try discriminate; try lia. apply IH in H. lia. Qed.
Lemma nth_error_Some_lt {A} (l : list A) n x : nth_error l n = Some x -> n < length l.
Proof. intros H. apply nth_error_Some. rewrite H. discriminate. Qed.

(* ------------------------------------------------------------------------------------------------------------------ *)
(* generic inversion / construction of [m]                                                                            *)
(* ------------------------------------------------------------------------------------------------------------------ *)
(* a star of one-byte steps *)
Lemma star_rel_inv (s : text) (R : nat -> nat -> list span -> Prop) (p : Z -> bool) :
  (forall i j c, R i j c -> byte_at s i p /\ j = S i /\ c = []) ->
  forall i j c, star R i j c -> c = [] /\ i <= j /\ forall k, i <= k < j -> byte_at s k p.
Proof.
  intros Hr i j c H. induction H as [i | i k j c1 c2 H1 _ IH].
  - repeat split; [lia | intros k Hk; lia].
  - apply Hr in H1. destruct H1 as (Hb & -> & ->). destruct IH as (-> & Hle & Hall).
    repeat split; [lia|]. intros k Hk. destruct (Nat.eq_dec k i) as [-> | Hne]; [exact Hb | apply Hall; lia].
Qed.
Lemma star_byte_inv ml s (r : re) (p : Z -> bool) :
  (forall i j c, m ml s r i j c -> byte_at s i p /\ j = S i /\ c = []) ->
  forall i j c, star (m ml s r) i j c -> c = [] /\ i <= j /\ forall k, i <= k < j -> byte_at s k p.
Proof. apply star_rel_inv. Qed.
Lemma star_byte_intro ml s (r : re) (p : Z -> bool) :
  (forall i, byte_at s i p -> m ml s r i (S i) []) ->
  forall n i, (forall k, i <= k < i + n -> byte_at s k p) -> star (m ml s r) i (i + n) [].
Proof.
  intros Hr. induction n as [|n IH]; intros i Hall.
  - rewrite Nat.add_0_r. constructor.
  - change (@nil span) with (@nil span ++ []). apply star_step with (k := S i).
    + apply Hr, Hall. lia.
    + replace (i + S n) with (S i + n) by lia. apply IH. intros k Hk. apply Hall. lia.
Qed.
Lemma star_notlit_inv ml s x i j c :
  star (m ml s (RNotLit x)) i j c -> c = [] /\ i <= j /\ forall k, i <= k < j -> byte_at s k (fun b => negb (b =? x)%Z).
Proof. apply star_byte_inv. intros i0 j0 c0 H. exact H. Qed.
Lemma star_notlit_intro ml s x n i :
  (forall k, i <= k < i + n -> byte_at s k (fun b => negb (b =? x)%Z)) -> star (m ml s (RNotLit x)) i (i + n) [].
Proof. apply star_byte_intro. intros i0 H. cbn [m]. auto. Qed.

Lemma star_bytes_inv (s : text) (p : Z -> bool) i j c :
  star (fun i j c => byte_at s i p /\ j = S i /\ c = []) i j c -> c = [] /\ i <= j /\ forall k, i <= k < j -> byte_at s k p.
Proof. apply star_rel_inv. intros i0 j0 c0 H. exact H. Qed.

(* take a hypothesis [m .. r ..] of a concrete r apart, whatever the nesting of r is *)
Ltac break1 :=
  match goal with
  | H : exists _, _ |- _ => destruct H as [? H]
  | H : _ /\ _ |- _ => destruct H as [? ?]
  | H : _ \/ _ |- _ => destruct H as [H | H]
  | H : byte_at _ _ _ |- _ => unfold byte_at in H
  | H : matches_at _ _ _ _ _ |- _ => unfold matches_at in H
  | H : m _ _ _ _ _ _ |- _ => progress cbn [m] in H
  | H : star _ _ _ _ |- _ => apply star_bytes_inv in H
  | H : (_ =? _)%Z = true |- _ => apply Z.eqb_eq in H
  | H : false = true |- _ => discriminate H
  end.
Ltac break := repeat (first [progress break1 | progress subst]).

(* build [m .. r i j c] for a concrete r from hypotheses about the bytes (j, c may be evars; `+` backtracks over ? and |) *)
Ltac build :=
  cbn [m];
  lazymatch goal with
  | |- _ /\ _ => split; build
  | |- exists _, _ => eexists; build
  | |- _ \/ _ => (left; build) + (right; build)
  | |- byte_at _ _ _ => eexists; split; first [eassumption | reflexivity]
  | |- _ = _ => reflexivity
  | |- _ <= _ => lia
  end.

(* ------------------------------------------------------------------------------------------------------------------ *)
(* 3.  blank_line_regex = re.compile(b"\n\r?\n", re.MULTILINE)                                                         *)
(* ------------------------------------------------------------------------------------------------------------------ *)
Definition blank_at (s : text) (i j : nat) : Prop :=
  nth_error s i = Some 10%Z /\
  ((nth_error s (S i) = Some 10%Z /\ j = S (S i)) \/
   (nth_error s (S i) = Some 13%Z /\ nth_error s (S (S i)) = Some 10%Z /\ j = S (S (S i)))).

(* characterisation: a match is "\n\n" (2 bytes) or "\n\r\n" (3 bytes) *)
Lemma gen_re_blank_matches s i j : matches_at gen_re_blank_multiline s gen_re_blank i j <-> blank_at s i j.
Proof.
  unfold gen_re_blank, blank_at. split.
  - intros H. break; auto 6.
  - intros (H0 & [(H1 & ->) | (H1 & H2 & ->)]); eexists; solve [build].
Qed.

(* at a given start position at most one end is possible *)
Theorem gen_re_blank_end_unique s i j j' :
  matches_at gen_re_blank_multiline s gen_re_blank i j -> matches_at gen_re_blank_multiline s gen_re_blank i j' -> j = j'.
Proof.
  rewrite !gen_re_blank_matches. unfold blank_at.
  intros (_ & [(H1 & ->) | (H1 & _ & ->)]) (_ & [(H2 & ->) | (H2 & _ & ->)]); try reflexivity; rewrite H1 in H2; discriminate.
Qed.

Lemma starts_with_2 a b (l : text) :
  starts_with [a; b] l = true <-> nth_error l 0 = Some a /\ nth_error l 1 = Some b.
Proof.
  destruct l as [|x [|y l]]; cbn [starts_with nth_error]; rewrite ?andb_true_iff, ?Z.eqb_eq; split;
    try (intros (? & ? & _); subst; auto); try (intros (H1 & H2); injection H1 as <-; injection H2 as <-; auto);
    try (intros (? & ?); discriminate); try (intros (_ & ?); discriminate); try discriminate.
Qed.
Lemma starts_with_3 a b c (l : text) :
  starts_with [a; b; c] l = true <-> nth_error l 0 = Some a /\ nth_error l 1 = Some b /\ nth_error l 2 = Some c.
Proof.
  destruct l as [|x [|y [|z l]]]; cbn [starts_with nth_error]; rewrite ?andb_true_iff, ?Z.eqb_eq; split;
    try (intros (? & ? & ? & _); subst; auto);
    try (intros (H1 & H2 & H3); injection H1 as <-; injection H2 as <-; injection H3 as <-; auto);
    try (intros (? & ?); discriminate); try (intros (_ & ? & ?); discriminate); try (intros (_ & _ & ?); discriminate);
    try discriminate.
Qed.

(* what the hand recogniser decides at the head of l = data[n:] *)
Lemma blank_head_2 data n : starts_with [10; 10]%Z (skipn n data) = true <-> blank_at data n (S (S n)).
Proof.
  rewrite starts_with_2, !nth_error_skipn, Nat.add_0_r, Nat.add_1_r. unfold blank_at. split.
  - intros (H0 & H1). split; [exact H0 | left; split; [exact H1 | reflexivity]].
  - intros (H0 & [(H1 & _) | (_ & _ & E)]); [split; assumption | lia].
Qed.
Lemma blank_head_3 data n : starts_with [10; 13; 10]%Z (skipn n data) = true <-> blank_at data n (S (S (S n))).
Proof.
  rewrite starts_with_3, !nth_error_skipn, Nat.add_0_r, Nat.add_1_r. replace (n + 2) with (S (S n)) by lia. unfold blank_at. split.
  - intros (H0 & H1 & H2). split; [exact H0 | right; repeat split; assumption].
  - intros (H0 & [(_ & E) | (H1 & H2 & _)]); [lia | repeat split; assumption].
Qed.
Lemma blank_at_ends data i j : blank_at data i j -> j = S (S i) \/ j = S (S (S i)).
Proof. intros (_ & [(_ & ->) | (_ & _ & ->)]); auto. Qed.

Definition blank_search (data : text) (p : nat) (res : option Z) : Prop :=
  match res with
  | Some e => exists i j, e = Z.of_nat j /\ p <= i <= length data /\ blank_at data i j /\
                          forall i' j', p <= i' < i -> ~ blank_at data i' j'
  | None => forall i j, p <= i <= length data -> ~ blank_at data i j
  end.

Lemma blank_end_from_spec data : forall l n, l = skipn n data -> n <= length data ->
  blank_search data n (blank_end_from l (Z.of_nat n)).
Proof.
  induction l as [|x r IH]; intros n Hl Hn.
  - cbn [blank_end_from blank_search]. intros i j Hi (H0 & _).
    symmetry in Hl. apply skipn_nil_len in Hl. apply nth_error_Some_lt in H0. lia.
  - symmetry in Hl. destruct (skipn_cons_nth _ _ _ _ Hl) as (Hx & Hr & Hlt).
    cbn [blank_end_from]. rewrite <- Hl.
    destruct (starts_with [10; 10]%Z (skipn n data)) eqn:E2.
    { apply blank_head_2 in E2. exists n, (S (S n)). split; [lia|]. split; [lia|]. split; [exact E2|]. intros; lia. }
    destruct (starts_with [10; 13; 10]%Z (skipn n data)) eqn:E3.
    { apply blank_head_3 in E3. exists n, (S (S (S n))). split; [lia|]. split; [lia|]. split; [exact E3|]. intros; lia. }
    assert (Hno : forall j, ~ blank_at data n j).
    { intros j Hj. destruct (blank_at_ends _ _ _ Hj) as [-> | ->].
      - apply blank_head_2 in Hj. congruence.
      - apply blank_head_3 in Hj. congruence. }
    replace (Z.of_nat n + 1)%Z with (Z.of_nat (S n)) by lia.
    specialize (IH (S n) (eq_sym Hr) ltac:(lia)).
    destruct (blank_end_from r (Z.of_nat (S n))) as [e|]; cbn [blank_search] in *.
    + destruct IH as (i & j & He & Hi & Hb & Hmin). exists i, j. split; [exact He|]. split; [lia|]. split; [exact Hb|].
      intros i' j' Hi'. destruct (Nat.eq_dec i' n) as [-> | Hne]; [apply Hno | apply Hmin; lia].
    + intros i j Hi. destruct (Nat.eq_dec i n) as [-> | Hne]; [apply Hno | apply IH; lia].
Qed.

Lemma blank_search_fun data p r1 r2 : blank_search data p r1 -> blank_search data p r2 -> r1 = r2.
Proof.
  destruct r1 as [e1|], r2 as [e2|]; cbn [blank_search]; intros H1 H2; try reflexivity.
  - destruct H1 as (i1 & j1 & -> & Hi1 & Hb1 & Hm1). destruct H2 as (i2 & j2 & -> & Hi2 & Hb2 & Hm2).
    assert (i1 = i2).
    { destruct (Nat.lt_trichotomy i1 i2) as [Hlt | [E | Hgt]]; [|exact E|].
      - exfalso. apply (Hm2 i1 j1); [lia | exact Hb1].
      - exfalso. apply (Hm1 i2 j2); [lia | exact Hb2]. }
    subst i2. f_equal. f_equal. apply (gen_re_blank_end_unique data i1); apply gen_re_blank_matches; assumption.
  - exfalso. destruct H1 as (i1 & j1 & _ & Hi1 & Hb1 & _). apply (H2 i1 j1); [lia | exact Hb1].
  - exfalso. destruct H2 as (i2 & j2 & _ & Hi2 & Hb2 & _). apply (H1 i2 j2); [lia | exact Hb2].
Qed.

Lemma re_search_end_blank data start res :
  re_search_end gen_re_blank_multiline data gen_re_blank start res <-> blank_search data (Nat.min (Z.to_nat start) (length data)) res.
Proof.
  unfold re_search_end, blank_search. destruct res as [e|].
  - split; intros (i & j & He & Hi & Hb & Hmin); exists i, j; (split; [exact He|]); (split; [exact Hi|]);
      (split; [apply gen_re_blank_matches; exact Hb|]); intros i' j' Hi' Hb'; apply (Hmin i' j' Hi'); apply gen_re_blank_matches; exact Hb'.
  - split; intros H i j Hi Hb; apply (H i j Hi); apply gen_re_blank_matches; exact Hb.
Qed.

Lemma find_blank_end_spec data start : blank_search data (Nat.min (Z.to_nat start) (length data)) (find_blank_end data start).
Proof.
  unfold find_blank_end.
  destruct (Nat.le_gt_cases (Z.to_nat start) (length data)) as [Hle | Hgt].
  - rewrite Nat.min_l by exact Hle.
    replace (Z.max 0 start) with (Z.of_nat (Z.to_nat start)) by lia.
    apply blank_end_from_spec; [reflexivity | exact Hle].
  - rewrite Nat.min_r by lia. rewrite skipn_all2 by lia. cbn [blank_end_from blank_search].
    intros i j Hi (H0 & _). apply nth_error_Some_lt in H0. lia.
Qed.

(* pattern.search(data, start) finds nothing iff find_blank_end says None, and otherwise the end of the leftmost match is what
   find_blank_end says - for EVERY start (a negative start counts as 0, one beyond the end as len(data)). *)
Theorem gen_re_blank_eq : forall data start res,
  re_search_end gen_re_blank_multiline data gen_re_blank start res <-> res = find_blank_end data start.
Proof.
  intros data start res. rewrite re_search_end_blank. split.
  - intros H. apply (blank_search_fun data _ _ _ H). apply find_blank_end_spec.
  - intros ->. apply find_blank_end_spec.
Qed.

(* ------------------------------------------------------------------------------------------------------------------ *)
(* 1.  HTTP_VERSION_PATTERN = re.compile(rb"^HTTP/1\.(?P<version>\d)$")                                                *)
(* ------------------------------------------------------------------------------------------------------------------ *)
Definition http1_dot (d : Z) : text := [72; 84; 84; 80; 47; 49; 46; d]%Z.       (* "HTTP/1." d *)

Lemma in_class_digit b : in_class false [CDigit] b = is_digit b.
Proof. unfold in_class, is_digit. cbn [existsb in_item]. rewrite xorb_false_l. apply orb_false_r. Qed.

(* characterisation: the subject is "HTTP/1.d" or "HTTP/1.d\n" with an ASCII digit d; the match ends after d (position 8) and
   the group is the span 7..8 *)
Lemma gen_re_version_matches v j c :
  m gen_re_version_multiline v gen_re_version 0 j c <->
  exists d, is_digit d = true /\ (v = http1_dot d \/ v = http1_dot d ++ [10%Z]) /\ j = 8 /\ c = [(1, 7, 8)].
Proof.
  unfold gen_re_version, gen_re_version_multiline, http1_dot. split.
  - intros H. break;
      match goal with Hd : in_class false [CDigit] ?d = true |- _ => rewrite in_class_digit in Hd; exists d end;
      (split; [assumption|]); (split; [|split; reflexivity]);
      do 10 (try destruct v as [|? v]); cbn [nth_error length] in *; try discriminate; try lia;
      repeat match goal with E : Some _ = Some _ |- _ => injection E as E; try subst end; auto.
  - intros (d & Hd & Hv & -> & ->). rewrite <- in_class_digit in Hd.
    destruct Hv as [-> | ->]; solve [build].
Qed.

(* the match, if any, is unique: one end, one set of captures *)
Theorem gen_re_version_match_unique v j c j' c' :
  m gen_re_version_multiline v gen_re_version 0 j c -> m gen_re_version_multiline v gen_re_version 0 j' c' -> j = j' /\ c = c'.
Proof. rewrite !gen_re_version_matches. intros (d & _ & _ & -> & ->) (d' & _ & _ & -> & ->). auto. Qed.

(* what the hand recogniser accepts *)
Lemma gen_re_http_version_some v g :
  gen_re_http_version v = Some g <-> exists d, is_digit d = true /\ g = [d] /\ (v = http1_dot d \/ v = http1_dot d ++ [10%Z]).
Proof.
  split.
  - unfold gen_re_http_version. dmatch_goal; try discriminate.
    all: match goal with |- context [is_digit ?d] => destruct (is_digit d) eqn:E; [|discriminate]; intros H; injection H as <-; exists d end.
    all: unfold http1_dot; cbn [app]; auto.
  - intros (d & Hd & -> & [-> | ->]); unfold http1_dot; cbn [app gen_re_http_version]; rewrite Hd; reflexivity.
Qed.

Lemma group_version_text v d : v = http1_dot d \/ v = http1_dot d ++ [10%Z] -> group_text v [(1, 7, 8)] 1 = Some [d].
Proof. intros [-> | ->]; reflexivity. Qed.

(* mt = HTTP_VERSION_PATTERN.match(v);  g = None if mt is None else mt.group("version")
   - for EVERY v, including "HTTP/1.d\n" (accepted, because of `$`) and non-ASCII "digits" (refused: bytes pattern). *)
Theorem gen_re_version_eq : forall v g,
  re_match_group gen_re_version_multiline v gen_re_version (group_index "version" gen_re_version_groups) g <->
  g = gen_re_http_version v.
Proof.
  intros v g. change (group_index "version" gen_re_version_groups) with 1. split.
  - intros (res & Hres & ->). destruct res as [(j, c)|]; cbn [re_match] in Hres.
    + apply gen_re_version_matches in Hres. destruct Hres as (d & Hd & Hv & -> & ->).
      rewrite (group_version_text v d Hv). symmetry. apply gen_re_http_version_some. exists d. auto.
    + destruct (gen_re_http_version v) eqn:E; [|reflexivity]. exfalso.
      apply gen_re_http_version_some in E. destruct E as (d & Hd & -> & Hv).
      apply (Hres 8 [(1, 7, 8)]). apply gen_re_version_matches. exists d. auto.
  - intros ->. destruct (gen_re_http_version v) eqn:E.
    + apply gen_re_http_version_some in E. destruct E as (d & Hd & -> & Hv).
      exists (Some (8, [(1, 7, 8)])). split.
      * cbn [re_match]. apply gen_re_version_matches. exists d. auto.
      * symmetry. apply group_version_text. exact Hv.
    + exists None. split; [|reflexivity]. intros j c H.
      apply gen_re_version_matches in H. destruct H as (d & Hd & Hv & _ & _).
      assert (E' : gen_re_http_version v = Some [d]) by (apply gen_re_http_version_some; exists d; auto).
      congruence.
Qed.
(* every match records the group (so the None of re_match_group is "no match", never "group took no part") *)
Theorem gen_re_version_group_participates v j c :
  m gen_re_version_multiline v gen_re_version 0 j c -> exists d, group_text v c 1 = Some [d].
Proof. intros H. apply gen_re_version_matches in H. destruct H as (d & _ & Hv & _ & ->). exists d. apply group_version_text, Hv. Qed.

(* ------------------------------------------------------------------------------------------------------------------ *)
(* 2.  _HEADER_PATTERN = re.compile(rb",(?![^\[]*\])")                                                                  *)
(* ------------------------------------------------------------------------------------------------------------------ *)
(* close_first l: some "]" of l has no "[" before it *)
Lemma close_first_true_iff (l : text) :
  close_first l = true <->
  exists n, nth_error l n = Some 93%Z /\ forall k, k < n -> byte_at l k (fun b => negb (b =? 91)%Z).
Proof.
  induction l as [|x l IH]; cbn [close_first].
  - split; [discriminate|]. intros (n & H & _). destruct n; discriminate H.
  - destruct (x =? 93)%Z eqn:E93; [|destruct (x =? 91)%Z eqn:E91].
    + apply Z.eqb_eq in E93. subst x. split; [|reflexivity]. intros _. exists 0. split; [reflexivity|]. intros k Hk. lia.
    + apply Z.eqb_eq in E91. subst x. split; [discriminate|]. intros (n & Hn & Hall). exfalso. destruct n as [|n].
      * cbn [nth_error] in Hn. discriminate Hn.
      * destruct (Hall 0 ltac:(lia)) as (b & Hb & Hne). cbn [nth_error] in Hb. injection Hb as <-. discriminate Hne.
    + rewrite IH. split; intros (n & Hn & Hall).
      * exists (S n). split; [exact Hn|]. intros [|k] Hk.
        -- exists x. split; [reflexivity | rewrite E91; reflexivity].
        -- apply (Hall k). lia.
      * destruct n as [|n].
        -- cbn [nth_error] in Hn. injection Hn as ->. discriminate E93.
        -- exists n. split; [exact Hn|]. intros k Hk. apply (Hall (S k)). lia.
Qed.

(* position i of s is a separating comma: a "," whose rest does not reach a "]" before any "[" *)
Definition sep (s : text) (i : nat) : Prop := nth_error s i = Some 44%Z /\ close_first (skipn (S i) s) = false.

Lemma byte_at_skipn s n k p : byte_at (skipn n s) k p <-> byte_at s (n + k) p.
Proof. unfold byte_at. rewrite nth_error_skipn. reflexivity. Qed.

(* the lookahead body [^\[]*\] matches at position p iff close_first s[p:] *)
Lemma ahead_body_iff s p :
  (exists n, nth_error s (p + n) = Some 93%Z /\ forall k, p <= k < p + n -> byte_at s k (fun b => negb (b =? 91)%Z)) <->
  close_first (skipn p s) = true.
Proof.
  rewrite close_first_true_iff. split; intros (n & Hn & Hall); exists n; rewrite nth_error_skipn in *; (split; [exact Hn|]).
  - intros k Hk. apply byte_at_skipn. apply Hall. lia.
  - intros k Hk. replace k with (p + (k - p)) by lia. apply byte_at_skipn. apply Hall. lia.
Qed.

(* characterisation: a match is exactly one separating comma *)
Lemma gen_re_header_m s i j c : m gen_re_header_multiline s gen_re_header i j c <-> (sep s i /\ j = S i /\ c = []).
Proof.
  unfold gen_re_header, sep. split.
  - intros H. break.
    match goal with Hx : ~ _ |- _ => rename Hx into Hno end.
    repeat split; try assumption.
    destruct (close_first (skipn (S i) s)) eqn:E; [|reflexivity]. exfalso. apply Hno.
    apply ahead_body_iff in E. destruct E as (n & Hn & Hall).
    eexists; eexists. cbn [m]. eexists; eexists; eexists. split; [apply (star_notlit_intro false s 91%Z n (S i)); exact Hall|].
    split; [solve [build] | reflexivity].
  - intros ((H44 & Hcf) & -> & ->). cbn [m].
    eexists; eexists; eexists. split; [solve [build]|]. split; [|reflexivity]. cbn [m]. split; [|split; reflexivity].
    intros H. break.
    match goal with Hle : S i <= ?k, H93 : nth_error s ?k = Some _ |- _ =>
      assert (E : close_first (skipn (S i) s) = true)
        by (apply ahead_body_iff; exists (k - S i); replace (S i + (k - S i)) with k by lia; split; [congruence | assumption]) end.
    congruence.
Qed.
Lemma gen_re_header_matches s i j : matches_at gen_re_header_multiline s gen_re_header i j <-> (sep s i /\ j = S i).
Proof.
  unfold matches_at. split.
  - intros (c & H). apply gen_re_header_m in H. tauto.
  - intros (H & ->). exists []. apply gen_re_header_m. auto.
Qed.

(* a match consumes exactly one byte (so re_split's side condition "never matches the empty string" holds) *)
Theorem gen_re_header_one_byte s i j : matches_at gen_re_header_multiline s gen_re_header i j -> j = S i.
Proof. intros H. apply gen_re_header_matches in H. tauto. Qed.

(* --- hsplit cuts at the separating commas --- *)
Lemma sep_skipn s p k : sep (skipn p s) k <-> sep s (p + k).
Proof. unfold sep. rewrite nth_error_skipn, skipn_skipn. replace (p + S k) with (S (p + k)) by lia. reflexivity. Qed.
Lemma sep_cons_S c r k : sep (c :: r) (S k) <-> sep r k.
Proof. unfold sep. cbn [nth_error skipn]. reflexivity. Qed.
Lemma sep_cons_0 c r : sep (c :: r) 0 <-> ((c =? 44)%Z && negb (close_first r) = true).
Proof.
  unfold sep. cbn [nth_error skipn]. rewrite andb_true_iff, negb_true_iff, Z.eqb_eq. split.
  - intros (H & ?). injection H as ->. auto.
  - intros (-> & ?). auto.
Qed.
Lemma hsplit_nonempty t : hsplit t <> [].
Proof. destruct t as [|c r]; cbn [hsplit]; [discriminate|]. destruct ((c =? 44)%Z && negb (close_first r)); [discriminate|]. destruct (hsplit r); discriminate. Qed.

Lemma hsplit_no_sep : forall l, (forall k, ~ sep l k) -> hsplit l = [l].
Proof.
  induction l as [|c r IH]; intros Hno; [reflexivity|]. cbn [hsplit].
  destruct ((c =? 44)%Z && negb (close_first r)) eqn:E.
  - exfalso. apply (Hno 0). apply sep_cons_0. exact E.
  - rewrite IH; [reflexivity|]. intros k Hk. apply (Hno (S k)). apply sep_cons_S. exact Hk.
Qed.
Lemma hsplit_first_sep : forall l k, sep l k -> (forall k', k' < k -> ~ sep l k') ->
  hsplit l = firstn k l :: hsplit (skipn (S k) l).
Proof.
  induction l as [|c r IH]; intros k Hk Hmin.
  - destruct Hk as (H & _). destruct k; discriminate H.
  - cbn [hsplit]. destruct k as [|k].
    + apply sep_cons_0 in Hk. rewrite Hk. reflexivity.
    + destruct ((c =? 44)%Z && negb (close_first r)) eqn:E.
      { exfalso. apply (Hmin 0); [lia|]. apply sep_cons_0. exact E. }
      apply sep_cons_S in Hk. rewrite (IH k Hk).
      * reflexivity.
      * intros k' Hk' Hs. apply (Hmin (S k')); [lia|]. apply sep_cons_S. exact Hs.
Qed.
Lemma first_sep_dec : forall l, (forall k, ~ sep l k) \/ (exists k, sep l k /\ forall k', k' < k -> ~ sep l k').
Proof.
  induction l as [|c r IH].
  - left. intros k (H & _). destruct k; discriminate H.
  - destruct ((c =? 44)%Z && negb (close_first r)) eqn:E.
    + right. exists 0. split; [apply sep_cons_0; exact E | intros k' Hk'; lia].
    + assert (H0 : ~ sep (c :: r) 0) by (intros H; apply sep_cons_0 in H; congruence).
      destruct IH as [Hno | (k & Hk & Hmin)].
      * left. intros [|k]; [exact H0|]. intros H. apply sep_cons_S in H. exact (Hno k H).
      * right. exists (S k). split; [apply sep_cons_S; exact Hk|].
        intros [|k'] Hk'; [exact H0|]. intros H. apply sep_cons_S in H. apply (Hmin k'); [lia | exact H].
Qed.

Lemma sub_to_end (s : text) p : sub s p (length s) = skipn p s.
Proof. unfold sub. apply firstn_all2. rewrite skipn_length. lia. Qed.

(* soundness: whatever the scan produces from position p on is hsplit s[p:] *)
Lemma re_split_from_hsplit s p res :
  re_split_from gen_re_header_multiline s gen_re_header p res -> res = hsplit (skipn p s).
Proof.
  intros H. induction H as [p Hno | p i j rest Hpi Hij Hm Hmin _ IH].
  - rewrite sub_to_end. symmetry. apply hsplit_no_sep. intros k Hk.
    apply sep_skipn in Hk. apply (Hno (p + k) (S (p + k))); [lia|]. apply gen_re_header_matches. auto.
  - apply gen_re_header_matches in Hm. destruct Hm as (Hs & ->). subst rest.
    rewrite (hsplit_first_sep (skipn p s) (i - p)).
    + unfold sub. rewrite skipn_skipn. replace (p + S (i - p)) with (S i) by lia. reflexivity.
    + apply sep_skipn. replace (p + (i - p)) with i by lia. exact Hs.
    + intros k' Hk' Hs'. apply sep_skipn in Hs'. apply (Hmin (p + k') (S (p + k'))); [lia|]. apply gen_re_header_matches. auto.
Qed.
(* existence: the scan always produces something *)
Lemma re_split_from_exists s : forall n p, length s - p <= n -> exists res, re_split_from gen_re_header_multiline s gen_re_header p res.
Proof.
  induction n as [|n IH]; intros p Hn.
  - exists [sub s p (length s)]. apply split_last. intros i j Hi Hm. apply gen_re_header_matches in Hm.
    destruct Hm as ((H & _) & _). apply nth_error_Some_lt in H. lia.
  - destruct (first_sep_dec (skipn p s)) as [Hno | (k & Hk & Hmin)].
    + exists [sub s p (length s)]. apply split_last. intros i j Hi Hm. apply gen_re_header_matches in Hm.
      destruct Hm as (Hs & _). apply (Hno (i - p)). apply sep_skipn. replace (p + (i - p)) with i by lia. exact Hs.
    + apply sep_skipn in Hk. assert (Hlt : p + k < length s) by (destruct Hk as (H & _); apply nth_error_Some_lt in H; exact H).
      destruct (IH (S (p + k)) ltac:(lia)) as (rest & Hrest).
      exists (sub s p (p + k) :: rest). apply split_cut with (j := S (p + k)); try lia; try exact Hrest.
      * apply gen_re_header_matches. auto.
      * intros i' j' Hi' Hm. apply gen_re_header_matches in Hm. destruct Hm as (Hs & _).
        apply (Hmin (i' - p)); [lia|]. apply sep_skipn. replace (p + (i' - p)) with i' by lia. exact Hs.
Qed.

(* _HEADER_PATTERN.split(t) is hsplit t: the lookahead (?![^\[]*\]) is `negb (close_first rest)`; for EVERY t, the empty one included *)
Theorem gen_re_header_eq : forall t res,
  re_split gen_re_header_multiline t gen_re_header res <-> res = hsplit t.
Proof.
  intros t res. unfold re_split. split.
  - intros H. apply re_split_from_hsplit in H. exact H.
  - intros ->. destruct (re_split_from_exists t (length t) 0 ltac:(lia)) as (res & H).
    rewrite (re_split_from_hsplit _ _ _ H) in H. exact H.
Qed.

Print Assumptions gen_re_blank_eq.
Print Assumptions gen_re_blank_end_unique.
Print Assumptions gen_re_version_eq.
Print Assumptions gen_re_version_match_unique.
Print Assumptions gen_re_version_group_participates.
Print Assumptions gen_re_header_eq.
Print Assumptions gen_re_header_one_byte.
