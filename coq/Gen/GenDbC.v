(* Corollaries: C15 (lookup by label text) over the translated RecordsDatabase.get_random, C11 (atomic, idempotent load) over the
   translated Database.load.  Hand-written; compiled after Gen/GenDbP.v. *)
From Coq Require Import String ZArith NArith List Bool Lia.
From PV Require Import Model.Prelude Model.Bits Model.Sig Model.Text Model.SigParse Model.DbParse Model.Dump Model.DbState Spec.C09.
From PV Require Import Proofs.DbParseP Proofs.LabelsP Proofs.DbStateP Gen.GeneratedSig Gen.GeneratedFile Gen.GenSigP Gen.GenFileP Gen.GenFileC Gen.GenDbP.
Import ListNotations.
Local Open Scope Z_scope.

(* ---- C15 ---- *)
(* get_random returns only records of the requested section whose dumped label (the code's own dump) equals the text exactly *)
Theorem C15_translated_sound : forall m raw k dr pick r, wfm m -> In (k, dr) canonical_sections ->
  gen_get_random m raw k dr pick = Ok r ->
  exists recs, section_of (of_map m) (k, dr) = Some recs /\ In r recs /\ gen_dump (rc_label r) = raw.
Proof.
  intros m raw k dr pick r W Hc H. rewrite (gen_get_random_eq m raw k dr pick W Hc) in H.
  destruct (lookup_sound _ _ _ _ H) as (recs & E & Hi & Hd). exists recs. rewrite gen_dump_eq. auto.
Qed.

(* ... can return every such record, for some choice of random.choice within range ... *)
Theorem C15_translated_complete : forall m raw k dr recs r, wfm m -> In (k, dr) canonical_sections ->
  section_of (of_map m) (k, dr) = Some recs -> In r recs -> gen_dump (rc_label r) = raw ->
  exists pick, (pick < length (candidates raw recs))%nat /\ gen_get_random m raw k dr pick = Ok r.
Proof.
  intros m raw k dr recs r W Hc E Hi Hd. rewrite gen_dump_eq in Hd.
  destruct (lookup_complete raw recs r Hi Hd) as (pick & Hp & Hl). exists pick. split; [exact Hp|].
  rewrite (gen_get_random_eq m raw k dr pick W Hc), E. exact Hl.
Qed.

(* ... and raises DatabaseError when there is none, or the section is not loaded *)
Theorem C15_translated_none : forall m raw k dr recs pick, wfm m -> In (k, dr) canonical_sections ->
  section_of (of_map m) (k, dr) = Some recs -> (forall r, In r recs -> gen_dump (rc_label r) <> raw) ->
  gen_get_random m raw k dr pick = Err DatabaseError.
Proof.
  intros m raw k dr recs pick W Hc E Hn. rewrite (gen_get_random_eq m raw k dr pick W Hc), E.
  apply lookup_none. intros r Hi. rewrite <- gen_dump_eq. exact (Hn r Hi).
Qed.
Theorem C15_translated_unloaded : forall m raw k dr pick, wfm m -> In (k, dr) canonical_sections ->
  section_of (of_map m) (k, dr) = None -> gen_get_random m raw k dr pick = Err DatabaseError.
Proof. intros m raw k dr pick W Hc E. rewrite (gen_get_random_eq m raw k dr pick W Hc), E. apply lookup_unloaded. Qed.
(* in particular on the dictionary of a Database() that was never loaded *)
Theorem C15_translated_never_loaded : forall raw k dr pick, gen_get_random [] raw k dr pick = Err DatabaseError.
Proof. reflexivity. Qed.

(* ---- C11 ---- *)
Local Notation load_lines m lines := (gen_Database_load m (map add_nl lines)).

Lemma load_pair m lines : Forall no_lead_nl lines ->
  (of_map (fst (load_lines m lines)), snd (load_lines m lines)) = load_spec (of_map m) lines.
Proof. intros H. pose proof (gen_load_eq m lines H) as E. destruct (load_lines m lines) as [m' r]. exact E. Qed.

(* a failed load leaves the database as it was: the model's statement, and the stronger one (the very same dictionary) *)
Theorem C11_translated_failed_load_preserves : forall m lines e, Forall no_lead_nl lines ->
  snd (load_lines m lines) = Err e -> of_map (fst (load_lines m lines)) = of_map m.
Proof.
  intros m lines e H He. pose proof (load_pair m lines H) as P.
  assert (E1 : fst (load_spec (of_map m) lines) = of_map (fst (load_lines m lines))) by (rewrite <- P; reflexivity).
  assert (E2 : snd (load_spec (of_map m) lines) = Err e) by (rewrite <- P; exact He).
  rewrite <- E1. exact (failed_load_preserves _ _ _ E2).
Qed.
Theorem C11_translated_failed_load_preserves_map : forall m file e,
  snd (gen_Database_load m file) = Err e -> fst (gen_Database_load m file) = m.
Proof. intros m file e. unfold gen_Database_load. destruct (gen_open_parse_file file); cbn [fst snd]; [discriminate|reflexivity]. Qed.

(* a successful load installs the file's contents whatever was loaded before: nothing accumulates *)
Theorem C11_translated_no_accumulation : forall m1 m2 lines, Forall no_lead_nl lines ->
  snd (load_lines m1 lines) = Ok tt -> of_map (fst (load_lines m1 lines)) = of_map (fst (load_lines m2 lines)).
Proof.
  intros m1 m2 lines H Hok. pose proof (load_pair m1 lines H) as P1. pose proof (load_pair m2 lines H) as P2.
  assert (E1 : fst (load_spec (of_map m1) lines) = of_map (fst (load_lines m1 lines))) by (rewrite <- P1; reflexivity).
  assert (E2 : fst (load_spec (of_map m2) lines) = of_map (fst (load_lines m2 lines))) by (rewrite <- P2; reflexivity).
  assert (E3 : snd (load_spec (of_map m1) lines) = Ok tt) by (rewrite <- P1; exact Hok).
  rewrite <- E1, <- E2. exact (load_no_accumulation _ _ _ E3).
Qed.
Theorem C11_translated_no_accumulation_map : forall m1 m2 file,
  snd (gen_Database_load m1 file) = Ok tt -> fst (gen_Database_load m1 file) = fst (gen_Database_load m2 file).
Proof. intros m1 m2 file. unfold gen_Database_load, gen_db_replace. destruct (gen_open_parse_file file); cbn [fst snd]; [reflexivity|discriminate]. Qed.

(* loading the same file twice is loading it once *)
Theorem C11_translated_idempotent : forall m lines, Forall no_lead_nl lines ->
  let once := load_lines m lines in let twice := load_lines (fst once) lines in
  (of_map (fst twice), snd twice) = (of_map (fst once), snd once).
Proof.
  intros m lines H once twice. subst once twice.
  rewrite (load_pair (fst (load_lines m lines)) lines H).
  assert (E1 : of_map (fst (load_lines m lines)) = fst (load_spec (of_map m) lines)) by (rewrite <- (load_pair m lines H); reflexivity).
  assert (E2 : snd (load_lines m lines) = snd (load_spec (of_map m) lines)) by (rewrite <- (load_pair m lines H); reflexivity).
  rewrite E1, E2, load_idempotent. destruct (load_spec (of_map m) lines); reflexivity.
Qed.
Theorem C11_translated_idempotent_map : forall m file,
  gen_Database_load (fst (gen_Database_load m file)) file = gen_Database_load m file.
Proof. intros m file. unfold gen_Database_load, gen_db_replace. destruct (gen_open_parse_file file); reflexivity. Qed.

(* the same three for file TEXTS (universal newlines), without hypothesis *)
Theorem C11_translated_text : forall m t,
  (of_map (fst (gen_load_text m t)), snd (gen_load_text m t)) = load_spec (of_map m) (file_lines t).
Proof. intros m t. apply load_pair. apply file_lines_no_lead_nl. Qed.

(* len(db) after a successful load is the model's db_len of what was loaded *)
Theorem C11_translated_len : forall m lines d, Forall no_lead_nl lines -> wfm m -> dict_ok m ->
  snd (load_lines m lines) = Ok tt -> parse_file lines = Ok d -> gen_len (fst (load_lines m lines)) = db_len d.
Proof.
  intros m lines d H W D Hok Hp. pose proof (gen_load_keeps_invariants m lines H W D) as K. pose proof (load_pair m lines H) as P.
  destruct (load_lines m lines) as [m' r]. cbn [fst snd] in *. destruct K as (W' & D' & _).
  rewrite (gen_len_eq m' W' D'). unfold load_spec in P. rewrite Hp in P. injection P as -> _. reflexivity.
Qed.

Print Assumptions C15_translated_sound.
Print Assumptions C15_translated_complete.
Print Assumptions C15_translated_none.
Print Assumptions C15_translated_unloaded.
Print Assumptions C11_translated_failed_load_preserves.
Print Assumptions C11_translated_failed_load_preserves_map.
Print Assumptions C11_translated_no_accumulation.
Print Assumptions C11_translated_no_accumulation_map.
Print Assumptions C11_translated_idempotent.
Print Assumptions C11_translated_idempotent_map.
Print Assumptions C11_translated_text.
Print Assumptions C11_translated_len.
