(* The translated TCP option walker (Gen/Generated.v: gen_parse_options, an index-based while loop with
   fuel) computes the same thing as the hand-written suffix-based model (Model/Options.v: parse_options). *)
From Coq Require Import Lia.
From PV Require Import Model.Prelude Model.Bits Model.Options Proofs.BitsP Proofs.OptionsP Gen.Generated_options.

(* ------------------------------------------------------------------ *)
(* Getting hold of the outer fixpoint of the generated term.           *)
(* ------------------------------------------------------------------ *)
(* [outer fuel0 buffer is_syn] is the outer [fix loop] of [gen_parse_options], extracted from the
   generated definition itself (so it follows the generated text when that is regenerated). *)
Definition outer (fuel0 : nat) (buffer : list Z) (is_syn : bool)
  : nat -> list Z -> Z -> Z -> N -> Z -> Z -> Z -> res topts :=
  ltac:(let t := eval cbv beta zeta delta [gen_parse_options] in (gen_parse_options fuel0 buffer is_syn) in
        match t with ?F _ _ _ _ _ _ _ _ => exact F end).

Lemma gen_parse_options_outer fuel0 buffer syn :
  gen_parse_options fuel0 buffer syn = outer fuel0 buffer syn fuel0 [] 0 0 0%N 0 0 0.
Proof. reflexivity. Qed.

(* ------------------------------------------------------------------ *)
(* List / index facts.                                                 *)
(* ------------------------------------------------------------------ *)
Lemma to_nat_len (l : list Z) : Z.to_nat (len l) = length l.
Proof. unfold len. apply Nat2Z.id. Qed.

Lemma nth_len_app (pre : list Z) x suf : nth (Z.to_nat (len pre)) (pre ++ x :: suf) 0 = x.
Proof.
  rewrite to_nat_len, app_nth2 by lia. rewrite Nat.sub_diag. reflexivity.
Qed.

Lemma skipn_len_app' (pre suf : list Z) : skipn (Z.to_nat (len pre)) (pre ++ suf) = suf.
Proof. apply skipn_len_app. reflexivity. Qed.

Lemma len_snoc (pre : list Z) x : len (pre ++ [x]) = len pre + 1.
Proof. rewrite len_app, len_cons, len_nil. lia. Qed.

Lemma lor_mask1 q k : N.lor q (mask_of [k]) = setq k q.
Proof. unfold setq, mask_of. rewrite N.lor_0_r. reflexivity. Qed.

(* ------------------------------------------------------------------ *)
(* The inner loop (skipping the zero padding after EOL).               *)
(* ------------------------------------------------------------------ *)
(* Stated for any function [G] that satisfies the unfolding equations of the generated inner [fix]. *)
Lemma inner_spec (buffer : list Z) (A B : res topts) (G : nat -> Z -> res topts) :
  (forall i, G O i = Err OutOfFuel) ->
  (forall f i, G (S f) i =
     if (i <? Z.of_nat (length buffer)) && negb (negb (nth (Z.to_nat i) buffer 0 =? 0))
     then G f (i + 1)
     else if negb (i =? Z.of_nat (length buffer)) then A else B) ->
  forall suf pre f, buffer = pre ++ suf -> (length suf < f)%nat ->
    G f (len pre) = if all_zero suf then B else A.
Proof.
  intros G0 GS. induction suf as [|x r IH]; intros pre f Hb Hf.
  - destruct f as [|f]; [lia|]. rewrite GS.
    assert (HL : Z.of_nat (length buffer) = len pre).
    { subst buffer. rewrite app_nil_r. reflexivity. }
    rewrite HL, Z.ltb_irrefl, Z.eqb_refl. reflexivity.
  - destruct f as [|f]; [cbn [length] in Hf; lia|]. rewrite GS.
    assert (HL : Z.of_nat (length buffer) = len pre + 1 + len r).
    { subst buffer. fold (len (pre ++ x :: r)). rewrite len_app, len_cons. lia. }
    assert (Hx : nth (Z.to_nat (len pre)) buffer 0 = x).
    { subst buffer. apply nth_len_app. }
    pose proof (len_nonneg r) as Hr.
    rewrite Hx, HL, negb_involutive.
    assert (Hlt : (len pre <? len pre + 1 + len r) = true) by (apply Z.ltb_lt; lia).
    rewrite Hlt. cbn [andb all_zero forallb].
    destruct (x =? 0) eqn:X0; cbn [andb].
    + rewrite <- (len_snoc pre x). apply IH.
      * subst buffer. rewrite <- app_assoc. reflexivity.
      * cbn [length] in Hf. lia.
    + assert (Hne : (len pre =? len pre + 1 + len r) = false) by (apply Z.eqb_neq; lia).
      rewrite Hne. reflexivity.
Qed.

(* ------------------------------------------------------------------ *)
(* Value decoding.                                                     *)
(* ------------------------------------------------------------------ *)
Lemma gen_unpack_2 v : gen_unpack 2 v = match v with [a; b] => [a * 256 + b] | _ => [] end.
Proof. reflexivity. Qed.
Lemma gen_unpack_3 v : gen_unpack 3 v = match v with [a] => [a] | _ => [] end.
Proof. reflexivity. Qed.
Lemma gen_unpack_8 v : gen_unpack 8 v =
  match v with
  | [a; b; c; d; e; f; g; h] => [((a * 256 + b) * 256 + c) * 256 + d; ((e * 256 + f) * 256 + g) * 256 + h]
  | _ => [] end.
Proof. reflexivity. Qed.

Lemma gen_has_format_fmt k : gen_has_format k = match fmt_size k with Some _ => true | None => false end.
Proof.
  unfold gen_has_format, fmt_size.
  destruct (k =? 3), (k =? 8), (k =? 2), (k =? 4); reflexivity.
Qed.

Lemma gen_fmt_size_fmt k sz : fmt_size k = Some sz -> gen_fmt_size k = sz.
Proof.
  unfold gen_fmt_size, fmt_size.
  destruct (k =? 3), (k =? 8), (k =? 2), (k =? 4); intros H; inversion H; reflexivity.
Qed.

Lemma firstn_exact_1 (l : list Z) : 1 <= len l -> exists a, firstn 1 l = [a].
Proof. intros H. destruct (len_ge_1 l H) as (a & r & ->). exists a. reflexivity. Qed.
Lemma firstn_exact_2 (l : list Z) : 2 <= len l -> exists a b, firstn 2 l = [a; b].
Proof. intros H. destruct (len_ge_2 l H) as (a & b & r & ->). exists a, b. reflexivity. Qed.
Lemma firstn_exact_8 (l : list Z) : 8 <= len l ->
  exists a b c d e f g h, firstn 8 l = [a; b; c; d; e; f; g; h].
Proof.
  intros H. destruct (len_ge_8 l H) as (a & b & c & d & e & f & g & h & r & ->).
  exists a, b, c, d, e, f, g, h. reflexivity.
Qed.

(* ------------------------------------------------------------------ *)
(* The outer loop.                                                     *)
(* ------------------------------------------------------------------ *)
Definition mk (layout : list Z) (eol : Z) (q : N) (mss ws ts : Z) : wst :=
  {| w_rlayout := rev layout; w_q := q; w_mss := mss; w_ts1 := ts; w_ws := ws; w_eol := eol |}.

Definition out (o : option wst) : res topts :=
  match o with Some s => Ok (finish s) | None => Err OutOfFuel end.

Lemma push_mk k layout eol q mss ws ts :
  w_push k (mk layout eol q mss ws ts) = mk (layout ++ [k]) eol q mss ws ts.
Proof. unfold w_push, mk. cbn [w_rlayout w_q w_mss w_ts1 w_ws w_eol]. rewrite rev_unit. reflexivity. Qed.

Lemma quirk_mk k layout eol q mss ws ts :
  w_quirk k (mk layout eol q mss ws ts) = mk layout eol (N.lor q (mask_of [k])) mss ws ts.
Proof. unfold w_quirk, mk. cbn [w_rlayout w_q w_mss w_ts1 w_ws w_eol]. rewrite lor_mask1. reflexivity. Qed.

Lemma set_eol_mk n layout eol q mss ws ts :
  w_set_eol n (mk layout eol q mss ws ts) = mk layout n q mss ws ts.
Proof. reflexivity. Qed.
Lemma set_mss_mk n layout eol q mss ws ts :
  w_set_mss n (mk layout eol q mss ws ts) = mk layout eol q n ws ts.
Proof. reflexivity. Qed.
Lemma set_ws_mk n layout eol q mss ws ts :
  w_set_ws n (mk layout eol q mss ws ts) = mk layout eol q mss n ts.
Proof. reflexivity. Qed.
Lemma set_ts_mk n layout eol q mss ws ts :
  w_set_ts n (mk layout eol q mss ws ts) = mk layout eol q mss ws n.
Proof. reflexivity. Qed.

Lemma finish_mk layout eol q mss ws ts :
  finish (mk layout eol q mss ws ts) =
  {| o_layout := layout; o_quirks := q; o_mss := mss; o_ts1 := ts; o_ws := ws; o_eol := eol |}.
Proof. unfold finish, mk. cbn [w_rlayout w_q w_mss w_ts1 w_ws w_eol]. rewrite rev_involutive. reflexivity. Qed.

Ltac mk_norm := rewrite ?push_mk, ?quirk_mk, ?set_eol_mk, ?set_mss_mk, ?set_ws_mk, ?set_ts_mk.

Lemma outer_spec fuel0 buffer syn : (length buffer < fuel0)%nat ->
  forall fuel pre suf layout eol q mss ws ts,
    buffer = pre ++ suf -> (length suf < fuel)%nat ->
    outer fuel0 buffer syn fuel layout (len pre) eol q mss ws ts =
    out (walk (length suf) suf syn (mk layout eol q mss ws ts)).
Proof.
  intros Hfuel0.
  induction fuel as [|f IH]; intros pre suf layout eol q mss ws ts Hb Hf; [lia|].
  destruct suf as [|k rest].
  - (* end of the option area *)
    assert (HL : Z.of_nat (length buffer) = len pre).
    { subst buffer. rewrite app_nil_r. reflexivity. }
    cbn [outer]. rewrite HL, Z.ltb_irrefl.
    cbn [length walk out]. rewrite finish_mk. reflexivity.
  - assert (HL : Z.of_nat (length buffer) = len pre + 1 + len rest).
    { subst buffer. fold (len (pre ++ k :: rest)). rewrite len_app, len_cons. lia. }
    assert (Hk : nth (Z.to_nat (len pre)) buffer 0 = k).
    { subst buffer. apply nth_len_app. }
    pose proof (len_nonneg rest) as Hrest. pose proof (len_nonneg pre) as Hpre.
    assert (Hlt : (len pre <? len pre + 1 + len rest) = true) by (apply Z.ltb_lt; lia).
    cbn [length]. rewrite walk_S.
    cbn [outer]. rewrite Hk, HL, Hlt.
    (* the NOP continuation *)
    assert (IHnop : forall layout' eol' q' mss' ws' ts' s',
      s' = mk layout' eol' q' mss' ws' ts' ->
      outer fuel0 buffer syn f layout' (len pre + 1) eol' q' mss' ws' ts' =
      out (walk (length rest) rest syn s')).
    { intros layout' eol' q' mss' ws' ts' s' ->. rewrite <- (len_snoc pre k). apply IH.
      - subst buffer. rewrite <- app_assoc. reflexivity.
      - cbn [length] in Hf. lia. }
    destruct (k =? 0) eqn:K0.
    { (* EOL *)
      unfold step. rewrite K0. mk_norm.
      match goal with |- ?G fuel0 _ = _ => set (GG := G) end.
      rewrite <- (len_snoc pre k).
      rewrite (inner_spec buffer
                 (Ok {| o_layout := layout ++ [k]; o_quirks := N.lor q (mask_of [qEOLNZ]); o_mss := mss;
                        o_ts1 := ts; o_ws := ws; o_eol := len pre + 1 + len rest - (len pre + 1) |})
                 (Ok {| o_layout := layout ++ [k]; o_quirks := q; o_mss := mss;
                        o_ts1 := ts; o_ws := ws; o_eol := len pre + 1 + len rest - (len pre + 1) |})
                 GG) with (suf := rest).
      - replace (len pre + 1 + len rest - (len pre + 1)) with (len rest) by lia.
        destruct (all_zero rest); cbn [out]; mk_norm; rewrite finish_mk; reflexivity.
      - intros i. reflexivity.
      - intros f' i. subst GG. cbv beta iota fix. rewrite HL. reflexivity.
      - subst buffer. rewrite <- app_assoc. reflexivity.
      - subst buffer. rewrite app_length in Hfuel0. cbn [length] in Hfuel0. lia. }
    destruct (k =? 1) eqn:K1.
    { (* NOP *)
      unfold step. rewrite K0, K1. apply IHnop. mk_norm. reflexivity. }
    destruct rest as [|olen body].
    { (* kind byte is the last byte *)
      rewrite len_nil, Z.add_0_r, Z.eqb_refl.
      unfold step. rewrite K0, K1. cbn [out]. mk_norm. rewrite finish_mk. reflexivity. }
    rewrite len_cons in HL, Hlt |- *.
    pose proof (len_nonneg body) as Hbody.
    assert (Hne : (len pre + 1 =? len pre + 1 + (1 + len body)) = false) by (apply Z.eqb_neq; lia).
    rewrite Hne.
    assert (Hol : nth (Z.to_nat (len pre + 1)) buffer 0 = olen).
    { subst buffer. rewrite <- (len_snoc pre k).
      replace (pre ++ k :: olen :: body) with ((pre ++ [k]) ++ olen :: body)
        by (rewrite <- app_assoc; reflexivity).
      apply nth_len_app. }
    assert (Hbd : skipn (Z.to_nat (len pre + 1 + 1)) buffer = body).
    { subst buffer. rewrite <- (len_snoc pre k), <- (len_snoc (pre ++ [k]) olen).
      replace (pre ++ k :: olen :: body) with (((pre ++ [k]) ++ [olen]) ++ body)
        by (rewrite <- !app_assoc; reflexivity).
      apply skipn_len_app'. }
    rewrite Hol, Hbd.
    replace (len pre + 1 - 1 + olen - (len pre + 1 + 1)) with (olen - 2) by lia.
    unfold step. rewrite K0, K1.
    (* the two bad-length tests, in the other order *)
    destruct (len pre + 1 - 1 + olen >? len pre + 1 + (1 + len body)) eqn:G1.
    { assert (G2 : (olen - 2 >? len body) = true).
      { rewrite Z.gtb_ltb in G1 |- *. apply Z.ltb_lt in G1. apply Z.ltb_lt. lia. }
      rewrite G2. cbn [out]. mk_norm. rewrite finish_mk. reflexivity. }
    assert (G2 : (olen - 2 >? len body) = false).
    { rewrite Z.gtb_ltb in G1 |- *. apply Z.ltb_ge in G1. apply Z.ltb_ge. lia. }
    rewrite G2.
    destruct (olen <? 2) eqn:L2.
    { cbn [out]. mk_norm. rewrite finish_mk. reflexivity. }
    rewrite Z.gtb_ltb in G2. apply Z.ltb_ge in G2. apply Z.ltb_ge in L2.
    (* the TLV continuation *)
    assert (IHc : forall layout' eol' q' mss' ws' ts' s',
      s' = mk layout' eol' q' mss' ws' ts' ->
      outer fuel0 buffer syn f layout' (len pre + 1 - 1 + olen) eol' q' mss' ws' ts' =
      out (walk (length (olen :: body)) (skipn (Z.to_nat (olen - 2)) body) syn s')).
    { intros layout' eol' q' mss' ws' ts' s' ->.
      rewrite walk_fuel_irrelevant
        by (cbn [length]; pose proof (skipn_le (Z.to_nat (olen - 2)) body); lia).
      replace (len pre + 1 - 1 + olen)
        with (len (pre ++ k :: olen :: firstn (Z.to_nat (olen - 2)) body)).
      - apply IH.
        + subst buffer. rewrite <- app_assoc. cbn [app]. rewrite firstn_skipn. reflexivity.
        + pose proof (skipn_le (Z.to_nat (olen - 2)) body). cbn [length] in Hf. lia.
      - rewrite len_app, !len_cons, len_firstn by lia. lia. }
    destruct (k =? 5) eqn:K5.
    { (* SACK *)
      destruct ((10 <=? olen) && (olen <=? 34)); cbn [negb].
      - apply IHc. mk_norm. reflexivity.
      - cbn [out]. mk_norm. rewrite finish_mk. reflexivity. }
    rewrite gen_has_format_fmt.
    destruct (fmt_size k) as [sz|] eqn:F.
    2:{ (* no fixed format *)
      destruct ((2 <=? olen) && (olen <=? 40)); cbn [negb].
      - apply IHc. mk_norm. reflexivity.
      - cbn [out]. mk_norm. rewrite finish_mk. reflexivity. }
    rewrite (gen_fmt_size_fmt k sz F).
    destruct (olen =? 2 + sz) eqn:Q; cbn [negb].
    2:{ apply IHc. mk_norm. reflexivity. }
    apply Z.eqb_eq in Q.
    replace (olen - 2) with sz in * by lia.
    change (Z.to_nat 0) with 0%nat. change (Z.to_nat 1) with 1%nat.
    destruct (fmt_size_some k sz F) as [[-> ->]|[[-> ->]|[[-> ->]|[-> ->]]]].
    + (* window scale *)
      change (3 =? 2) with false. change (3 =? 3) with true. cbv iota.
      change (Z.to_nat 1) with 1%nat.
      destruct (firstn_exact_1 body ltac:(lia)) as (a & Ea). rewrite Ea.
      rewrite gen_unpack_3, apply_value_3. cbn [nth].
      destruct (a >? 14); apply IHc; mk_norm; reflexivity.
    + (* timestamps *)
      change (8 =? 2) with false. change (8 =? 3) with false. change (8 =? 8) with true. cbv iota.
      change (Z.to_nat 8) with 8%nat.
      destruct (firstn_exact_8 body ltac:(lia)) as (a & b & c & d & e & f' & g & h & Ea). rewrite Ea.
      rewrite gen_unpack_8, apply_value_8. cbn [nth]. unfold be32. rewrite negb_involutive.
      destruct (((a * 256 + b) * 256 + c) * 256 + d =? 0);
        destruct (negb (((e * 256 + f') * 256 + g) * 256 + h =? 0) && syn);
        apply IHc; mk_norm; reflexivity.
    + (* MSS *)
      change (2 =? 2) with true. cbv iota.
      change (Z.to_nat 2) with 2%nat.
      destruct (firstn_exact_2 body ltac:(lia)) as (a & b & Ea). rewrite Ea.
      rewrite gen_unpack_2, apply_value_2. cbn [nth]. unfold be16.
      apply IHc. mk_norm. reflexivity.
    + (* SACK permitted *)
      change (4 =? 2) with false. change (4 =? 3) with false. change (4 =? 8) with false. cbv iota.
      change (Z.to_nat 0) with 0%nat. cbn [firstn]. rewrite apply_value_4.
      apply IHc. mk_norm. reflexivity.
Qed.

(* ------------------------------------------------------------------ *)
(* The goal theorems.                                                  *)
(* ------------------------------------------------------------------ *)
Theorem gen_parse_options_eq : forall buf syn,
  gen_parse_options (S (length buf)) buf syn = parse_options buf syn.
Proof.
  intros buf syn. rewrite gen_parse_options_outer.
  change 0 with (len (@nil Z)) at 1.
  rewrite (outer_spec (S (length buf)) buf syn (Nat.lt_succ_diag_r _) (S (length buf)) [] buf)
    by (reflexivity || apply Nat.lt_succ_diag_r).
  reflexivity.
Qed.

(* consequence used by C04: the translated loop does not run out of fuel, i.e. the Python loop terminates *)
Theorem gen_parse_options_terminates : forall buf syn, exists o, gen_parse_options (S (length buf)) buf syn = Ok o.
Proof.
  intros buf syn. rewrite gen_parse_options_eq. apply parse_options_total.
Qed.

Print Assumptions gen_parse_options_eq.
Print Assumptions gen_parse_options_terminates.
