(* Hand-written support for Gen/GeneratedH11.v (translate/h112coq.py: h11's ReceiveBuffer as installed, pyp0f's copy_buffer).

   THE ONE ASSUMPTION of the h11 tie is [find_blank_end]: the meaning of

       blank_line_regex = re.compile(b"\n\r?\n", re.MULTILINE);   m = blank_line_regex.search(data, start);   m.span(0)[-1]

   Everything else in this file is the Python meaning of a slice / an index with a possibly negative bound and of an
   `assert`; the translated functions themselves are in the generated file. *)
From Coq Require Import ZArith List Bool.
From PV Require Import Model.Prelude Model.Text.
Import ListNotations.
Local Open Scope Z_scope.

(* the attributes of a ReceiveBuffer (h11/_receivebuffer.py, __init__) *)
Record rbuf := { rb_data : text; rb_next_line_search : Z; rb_multiple_lines_search : Z }.
Definition set_rb_data (s : rbuf) (v : text) : rbuf :=
  {| rb_data := v; rb_next_line_search := rb_next_line_search s; rb_multiple_lines_search := rb_multiple_lines_search s |}.
Definition set_rb_next_line_search (s : rbuf) (v : Z) : rbuf :=
  {| rb_data := rb_data s; rb_next_line_search := v; rb_multiple_lines_search := rb_multiple_lines_search s |}.
Definition set_rb_multiple_lines_search (s : rbuf) (v : Z) : rbuf :=
  {| rb_data := rb_data s; rb_next_line_search := rb_next_line_search s; rb_multiple_lines_search := v |}.

(* how a translated method ends: it returns, or one of the two exceptions its statements can raise escapes *)
Inductive h11_outcome (A : Type) : Type :=
| H11Return (a : A)
| AssertionFailed                      (* `assert e` with e false *)
| IndexFailed.                         (* `l[i]` out of range *)
Arguments H11Return {A} a.
Arguments AssertionFailed {A}.
Arguments IndexFailed {A}.

(* ------------------------------------------------------------------------------------------------------------------ *)
(* ASSUMED: the regular expression.  \n\r?\n matches at the head of l iff l starts with "\n\n" or with "\n\r\n" (these  *)
(* exclude each other: the second byte is \n or \r); the match then is 2 resp. 3 bytes long.  `search(data, start)`    *)
(* tries the positions start, start+1, ... in this order (a negative start counts as 0, one beyond the end finds       *)
(* nothing); span(0)[-1] is the END index of the match.  re.MULTILINE only changes `^` and `$`, which the pattern does  *)
(* not contain (the translator nevertheless insists on the flag being written exactly so).                             *)
(* ------------------------------------------------------------------------------------------------------------------ *)
Fixpoint blank_end_from (l : text) (pos : Z) : option Z :=          (* l = data[pos:] *)
  match l with
  | [] => None
  | _ :: r => if starts_with [10; 10] l then Some (pos + 2)
              else if starts_with [10; 13; 10] l then Some (pos + 3)
              else blank_end_from r (pos + 1)
  end.
Definition find_blank_end (data : text) (start : Z) : option Z :=
  blank_end_from (skipn (Z.to_nat start) data) (Z.max 0 start).

(* ------------------------------------------------------------------------------------------------------------------ *)
(* Python sequence primitives                                                                                          *)
(* ------------------------------------------------------------------------------------------------------------------ *)
(* a slice bound n as an offset into a sequence of length len: negative counts from the end; clipped to 0 .. len *)
Definition py_bound (len n : Z) : nat := Z.to_nat (Z.min len (if n <? 0 then Z.max 0 (len + n) else n)).
(* l[:n]  (also what `del l[n:]` leaves) *)
Definition py_take {A} (l : list A) (n : Z) : list A := firstn (py_bound (Z.of_nat (length l)) n) l.
(* l[n:]  (also what `del l[:n]` leaves) *)
Definition py_drop {A} (l : list A) (n : Z) : list A := skipn (py_bound (Z.of_nat (length l)) n) l.
(* l[i], i possibly negative; None = IndexError *)
Definition py_index {A} (l : list A) (i : Z) : option A :=
  let j := if i <? 0 then Z.of_nat (length l) + i else i in
  if j <? 0 then None else nth_error l (Z.to_nat j).
