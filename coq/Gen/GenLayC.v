(* Property C03 over the TRANSLATED extraction: the theorems of Properties/C03.v about the IP / TCP headers, whole packets,
   the packet signature and the trailer, restated for the code translated from /repo's current source
   (Gen/Generated_layers.v) applied to the Scapy fields dissected from the bytes (Gen/GenLayLib.v), and proved by rewriting
   with the equivalence theorems of Gen/GenP_layers.v. *)
From Coq Require Import Lia.
From PV Require Import Model.Prelude Model.Bits Model.Sig Model.Select Model.Options Model.Wire
  Spec.C03 Proofs.WireP Proofs.OptionsP Proofs.ExtractP Proofs.TrimP Properties.C03
  Gen.GenLib Gen.Generated_options Gen.GenLayLib Gen.Generated_layers Gen.GenP_layers Gen.Generated_uptime Gen.GenP_uptime.

(* IPv4 header: the translated IP._from_ipv4 on the dissected fields of the encoding gives the header's fields back (tos >> 2),
   and the quirk set is exactly the documented one. *)
Theorem C03_translated_fields4 : forall h payload, wf_ip4 h payload ->
  exists f q,
  fields_ip4 (enc_ip4 h payload) = Some (f, payload) /\
  gen_IP_from_ipv4 f =
    {| pi_version := 4; pi_src := quad (h4_src h); pi_dst := quad (h4_dst h); pi_ttl := h4_ttl h; pi_tos := h4_tos h / 4;
       pi_options_length := len (h4_opts h); pi_header_length := 20 + len (h4_opts h);
       pi_is_fragment := h4_mf h || negb (h4_off h =? 0); pi_quirks := q |} /\
  s4_proto f = h4_proto h /\ s4_frag f = h4_off h /\ s4_id f = h4_id h /\ s4_tos f = h4_tos h /\
  forall k, hasq k q = ip4_quirk h k.
Proof.
  intros h payload W. destruct (C03_fields4 h payload W) as (q & E & Q).
  destruct (gen_from_ipv4_eq _ _ E) as (f & rest & F & G & R & Hp & Hf & Hi & Ht).
  cbn [i_payload i_proto i_fragoff i_id i_tos] in R, Hp, Hf, Hi, Ht. subst rest.
  exists f, q. repeat split; try assumption; try (rewrite G; reflexivity).
Qed.

Theorem C03_translated_fields6 : forall h payload, wf_ip6 h payload ->
  exists f q,
  fields_ip6 (enc_ip6 h payload) = Some (f, payload) /\
  gen_IP_from_ipv6 f =
    {| pi_version := 6; pi_src := h6_src h; pi_dst := h6_dst h; pi_ttl := h6_hlim h; pi_tos := h6_tc h / 4;
       pi_options_length := 0; pi_header_length := 40; pi_is_fragment := false; pi_quirks := q |} /\
  s6_nh f = h6_nh h /\ s6_tc f = h6_tc h /\
  forall k, hasq k q = ip6_quirk h k.
Proof.
  intros h payload W. destruct (C03_fields6 h payload W) as (q & E & Q).
  destruct (gen_from_ipv6_eq _ _ E) as (f & rest & F & G & R & Hp & _ & _ & Ht).
  cbn [i_payload i_proto i_tos] in R, Hp, Ht. subst rest.
  exists f, q. repeat split; try assumption; try (rewrite G; reflexivity).
Qed.

(* TCP header: all 9 flag bits, every field the Python object keeps; quirks = documented core set joined with the option walker's. *)
Theorem C03_translated_tcp : forall h payload o, wf_tcp h ->
  parse_options (th_opts h) (type_of_hdr h =? fSYN) = Ok o ->
  exists f q,
  fields_tcp (enc_tcp h payload) = Some f /\
  (forall pk, sp_tcp pk = Some f ->
     gen_TCP_from_packet pk =
       Ok {| pt_type := type_of_hdr h; pt_src_port := th_sport h; pt_dst_port := th_dport h; pt_window := th_win h;
             pt_seq := th_seq h; pt_options := o; pt_payload := payload; pt_header_length := 20 + len (th_opts h);
             pt_quirks := q |}) /\
  st_ack f = th_ack h /\ st_urgptr f = th_urgp h /\
  forall k, hasq k q = tcp_quirk h k || hasq k (o_quirks o).
Proof.
  intros h payload o W P. destruct (C03_tcp h payload o W P) as (q & E & Q).
  destruct (gen_TCP_from_packet_eq _ _ E) as (f & F & G & X).
  destruct (X _ eq_refl) as (Ha & Hu). cbn [t_ack t_urg] in Ha, Hu.
  exists f, q. repeat split; try assumption; try (intros pk Hpk; rewrite (G pk Hpk); reflexivity).
Qed.

(* Whole packets: the translated Packet.from_packet on the dissection, then the translated TCPPacketSignature.from_packet:
   every field of the packet signature equals the header field. *)
Theorem C03_translated_packet4 : forall h th payload o syn_mss,
  wf_ip4 h (enc_tcp th payload) -> h4_proto h = 6 -> h4_off h = 0 -> wf_tcp th ->
  parse_options (th_opts th) (type_of_hdr th =? fSYN) = Ok o ->
  exists p, gen_extract 4 (enc_ip4 h (enc_tcp th payload)) = Framed (Ok p) /\
    pi_is_fragment (pp_ip p) = h4_mf h /\ pt_type (pp_tcp p) = type_of_hdr th /\
    pt_src_port (pp_tcp p) = th_sport th /\ pt_dst_port (pp_tcp p) = th_dport th /\ pt_seq (pp_tcp p) = th_seq th /\
    SigFields (gen_TCPPacketSignature_from_packet p syn_mss) 4 (len (h4_opts h)) (h4_ttl h) th o
              (20 + len (h4_opts h) + (20 + len (th_opts th))) payload syn_mss /\
    forall q, hasq q (p_quirks (gen_TCPPacketSignature_from_packet p syn_mss)) =
              ip4_quirk h q || (tcp_quirk th q || hasq q (o_quirks o)).
Proof.
  intros h th payload o syn_mss W4 Hp Ho Wt Po.
  destruct (C03_packet4 h th payload o syn_mss W4 Hp Ho Wt Po) as (k & E & R).
  exists (py_packet_of k). split; [rewrite gen_extract_eq, E; reflexivity|].
  rewrite gen_sig_from_packet_eq. exact R.
Qed.

Theorem C03_translated_packet6 : forall h th payload o syn_mss,
  wf_ip6 h (enc_tcp th payload) -> h6_nh h = 6 -> wf_tcp th ->
  parse_options (th_opts th) (type_of_hdr th =? fSYN) = Ok o ->
  exists p, gen_extract 6 (enc_ip6 h (enc_tcp th payload)) = Framed (Ok p) /\
    pi_is_fragment (pp_ip p) = false /\ pt_type (pp_tcp p) = type_of_hdr th /\
    pt_src_port (pp_tcp p) = th_sport th /\ pt_dst_port (pp_tcp p) = th_dport th /\ pt_seq (pp_tcp p) = th_seq th /\
    SigFields (gen_TCPPacketSignature_from_packet p syn_mss) 6 0 (h6_hlim h) th o (40 + (20 + len (th_opts th))) payload syn_mss /\
    forall q, hasq q (p_quirks (gen_TCPPacketSignature_from_packet p syn_mss)) =
              ip6_quirk h q || (tcp_quirk th q || hasq q (o_quirks o)).
Proof.
  intros h th payload o syn_mss W6 Hp Wt Po.
  destruct (C03_packet6 h th payload o syn_mss W6 Hp Wt Po) as (k & E & R).
  exists (py_packet_of k). split; [rewrite gen_extract_eq, E; reflexivity|].
  rewrite gen_sig_from_packet_eq. exact R.
Qed.

(* The signature constructor alone, on any packet of the model. *)
Theorem C03_translated_sig_of : forall v b k syn_mss, parse_datagram v b = Framed (Ok k) ->
  gen_extract_sig v b syn_mss = Framed (Ok (sig_of k syn_mss)).
Proof. intros v b k syn_mss H. exact (proj2 (gen_extract_ok v b k H) syn_mss). Qed.

(* Bytes after the end of the datagram are not part of the packet, for the translated extraction too.  The hypothesis is on
   the dissection side: the datagram alone is framed. *)
Definition gen_parse_packet (v : Z) (b : list Z) : framed (res py_packet) := gen_extract v (trim v b).

Theorem C03_translated_trailer_ignored : forall v b t,
  (v = 4 \/ v = 6) -> (if v =? 4 then fields_ip4 b <> None else fields_ip6 b <> None) ->
  gen_parse_packet v (b ++ t) = gen_extract v b.
Proof.
  intros v b t Hv Hf. unfold gen_parse_packet. rewrite !gen_extract_eq.
  change (parse_datagram v (trim v (b ++ t))) with (parse_packet v (b ++ t)).
  rewrite C03_trailer_ignored; [reflexivity | exact Hv |].
  destruct (v =? 4); intros H; apply Hf; [apply fields_ip4_unframed | apply fields_ip6_unframed]; exact H.
Qed.

Theorem C03_translated_parse_packet : forall v b,
  gen_parse_packet v b = map_framed (map_res py_packet_of) (parse_packet v b).
Proof. intros v b. unfold gen_parse_packet, parse_packet. apply gen_extract_eq. Qed.

(* Packet.should_fingerprint (translated in py2coq's group uptime / select / mtu: gen_should_fingerprint) on the translated
   packet is the model's gate on the model's packet. *)
Theorem C03_translated_should_fingerprint : forall v b k, parse_datagram v b = Framed (Ok k) ->
  exists p, gen_extract v b = Framed (Ok p) /\
    gen_should_fingerprint (pi_is_fragment (pp_ip p)) (pt_type (pp_tcp p)) = should_fp (i_frag (k_ip k)) (t_type (k_tcp k)).
Proof.
  intros v b k H. exists (py_packet_of k). split; [exact (proj1 (gen_extract_ok v b k H))|].
  rewrite gen_should_fingerprint_eq. reflexivity.
Qed.

Print Assumptions C03_translated_fields4.
Print Assumptions C03_translated_fields6.
Print Assumptions C03_translated_tcp.
Print Assumptions C03_translated_packet4.
Print Assumptions C03_translated_packet6.
Print Assumptions C03_translated_sig_of.
Print Assumptions C03_translated_trailer_ignored.
Print Assumptions C03_translated_parse_packet.
Print Assumptions C03_translated_should_fingerprint.
