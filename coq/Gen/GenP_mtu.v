(* Equivalence of the definitions translated from /repo's current source (group mtu) with the hand-written models. *)
From Coq Require Import Lia.
From PV Require Import Model.Prelude Model.Bits Model.Sig Model.Matcher Model.Select Model.Uptime Model.Mtu Model.Text Model.SigParse Model.DbParse Model.HttpRead Model.HttpMatch Gen.GenLib Gen.Generated_mtu Proofs.MtuP.

Theorem gen_should_fingerprint_eq frag ty : gen_should_fingerprint frag ty = should_fp frag ty.
Proof. reflexivity. Qed.

Theorem gen_valid_for_mtu_fingerprint_eq frag ty mss : gen_valid_for_mtu_fingerprint frag ty mss = valid_mtu_fp frag ty mss.
Proof. reflexivity. Qed.
Theorem gen_mtu_from_mss_eq mss ver : 0 < mss -> gen_mtu_from_mss mss ver = Some (mss + hdr_of ver).
Proof.
  intros H. unfold gen_mtu_from_mss, hdr_of.
  replace (mss <=? 0) with false by (symmetry; apply Z.leb_gt; exact H). reflexivity.
Qed.
Theorem gen_mtu_from_mss_reject mss ver : mss <= 0 -> gen_mtu_from_mss mss ver = None.
Proof. intros H. unfold gen_mtu_from_mss. replace (mss <=? 0) with true by (symmetry; apply Z.leb_le; exact H). reflexivity. Qed.
Theorem gen_mtu_signatures_match_eq a b : gen_mtu_signatures_match a b = (a =? b).
Proof. reflexivity. Qed.

Theorem gen_find_mtu_match_eq recs mtu : gen_find_mtu_match recs mtu = find_mtu recs mtu.
Proof.
  unfold gen_find_mtu_match, find_mtu.
  induction recs as [|r rest IH]; cbn [find]; [reflexivity|].
  unfold gen_mtu_signatures_match. destruct (m_mtu r =? mtu); [reflexivity | exact IH].
Qed.


(* pyp0f/impersonate/mtu.py: the new MSS value and the rewritten option list, as the source says it now *)
Theorem gen_impersonate_mtu_eq m ver opts : gen_impersonate_mtu m ver opts = imp_mtu m ver opts.
Proof. unfold gen_impersonate_mtu, imp_mtu, hdr_of. destruct (existsb is_mss opts); reflexivity. Qed.

(* the C08 theorems about impersonation, restated over the TRANSLATED code *)
Theorem C08_translated_roundtrip : forall m ver opts acc,
  last_mss (gen_impersonate_mtu m ver opts) acc = m - hdr_of ver /\
  (0 < m - hdr_of ver -> last_mss (gen_impersonate_mtu m ver opts) acc + hdr_of ver = m).
Proof. intros m ver opts acc. rewrite gen_impersonate_mtu_eq. exact (imp_mtu_roundtrip m ver opts acc). Qed.
Theorem C08_translated_untouched : forall m ver opts,
  filter (fun o => negb (is_mss o)) (gen_impersonate_mtu m ver opts) = filter (fun o => negb (is_mss o)) opts /\
  (existsb is_mss opts = true -> Forall2 (Kept (m - hdr_of ver)) opts (gen_impersonate_mtu m ver opts)) /\
  (existsb is_mss opts = false -> gen_impersonate_mtu m ver opts = OMss (m - hdr_of ver) :: opts).
Proof. intros m ver opts. rewrite gen_impersonate_mtu_eq. exact (imp_mtu_untouched m ver opts). Qed.

(* the public wrapper *)
Theorem gen_fingerprint_mtu_eq db frag ty ver mss : gen_fingerprint_mtu db frag ty ver mss = fp_mtu db frag ty ver mss.
Proof.
  unfold gen_fingerprint_mtu, fp_mtu. rewrite gen_valid_for_mtu_fingerprint_eq.
  destruct (valid_mtu_fp frag ty mss) eqn:V; cbn [negb]; [|reflexivity].
  assert (H : 0 < mss).
  { unfold valid_mtu_fp in V. apply andb_prop in V. destruct V as [V _]. apply andb_prop in V. destruct V as [_ V]. apply Z.gtb_lt in V. exact V. }
  rewrite (gen_mtu_from_mss_eq mss ver H). cbv zeta.
  destruct db as [recs|]; [|reflexivity]. rewrite gen_find_mtu_match_eq. reflexivity.
Qed.

Print Assumptions gen_should_fingerprint_eq.
Print Assumptions gen_valid_for_mtu_fingerprint_eq.
Print Assumptions gen_mtu_from_mss_eq.
Print Assumptions gen_mtu_from_mss_reject.
Print Assumptions gen_mtu_signatures_match_eq.
Print Assumptions gen_find_mtu_match_eq.
Print Assumptions gen_impersonate_mtu_eq.
Print Assumptions C08_translated_roundtrip.
Print Assumptions C08_translated_untouched.
Print Assumptions gen_fingerprint_mtu_eq.
