(* Equivalence of the definitions translated from /repo's current source (group mtu) with the hand-written models. *)
From Coq Require Import Lia.
From PV Require Import Model.Prelude Model.Bits Model.Sig Model.Matcher Model.Select Model.Uptime Model.Mtu Model.Text Model.SigParse Model.DbParse Model.HttpRead Model.HttpMatch Gen.GenLib Gen.Generated_mtu.

Theorem gen_should_fingerprint_eq frag ty : gen_should_fingerprint frag ty = should_fp frag ty.
Proof. reflexivity. Qed.

Theorem gen_valid_for_mtu_fingerprint_eq frag ty mss : gen_valid_for_mtu_fingerprint frag ty mss = valid_mtu_fp frag ty mss.
Proof. reflexivity. Qed.
Theorem gen_mtu_from_mss_eq mss ver : 0 < mss -> gen_mtu_from_mss mss ver = Some (mss + hdr_of ver).
Proof.
  intros H. unfold gen_mtu_from_mss, hdr_of.
  replace (mss <=? 0) with false by (symmetry; apply Z.leb_gt; exact H). reflexivity.
Qed.
Theorem gen_mtu_from_mss_reject mss ver : mss <= 0 -> gen_mtu_from_mss mss ver = None.
Proof. intros H. unfold gen_mtu_from_mss. replace (mss <=? 0) with true by (symmetry; apply Z.leb_le; exact H). reflexivity. Qed.
Theorem gen_mtu_signatures_match_eq a b : gen_mtu_signatures_match a b = (a =? b).
Proof. reflexivity. Qed.

Theorem gen_find_mtu_match_eq recs mtu : gen_find_mtu_match recs mtu = find_mtu recs mtu.
Proof.
  unfold gen_find_mtu_match, find_mtu.
  induction recs as [|r rest IH]; cbn [find]; [reflexivity|].
  unfold gen_mtu_signatures_match. destruct (m_mtu r =? mtu); [reflexivity | exact IH].
Qed.

Print Assumptions gen_should_fingerprint_eq.
Print Assumptions gen_valid_for_mtu_fingerprint_eq.
Print Assumptions gen_mtu_from_mss_eq.
Print Assumptions gen_mtu_from_mss_reject.
Print Assumptions gen_mtu_signatures_match_eq.
Print Assumptions gen_find_mtu_match_eq.
