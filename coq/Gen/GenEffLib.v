(* Vocabulary of the generated write-effect summaries (Gen/GeneratedEff.v, produced by translate/eff2coq.py).
   Hand-written; definitions only. *)
From Coq Require Import List String Bool Arith.
Import ListNotations.

(* where an object a call touches / returns comes from *)
Inductive origin :=
| OParam (i : nat)          (* the i-th parameter of the entry point, or anything reachable from it *)
| OGlob (name : string)     (* a module-level mutable object ("random" = the global random generator) *)
| OFresh.                   (* allocated during the call *)

Record summary := {
  s_name : string;
  s_params : list string;          (* parameter names, in binding order (self first for methods) *)
  s_writes : list origin;          (* objects the call MAY write; writes to fresh objects are not listed *)
  s_ret_self : list origin;        (* what the returned object may be *)
  s_ret_content : list origin      (* what may be reachable from the returned object *)
}.

Definition origin_eqb (a b : origin) : bool :=
  match a, b with
  | OParam i, OParam j => Nat.eqb i j
  | OGlob x, OGlob y => String.eqb x y
  | OFresh, OFresh => true
  | _, _ => false
  end.

Lemma origin_eqb_eq a b : origin_eqb a b = true <-> a = b.
Proof.
  destruct a as [i|x|], b as [j|y|]; cbn [origin_eqb]; try (split; [discriminate | intros H; discriminate H]).
  - rewrite Nat.eqb_eq. split; [intros ->; reflexivity | intros H; injection H; auto].
  - rewrite String.eqb_eq. split; [intros ->; reflexivity | intros H; injection H; auto].
  - split; reflexivity.
Qed.

Definition mem_origin (o : origin) (l : list origin) : bool := existsb (origin_eqb o) l.

Lemma mem_origin_In o l : mem_origin o l = true <-> In o l.
Proof.
  unfold mem_origin. rewrite existsb_exists. split.
  - intros [x [Hx He]]. apply origin_eqb_eq in He. subst x. exact Hx.
  - intros H. exists o. split; [exact H | apply origin_eqb_eq; reflexivity].
Qed.

Definition writes_param (s : summary) (i : nat) : bool := mem_origin (OParam i) (s_writes s).
Definition writes_glob (s : summary) (g : string) : bool := mem_origin (OGlob g) (s_writes s).
Definition returns_param (s : summary) (i : nat) : bool :=
  mem_origin (OParam i) (s_ret_self s) || mem_origin (OParam i) (s_ret_content s).

Fixpoint find_summary (n : string) (l : list summary) : option summary :=
  match l with
  | [] => None
  | s :: r => if String.eqb (s_name s) n then Some s else find_summary n r
  end.

(* several entry points seen as one call of the model: everything any of them may do *)
Definition merge (name : string) (l : list summary) : summary :=
  {| s_name := name;
     s_params := match l with s :: _ => s_params s | [] => [] end;
     s_writes := flat_map s_writes l;
     s_ret_self := flat_map s_ret_self l;
     s_ret_content := flat_map s_ret_content l |}.
