(* The machine-translated database FILE parser (Gen/GeneratedFile.v, written by translate/file2coq.py from pyp0f's current source)
   agrees with the hand-written model (Model/DbParse.v, Model/SigParse.v labels).  Hand-written; compiled after Gen/GenSigP.v and
   Gen/GeneratedFile.v.  The proofs do not mention generated variable names. *)
From Coq Require Import String ZArith NArith List Bool Lia.
From PV Require Import Model.Prelude Model.Bits Model.Sig Model.Text Model.SigParse Model.DbParse Gen.GeneratedSig Gen.GeneratedFile.
From PV Require Import Proofs.DbParseP Gen.GenSigP.
Import ListNotations.
Local Open Scope Z_scope.

(* ------------------------------------------------------------------ *)
(* small facts                                                         *)
(* ------------------------------------------------------------------ *)
Lemma text_eqb_single c d : text_eqb [c] [d] = (c =? d).
Proof. cbn [text_eqb]. apply andb_true_r. Qed.

Lemma gen_fixed_options_parser_eq (A : Type) (opts : list (text * A)) t : gen_fixed_options_parser opts t = from_options t opts.
Proof. unfold gen_fixed_options_parser. apply gen_parse_from_options_eq. Qed.

Lemma bind_pair_eta {A B} (m : res (A * B)) : bind m (fun v => let '(a, b) := v in Ok (a, b)) = m.
Proof. destruct m as [[a b]|e]; reflexivity. Qed.
Lemma bind_eta {A} (m : res A) : bind m (fun v => Ok v) = m.
Proof. destruct m; reflexivity. Qed.

Lemma list4 {A} (l : list A) : length l = 4%nat -> exists a b c d, l = [a; b; c; d].
Proof. destruct l as [|a [|b [|c [|d [|e l]]]]]; cbn [length]; intro H; try discriminate. eauto. Qed.
Lemma list2 {A} (l : list A) : length l = 2%nat -> exists a b, l = [a; b].
Proof. destruct l as [|a [|b [|e l]]]; cbn [length]; intro H; try discriminate. eauto. Qed.

(* ------------------------------------------------------------------ *)
(* labels                                                              *)
(* ------------------------------------------------------------------ *)
Theorem gen_Label_parse_eq : forall t, gen_Label_parse t = parse_os_label t.
Proof.
  intros t. unfold gen_Label_parse, parse_os_label.
  change 4 with (Z.of_nat 4). change (str ":") with [58].
  rewrite gen_split_parts_eq. cbn [bind].
  destruct (list4 _ (split_parts_length t 4 58)) as (a & b & c & d & E). rewrite E.
  unfold part. cbn [nth]. unfold gen_parse_type. rewrite gen_fixed_options_parser_eq. reflexivity.
Qed.

Theorem gen_MTULabel_parse_eq : forall t, gen_MTULabel_parse t = Ok (LMtu t).
Proof. reflexivity. Qed.

Theorem gen_Label_dump_eq : forall g c n f s, gen_Label_dump g c n f s = dump_label (LOs g c n f s).
Proof. reflexivity. Qed.

Theorem gen_dump_eq : forall l, gen_dump l = dump_label l.
Proof. intros [n|g c n f s]; reflexivity. Qed.

Theorem gen_Label_is_user_app_eq : forall g c n f s, gen_Label_is_user_app g c n f s = is_user_app (LOs g c n f s).
Proof. reflexivity. Qed.

Theorem gen_label_cls_parse_eq : forall k v, gen_label_cls_parse k v = parse_label k v.
Proof. intros [| |] v; cbn [gen_label_cls_parse parse_label]; try apply gen_Label_parse_eq. reflexivity. Qed.

Theorem gen_signature_cls_parse_eq : forall k v, gen_signature_cls_parse k v = parse_sig k v.
Proof.
  intros [| |] v; cbn [gen_signature_cls_parse parse_sig].
  - rewrite gen_MTUSignature_parse_eq. reflexivity.
  - rewrite gen_TCPSignature_parse_eq. reflexivity.
  - reflexivity.
Qed.

(* ------------------------------------------------------------------ *)
(* _parse_section                                                      *)
(* ------------------------------------------------------------------ *)
Theorem gen_parse_section_eq : forall line, gen_parse_section line = parse_section line.
Proof.
  intros line. unfold gen_parse_section, parse_section.
  change 2 with (Z.of_nat 2). change (str ":") with [58].
  rewrite gen_split_parts_eq. cbn [bind].
  destruct (list2 _ (split_parts_length (slice_1_m1 line) 2 58)) as (a & b & E). rewrite E.
  unfold part. cbn [nth]. unfold gen_parse_section_type, gen_parse_direction. rewrite !gen_fixed_options_parser_eq.
  destruct (from_options a _) as [k|e]; cbn [bind]; [|reflexivity].
  destruct k, b as [|c b]; cbn [gen_kind_eqb Bool.eqb bind]; try reflexivity;
    destruct (from_options (c :: b) _); reflexivity.
Qed.

(* ------------------------------------------------------------------ *)
(* parsing_error_wrapper                                               *)
(* ------------------------------------------------------------------ *)
(* the context manager catches FieldError AND its subclass ParsingError; the model's [wrap] only FieldError.
   They agree on every computation whose only error is FieldError, which is what the parsers under it are. *)
Theorem gen_parsing_error_wrapper_eq : forall A n (m : res A), (forall k, m <> Err (ParsingError k)) ->
  gen_parsing_error_wrapper n m = wrap n m.
Proof.
  intros A n m H. destruct m as [a|e]; [reflexivity|]. destruct e; try reflexivity. exfalso. exact (H line eq_refl).
Qed.
Lemma gen_parsing_error_wrapper_fe A n (m : res A) : fe m -> gen_parsing_error_wrapper n m = wrap n m.
Proof.
  intros H. apply gen_parsing_error_wrapper_eq. intros k E. rewrite E in H. cbn [fe] in H. discriminate.
Qed.

(* ------------------------------------------------------------------ *)
(* RecordsDatabase.create / add as translated over dictionaries         *)
(* ------------------------------------------------------------------ *)
(* The methods as TRANSLATED from records_database.py (gen_db_create / gen_db_add, over association lists) act on the dictionary as the
   model's on_section ensure / push act on its five optional lists, for every canonical section and well-formed map -- the only ones
   _parse_file reaches (DbParseP.Inv). *)
Definition of_map (m : gmap) : db :=
  {| d_mtu := match gen_afind gen_kind_eqb m KMtu with Some (GList l) => Some l | _ => None end;
     d_tcp_req := match gen_afind gen_kind_eqb m KTcp with Some (GDict d) => gen_afind gen_dir_eqb d Req | _ => None end;
     d_tcp_resp := match gen_afind gen_kind_eqb m KTcp with Some (GDict d) => gen_afind gen_dir_eqb d Resp | _ => None end;
     d_http_req := match gen_afind gen_kind_eqb m KHttp with Some (GDict d) => gen_afind gen_dir_eqb d Req | _ => None end;
     d_http_resp := match gen_afind gen_kind_eqb m KHttp with Some (GDict d) => gen_afind gen_dir_eqb d Resp | _ => None end |}.
(* the mtu key holds a list, the tcp / http keys hold a directional dict *)
Definition shape_ok (k : kind) (v : gval) : Prop :=
  match k, v with KMtu, GList _ | KTcp, GDict _ | KHttp, GDict _ => True | _, _ => False end.
Definition wfm (m : gmap) : Prop := forall k v, gen_afind gen_kind_eqb m k = Some v -> shape_ok k v.

Lemma of_map_nil : of_map [] = empty_db /\ wfm [].
Proof. split; [reflexivity|]. intros k v H. discriminate H. Qed.

Lemma kind_eqb_spec a b : gen_kind_eqb a b = true <-> a = b.
Proof. destruct a, b; cbn [gen_kind_eqb]; split; intro H; try reflexivity; discriminate H. Qed.
Lemma dir_eqb_spec a b : gen_dir_eqb a b = true <-> a = b.
Proof. destruct a, b; cbn [gen_dir_eqb]; split; intro H; try reflexivity; discriminate H. Qed.

Lemma afind_astore {K V} (eqb : K -> K -> bool) (Heq : forall a b, eqb a b = true <-> a = b) (m : list (K * V)) k v k' :
  gen_afind eqb (gen_astore eqb m k v) k' = if eqb k' k then Some v else gen_afind eqb m k'.
Proof.
  induction m as [|[k0 v0] r IH]; cbn [gen_astore gen_afind]; [reflexivity|].
  destruct (eqb k k0) eqn:E; cbn [gen_afind].
  - apply Heq in E. subst k0. destruct (eqb k' k); reflexivity.
  - rewrite IH. destruct (eqb k' k0) eqn:E0; [|reflexivity].
    apply Heq in E0. subst k0. destruct (eqb k' k) eqn:E1; [|reflexivity].
    apply Heq in E1. subst k'. assert (T : eqb k k = true) by (apply Heq; reflexivity). congruence.
Qed.
Definition afind_k := @afind_astore kind gval gen_kind_eqb kind_eqb_spec.
Definition afind_d := @afind_astore dir (list rec) gen_dir_eqb dir_eqb_spec.

Lemma wfm_store m k v : wfm m -> shape_ok k v -> wfm (gen_astore gen_kind_eqb m k v).
Proof.
  intros W S k' v' H. rewrite afind_k in H. destruct (gen_kind_eqb k' k) eqn:E.
  - apply kind_eqb_spec in E. subst k'. injection H as <-. exact S.
  - exact (W _ _ H).
Qed.

Ltac shape W E := let S := fresh "S" in pose proof (W _ _ E) as S; cbn [shape_ok] in S; try contradiction.

Ltac om E := unfold of_map, on_section;
  repeat (progress (rewrite ?afind_k, ?afind_d, ?E; cbn [gen_kind_eqb gen_dir_eqb])).

Theorem gen_db_create_sim : forall m k dr, In (k, dr) canonical_sections -> wfm m ->
  exists m', gen_db_create m k dr = Ok m' /\ wfm m' /\ of_map m' = on_section ensure (k, dr) (of_map m).
Proof.
  intros m k dr Hc W. unfold gen_db_create, gen_setdefault.
  cbn [canonical_sections In] in Hc.
  destruct Hc as [E|[E|[E|[E|[E|[]]]]]]; injection E as <- <-.
  - (* mtu *)
    destruct (gen_afind gen_kind_eqb m KMtu) as [v|] eqn:E.
    + eexists; split; [reflexivity|]. split; [exact W|]. shape W E. destruct v as [l|d]; [|contradiction].
      om E; reflexivity.
    + eexists; split; [reflexivity|]. split; [apply wfm_store; [exact W|exact I]|].
      om E; reflexivity.
  - destruct (gen_afind gen_kind_eqb m KTcp) as [v|] eqn:E.
    + shape W E. destruct v as [l|d]; [contradiction|].
      destruct (gen_afind gen_dir_eqb d Req) as [x|] eqn:Ed;
        (eexists; split; [reflexivity|]; split; [apply wfm_store; [exact W|exact I]|]);
        om E; rewrite ?Ed; reflexivity.
    + eexists; split; [reflexivity|]. split; [apply wfm_store; [apply wfm_store; [exact W|exact I]|exact I]|].
      om E; reflexivity.
  - destruct (gen_afind gen_kind_eqb m KTcp) as [v|] eqn:E.
    + shape W E. destruct v as [l|d]; [contradiction|].
      destruct (gen_afind gen_dir_eqb d Resp) as [x|] eqn:Ed;
        (eexists; split; [reflexivity|]; split; [apply wfm_store; [exact W|exact I]|]);
        om E; rewrite ?Ed; reflexivity.
    + eexists; split; [reflexivity|]. split; [apply wfm_store; [apply wfm_store; [exact W|exact I]|exact I]|].
      om E; reflexivity.
  - destruct (gen_afind gen_kind_eqb m KHttp) as [v|] eqn:E.
    + shape W E. destruct v as [l|d]; [contradiction|].
      destruct (gen_afind gen_dir_eqb d Req) as [x|] eqn:Ed;
        (eexists; split; [reflexivity|]; split; [apply wfm_store; [exact W|exact I]|]);
        om E; rewrite ?Ed; reflexivity.
    + eexists; split; [reflexivity|]. split; [apply wfm_store; [apply wfm_store; [exact W|exact I]|exact I]|].
      om E; reflexivity.
  - destruct (gen_afind gen_kind_eqb m KHttp) as [v|] eqn:E.
    + shape W E. destruct v as [l|d]; [contradiction|].
      destruct (gen_afind gen_dir_eqb d Resp) as [x|] eqn:Ed;
        (eexists; split; [reflexivity|]; split; [apply wfm_store; [exact W|exact I]|]);
        om E; rewrite ?Ed; reflexivity.
    + eexists; split; [reflexivity|]. split; [apply wfm_store; [apply wfm_store; [exact W|exact I]|exact I]|].
      om E; reflexivity.
Qed.

Theorem gen_db_add_sim : forall m k r dr, In (k, dr) canonical_sections -> wfm m ->
  Spec.C09.section_of (of_map m) (k, dr) <> None ->
  exists m', gen_db_add m (k, r) dr = Ok m' /\ wfm m' /\ of_map m' = on_section (fun l => push l r) (k, dr) (of_map m).
Proof.
  intros m k r dr Hc W Hs. unfold gen_db_add. cbn [fst snd].
  cbn [canonical_sections In] in Hc.
  destruct Hc as [E|[E|[E|[E|[E|[]]]]]]; injection E as <- <-;
    unfold Spec.C09.section_of, of_map in Hs; cbn [d_mtu d_tcp_req d_tcp_resp d_http_req d_http_resp] in Hs.
  - destruct (gen_afind gen_kind_eqb m KMtu) as [v|] eqn:E; [|congruence].
    shape W E. destruct v as [l|d]; [|contradiction].
    eexists; split; [reflexivity|]. split; [apply wfm_store; [exact W|exact I]|]. om E; reflexivity.
  - destruct (gen_afind gen_kind_eqb m KTcp) as [v|] eqn:E; [|congruence].
    shape W E. destruct v as [l|d]; [contradiction|].
    destruct (gen_afind gen_dir_eqb d Req) as [x|] eqn:Ed; [|congruence].
    eexists; split; [reflexivity|]. split; [apply wfm_store; [exact W|exact I]|]. om E; rewrite ?Ed; reflexivity.
  - destruct (gen_afind gen_kind_eqb m KTcp) as [v|] eqn:E; [|congruence].
    shape W E. destruct v as [l|d]; [contradiction|].
    destruct (gen_afind gen_dir_eqb d Resp) as [x|] eqn:Ed; [|congruence].
    eexists; split; [reflexivity|]. split; [apply wfm_store; [exact W|exact I]|]. om E; rewrite ?Ed; reflexivity.
  - destruct (gen_afind gen_kind_eqb m KHttp) as [v|] eqn:E; [|congruence].
    shape W E. destruct v as [l|d]; [contradiction|].
    destruct (gen_afind gen_dir_eqb d Req) as [x|] eqn:Ed; [|congruence].
    eexists; split; [reflexivity|]. split; [apply wfm_store; [exact W|exact I]|]. om E; rewrite ?Ed; reflexivity.
  - destruct (gen_afind gen_kind_eqb m KHttp) as [v|] eqn:E; [|congruence].
    shape W E. destruct v as [l|d]; [contradiction|].
    destruct (gen_afind gen_dir_eqb d Resp) as [x|] eqn:Ed; [|congruence].
    eexists; split; [reflexivity|]. split; [apply wfm_store; [exact W|exact I]|]. om E; rewrite ?Ed; reflexivity.
Qed.

(* where Python and the bindings part: adding to a section that was never created *)
Example gen_db_add_missing : forall r, gen_db_add [] (KMtu, r) None = Err DatabaseError /\
  on_section (fun l => push l r) (KMtu, None) (of_map []) = of_map [].
Proof. intros r. split; reflexivity. Qed.

(* ------------------------------------------------------------------ *)
(* the line loop                                                       *)
(* ------------------------------------------------------------------ *)
(* generated state -> model state: the dictionary is read through of_map; (record_cls, direction) is the model's section *)
Definition of_g (g : gst) : st :=
  {| p_db := of_map (g_db g); p_state := g_state g; p_label := g_label g;
     p_sec := match g_cls g with Some k => Some (k, g_dir g) | None => None end |}.
(* model state -> generated state: a dictionary holding exactly the sections of the model database *)
Definition dl (k : dir) (o : option (list rec)) : list (dir * list rec) := match o with Some l => [(k, l)] | None => [] end.
Definition dd (k : kind) (a b : option (list rec)) : gmap :=
  match a, b with None, None => [] | _, _ => [(k, GDict (dl Req a ++ dl Resp b))] end.
Definition to_map (d : db) : gmap :=
  (match d_mtu d with Some l => [(KMtu, GList l)] | None => [] end) ++ dd KTcp (d_tcp_req d) (d_tcp_resp d) ++ dd KHttp (d_http_req d) (d_http_resp d).
Definition to_g (s : st) : gst :=
  {| g_db := to_map (p_db s); g_state := p_state s; g_label := p_label s;
     g_dir := match p_sec s with Some (_, d) => d | None => None end;
     g_cls := match p_sec s with Some (k, _) => Some k | None => None end |}.
Lemma of_to_map d : of_map (to_map d) = d.
Proof. destruct d as [[a|] [b|] [c|] [e|] [f|]]; reflexivity. Qed.
Lemma wfm_to_map d : wfm (to_map d).
Proof.
  intros k v H. destruct d as [[a|] [b|] [c|] [e|] [f|]]; destruct k; cbn in H; try discriminate H; injection H as <-; exact I.
Qed.
Lemma of_to_g s : of_g (to_g s) = s.
Proof. destruct s as [d ps l [[k dr]|]]; unfold of_g, to_g; cbn [g_db g_state g_label g_dir g_cls p_db p_state p_label p_sec]; rewrite of_to_map; reflexivity. Qed.
Lemma of_g_st0 : of_g gen_st0 = st0 /\ wfm (g_db gen_st0).
Proof. split; [reflexivity|]. intros k v H. discriminate H. Qed.

Lemma lstrip_by_app_sp f c : f c = true -> forall t,
  lstrip_by f (t ++ [c]) = match lstrip_by f t with [] => [] | x => x ++ [c] end.
Proof.
  intros Hc. induction t as [|a t IH]; cbn [app lstrip_by].
  - rewrite Hc. reflexivity.
  - destruct (f a); [exact IH|reflexivity].
Qed.
Lemma strip_by_app_sp f c t : f c = true -> strip_by f (t ++ [c]) = strip_by f t.
Proof.
  intros Hc. unfold strip_by. rewrite (lstrip_by_app_sp f c Hc).
  destruct (lstrip_by f t) as [|x l]; [reflexivity|].
  rewrite rev_app_distr. cbn [rev app lstrip_by]. rewrite Hc. reflexivity.
Qed.
Lemma strip_app_nl t : strip (t ++ [10]) = strip t.
Proof. apply strip_by_app_sp. reflexivity. Qed.

Ltac fe_case H m :=
  let x := fresh "x" in let e := fresh "e" in
  pose proof H as x; destruct m as [?|e]; [clear x|cbn [fe] in x; subst e].

(* The model's lines come WITHOUT their terminator; Python's `for line in file` yields them WITH it: the translated loop body
   [gen_step_g] is run on the raw line with "\n" re-attached.  One step of the translated loop on a generated state g simulates one
   step of the model on of_g g: same error, or a new generated state whose image is the model's new state. *)
Definition sim_step (g : gst) (n : Z) (raw : text) : Prop :=
  match gen_step_g g n (raw ++ [10]) with
  | Ok g' => wfm (g_db g') /\ step (of_g g) n raw = Ok (of_g g')
  | Err e => step (of_g g) n raw = Err e
  end.

Theorem gen_step_g_sim : forall g n raw, hd 0 raw <> 10 -> wfm (g_db g) -> Inv (of_g g) -> sim_step g n raw.
Proof.
  intros g n raw Hnl W HI. unfold sim_step, gen_step_g, step.
  destruct g as [m ps lab dr cls]. unfold of_g in *. cbn [g_db g_state g_label g_dir g_cls p_db p_state p_label p_sec] in *.
  destruct raw as [|c0 r].
  { change ([] ++ [10]) with [10]. unfold gen_char_at at 1. cbn [nth_error bind].
    replace (existsb (text_eqb [10]) gen_SKIPPED_LINES) with true by reflexivity.
    cbn [bind]. split; [exact W|reflexivity]. }
  cbn [hd] in Hnl.
  change ((c0 :: r) ++ [10]) with (c0 :: (r ++ [10])).
  unfold gen_char_at at 1. cbn [nth_error bind].
  unfold gen_SKIPPED_LINES. change (str ";") with [59]. cbn [existsb]. rewrite !text_eqb_single, orb_false_r.
  replace (c0 =? 10) with false by (symmetry; apply Z.eqb_neq; exact Hnl). rewrite orb_false_r.
  destruct (c0 =? 59). { cbn [bind]. split; [exact W|reflexivity]. }
  change (c0 :: (r ++ [10])) with ((c0 :: r) ++ [10]). rewrite strip_app_nl.
  destruct (strip (c0 :: r)) as [|c line'] eqn:Eline; try change (str "") with (@nil Z); cbn [text_eqb negb].
  { cbn [bind]. split; [exact W|reflexivity]. }
  unfold gen_char_at. cbn [nth_error bind]. change (str "[") with [91]. rewrite text_eqb_single.
  destruct (c =? 91).
  { (* section *)
    rewrite bind_pair_eta, gen_parse_section_eq, (gen_parsing_error_wrapper_fe _ _ _ (fe_parse_section _)).
    destruct (wrap n (parse_section (c :: line'))) as [[k d]|e] eqn:Ew; cbn [bind]; [|reflexivity].
    pose proof (parse_section_canonical _ _ (wrap_ok _ _ _ Ew)) as C.
    destruct (gen_db_create_sim m k d C W) as (m' & Ec & W' & Eo). rewrite Ec. cbn [bind g_db g_state g_label g_dir g_cls].
    split; [exact W'|]. rewrite Eo. reflexivity. }
  destruct (partition_on 61 (c :: line')) as [[pa fd] va].
  destruct (text_eqb (strip pa) (str "sig")).
  { (* sig *)
    destruct cls as [k|]; destruct ps; cbn [gen_pstate_eqb negb bind fst]; try reflexivity.
    destruct lab as [lab|]; cbn [gen_unwrap bind]; [|reflexivity].
    rewrite gen_signature_cls_parse_eq.
    destruct HI as [_ HI]. destruct (HI _ eq_refl) as [C Hs].
    fe_case (fe_parse_sig k (strip va)) (parse_sig k (strip va)); cbn [bind gen_parsing_error_wrapper wrap]; [|reflexivity].
    match goal with |- context [gen_db_add m (k, ?rc) dr] => destruct (gen_db_add_sim m k rc dr C W Hs) as (m' & Ea & W' & Eo) end.
    rewrite Ea. cbn [bind g_db g_state g_label g_dir g_cls]. split; [exact W'|]. rewrite Eo. reflexivity. }
  destruct (text_eqb (strip pa) (str "label")).
  { (* label *)
    destruct cls as [k|]; destruct ps; cbn [gen_pstate_eqb existsb orb negb bind fst]; try reflexivity;
      rewrite bind_eta, gen_label_cls_parse_eq, (gen_parsing_error_wrapper_fe _ _ _ (fe_parse_label _ _));
      (destruct (wrap n (parse_label k (strip va))) as [[nm|g c' nm f sy]|e]; cbn [bind is_user_app];
       [split; [exact W|reflexivity]| |reflexivity]);
      rewrite gen_Label_is_user_app_eq; cbn [is_user_app]; destruct (text_eqb c' (str "!")); (split; [exact W|reflexivity]). }
  destruct (text_eqb (strip pa) (str "sys")).
  { (* sys *)
    destruct ps; cbn [gen_pstate_eqb negb bind]; try reflexivity.
    destruct lab as [[nm|g c' nm f sy]|]; try reflexivity.
    cbn [bind g_db g_state g_label g_dir g_cls]. change (str ",") with [44]. unfold gen_split, gen_sep.
    split; [exact W|reflexivity]. }
  unfold gen_SKIPPED_PARAMS, skipped_params.
  destruct (existsb (text_eqb (strip pa)) [str "classes"; str "ua_os"]); cbn [negb bind]; [|reflexivity].
  split; [exact W|reflexivity].
Qed.

(* the step function over the MODEL's state, as GOALS.md asks for it *)
Definition gen_step (s : st) (n : Z) (raw : text) : res st :=
  do g <- gen_step_g (to_g s) n (raw ++ [10]); Ok (of_g g).

Theorem gen_step_eq_variant : forall s n raw, hd 0 raw <> 10 -> Inv s -> gen_step s n raw = step s n raw.
Proof.
  intros s n raw Hnl HI. unfold gen_step.
  assert (HI' : Inv (of_g (to_g s))) by (rewrite of_to_g; exact HI).
  pose proof (gen_step_g_sim (to_g s) n raw Hnl (wfm_to_map _) HI') as S. unfold sim_step in S. rewrite of_to_g in S.
  destruct (gen_step_g (to_g s) n (raw ++ [10])) as [g'|e]; cbn [bind]; [destruct S as [_ S]|]; symmetry; exact S.
Qed.

(* [gen_step_eq] as stated in the goals (for ALL s and raw) is false, for two reasons.
   (1) A raw line that BEGINS with "\n" (code point 10) is skipped by the Python loop (`line[0] in SKIPPED_LINES`, "\n" being one of
       them), whereas the model strips it and goes on.  Such a raw line is never produced by text-mode iteration of a file
       (Model.DbParse.file_lines: a line contains no "\n" before its terminator).
   (2) In states that violate the parser invariant DbParseP.Inv (never reached from st0) RecordsDatabase.add raises DatabaseError where
       the model's push does nothing, and a record is built with label None where the model crashes. *)
Theorem gen_step_leading_nl : forall s n r, gen_step s n (10 :: r) = Ok s.
Proof.
  intros s n r. unfold gen_step, gen_step_g. change ((10 :: r) ++ [10]) with (10 :: (r ++ [10])).
  unfold gen_char_at at 1. cbn [nth_error bind].
  replace (existsb (text_eqb [10]) gen_SKIPPED_LINES) with true by reflexivity.
  cbn [bind]. f_equal. destruct s as [d ps l [[k dr]|]]; unfold of_g, to_g; cbn [g_db g_state g_label g_dir g_cls p_db p_state p_label p_sec];
    rewrite of_to_map; reflexivity.
Qed.
Example gen_step_eq_counterexample_1 :
  gen_step st0 1 (10 :: str "x") = Ok st0 /\ step st0 1 (10 :: str "x") = Err (ParsingError 1).
Proof. split; vm_compute; reflexivity. Qed.
Definition bad_state : st :=       (* NEED_SIG inside [mtu] with a label, but the section was never created *)
  {| p_db := empty_db; p_state := NeedSig; p_label := Some (LMtu (str "A")); p_sec := Some (KMtu, None) |}.
Example gen_step_eq_counterexample_2 :
  gen_step bad_state 7 (str "sig = 1500") = Err DatabaseError /\ step bad_state 7 (str "sig = 1500") = Ok bad_state.
Proof. split; vm_compute; reflexivity. Qed.

(* the unterminated last line of a file: re-attaching "\n" does not change what the loop body does *)
Theorem gen_step_g_unterminated : forall g n raw, raw <> [] -> gen_step_g g n raw = gen_step_g g n (raw ++ [10]).
Proof.
  intros g n raw H. destruct raw as [|c r]; [congruence|]. unfold gen_step_g.
  change ((c :: r) ++ [10]) with (c :: (r ++ [10])). unfold gen_char_at at 1 3. cbn [nth_error bind].
  change (c :: (r ++ [10])) with ((c :: r) ++ [10]). rewrite strip_app_nl. reflexivity.
Qed.

Print Assumptions gen_Label_parse_eq.
Print Assumptions gen_Label_dump_eq.
Print Assumptions gen_dump_eq.
Print Assumptions gen_parse_section_eq.
Print Assumptions gen_parsing_error_wrapper_eq.
Print Assumptions gen_db_create_sim.
Print Assumptions gen_db_add_sim.
Print Assumptions gen_step_g_sim.
Print Assumptions gen_step_eq_variant.
Print Assumptions gen_step_leading_nl.
Print Assumptions gen_step_g_unterminated.

(* the counterexamples to the unrestricted gen_step_eq, evaluated *)
Eval vm_compute in (gen_step st0 1 (10 :: str "x"), step st0 1 (10 :: str "x")).
Eval vm_compute in (gen_step bad_state 7 (str "sig = 1500"), step bad_state 7 (str "sig = 1500")).
