(* The READ side of RecordsDatabase (iter_values, get_random, __len__) and Database.load as machine-translated by translate/file2coq.py +
   db2coq.py (the tail of Gen/GeneratedFile.v), against Model/Dump.v (lookup, candidates), Model/DbParse.v (db_len) and Model/DbState.v
   (load_spec).  Hand-written; compiled after Gen/GenFileC.v.  No generated variable name occurs here. *)
From Coq Require Import String ZArith NArith List Bool Lia.
From PV Require Import Model.Prelude Model.Bits Model.Sig Model.Text Model.SigParse Model.DbParse Model.Dump Model.DbState Spec.C09.
From PV Require Import Proofs.DbParseP Proofs.LabelsP Proofs.DbStateP Gen.GeneratedSig Gen.GeneratedFile Gen.GenSigP Gen.GenFileP Gen.GenFileC.
Import ListNotations.
Local Open Scope Z_scope.

(* ------------------------------------------------------------------ *)
(* iter_values                                                         *)
(* ------------------------------------------------------------------ *)
(* what Python answers to ANY request (key, direction) on a well-formed map: the model's section for mtu (the direction is ignored: _get
   returns as soon as the value is a list) and for tcp / http WITH a direction; DatabaseError for tcp / http without one *)
Definition read_spec (m : gmap) (k : kind) (dr : option dir) : res (list rec) :=
  match k, dr with
  | KTcp, None | KHttp, None => Err DatabaseError
  | _, _ => match section_of (of_map m) (k, dr) with Some l => Ok l | None => Err DatabaseError end
  end.

Ltac shape W E := let S := fresh "S" in pose proof (W _ _ E) as S; cbn [shape_ok] in S; try contradiction.

Theorem gen_iter_values_all : forall m k dr, wfm m -> gen_iter_values m k dr = read_spec m k dr.
Proof.
  intros m k dr W. unfold gen_iter_values, gen_db_get, read_spec, section_of, of_map.
  cbn [d_mtu d_tcp_req d_tcp_resp d_http_req d_http_resp].
  destruct k.
  - destruct (gen_afind gen_kind_eqb m KMtu) as [[l|d]|] eqn:E; [|shape W E|]; destruct dr as [[|]|]; reflexivity.
  - destruct (gen_afind gen_kind_eqb m KTcp) as [[l|d]|] eqn:E; [shape W E| |]; destruct dr as [[|]|]; try reflexivity;
      [destruct (gen_afind gen_dir_eqb d Req)|destruct (gen_afind gen_dir_eqb d Resp)]; reflexivity.
  - destruct (gen_afind gen_kind_eqb m KHttp) as [[l|d]|] eqn:E; [shape W E| |]; destruct dr as [[|]|]; try reflexivity;
      [destruct (gen_afind gen_dir_eqb d Req)|destruct (gen_afind gen_dir_eqb d Resp)]; reflexivity.
Qed.

Theorem gen_iter_values_sim : forall m k dr, wfm m -> In (k, dr) canonical_sections ->
  gen_iter_values m k dr = match section_of (of_map m) (k, dr) with Some l => Ok l | None => Err DatabaseError end.
Proof.
  intros m k dr W Hc. rewrite (gen_iter_values_all m k dr W). unfold read_spec.
  cbn [canonical_sections In] in Hc. destruct Hc as [E|[E|[E|[E|[E|[]]]]]]; injection E as <- <-; reflexivity.
Qed.
(* the non-canonical requests *)
Theorem gen_iter_values_undirected : forall m k, wfm m -> k <> KMtu -> gen_iter_values m k None = Err DatabaseError.
Proof. intros m k W H. rewrite (gen_iter_values_all m k None W). destruct k; [congruence|reflexivity|reflexivity]. Qed.
Theorem gen_iter_values_mtu_directed : forall m d, wfm m -> gen_iter_values m KMtu (Some d) = gen_iter_values m KMtu None.
Proof. intros m d W. rewrite !gen_iter_values_all by exact W. reflexivity. Qed.

(* ------------------------------------------------------------------ *)
(* get_random                                                          *)
(* ------------------------------------------------------------------ *)
Theorem gen_get_random_all : forall m raw k dr pick, wfm m ->
  gen_get_random m raw k dr pick =
  match k, dr with
  | KTcp, None | KHttp, None => Err DatabaseError
  | _, _ => lookup raw (section_of (of_map m) (k, dr)) pick
  end.
Proof.
  intros m raw k dr pick W. unfold gen_get_random. rewrite (gen_iter_values_all m k dr W). unfold read_spec.
  assert (G : forall o, (do it <- match o with Some l => Ok l | None => Err DatabaseError end;
                         let records := filter (fun r => text_eqb raw (gen_dump (rc_label r))) it in
                         match records with [] => Err DatabaseError | _ :: _ => gen_random_choice records pick end)
                        = lookup raw o pick).
  { intros [l|]; cbn [bind lookup]; [|reflexivity]. unfold candidates.
    rewrite (filter_ext _ (fun r => text_eqb raw (dump_label (rc_label r)))) by (intros r; rewrite gen_dump_eq; reflexivity).
    destruct (filter _ l); reflexivity. }
  destruct k, dr as [[|]|]; try reflexivity; apply G.
Qed.

(* for pick in range AND out of range (random.choice rendered as nth pick; past the end: IndexError = Crash CIndex, as lookup) *)
Theorem gen_get_random_eq : forall m raw k dr pick, wfm m -> In (k, dr) canonical_sections ->
  gen_get_random m raw k dr pick = lookup raw (section_of (of_map m) (k, dr)) pick.
Proof.
  intros m raw k dr pick W Hc. rewrite (gen_get_random_all m raw k dr pick W).
  cbn [canonical_sections In] in Hc. destruct Hc as [E|[E|[E|[E|[E|[]]]]]]; injection E as <- <-; reflexivity.
Qed.

(* ------------------------------------------------------------------ *)
(* dictionaries have unique keys                                        *)
(* ------------------------------------------------------------------ *)
(* gen_len sums over ALL entries of the association list, the model over the five sections found by lookup: they agree when keys are
   unique, which is what a Python dict guarantees and what gen_astore preserves *)
Definition vok (v : gval) : Prop := match v with GDict d => NoDup (map fst d) | GList _ => True end.
Definition dict_ok (m : gmap) : Prop := NoDup (map fst m) /\ Forall (fun kv => vok (snd kv)) m.

Lemma dict_ok_nil : dict_ok [].
Proof. split; constructor. Qed.

Section Assoc.
  Context {K V : Type} (eqb : K -> K -> bool) (Heq : forall a b, eqb a b = true <-> a = b).
  Lemma eqb_refl_ k : eqb k k = true.
  Proof. apply Heq. reflexivity. Qed.
  Lemma in_keys_astore (m : list (K * V)) k v x : In x (map fst (gen_astore eqb m k v)) -> In x (map fst m) \/ x = k.
  Proof.
    induction m as [|[k0 v0] r IH]; cbn [gen_astore map fst In].
    - intros [H|[]]; right; symmetry; exact H.
    - destruct (eqb k k0); cbn [map fst In]; [tauto|]. intros [H|H]; [tauto|]. destruct (IH H); tauto.
  Qed.
  Lemma nodup_astore (m : list (K * V)) k v : NoDup (map fst m) -> NoDup (map fst (gen_astore eqb m k v)).
  Proof.
    induction m as [|[k0 v0] r IH]; cbn [gen_astore map fst]; intros H.
    - constructor; [intros []|constructor].
    - inversion H as [|x l Hn Hr]; subst. destruct (eqb k k0) eqn:E; cbn [map fst]; [constructor; assumption|].
      constructor; [|apply IH; exact Hr]. intros HI. destruct (in_keys_astore _ _ _ _ HI) as [HI'|HI']; [exact (Hn HI')|].
      subst k0. rewrite eqb_refl_ in E. discriminate E.
  Qed.
  Lemma forall_astore (P : K * V -> Prop) (m : list (K * V)) k v :
    (forall k', P (k', v)) -> Forall P m -> Forall P (gen_astore eqb m k v).
  Proof.
    intros Hv. induction m as [|[k0 v0] r IH]; cbn [gen_astore]; intros H.
    - constructor; [apply Hv|constructor].
    - inversion H; subst. destruct (eqb k k0); constructor; auto.
  Qed.
  Lemma afind_forall (P : K * V -> Prop) (m : list (K * V)) k v :
    (forall k1 k2 v', P (k1, v') -> P (k2, v')) -> Forall P m -> gen_afind eqb m k = Some v -> P (k, v).
  Proof.
    intros Hp. induction m as [|[k0 v0] r IH]; cbn [gen_afind]; intros H E; [discriminate E|].
    inversion H; subst. destruct (eqb k k0); [injection E as <-; eapply Hp; eassumption|auto].
  Qed.
  Lemma afind_notin (m : list (K * V)) k : ~ In k (map fst m) -> gen_afind eqb m k = None.
  Proof.
    induction m as [|[k0 v0] r IH]; cbn [gen_afind map fst In]; intros H; [reflexivity|].
    destruct (eqb k k0) eqn:E; [apply Heq in E; subst; tauto|]. apply IH. tauto.
  Qed.
End Assoc.

Lemma vok_lookup m k v : dict_ok m -> gen_afind gen_kind_eqb m k = Some v -> vok v.
Proof.
  intros [_ F] E. exact (afind_forall gen_kind_eqb (fun kv => vok (snd kv)) m k v (fun _ _ _ H => H) F E).
Qed.
Lemma dict_ok_store m k v : dict_ok m -> vok v -> dict_ok (gen_astore gen_kind_eqb m k v).
Proof.
  intros [N F] Hv. split; [apply (nodup_astore gen_kind_eqb kind_eqb_spec); exact N|].
  apply forall_astore; [intros; exact Hv|exact F].
Qed.

Theorem gen_db_create_ok : forall m k dr m', dict_ok m -> gen_db_create m k dr = Ok m' -> dict_ok m'.
Proof.
  intros m k dr m' D. unfold gen_db_create, gen_setdefault. destruct dr as [d|].
  - destruct (gen_afind gen_kind_eqb m k) as [v|] eqn:E.
    + pose proof (vok_lookup _ _ _ D E) as Hv. destruct v as [l|dd]; [discriminate|].
      destruct (gen_afind gen_dir_eqb dd d); intros H; injection H as <-; apply dict_ok_store; try exact D; cbn [vok] in *;
        [exact Hv|apply (nodup_astore gen_dir_eqb dir_eqb_spec); exact Hv].
    + intros H. injection H as <-. apply dict_ok_store; [apply dict_ok_store; [exact D|constructor]|].
      cbn. constructor; [intros []|constructor].
  - destruct (gen_afind gen_kind_eqb m k); intros H; injection H as <-; [exact D|apply dict_ok_store; [exact D|exact I]].
Qed.

Theorem gen_db_add_ok : forall m v dr m', dict_ok m -> gen_db_add m v dr = Ok m' -> dict_ok m'.
Proof.
  intros m v dr m' D. unfold gen_db_add.
  destruct (gen_afind gen_kind_eqb m (fst v)) as [x|] eqn:E; [|discriminate].
  pose proof (vok_lookup _ _ _ D E) as Hv. destruct x as [l|dd].
  - intros H. injection H as <-. apply dict_ok_store; [exact D|exact I].
  - destruct dr as [d|]; [|discriminate]. destruct (gen_afind gen_dir_eqb dd d); [|discriminate].
    intros H. injection H as <-. apply dict_ok_store; [exact D|]. cbn [vok] in *. apply (nodup_astore gen_dir_eqb dir_eqb_spec). exact Hv.
Qed.

(* ------------------------------------------------------------------ *)
(* __len__                                                             *)
(* ------------------------------------------------------------------ *)
Lemma fold_add l : forall a, fold_left Z.add l a = a + fold_left Z.add l 0.
Proof. induction l as [|x l IH]; intros a; cbn [fold_left]; [lia|]. rewrite (IH (a + x)), (IH (0 + x)). lia. Qed.
Lemma gen_sum_cons x l : gen_sum (x :: l) = x + gen_sum l.
Proof. unfold gen_sum. cbn [fold_left]. rewrite fold_add. lia. Qed.

Definition at_k {V} (m : list (kind * V)) (f : V -> Z) (k : kind) : Z := match gen_afind gen_kind_eqb m k with Some v => f v | None => 0 end.
Definition at_d {V} (m : list (dir * V)) (f : V -> Z) (k : dir) : Z := match gen_afind gen_dir_eqb m k with Some v => f v | None => 0 end.

Lemma sum_kinds {V} (f : V -> Z) : forall m : list (kind * V), NoDup (map fst m) ->
  gen_sum (map f (map snd m)) = at_k m f KMtu + at_k m f KTcp + at_k m f KHttp.
Proof.
  induction m as [|[k0 v0] r IH]; intros H; [reflexivity|].
  inversion H as [|x l Hn Hr]; subst. cbn [map snd]. rewrite gen_sum_cons, (IH Hr).
  pose proof (afind_notin gen_kind_eqb kind_eqb_spec r k0 Hn) as E0.
  unfold at_k in *. cbn [gen_afind]. destruct k0; cbn [gen_kind_eqb]; rewrite E0; lia.
Qed.
Lemma sum_dirs {V} (f : V -> Z) : forall m : list (dir * V), NoDup (map fst m) ->
  gen_sum (map f (map snd m)) = at_d m f Req + at_d m f Resp.
Proof.
  induction m as [|[k0 v0] r IH]; intros H; [reflexivity|].
  inversion H as [|x l Hn Hr]; subst. cbn [map snd]. rewrite gen_sum_cons, (IH Hr).
  pose proof (afind_notin gen_dir_eqb dir_eqb_spec r k0 Hn) as E0.
  unfold at_d in *. cbn [gen_afind]. destruct k0; cbn [gen_dir_eqb]; rewrite E0; lia.
Qed.

Theorem gen_len_eq : forall m, wfm m -> dict_ok m -> gen_len m = db_len (of_map m).
Proof.
  intros m W D. unfold gen_len. rewrite (sum_kinds _ m (proj1 D)). unfold at_k, db_len, of_map.
  cbn [d_mtu d_tcp_req d_tcp_resp d_http_req d_http_resp].
  assert (G : forall k d, gen_afind gen_kind_eqb m k = Some (GDict d) ->
              gen_sum (map (fun l : list rec => Z.of_nat (length l)) (map snd d)) =
              match gen_afind gen_dir_eqb d Req with Some x => Z.of_nat (length x) | None => 0 end +
              match gen_afind gen_dir_eqb d Resp with Some x => Z.of_nat (length x) | None => 0 end).
  { intros k d E. pose proof (vok_lookup _ _ _ D E) as Hv. cbn [vok] in Hv. rewrite (sum_dirs _ d Hv). reflexivity. }
  destruct (gen_afind gen_kind_eqb m KMtu) as [[l1|d1]|] eqn:E1; [|shape W E1|];
    (destruct (gen_afind gen_kind_eqb m KTcp) as [[l2|d2]|] eqn:E2; [shape W E2| |]);
    (destruct (gen_afind gen_kind_eqb m KHttp) as [[l3|d3]|] eqn:E3; [shape W E3| |]);
    rewrite ?(G _ _ E2), ?(G _ _ E3); lia.
Qed.

(* what goes wrong without unique keys: an association list that no Python dict can be *)
Example gen_len_needs_unique_keys : let m := [(KMtu, GList []); (KMtu, GList [ {| rc_line := 1; rc_label := LMtu []; rc_raw := []; rc_sig := SMtu 1 |} ])] in
  wfm m /\ gen_len m = 1 /\ db_len (of_map m) = 0.
Proof.
  cbv zeta. split; [|split; reflexivity].
  intros k v H. destruct k; cbn in H; try discriminate H. injection H as <-. exact I.
Qed.

(* ------------------------------------------------------------------ *)
(* the parser only ever touches the dictionary through create / add     *)
(* ------------------------------------------------------------------ *)
Definition db_step (m m' : gmap) : Prop :=
  m' = m \/ (exists k dr, gen_db_create m k dr = Ok m') \/ (exists v dr, gen_db_add m v dr = Ok m').

Ltac crunch H :=
  repeat (cbn [bind] in H;
          match type of H with
          | Err _ = Ok _ => discriminate H
          | context [bind ?x _] => destruct x eqn:?
          | context [match ?x with _ => _ end] => destruct x eqn:?
          end).

Lemma gen_step_g_db : forall g n line g', gen_step_g g n line = Ok g' -> db_step (g_db g) (g_db g').
Proof.
  intros [m ps lab dr cls] n line g' H. unfold gen_step_g in H. cbn [g_db g_state g_label g_dir g_cls] in H.
  crunch H; injection H as <-; cbn [g_db];
    first [left; reflexivity | right; left; do 2 eexists; eassumption | right; right; do 2 eexists; eassumption].
Qed.

Lemma db_step_ok m m' : dict_ok m -> db_step m m' -> dict_ok m'.
Proof.
  intros D [->|[(k & dr & H)|(v & dr & H)]]; [exact D|exact (gen_db_create_ok _ _ _ _ D H)|exact (gen_db_add_ok _ _ _ _ D H)].
Qed.

Lemma gen_loop_ok : forall file g n g', dict_ok (g_db g) -> gen_loop g n file = Ok g' -> dict_ok (g_db g').
Proof.
  induction file as [|l r IH]; intros g n g' D H; cbn [gen_loop] in H; [injection H as <-; exact D|].
  destruct (gen_step_g g n l) as [g1|e] eqn:E; cbn [bind] in H; [|discriminate H].
  exact (IH _ _ _ (db_step_ok _ _ D (gen_step_g_db _ _ _ _ E)) H).
Qed.

(* ------------------------------------------------------------------ *)
(* load                                                                *)
(* ------------------------------------------------------------------ *)
(* the lines as Python's text-mode iteration hands them over: the model's raw lines with "\n" re-attached (GenFileP.v) *)
Definition add_nl (l : text) : text := l ++ [10].

Lemma gen_loop_run_g : forall lines g n, gen_loop g n (map add_nl lines) = gen_run_g g n lines.
Proof.
  induction lines as [|l r IH]; intros g n; [reflexivity|]. cbn [map gen_loop gen_run_g]. unfold add_nl at 1.
  destruct (gen_step_g g n (l ++ [10])); cbn [bind]; [apply IH|reflexivity].
Qed.
Lemma gen_open_parse_file_eq lines : gen_open_parse_file (map add_nl lines) = GenFileC.gen_parse_file lines.
Proof. unfold gen_open_parse_file, gen__parse_file, GenFileC.gen_parse_file. rewrite gen_loop_run_g. reflexivity. Qed.

Theorem gen_load_eq : forall m lines, Forall no_lead_nl lines ->
  let '(m', r) := gen_Database_load m (map add_nl lines) in (of_map m', r) = load_spec (of_map m) lines.
Proof.
  intros m lines H. unfold gen_Database_load, load_spec, gen_db_replace. rewrite gen_open_parse_file_eq.
  rewrite <- (gen_parse_file_eq_variant lines H). unfold gen_parse_file_db.
  destruct (GenFileC.gen_parse_file lines) as [o|e]; reflexivity.
Qed.

(* for the lines of ANY file text: no hypothesis *)
Definition gen_load_text (m : gmap) (t : text) : gmap * res unit := gen_Database_load m (map add_nl (file_lines t)).
Theorem gen_load_text_eq : forall m t,
  let '(m', r) := gen_load_text m t in (of_map m', r) = load_spec (of_map m) (file_lines t).
Proof. intros m t. apply gen_load_eq. apply file_lines_no_lead_nl. Qed.

(* a failed load leaves the very dictionary, a successful one installs a well-formed dictionary with unique keys: the hypotheses of
   the read-side theorems hold again after any load *)
Theorem gen_load_keeps_invariants : forall m lines, Forall no_lead_nl lines -> wfm m -> dict_ok m ->
  let '(m', r) := gen_Database_load m (map add_nl lines) in
  wfm m' /\ dict_ok m' /\ (forall e, r = Err e -> m' = m).
Proof.
  intros m lines H W D. unfold gen_Database_load, gen_db_replace. rewrite gen_open_parse_file_eq.
  unfold GenFileC.gen_parse_file. change gen_first_line with 1.
  destruct of_g_st0 as [E0 W0].
  assert (HI : Inv (of_g gen_st0)) by (rewrite E0; exact Inv_st0).
  pose proof (gen_run_g_sim lines gen_st0 1 H W0 HI) as S.
  pose proof (gen_loop_ok (map add_nl lines) gen_st0 1) as L. rewrite gen_loop_run_g in L.
  destruct (gen_run_g gen_st0 1 lines) as [g|e]; cbn [bind].
  - split; [exact (proj1 S)|]. split; [exact (L g dict_ok_nil eq_refl)|]. intros e Hr. discriminate Hr.
  - split; [exact W|]. split; [exact D|]. reflexivity.
Qed.

Print Assumptions gen_iter_values_all.
Print Assumptions gen_iter_values_sim.
Print Assumptions gen_get_random_all.
Print Assumptions gen_get_random_eq.
Print Assumptions gen_db_create_ok.
Print Assumptions gen_db_add_ok.
Print Assumptions gen_len_eq.
Print Assumptions gen_step_g_db.
Print Assumptions gen_load_eq.
Print Assumptions gen_load_text_eq.
Print Assumptions gen_load_keeps_invariants.
