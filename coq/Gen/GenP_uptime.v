(* Equivalence of the definitions translated from /repo's current source (group uptime) with the hand-written models. *)
From Coq Require Import Lia.
From PV Require Import Model.Prelude Model.Bits Model.Sig Model.Matcher Model.Select Model.Uptime Model.Mtu Model.Text Model.SigParse Model.DbParse Model.HttpRead Model.HttpMatch Gen.GenLib Gen.Generated_uptime.

Theorem gen_round_frequency_eq f : gen_round_frequency f = round_freq f.
Proof. reflexivity. Qed.

Theorem gen_should_fingerprint_eq frag ty : gen_should_fingerprint frag ty = should_fp frag ty.
Proof. reflexivity. Qed.

Theorem gen_valid_for_uptime_fingerprint_eq frag ty : gen_valid_for_uptime_fingerprint frag ty = valid_uptime frag ty.
Proof. reflexivity. Qed.
Print Assumptions gen_round_frequency_eq.
Print Assumptions gen_should_fingerprint_eq.
Print Assumptions gen_valid_for_uptime_fingerprint_eq.
