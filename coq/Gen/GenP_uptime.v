(* Equivalence of the definitions translated from /repo's current source (group uptime) with the hand-written models. *)
From Coq Require Import Lia.
From PV Require Import Model.Prelude Model.Bits Model.Sig Model.Matcher Model.Select Model.Uptime Model.Mtu Model.Text Model.SigParse Model.DbParse Model.HttpRead Model.HttpMatch Gen.GenLib Gen.Generated_uptime.

Theorem gen_round_frequency_eq f : gen_round_frequency f = round_freq f.
Proof. reflexivity. Qed.

Theorem gen_should_fingerprint_eq frag ty : gen_should_fingerprint frag ty = should_fp frag ty.
Proof. reflexivity. Qed.

Theorem gen_valid_for_uptime_fingerprint_eq frag ty : gen_valid_for_uptime_fingerprint frag ty = valid_uptime frag ty.
Proof. reflexivity. Qed.
Print Assumptions gen_round_frequency_eq.
Print Assumptions gen_should_fingerprint_eq.
Print Assumptions gen_valid_for_uptime_fingerprint_eq.

(* ================= fingerprint_uptime (body after parse_packet) and Uptime.__post_init__ =================
   The generated function returns the Python objects (UptimeResult.tps / .uptime, the Uptime fields); the model's [verdict] is
   embedded into that type by the injective [result_of_verdict].  A Python ZeroDivisionError is [Err (Crash COther)] on the
   generated side; the model has no such outcome, which is why the hypotheses below are needed (see NOTES.md for the
   counterexamples, evaluated here and replayed on the real code). *)
From Coq Require Import ZifyBool.
From PV Require Import Proofs.UptimeP.
Ltac Zify.zify_post_hook ::= Z.to_euclidean_division_equations.

Definition res_map {A B} (f : A -> B) (r : res A) : res B := match r with Ok a => Ok (f a) | Err e => Err e end.
Definition result_of_verdict (v : verdict) : gen_uptime_result :=
  match v with
  | NoVerdict => {| gr_tps := None; gr_uptime := None |}
  | BadTps => {| gr_tps := Some (-1); gr_uptime := None |}
  | Up tps num den mins days =>
      {| gr_tps := Some tps;
         gr_uptime := Some {| gu_raw_frequency := (num, den); gu_frequency := tps; gu_total_minutes := mins; gu_modulo_days := days |} |}
  end.

Lemma result_of_verdict_inj a b : result_of_verdict a = result_of_verdict b -> a = b.
Proof. destruct a, b; cbn [result_of_verdict]; intros H; try discriminate H; try reflexivity. inversion H; subst; reflexivity. Qed.

Lemma res_map_verdict_inj a b : res_map result_of_verdict a = res_map result_of_verdict b -> a = b.
Proof.
  destruct a, b; cbn [res_map]; intros H; try discriminate H; inversion H; subst; try reflexivity.
  f_equal. apply result_of_verdict_inj. assumption.
Qed.

(* x & 0xFFFFFFFF on an unbounded (possibly negative) integer, and ~x & 0xFFFFFFFF *)
Lemma land_mask32 x : Z.land x 4294967295 = x mod 4294967296.
Proof. change 4294967295 with (Z.ones 32). rewrite Z.land_ones by lia. reflexivity. Qed.
Lemma lnot_mask32 t : 0 <= t < 4294967296 -> Z.lnot t mod 4294967296 = 4294967296 - 1 - t.
Proof. intros H. unfold Z.lnot. lia. Qed.

Lemma gen_q_le_pos x y : 0 < snd x -> 0 < snd y -> gen_q_le x y = le_q x y.
Proof.
  intros Hx Hy. unfold gen_q_le, le_q.
  replace (0 <? snd x * snd y) with true by (symmetry; apply Z.ltb_lt; apply Z.mul_pos_pos; assumption). reflexivity.
Qed.
Lemma gen_q_lt_pos x y : 0 < snd x -> 0 < snd y -> gen_q_lt x y = (fst x * snd y <? fst y * snd x).
Proof.
  intros Hx Hy. unfold gen_q_lt.
  replace (0 <? snd x * snd y) with true by (symmetry; apply Z.ltb_lt; apply Z.mul_pos_pos; assumption). reflexivity.
Qed.

(* a frequency that passes a minimum scale > -1 truncates to a non-negative integer, so the rounded frequency is >= 1 *)
Lemma round_freq_in_scale_nz num ms nmin dmin :
  0 < dmin -> - dmin < nmin -> 0 < ms -> nmin * ms <= num * dmin -> round_freq (Z.quot num ms) <> 0.
Proof.
  intros Hd Hn Hms Hle.
  assert (Hlow : - ms < num) by nia.
  assert (Hq : 0 <= Z.quot num ms).
  { destruct (Z_le_gt_dec 0 num) as [Hp|Hneg]; [apply Z.quot_pos; lia|].
    replace num with (- (- num)) by lia. rewrite Z.quot_opp_l by lia. rewrite Z.quot_small by lia. lia. }
  pose proof (round_freq_pos _ Hq). lia.
Qed.

Theorem gen_uptime_post_init_eq ts q :
  round_freq (Z.quot (fst q) (snd q)) <> 0 ->
  gen_uptime_post_init ts q =
  Ok {| gu_raw_frequency := q; gu_frequency := round_freq (Z.quot (fst q) (snd q));
        gu_total_minutes := ts / round_freq (Z.quot (fst q) (snd q)) / 60;
        gu_modulo_days := 4294967295 / (round_freq (Z.quot (fst q) (snd q)) * 86400) |}.
Proof.
  intros Hnz. unfold gen_uptime_post_init. cbv zeta. rewrite !gen_round_frequency_eq.
  set (f := round_freq (Z.quot (fst q) (snd q))) in *.
  repeat match goal with
         | |- context [Z.eqb ?a 0] => let E := fresh "E" in destruct (Z.eqb a 0) eqn:E; [apply Z.eqb_eq in E; exfalso; lia | clear E]
         end.
  do 3 f_equal. ring.
Qed.

(* without the guard hypothesis: __post_init__ raises ZeroDivisionError exactly when the rounded frequency is 0 *)
Theorem gen_uptime_post_init_zero ts q :
  round_freq (Z.quot (fst q) (snd q)) = 0 -> gen_uptime_post_init ts q = Err (Crash COther).
Proof.
  intros Hz. unfold gen_uptime_post_init. cbv zeta. rewrite !gen_round_frequency_eq. rewrite Hz. reflexivity.
Qed.

(* the part of the function after the wait / ticks / grace test *)
Ltac upt_rest Hd1 Hd2 Hn Hpos :=
  unfold raw_num, two32;
  match goal with |- (if ?c then _ else _) = _ => destruct c end;
  (replace (Z.eqb _ 0) with false by (symmetry; apply Z.eqb_neq; lia));
  cbv zeta; cbn [fst snd]; rewrite ?Z.mul_1_l;
  repeat match goal with |- context [Z.mul ?a (- (1000))] => replace (Z.mul a (- (1000))) with (- (a * 1000)) by ring end;
  rewrite !gen_q_le_pos by (cbn [snd]; assumption); unfold le_q; cbn [fst snd];
  (let Es := fresh "Escale" in
   match goal with |- (if ?c then _ else _) = _ => destruct c eqn:Es end;
   [ unfold fSYN; match goal with |- context [Z.eqb ?a 2] => destruct (Z.eqb a 2) end; reflexivity
   | rewrite gen_uptime_post_init_eq;
     [ reflexivity
     | cbn [fst snd]; apply negb_false_iff in Es; apply andb_true_iff in Es; destruct Es as [Es _];
       apply Z.leb_le in Es;
       eapply round_freq_in_scale_nz; [exact Hd1 | exact Hn | exact Hpos | exact Es] ] ]).

Theorem gen_fingerprint_uptime_eq : forall o frag ty ts last ms,
  0 < snd (min_sc o) -> 0 < snd (max_sc o) -> - snd (min_sc o) < fst (min_sc o) ->
  (min_wait o <= ms <= max_wait o -> 0 < ms) ->
  gen_fingerprint_uptime o frag ty ts last ms = res_map result_of_verdict (uptime o frag ty ts last ms).
Proof.
  intros o frag ty ts last ms Hd1 Hd2 Hn Hms.
  unfold gen_fingerprint_uptime, uptime. rewrite gen_valid_for_uptime_fingerprint_eq.
  destruct (valid_uptime frag ty); cbn [negb]; [|reflexivity].
  rewrite !negb_involutive.
  destruct ((ts =? 0) || (last =? 0)); [reflexivity|].
  cbv zeta. rewrite !land_mask32. unfold ticks_of, two32.
  set (t := (ts - last) mod 4294967296).
  assert (Ht : 0 <= t < 4294967296) by (subst t; apply Z.mod_pos_bound; lia).
  rewrite (lnot_mask32 t Ht).
  destruct ((min_wait o <=? ms) && (ms <=? max_wait o)) eqn:EW; cbn [negb orb]; [|reflexivity].
  assert (Hpos : 0 < ms) by (apply andb_true_iff in EW; destruct EW as [EW1 EW2]; apply Z.leb_le in EW1, EW2; apply Hms; split; assumption).
  destruct (t <? 5); cbn [orb]; [reflexivity|].
  unfold grace_case, two32.
  destruct (ms <? grace o) eqn:EG; cbn [andb].
  - apply Z.ltb_lt in EG.
    replace (Z.eqb (grace o) 0) with false by (symmetry; apply Z.eqb_neq; lia).
    rewrite gen_q_lt_pos by (cbn [snd]; nia). cbn [fst snd].
    match goal with |- (if ?c then _ else _) = res_map _ (if ?c' then _ else _) =>
      replace c with c' by (f_equal; ring) end.
    match goal with |- (if ?c then _ else _) = _ => destruct c end; [reflexivity|].
    upt_rest Hd1 Hd2 Hn Hpos.
  - upt_rest Hd1 Hd2 Hn Hpos.
Qed.

(* the same under the sanity conditions of the options actually used: minimum wait and minimum scale positive *)
Corollary gen_fingerprint_uptime_eq_sane : forall o frag ty ts last ms,
  0 < min_wait o -> 0 < fst (min_sc o) -> 0 < snd (min_sc o) -> 0 < snd (max_sc o) ->
  gen_fingerprint_uptime o frag ty ts last ms = res_map result_of_verdict (uptime o frag ty ts last ms).
Proof. intros. apply gen_fingerprint_uptime_eq; lia. Qed.

(* ---- each hypothesis is needed: inputs on which the translated code and the model differ (replayed on the real code, see NOTES.md) ---- *)
Definition cx_opts (minw g : Z) (mins maxs : Z * Z) : uopts :=
  {| min_wait := minw; max_wait := 600000; grace := g; min_sc := mins; max_sc := maxs |}.
(* (a) min_wait <= 0 and ms = 0: Python divides by ms_diff = 0 *)
Example cx_ms_zero :
  gen_fingerprint_uptime (cx_opts 0 100 (7, 10) (1500, 1)) false 16 1050 1000 0 = Err (Crash COther) /\
  uptime (cx_opts 0 100 (7, 10) (1500, 1)) false 16 1050 1000 0 = Ok BadTps.
Proof. vm_compute. split; reflexivity. Qed.
(* (b) min_wait < 0 and ms < 0 (the clock went back 20 s) while the timestamp went back 20001 ticks: Python's quotient is +1000.0 Hz *)
Example cx_ms_negative :
  gen_fingerprint_uptime (cx_opts (-30000) 100 (7, 10) (1500, 1)) false 16 100000 120001 (-20000) =
    res_map result_of_verdict (Ok (Up 1000 (-20000000) (-20000) 1 49)) /\
  uptime (cx_opts (-30000) 100 (7, 10) (1500, 1)) false 16 100000 120001 (-20000) = Ok BadTps.
Proof. vm_compute. split; reflexivity. Qed.
(* (c) minimum scale -1.0: a reading of exactly -1.0 Hz is in scale, int(-1.0) = -1 rounds to 0 and __post_init__ divides by it *)
Example cx_min_scale_minus_one :
  gen_fingerprint_uptime (cx_opts 25 100 (-1, 1) (1500, 1)) false 16 1000 1002 1000 = Err (Crash COther) /\
  uptime (cx_opts 25 100 (-1, 1) (1500, 1)) false 16 1000 1002 1000 = Ok (Up 0 (-1000) 1000 0 0).
Proof. vm_compute. split; reflexivity. Qed.
(* (d) a threshold written with a negative denominator (-1500 / -1 = 1500): only the representation; a float has no such form *)
Example cx_negative_denominator :
  gen_fingerprint_uptime (cx_opts 25 100 (7, 10) (-1500, -1)) false 16 1050 1000 500 =
    res_map result_of_verdict (Ok (Up 100 50000 500 0 497)) /\
  uptime (cx_opts 25 100 (7, 10) (-1500, -1)) false 16 1050 1000 500 = Ok BadTps.
Proof. vm_compute. split; reflexivity. Qed.
(* 0 < grace is NOT needed: the division by timestamp_grace is only reached when min_wait <= ms < grace, and then 0 < ms < grace.
   With grace = 0 and ms = 0 (min_wait = 0) the first ZeroDivisionError is already the one of case (a). *)
Example grace_zero_agrees :
  gen_fingerprint_uptime (cx_opts 25 0 (7, 10) (1500, 1)) false 16 1050 1000 500 =
  res_map result_of_verdict (uptime (cx_opts 25 0 (7, 10) (1500, 1)) false 16 1050 1000 500).
Proof. vm_compute. reflexivity. Qed.

Print Assumptions gen_uptime_post_init_eq.
Print Assumptions gen_fingerprint_uptime_eq.
Print Assumptions gen_fingerprint_uptime_eq_sane.
