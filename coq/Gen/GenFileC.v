(* Corollaries: the file-level theorems of C09 / C10 / C15, restated for the file parser as TRANSLATED from pyp0f's source on this
   run (Gen/GeneratedFile.v).  Hand-written; compiled after Gen/GenFileP.v. *)
From Coq Require Import String ZArith NArith List Bool Lia.
From PV Require Import Model.Prelude Model.Bits Model.Sig Model.Text Model.SigParse Model.DbParse Model.Dump Spec.C01 Spec.C09
  Proofs.TextP Proofs.DbParseP Proofs.LabelsP Gen.GeneratedSig Gen.GeneratedFile Gen.GenSigP Gen.GenFileP.
Import ListNotations.
Local Open Scope Z_scope.

Fixpoint gen_run (s : st) (n : Z) (lines : list text) : res st :=
  match lines with [] => Ok s | l :: r => do s' <- gen_step s n l; gen_run s' (n + 1) r end.

(* [gen_run_eq] for ALL states and lists of lines is false for the reasons [gen_step_eq] is (GenFileP.v: a raw line beginning with
   "\n"; states outside the parser invariant).  It holds from every state satisfying DbParseP.Inv (st0 does) for lists of lines
   none of which begins with "\n" -- in particular for the lines of any file text. *)
Definition no_lead_nl (l : text) : Prop := hd 0 l <> 10.

Theorem gen_run_eq_variant : forall lines s n, Forall no_lead_nl lines -> Inv s -> gen_run s n lines = run s n lines.
Proof.
  induction lines as [|l r IH]; intros s n H HI; [reflexivity|].
  inversion H as [|x y Hl Hr]; subst. cbn [gen_run run].
  rewrite (gen_step_eq_variant s n l Hl HI).
  destruct (step s n l) as [s'|e] eqn:Es; cbn [bind]; [|reflexivity].
  apply IH; [exact Hr|]. exact (step_inv _ _ _ _ Es HI).
Qed.

(* The loop as Python runs it: over the GENERATED state (the dictionary is carried along, never rebuilt from the model) *)
Fixpoint gen_run_g (g : gst) (n : Z) (lines : list text) : res gst :=
  match lines with [] => Ok g | l :: r => do g' <- gen_step_g g n (l ++ [10]); gen_run_g g' (n + 1) r end.

Theorem gen_run_g_sim : forall lines g n, Forall no_lead_nl lines -> wfm (g_db g) -> Inv (of_g g) ->
  match gen_run_g g n lines with
  | Ok g' => wfm (g_db g') /\ run (of_g g) n lines = Ok (of_g g')
  | Err e => run (of_g g) n lines = Err e
  end.
Proof.
  induction lines as [|l r IH]; intros g n H W HI; cbn [gen_run_g run]; [split; [exact W|reflexivity]|].
  inversion H as [|x y Hl Hr]; subst.
  pose proof (gen_step_g_sim g n l Hl W HI) as S. unfold sim_step in S.
  destruct (gen_step_g g n (l ++ [10])) as [g1|e]; cbn [bind].
  - destruct S as [W1 S]. rewrite S. cbn [bind]. apply IH; [exact Hr|exact W1|]. exact (step_inv _ _ _ _ S HI).
  - rewrite S. reflexivity.
Qed.

Lemma split_nl_no10 : forall t cur, ~ In 10 cur -> Forall (fun l => ~ In 10 l) (split_nl cur t).
Proof.
  induction t as [|c r IH]; intros cur H; cbn [split_nl].
  - destruct cur as [|x cur']; [constructor|]. constructor; [|constructor].
    intro HI. apply H. apply in_rev. exact HI.
  - destruct (c =? 10) eqn:E.
    + constructor; [intro HI; apply H; apply in_rev; exact HI|]. apply IH. intros [].
    + apply IH. intros [HI|HI]; [apply Z.eqb_neq in E; congruence|exact (H HI)].
Qed.

Theorem file_lines_no_nl : forall t, Forall (fun l => ~ In 10 l) (file_lines t).
Proof. intros t. unfold file_lines. apply split_nl_no10. intros []. Qed.

Lemma no10_no_lead l : ~ In 10 l -> no_lead_nl l.
Proof. unfold no_lead_nl. destruct l as [|c r]; cbn [hd]; [lia|]. intros H E. apply H. left. exact E. Qed.

Theorem file_lines_no_lead_nl : forall t, Forall no_lead_nl (file_lines t).
Proof. intros t. eapply Forall_impl; [|apply file_lines_no_nl]. intros l. apply no10_no_lead. Qed.

(* on the lines of ANY file text (universal newlines) the translated loop and the model agree, from any state within the invariant *)
Theorem gen_run_file_lines_eq : forall t s n, Inv s -> gen_run s n (file_lines t) = run s n (file_lines t).
Proof. intros t s n HI. apply gen_run_eq_variant; [apply file_lines_no_lead_nl|exact HI]. Qed.

(* _parse_file as translated: initial state, first line number, the loop over the generated state, `return database` (the
   dictionary); [gen_parse_file_db] reads the returned dictionary as the model's database *)
Definition gen_parse_file (lines : list text) : res gmap :=
  do g <- gen_run_g gen_st0 gen_first_line lines; Ok (gen_result g).
Definition gen_parse_file_db (lines : list text) : res db := do m <- gen_parse_file lines; Ok (of_map m).
Definition gen_parse_text (t : text) : res db := gen_parse_file_db (file_lines t).

Theorem gen_parse_file_eq_variant : forall lines, Forall no_lead_nl lines -> gen_parse_file_db lines = parse_file lines.
Proof.
  intros lines H. unfold gen_parse_file_db, gen_parse_file, parse_file. change gen_first_line with 1.
  destruct of_g_st0 as [E0 W0].
  assert (HI : Inv (of_g gen_st0)) by (rewrite E0; exact Inv_st0).
  pose proof (gen_run_g_sim lines gen_st0 1 H W0 HI) as S. rewrite E0 in S.
  destruct (gen_run_g gen_st0 1 lines) as [g|e]; cbn [bind].
  - destruct S as [_ S]. rewrite S. reflexivity.
  - rewrite S. reflexivity.
Qed.
Theorem gen_parse_text_eq : forall t, gen_parse_text t = parse_text t.
Proof. intros t. apply gen_parse_file_eq_variant. apply file_lines_no_lead_nl. Qed.

(* ---- C09 ---- *)
Theorem C09_translated_file : forall ls d, Forall no_lead_nl ls -> gen_parse_file_db ls = Ok d ->
  (forall sec, In sec canonical_sections ->
     Forall2 Corresponds (recs_of (section_of d sec)) (in_section sec (spec_records ls))) /\
  db_len d = Z.of_nat (length (spec_records ls)) /\
  length (spec_records ls) = length (filter is_sig_line ls).
Proof. intros ls d Hn H. rewrite (gen_parse_file_eq_variant ls Hn) in H. exact (parse_file_records ls d H). Qed.

Theorem C09_translated_file_text : forall t d, gen_parse_text t = Ok d ->
  (forall sec, In sec canonical_sections ->
     Forall2 Corresponds (recs_of (section_of d sec)) (in_section sec (spec_records (file_lines t)))) /\
  db_len d = Z.of_nat (length (spec_records (file_lines t))) /\
  length (spec_records (file_lines t)) = length (filter is_sig_line (file_lines t)).
Proof. intros t d H. rewrite gen_parse_text_eq in H. exact (parse_text_records t d H). Qed.

(* ---- C10 ---- *)
Theorem C10_translated_file : forall ls, Forall no_lead_nl ls ->
  (exists d, gen_parse_file_db ls = Ok d) \/ (exists n, gen_parse_file_db ls = Err (ParsingError n)).
Proof. intros ls Hn. rewrite (gen_parse_file_eq_variant ls Hn). exact (parse_file_outcome ls). Qed.

Theorem C10_translated_file_text : forall t,
  (exists d, gen_parse_text t = Ok d) \/ (exists n, gen_parse_text t = Err (ParsingError n)).
Proof. intros t. rewrite gen_parse_text_eq. exact (parse_file_outcome (file_lines t)). Qed.

Lemma Forall_firstn_ {A} (P : A -> Prop) : forall k l, Forall P l -> Forall P (firstn k l).
Proof.
  induction k as [|k IH]; intros l H; [constructor|]. destruct l as [|a l]; [constructor|].
  inversion H; subst. cbn [firstn]. constructor; auto.
Qed.
Lemma Forall_nth_ {A} (P : A -> Prop) d : P d -> forall k l, Forall P l -> P (nth k l d).
Proof.
  intros Hd. induction k as [|k IH]; intros l H; destruct l as [|a l]; cbn [nth]; try exact Hd; inversion H; subst; auto.
Qed.

Lemma run_inv : forall ls s n s', run s n ls = Ok s' -> Inv s -> Inv s'.
Proof.
  induction ls as [|l r IH]; intros s n s' H HI; cbn [run] in H; [injection H as <-; exact HI|].
  destruct (step s n l) as [s1|e] eqn:Es; cbn [bind] in H; [|discriminate H].
  exact (IH _ _ _ H (step_inv _ _ _ _ Es HI)).
Qed.

Theorem C10_translated_file_line : forall ls n, Forall no_lead_nl ls ->
  gen_parse_file_db ls = Err (ParsingError n) ->
  1 <= n <= Z.of_nat (length ls) /\
  exists s, gen_run st0 1 (firstn (Z.to_nat (n - 1)) ls) = Ok s /\
            gen_step s n (nth (Z.to_nat (n - 1)) ls []) = Err (ParsingError n).
Proof.
  intros ls n Hn H. rewrite (gen_parse_file_eq_variant ls Hn) in H.
  destruct (parse_file_error_line ls n H) as [R [s [R1 R2]]]. split; [exact R|]. exists s.
  rewrite (gen_run_eq_variant _ st0 1 (Forall_firstn_ _ _ _ Hn) Inv_st0).
  split; [exact R1|]. rewrite gen_step_eq_variant; [exact R2| |].
  - apply (Forall_nth_ no_lead_nl); [unfold no_lead_nl; cbn [hd]; lia|exact Hn].
  - exact (run_inv _ _ _ _ R1 Inv_st0).
Qed.

(* ---- C15: the label text round trip, through the code's own Label.parse / dump ---- *)
Theorem C15_translated_file : forall (g : bool) c n f,
  colon_free c -> colon_free n -> colon_free f ->
  let t := join [58] [(if g then [103] else [115]); c; n; f] in
  gen_Label_parse t = Ok (LOs g c n f []) /\ gen_dump (LOs g c n f []) = t.
Proof. intros g c n f Hc Hn Hf t. rewrite gen_Label_parse_eq, gen_dump_eq. exact (label_roundtrip g c n f Hc Hn Hf). Qed.

Print Assumptions gen_run_eq_variant.
Print Assumptions gen_run_g_sim.
Print Assumptions gen_run_file_lines_eq.
Print Assumptions gen_parse_text_eq.
Print Assumptions C09_translated_file.
Print Assumptions C09_translated_file_text.
Print Assumptions C10_translated_file.
Print Assumptions C10_translated_file_text.
Print Assumptions C10_translated_file_line.
Print Assumptions C15_translated_file.
