(* The machine-translated HTTP payload reader and HTTP signature parser (Gen/GeneratedHttp.v, from pyp0f/net/layers/http/{read,header,http}.py
   and pyp0f/database/signatures/http.py) agree with the hand-written models Model/HttpRead.v, Model/SigParse.v, Model/HttpMatch.v.
   Hand-written; no dependence on the generated variable names. *)
From Coq Require Import String ZArith NArith List Bool Lia.
From PV Require Import Model.Prelude Model.Bits Model.Sig Model.Text Model.SigParse Model.DbParse Model.HttpRead Model.HttpMatch.
From PV Require Import Proofs.TextP Proofs.HttpReadP Gen.GeneratedSig Gen.GenSigP Gen.GeneratedHttp.
Import ListNotations.
Local Open Scope Z_scope.

(* ------------------------------------------------------------------ *)
(* read.py: extract_minor_version                                      *)
(* ------------------------------------------------------------------ *)
Lemma is_digit_cases d : is_digit d = true ->
  d = 48 \/ d = 49 \/ d = 50 \/ d = 51 \/ d = 52 \/ d = 53 \/ d = 54 \/ d = 55 \/ d = 56 \/ d = 57.
Proof.
  unfold is_digit. intros H. apply andb_prop in H. destruct H as [H1 H2].
  apply Z.leb_le in H1. apply Z.leb_le in H2. lia.
Qed.

Lemma gen_int_bytes_digit d : is_digit d = true -> gen_int_bytes [d] = Ok (d - 48).
Proof.
  intros H. apply is_digit_cases in H.
  repeat (destruct H as [-> | H]; [reflexivity|]). subst d. reflexivity.
Qed.

(* what the regular expression accepts: "HTTP/1.d" and, because of Python's `$`, "HTTP/1.d\n" *)
Lemma gen_re_http_version_lit d : gen_re_http_version [72; 84; 84; 80; 47; 49; 46; d] = if is_digit d then Some [d] else None.
Proof. reflexivity. Qed.
Lemma gen_re_http_version_lit_lf d : gen_re_http_version [72; 84; 84; 80; 47; 49; 46; d; 10] = if is_digit d then Some [d] else None.
Proof. reflexivity. Qed.

Lemma mem_last_lf (p : text) : mem 10 (p ++ [10]) = true.
Proof. rewrite HttpReadP.mem_app. cbn [mem existsb]. rewrite Z.eqb_refl. apply orb_true_r. Qed.

Theorem gen_extract_minor_version_eq_variant : forall v, mem 10 v = false -> gen_extract_minor_version v = minor_version v.
Proof.
  intros v H. unfold gen_extract_minor_version, minor_version, gen_re_http_version. cbv zeta.
  dmatch_goal; try reflexivity.
  - (* "HTTP/1.d" *)
    match goal with |- context [is_digit ?d] => destruct (is_digit d) eqn:E end; [|reflexivity].
    apply gen_int_bytes_digit. exact E.
  - (* "HTTP/1.d\n": excluded *)
    exfalso.
    match type of H with mem 10 (?a :: ?b :: ?c :: ?d :: ?e :: ?f :: ?g :: ?h :: [10]) = false =>
      change (mem 10 ([a; b; c; d; e; f; g; h] ++ [10]) = false) in H end.
    rewrite mem_last_lf in H. discriminate H.
Qed.

(* the code accepts every version text the model accepts, with the same digit ... *)
Theorem gen_extract_minor_version_complete : forall v m, minor_version v = Ok m -> gen_extract_minor_version v = Ok m.
Proof.
  intros v m H. apply minor_version_inv in H. destruct H as (d & -> & Hd & ->).
  unfold gen_extract_minor_version. cbv zeta. rewrite gen_re_http_version_lit, Hd.
  apply gen_int_bytes_digit. exact Hd.
Qed.

(* ... and otherwise raises PacketError *)
Theorem gen_extract_minor_version_err : forall v e, gen_extract_minor_version v = Err e -> e = PacketError.
Proof.
  intros v e. unfold gen_extract_minor_version, gen_re_http_version. cbv zeta.
  dmatch_goal; try (intros H; injection H as <-; reflexivity).
  all: match goal with |- context [is_digit ?d] => destruct (is_digit d) eqn:E end;
    try (intros H; injection H as <-; reflexivity);
    rewrite (gen_int_bytes_digit _ E); discriminate.
Qed.

(* exact characterisation, for ALL inputs *)
Theorem gen_extract_minor_version_spec : forall v m,
  gen_extract_minor_version v = Ok m <->
  (0 <= m <= 9 /\ (v = [72; 84; 84; 80; 47; 49; 46; 48 + m] \/ v = [72; 84; 84; 80; 47; 49; 46; 48 + m; 10])).
Proof.
  intros v m. split.
  - unfold gen_extract_minor_version, gen_re_http_version. cbv zeta.
    dmatch_goal; try discriminate.
    all: match goal with |- context [is_digit ?d] => destruct (is_digit d) eqn:E end; try discriminate;
      rewrite (gen_int_bytes_digit _ E); intros H; injection H as <-;
      apply is_digit_cases in E;
      (split; [lia|]); first [left; repeat f_equal; lia | right; repeat f_equal; lia].
  - intros [Hm [-> | ->]]; unfold gen_extract_minor_version; cbv zeta;
      [rewrite gen_re_http_version_lit|rewrite gen_re_http_version_lit_lf];
      (assert (E : is_digit (48 + m) = true) by (unfold is_digit; apply andb_true_intro; split; apply Z.leb_le; lia));
      rewrite E, (gen_int_bytes_digit _ E); f_equal; lia.
Qed.

(* ------------------------------------------------------------------ *)
(* read.py: read_first_line                                            *)
(* ------------------------------------------------------------------ *)
Lemma gen_split_ws_2 t : gen_split_ws 2 t = split_ws2 t.
Proof.
  unfold split_ws2. cbn [gen_split_ws].
  destruct (lstrip_by is_space_bytes t) as [|c0 t0]; [reflexivity|].
  destruct (take_word (c0 :: t0)) as [w1 r1].
  destruct (lstrip_by is_space_bytes r1) as [|c1 t1]; [reflexivity|].
  destruct (take_word (c1 :: t1)) as [w2 r2].
  destruct (lstrip_by is_space_bytes r2); reflexivity.
Qed.

(* the model's first-line function with the version recogniser as a parameter; at [minor_version] it IS the model (by computation) *)
Definition first_line_with (mv : text -> res Z) (line : text) : res (direction * Z) :=
  match split_ws2 line with
  | [] => Err PacketError
  | p0 :: rest =>
      if text_eqb p0 (str "GET") || text_eqb p0 (str "HEAD") then
        match rest with
        | [_; v] => do m <- mv v; Ok (Request, m)
        | _ => Err PacketError
        end
      else do m <- mv p0; Ok (Response, m)
  end.
Lemma first_line_with_model line : first_line_with minor_version line = read_first_line line.
Proof. reflexivity. Qed.

Lemma split_ws2_length t : (length (split_ws2 t) <= 3)%nat.
Proof.
  unfold split_ws2.
  destruct (lstrip_by is_space_bytes t) as [|c0 t0]; [cbn [length]; lia|].
  destruct (take_word (c0 :: t0)) as [w1 r1].
  destruct (lstrip_by is_space_bytes r1) as [|c1 t1]; [cbn [length]; lia|].
  destruct (take_word (c1 :: t1)) as [w2 r2].
  destruct (lstrip_by is_space_bytes r2); cbn [length]; lia.
Qed.

Lemma emv_bind_try (d : direction) v :
  match (do m <- gen_extract_minor_version v; @Ok (direction * Z) (d, m)) with
  | Err PacketError | Err (Crash CValue) | Err (Crash CIndex) => Err PacketError
  | r => r
  end = (do m <- gen_extract_minor_version v; Ok (d, m)).
Proof.
  destruct (gen_extract_minor_version v) as [m|e] eqn:E; cbn [bind]; [reflexivity|].
  apply gen_extract_minor_version_err in E. subst e. reflexivity.
Qed.

(* for ALL lines: the translated function is the model's first-line function over the code's version recogniser *)
Theorem gen_read_first_line_core : forall line, gen_read_first_line line = first_line_with gen_extract_minor_version line.
Proof.
  intros line. unfold gen_read_first_line, first_line_with. cbv zeta. rewrite gen_split_ws_2.
  pose proof (split_ws2_length line) as HL.
  destruct (split_ws2 line) as [|p0 [|p1 [|p2 [|p3 r]]]]; cbn [length] in HL; try lia; clear HL;
    cbn [gen_list_at nth_error bind]; try reflexivity.
  all: destruct (text_eqb p0 (str "GET") || text_eqb p0 (str "HEAD")); cbn [gen_list_at nth_error bind]; try reflexivity.
  all: destruct (gen_extract_minor_version _) as [m|e] eqn:E; cbn [bind]; try reflexivity.
  all: apply gen_extract_minor_version_err in E; subst e; reflexivity.
Qed.

(* words contain no white space, in particular no LF; the remainder of the line is a suffix of it *)
Lemma take_word_no_lf : forall t w r, take_word t = (w, r) -> mem 10 w = false.
Proof.
  induction t as [|c t IH]; intros w r H; cbn [take_word] in H.
  - injection H as <- <-. reflexivity.
  - destruct (is_space_bytes c) eqn:Es.
    + injection H as <- <-. reflexivity.
    + destruct (take_word t) as [w' r']. injection H as <- <-.
      cbn [mem existsb]. fold (mem 10 w'). rewrite (IH w' r' eq_refl), orb_false_r.
      apply Z.eqb_neq. intros <-. discriminate Es.
Qed.
Lemma take_word_rest_no_lf : forall t w r, take_word t = (w, r) -> mem 10 t = false -> mem 10 r = false.
Proof.
  induction t as [|c t IH]; intros w r H Hm; cbn [take_word] in H.
  - injection H as <- <-. reflexivity.
  - destruct (is_space_bytes c).
    + injection H as <- <-. exact Hm.
    + destruct (take_word t) as [w' r']. injection H as <- <-.
      cbn [mem existsb] in Hm. apply orb_false_elim in Hm. destruct Hm as [_ Hm].
      eapply IH; [reflexivity|exact Hm].
Qed.
Lemma lstrip_no_lf f : forall t, mem 10 t = false -> mem 10 (lstrip_by f t) = false.
Proof.
  induction t as [|c t IH]; intros Hm; [reflexivity|].
  cbn [lstrip_by]. destruct (f c); [|exact Hm].
  cbn [mem existsb] in Hm. apply orb_false_elim in Hm. destruct Hm as [_ Hm]. apply IH. exact Hm.
Qed.

Lemma split_ws2_first_word line a tl : split_ws2 line = a :: tl -> mem 10 a = false.
Proof.
  unfold split_ws2.
  destruct (lstrip_by is_space_bytes line) as [|c0 t0]; [discriminate|].
  destruct (take_word (c0 :: t0)) as [w1 r1] eqn:E1.
  assert (H1 : mem 10 w1 = false) by (eapply take_word_no_lf; eauto).
  destruct (lstrip_by is_space_bytes r1) as [|c1 t1]; [intros H; injection H as <- _; exact H1|].
  destruct (take_word (c1 :: t1)) as [w2 r2].
  destruct (lstrip_by is_space_bytes r2); intros H; injection H as <- _; exact H1.
Qed.
Lemma split_ws2_third line a b c : mem 10 line = false -> split_ws2 line = [a; b; c] -> mem 10 c = false.
Proof.
  intros Hm. unfold split_ws2.
  pose proof (lstrip_no_lf is_space_bytes line Hm) as H0.
  destruct (lstrip_by is_space_bytes line) as [|c0 t0]; [discriminate|].
  destruct (take_word (c0 :: t0)) as [w1 r1] eqn:E1.
  pose proof (take_word_rest_no_lf _ _ _ E1 H0) as Hr1.
  pose proof (lstrip_no_lf is_space_bytes r1 Hr1) as H1.
  destruct (lstrip_by is_space_bytes r1) as [|c1 t1]; [discriminate|].
  destruct (take_word (c1 :: t1)) as [w2 r2] eqn:E2.
  pose proof (take_word_rest_no_lf _ _ _ E2 H1) as Hr2.
  pose proof (lstrip_no_lf is_space_bytes r2 Hr2) as H2.
  destruct (lstrip_by is_space_bytes r2) as [|c2 t2]; [discriminate|].
  intros H; injection H as _ _ <-. exact H2.
Qed.

(* agreement with the model whenever the version field of a GET / HEAD line contains no LF *)
Theorem gen_read_first_line_agree : forall line,
  (forall a b c, split_ws2 line = [a; b; c] -> text_eqb a (str "GET") || text_eqb a (str "HEAD") = true -> mem 10 c = false) ->
  gen_read_first_line line = read_first_line line.
Proof.
  intros line H. rewrite gen_read_first_line_core, <- first_line_with_model. unfold first_line_with.
  destruct (split_ws2 line) as [|p0 rest] eqn:E; [reflexivity|].
  destruct (text_eqb p0 (str "GET") || text_eqb p0 (str "HEAD")) eqn:Em.
  - destruct rest as [|p1 [|p2 [|p3 r]]]; try reflexivity.
    rewrite gen_extract_minor_version_eq_variant; [reflexivity|].
    eapply H; [reflexivity|exact Em].
  - rewrite gen_extract_minor_version_eq_variant; [reflexivity|].
    eapply split_ws2_first_word; eauto.
Qed.

(* the statement of the goals file holds for every line without LF (every line read_payload ever passes) ... *)
Theorem gen_read_first_line_eq_variant : forall line, mem 10 line = false -> gen_read_first_line line = read_first_line line.
Proof.
  intros line Hm. apply gen_read_first_line_agree. intros a b c E _. eapply split_ws2_third; eauto.
Qed.

(* ... and for every line the model accepts *)
Theorem gen_read_first_line_ok : forall line r, read_first_line line = Ok r -> gen_read_first_line line = Ok r.
Proof.
  intros line r. rewrite gen_read_first_line_core, <- first_line_with_model. unfold first_line_with.
  destruct (split_ws2 line) as [|p0 rest]; [discriminate|].
  destruct (text_eqb p0 (str "GET") || text_eqb p0 (str "HEAD")).
  - destruct rest as [|p1 [|p2 [|p3 r']]]; try discriminate.
    destruct (minor_version p2) as [m|e] eqn:E; cbn [bind]; [|discriminate].
    rewrite (gen_extract_minor_version_complete _ _ E). trivial.
  - destruct (minor_version p0) as [m|e] eqn:E; cbn [bind]; [|discriminate].
    rewrite (gen_extract_minor_version_complete _ _ E). trivial.
Qed.

(* the statement as written is FALSE: a GET line whose version field ends in LF (see NOTES.md) *)
Example gen_read_first_line_differs :
  let line := [71; 69; 84; 32; 47; 32; 72; 84; 84; 80; 47; 49; 46; 49; 10] in      (* b"GET / HTTP/1.1\n" *)
  gen_read_first_line line = Ok (Request, 1) /\ read_first_line line = Err PacketError.
Proof. vm_compute. split; reflexivity. Qed.

(* ------------------------------------------------------------------ *)
(* read.py: read_headers                                               *)
(* ------------------------------------------------------------------ *)
(* the loop of the translated function (the list of headers read so far is in wire order; the model keeps it reversed) *)
Definition gen_read_headers_loop : list text -> list pkt_header -> res (list pkt_header) :=
  ltac:(let t := eval cbv beta zeta delta [gen_read_headers] in (gen_read_headers []) in
        match t with bind (?F _ _) _ => exact F end).

Lemma gen_read_headers_unfold lines :
  gen_read_headers lines = bind (gen_read_headers_loop lines []) (fun h => Ok h).
Proof. reflexivity. Qed.

Lemma gen_last_rev {A} (h : A) acc : gen_last (rev (h :: acc)) = Ok h.
Proof. unfold gen_last. rewrite rev_involutive. reflexivity. Qed.
Lemma gen_set_last_rev {A} (h v : A) acc : gen_set_last (rev (h :: acc)) v = Ok (rev (v :: acc)).
Proof.
  cbn [rev]. unfold gen_set_last.
  destruct (rev acc ++ [h]) as [|x l] eqn:E; [destruct (rev acc); discriminate E|].
  rewrite <- E, removelast_last. reflexivity.
Qed.

Lemma split_max_1_partition sep : forall t,
  split_max sep 1 t = let '(a, f, b) := partition_on sep t in if f then [a; b] else [a].
Proof.
  induction t as [|c r IH]; [reflexivity|].
  cbn [split_max partition_on]. destruct (c =? sep); [destruct r; reflexivity|].
  rewrite IH. destruct (partition_on sep r) as [[a f] b]. destruct f; reflexivity.
Qed.
Lemma gen_split_max_colon_1 t :
  gen_split_max (str ":") 1 t = let '(a, f, b) := partition_on 58 t in if f then [a; b] else [a].
Proof. change (gen_split_max (str ":") 1 t) with (split_max 58 1 t). apply split_max_1_partition. Qed.

Lemma gen_read_headers_loop_spec : forall lines acc, gen_read_headers_loop lines (rev acc) = read_headers lines acc.
Proof.
  induction lines as [|line rest IH]; intros acc; [reflexivity|].
  cbn [read_headers].
  destruct line as [|c r]; [reflexivity|].
  unfold gen_read_headers_loop. cbn [index nth_error bind mem existsb]. rewrite orb_false_r.
  destruct ((c =? 32) || (c =? 9)).
  - destruct acc as [|h acc'].
    + reflexivity.
    + destruct (rev (h :: acc')) as [|y l] eqn:E.
      { exfalso. cbn [rev] in E. destruct (rev acc'); discriminate E. }
      cbn [negb]. rewrite <- E. rewrite gen_last_rev. cbn [bind].
      rewrite gen_set_last_rev. cbn [bind].
      repeat rewrite <- app_assoc. exact (IH (_ :: acc')).
  - rewrite gen_split_max_colon_1.
    destruct (partition_on 58 (c :: r)) as [[name found] value].
    destruct found; cbn [negb]; [|reflexivity].
    destruct name as [|n0 name']; [reflexivity|].
    cbn [negb bind]. exact (IH (_ :: acc)).
Qed.

Theorem gen_read_headers_eq : forall lines, gen_read_headers lines = read_headers lines [].
Proof.
  intros lines. rewrite gen_read_headers_unfold. change (@nil pkt_header) with (rev (@nil pkt_header)) at 1.
  rewrite gen_read_headers_loop_spec. destruct (read_headers lines []); reflexivity.
Qed.

(* ------------------------------------------------------------------ *)
(* read.py: read_payload                                               *)
(* ------------------------------------------------------------------ *)
(* the lines h11 hands out never contain LF *)
Lemma strip_cr_no_lf p : mem 10 p = false -> mem 10 (strip_cr p) = false.
Proof.
  intros H. rewrite strip_cr_eq. destruct (rev p) as [|c r] eqn:E; [exact H|].
  destruct (c =? 13); [|exact H].
  apply (f_equal (@rev Z)) in E. rewrite rev_involutive in E. cbn [rev] in E. subst p.
  rewrite HttpReadP.mem_app in H. apply orb_false_elim in H. apply H.
Qed.

Lemma tub_no_lf : forall pieces ls, Forall (fun p => mem 10 p = false) pieces ->
  take_until_blank pieces = Some ls -> Forall (fun l => mem 10 l = false) ls.
Proof.
  induction pieces as [|p rest IH]; intros ls HF.
  - cbn. discriminate.
  - destruct rest as [|q rest'].
    + cbn. discriminate.
    + change (take_until_blank (p :: q :: rest')) with
        (if is_blank_line p then Some [] else
           match take_until_blank (q :: rest') with Some l => Some (strip_cr p :: l) | None => None end).
      inversion HF as [|? ? Hp HF']; subst.
      destruct (is_blank_line p).
      * intros H; injection H as <-. constructor.
      * destruct (take_until_blank (q :: rest')) as [l|]; [|discriminate].
        intros H; injection H as <-. constructor.
        -- apply strip_cr_no_lf; assumption.
        -- apply IH; [assumption|reflexivity].
Qed.

Theorem extract_lines_no_lf : forall data ls, extract_lines data = Some ls -> Forall (fun l => mem 10 l = false) ls.
Proof.
  intros data ls. unfold extract_lines.
  pose proof (split_on_pieces_free 10 data) as HF.
  destruct (split_on 10 data) as [|p0 [|q rest]]; try discriminate.
  inversion HF as [|? ? Hp HF']; subst.
  destruct (is_blank_line p0).
  - intros H; injection H as <-. constructor.
  - destruct (take_until_blank (q :: rest)) as [l|] eqn:Et; [|discriminate].
    intros H; injection H as <-. constructor.
    + apply strip_cr_no_lf; assumption.
    + eapply tub_no_lf; eauto.
Qed.

Lemma map_gen_bytes (l : list text) : map (fun x => gen_bytes x) l = l.
Proof. unfold gen_bytes. apply map_id. Qed.

Theorem gen_read_payload_eq : forall buf, gen_read_payload buf = read_payload buf.
Proof.
  intros buf. unfold gen_read_payload, read_payload. cbv zeta.
  destruct (extract_lines buf) as [[|first rest]|] eqn:E; try reflexivity.
  apply extract_lines_no_lf in E. inversion E as [|? ? Hfirst _]; subst.
  cbn [negb]. rewrite map_gen_bytes. cbn [gen_list_at nth_error bind skipn].
  rewrite (gen_read_first_line_eq_variant _ Hfirst), gen_read_headers_eq.
  destruct (read_first_line first) as [[d m]|e]; cbn [bind fst snd]; [|reflexivity].
  destruct (read_headers rest []); reflexivity.
Qed.

(* ------------------------------------------------------------------ *)
(* header.py / http.py                                                 *)
(* ------------------------------------------------------------------ *)
Theorem gen_Header_lower_name_eq : forall h, gen_Header_lower_name (ph_name h) = lname h.
Proof. reflexivity. Qed.

Lemma text_eqb_sym : forall a b, text_eqb a b = text_eqb b a.
Proof.
  induction a as [|x a IH]; intros [|y b]; try reflexivity.
  cbn [text_eqb]. rewrite Z.eqb_sym, IH. reflexivity.
Qed.

Theorem gen_HTTP_get_header_value_eq : forall hs name, gen_HTTP_get_header_value hs name = header_value (lower name) hs.
Proof.
  intros hs name. unfold gen_HTTP_get_header_value, header_value, gen_next. cbv zeta.
  induction hs as [|h r IH]; [reflexivity|].
  cbn [find find_from]. rewrite gen_Header_lower_name_eq, text_eqb_sym.
  destruct (text_eqb (lower name) (lname h)); [reflexivity|exact IH].
Qed.

Theorem gen_HTTP_software_eq : forall hs, gen_HTTP_software hs = software hs.
Proof. intros hs. unfold gen_HTTP_software, software. rewrite !gen_HTTP_get_header_value_eq. reflexivity. Qed.

Theorem gen_HTTP_from_buffer_eq : forall buf,
  gen_HTTP_from_buffer buf = do p <- read_payload buf; Ok (snd (fst p), snd p).
Proof.
  intros buf. unfold gen_HTTP_from_buffer. rewrite gen_read_payload_eq.
  destruct (read_payload buf) as [[[d v] hs]|e]; reflexivity.
Qed.

(* ------------------------------------------------------------------ *)
(* signatures/http.py: _parse_version, _parse_headers                  *)
(* ------------------------------------------------------------------ *)
Theorem gen_http_parse_version_eq : forall t, gen_http_parse_version t = parse_http_version t.
Proof.
  intros t. unfold gen_http_parse_version, gen_fixed_numerical_options_parser, gen_parse_from_numerical_options, parse_http_version.
  rewrite gen_is_wildcard_eq, gen_parse_from_options_eq. reflexivity.
Qed.

Definition gen_http_parse_headers_loop : list text -> list sig_header -> res (list sig_header) :=
  ltac:(let t := eval cbv beta zeta delta [gen_http_parse_headers] in (gen_http_parse_headers []) in
        match t with bind (?F _ _) _ => exact F end).

Lemma gen_http_parse_headers_unfold f :
  gen_http_parse_headers f = bind (gen_http_parse_headers_loop (hsplit (utf8 f)) []) (fun h => Ok h).
Proof. reflexivity. Qed.

Lemma firstn_1_question (name : text) : text_eqb (firstn 1 name) (str "?") = starts_with (str "?") name.
Proof.
  destruct name as [|c r]; [reflexivity|].
  change (str "?") with [63]. cbn [firstn text_eqb starts_with]. rewrite !andb_true_r. apply Z.eqb_sym.
Qed.

(* one header of the list, as the loop body builds it *)
Lemma parse_header_fields h name fd value : partition_on 61 h = (name, fd, value) ->
  {| sh_name := if text_eqb (firstn 1 name) (str "?") then skipn 1 name else name;
     sh_optional := text_eqb (firstn 1 name) (str "?");
     sh_value := if match value with [] => false | _ :: _ => true end then Some (removelast (skipn 1 value)) else None |}
  = parse_header h.
Proof.
  intros E. unfold parse_header. rewrite E, firstn_1_question, !skipn_1_tl.
  destruct value; reflexivity.
Qed.

Lemma gen_http_parse_headers_loop_spec : forall l acc,
  gen_http_parse_headers_loop l acc
  = Ok (acc ++ map parse_header (filter (fun h => match h with [] => false | _ => true end) l)).
Proof.
  induction l as [|h rest IH]; intros acc.
  - cbn [filter map]. rewrite app_nil_r. reflexivity.
  - destruct h as [|c r].
    + cbn [filter]. exact (IH acc).
    + cbn [filter map]. unfold gen_http_parse_headers_loop. cbn [negb].
      destruct (partition_on 61 (c :: r)) as [[name fd] value] eqn:E.
      rewrite (parse_header_fields _ _ _ _ E).
      replace (acc ++ parse_header (c :: r) :: map parse_header (filter (fun h => match h with [] => false | _ => true end) rest))
        with ((acc ++ [parse_header (c :: r)]) ++ map parse_header (filter (fun h => match h with [] => false | _ => true end) rest))
        by (rewrite <- app_assoc; reflexivity).
      exact (IH _).
Qed.

Theorem gen_http_parse_headers_eq : forall f, gen_http_parse_headers f = Ok (parse_headers (utf8 f)).
Proof.
  intros f. rewrite gen_http_parse_headers_unfold, gen_http_parse_headers_loop_spec. reflexivity.
Qed.

(* ------------------------------------------------------------------ *)
(* signatures/http.py: HTTPSignature.parse, __post_init__              *)
(* ------------------------------------------------------------------ *)
Theorem gen_HTTPSignature_parse_eq : forall t, gen_HTTPSignature_parse t = parse_http_sig t.
Proof.
  intros t. unfold gen_HTTPSignature_parse, parse_http_sig.
  change 4 with (Z.of_nat 4) at 1. change (str ":") with [58].
  rewrite gen_split_parts_eq. cbn [bind].
  pose proof (split_parts_length t 4 58) as HL.
  destruct (split_parts t 4 58) as [|p0 [|p1 [|p2 [|p3 [|p4 l]]]]]; cbn [length] in HL; try discriminate HL.
  cbn [part nth].
  rewrite gen_http_parse_version_eq, gen_http_parse_headers_eq.
  destruct p2 as [|a2 r2]; cbn [bind];
    (destruct (parse_http_version p0) as [v|e]; cbn [bind]; [|reflexivity]);
    destruct p3; reflexivity.
Qed.

(* header_names (a set in Python; the model tests membership of every required name, Model/HttpMatch.v http_sig_match) *)
Theorem gen_HTTPSignature_header_names_eq : forall hs,
  gen_HTTPSignature_header_names hs = map (fun h => lower (sh_name h)) (filter (fun h => negb (sh_optional h)) hs).
Proof. reflexivity. Qed.

Theorem gen_HTTPSignature_header_names_occur : forall s hs,
  forallb (fun n => occurs n hs) (gen_HTTPSignature_header_names (hs_headers s))
  = forallb (fun h => sh_optional h || occurs (lower (sh_name h)) hs) (hs_headers s).
Proof.
  intros s hs. rewrite gen_HTTPSignature_header_names_eq.
  induction (hs_headers s) as [|h r IH]; [reflexivity|].
  cbn [filter forallb]. destruct (sh_optional h); cbn [negb orb map forallb]; rewrite IH; reflexivity.
Qed.

Print Assumptions gen_extract_minor_version_eq_variant.
Print Assumptions gen_extract_minor_version_spec.
Print Assumptions gen_read_first_line_core.
Print Assumptions gen_read_first_line_agree.
Print Assumptions gen_read_first_line_eq_variant.
Print Assumptions gen_read_first_line_ok.
Print Assumptions gen_read_first_line_differs.
Print Assumptions gen_read_headers_eq.
Print Assumptions gen_read_payload_eq.
Print Assumptions gen_HTTP_get_header_value_eq.
Print Assumptions gen_HTTP_software_eq.
Print Assumptions gen_HTTP_from_buffer_eq.
Print Assumptions gen_http_parse_version_eq.
Print Assumptions gen_http_parse_headers_eq.
Print Assumptions gen_HTTPSignature_parse_eq.
Print Assumptions gen_HTTPSignature_header_names_occur.
