(* h11's ReceiveBuffer.maybe_extract_lines, machine-translated from the INSTALLED h11/_receivebuffer.py (Gen/GeneratedH11.v, by
   translate/h112coq.py) and applied to pyp0f's copy_buffer(payload), IS the hand model Model.HttpRead.extract_lines - for all byte
   lists.  What remains assumed is Gen/GenH11Lib.v: the meaning of the regular expression b"\n\r?\n" (find_blank_end) and of Python's
   slices / negative indices.  Hand-written; no dependence on the generated variable names. *)
From Coq Require Import String ZArith NArith List Bool Lia.
From PV Require Import Model.Prelude Model.Text Model.HttpRead Spec.C07 Proofs.TextP Proofs.HttpReadP.
From PV Require Import Gen.GenH11Lib Gen.GeneratedH11.
From PV Require Import Model.Bits Model.Sig Model.SigParse Gen.GeneratedSig Gen.GenSigP Gen.GeneratedHttp Gen.GenHttpP.
Import ListNotations.
Local Open Scope Z_scope.

Notation len l := (Z.of_nat (length l)).

(* ------------------------------------------------------------------ *)
(* Python slices and negative indices                                   *)
(* ------------------------------------------------------------------ *)
Lemma py_take_nonneg {A} (l : list A) n : 0 <= n -> py_take l n = firstn (Z.to_nat n) l.
Proof.
  intros Hn. unfold py_take, py_bound. destruct (Z.ltb_spec n 0) as [H|H]; [lia|].
  destruct (Z.le_gt_cases n (len l)) as [Hle|Hgt].
  - rewrite Z.min_r by lia. reflexivity.
  - rewrite Z.min_l by lia. rewrite Nat2Z.id, firstn_all. symmetry. apply firstn_all2. lia.
Qed.

Lemma py_drop_nonneg {A} (l : list A) n : 0 <= n -> py_drop l n = skipn (Z.to_nat n) l.
Proof.
  intros Hn. unfold py_drop, py_bound. destruct (Z.ltb_spec n 0) as [H|H]; [lia|].
  destruct (Z.le_gt_cases n (len l)) as [Hle|Hgt].
  - rewrite Z.min_r by lia. reflexivity.
  - rewrite Z.min_l by lia. rewrite Nat2Z.id, skipn_all. symmetry. apply skipn_all2. lia.
Qed.

Lemma py_take_app_len {A} (h t : list A) : py_take (h ++ t) (len h) = h.
Proof.
  rewrite py_take_nonneg by lia. rewrite Nat2Z.id, firstn_app, firstn_all, Nat.sub_diag.
  cbn [firstn]. apply app_nil_r.
Qed.

Lemma py_drop_app_len {A} (h t : list A) : py_drop (h ++ t) (len h) = t.
Proof.
  rewrite py_drop_nonneg by lia. rewrite Nat2Z.id, skipn_app, skipn_all, Nat.sub_diag. reflexivity.
Qed.

Lemma py_bound_m (n : nat) (k : Z) : 0 < k <= Z.of_nat n -> py_bound (Z.of_nat n) (- k) = (n - Z.to_nat k)%nat.
Proof. intros H. unfold py_bound. destruct (Z.ltb_spec (- k) 0); lia. Qed.

Lemma py_take_m2 {A} (xs : list A) a b : py_take (xs ++ [a; b]) (-2) = xs.
Proof.
  unfold py_take. change (-2) with (- (2)). rewrite py_bound_m by (rewrite app_length; cbn [length]; lia).
  rewrite app_length. cbn [length]. replace (length xs + 2 - Z.to_nat 2)%nat with (length xs + 0)%nat by lia.
  rewrite firstn_app_2. cbn [firstn]. apply app_nil_r.
Qed.

Lemma py_index_last2 {A} (xs : list A) a b : py_index (xs ++ [a; b]) (-2) = Some a /\ py_index (xs ++ [a; b]) (-1) = Some b.
Proof.
  unfold py_index. change (-2 <? 0) with true. change (-1 <? 0) with true. cbv zeta.
  rewrite app_length. cbn [length].
  split.
  - destruct (Z.ltb_spec (Z.of_nat (length xs + 2) + -2) 0); [lia|].
    rewrite nth_error_app2 by lia.
    replace (Z.to_nat (Z.of_nat (length xs + 2) + -2) - length xs)%nat with 0%nat by lia. reflexivity.
  - destruct (Z.ltb_spec (Z.of_nat (length xs + 2) + -1) 0); [lia|].
    rewrite nth_error_app2 by lia.
    replace (Z.to_nat (Z.of_nat (length xs + 2) + -1) - length xs)%nat with 1%nat by lia. reflexivity.
Qed.

(* ------------------------------------------------------------------ *)
(* the regular expression, read along the pieces of data.split(b"\n")   *)
(* ------------------------------------------------------------------ *)
Lemma mem_cons_false c x t : mem c (x :: t) = false -> c <> x /\ mem c t = false.
Proof.
  unfold mem. cbn [existsb]. intros H. apply orb_false_elim in H. destruct H as [H1 H2].
  apply Z.eqb_neq in H1. split; assumption.
Qed.

Ltac eqb_cases :=
  repeat match goal with
         | |- context [Z.eqb ?a ?b] => destruct (Z.eqb_spec a b); try congruence; cbn [andb]
         end.

Lemma bef_cons_not10 c t pos : 10 <> c -> blank_end_from (c :: t) pos = blank_end_from t (pos + 1).
Proof.
  intros H. cbn [blank_end_from]. unfold starts_with at 1 2.
  destruct (Z.eqb_spec 10 c); [congruence|]. cbn [andb]. reflexivity.
Qed.

Lemma bef_skip p t pos : mem 10 p = false -> blank_end_from (p ++ t) pos = blank_end_from t (pos + len p).
Proof.
  revert pos. induction p as [|c p IH]; intros pos H.
  - cbn [app length]. f_equal. lia.
  - apply mem_cons_false in H. destruct H as [Hc Hp]. cbn [app].
    rewrite bef_cons_not10 by assumption. rewrite IH by assumption. f_equal. cbn [length]. lia.
Qed.

Lemma bef_free p pos : mem 10 p = false -> blank_end_from p pos = None.
Proof. intros H. rewrite <- (app_nil_r p). rewrite bef_skip by assumption. reflexivity. Qed.

Lemma is_blank_line_1 c : is_blank_line [c] = (c =? 13).
Proof.
  destruct (Z.eqb_spec c 13) as [->|Hn]; [reflexivity|].
  destruct (is_blank_line [c]) eqn:E; [|reflexivity].
  apply is_blank_line_inv in E. destruct E as [E|E]; [discriminate|]. injection E as E. congruence.
Qed.

Lemma is_blank_line_2 c d q : is_blank_line (c :: d :: q) = false.
Proof.
  destruct (is_blank_line (c :: d :: q)) eqn:E; [|reflexivity].
  apply is_blank_line_inv in E. destruct E; discriminate.
Qed.

(* at the "\n" that ends a piece, with the next piece q itself "\n"-terminated: the expression matches here iff q is blank *)
Lemma bef_at_lf q t pos : mem 10 q = false ->
  blank_end_from (10 :: q ++ 10 :: t) pos =
  if is_blank_line q then Some (pos + len q + 2) else blank_end_from (q ++ 10 :: t) (pos + 1).
Proof.
  intros Hq. destruct q as [|c [|d q]].
  - cbn [app blank_end_from starts_with is_blank_line length]. rewrite Z.eqb_refl. cbn [andb]. f_equal. lia.
  - apply mem_cons_false in Hq. destruct Hq as [Hc _].
    rewrite is_blank_line_1. cbn [app blank_end_from length]. unfold starts_with.
    rewrite Z.eqb_refl. cbn [andb].
    destruct (Z.eqb_spec 10 c); [congruence|]. cbn [andb].
    rewrite (Z.eqb_sym 13 c). destruct (Z.eqb_spec c 13); cbn [andb]; [f_equal; lia|reflexivity].
  - apply mem_cons_false in Hq. destruct Hq as [Hc Hq]. apply mem_cons_false in Hq. destruct Hq as [Hd _].
    rewrite is_blank_line_2. cbn [app]. cbn [blank_end_from]. unfold starts_with at 1 2.
    rewrite Z.eqb_refl. cbn [andb].
    destruct (Z.eqb_spec 10 c); [congruence|].
    destruct (Z.eqb_spec 10 d); [congruence|]. rewrite andb_false_r. reflexivity.
Qed.

(* at the "\n" before the LAST piece (which is not "\n"-terminated): no match *)
Lemma bef_at_last_lf q pos : mem 10 q = false -> blank_end_from (10 :: q) pos = None.
Proof.
  intros Hq. cbn [blank_end_from].
  assert (E1 : starts_with [10; 10] (10 :: q) = false).
  { destruct q as [|c q]; [reflexivity|]. apply mem_cons_false in Hq. destruct Hq as [Hc _].
    unfold starts_with. rewrite Z.eqb_refl. destruct (Z.eqb_spec 10 c); [congruence|reflexivity]. }
  assert (E2 : starts_with [10; 13; 10] (10 :: q) = false).
  { destruct q as [|c [|d q]]; [reflexivity| |].
    - unfold starts_with. rewrite andb_false_r. reflexivity.
    - apply mem_cons_false in Hq. destruct Hq as [_ Hq]. apply mem_cons_false in Hq. destruct Hq as [Hd _].
      unfold starts_with. destruct (Z.eqb_spec 10 d); [congruence|]. rewrite !andb_false_r. reflexivity. }
  rewrite E1, E2. apply bef_free. assumption.
Qed.

(* where the pieces after the first are cut: (non-blank pieces, the first blank piece that is "\n"-terminated, what follows it) *)
Fixpoint cut (ps : list text) : option (list text * text * list text) :=
  match ps with
  | [] => None
  | q :: rest => match rest with
                 | [] => None
                 | _ :: _ => if is_blank_line q then Some ([], q, rest)
                             else match cut rest with Some (pre, b, post) => Some (q :: pre, b, post) | None => None end
                 end
  end.

Lemma cut_cons q r rest :
  cut (q :: r :: rest) = if is_blank_line q then Some ([], q, r :: rest)
                         else match cut (r :: rest) with Some (pre, b, post) => Some (q :: pre, b, post) | None => None end.
Proof. reflexivity. Qed.

Lemma cut_shape : forall ps pre b post, cut ps = Some (pre, b, post) ->
  ps = pre ++ b :: post /\ post <> [] /\ is_blank_line b = true.
Proof.
  induction ps as [|q rest IH]; intros pre b post H; [discriminate|].
  destruct rest as [|r rest]; [discriminate|]. rewrite cut_cons in H.
  destruct (is_blank_line q) eqn:Eb.
  - injection H as <- <- <-. split; [reflexivity|]. split; [discriminate|assumption].
  - destruct (cut (r :: rest)) as [[[pre' b'] post']|] eqn:Ec; [|discriminate].
    injection H as <- <- <-. destruct (IH _ _ _ eq_refl) as (E & Hp & Hb).
    split; [cbn [app]; f_equal; exact E|]. split; assumption.
Qed.

(* the model's take_until_blank is the same cut *)
Lemma tub_cut : forall ps,
  take_until_blank ps = match cut ps with Some (pre, _, _) => Some (map strip_cr pre) | None => None end.
Proof.
  induction ps as [|q rest IH]; [reflexivity|].
  destruct rest as [|r rest]; [reflexivity|].
  rewrite cut_cons, tub_cons by discriminate.
  destruct (is_blank_line q); [reflexivity|].
  rewrite IH. destruct (cut (r :: rest)) as [[[pre b] post]|]; reflexivity.
Qed.

Lemma join_cons2 (p q : text) (r : list text) : join [10] (p :: q :: r) = p ++ 10 :: join [10] (q :: r).
Proof. reflexivity. Qed.

Definition lf_free (p : text) : Prop := mem 10 p = false.

(* the leftmost match of the expression in p "\n" ps[0] "\n" ps[1] ..., found by the cut *)
Lemma scan_pieces : forall ps p pos, lf_free p -> Forall lf_free ps ->
  match cut ps with
  | None => blank_end_from (join [10] (p :: ps)) pos = None
  | Some (pre, b, post) =>
      exists head, join [10] (p :: ps) = head ++ join [10] post /\
                   split_on 10 head = p :: pre ++ [b; []] /\
                   blank_end_from (join [10] (p :: ps)) pos = Some (pos + len head)
  end.
Proof.
  induction ps as [|q rest IH]; intros p pos Hp Hps.
  - cbn [cut join]. apply bef_free. exact Hp.
  - inversion Hps as [|? ? Hq Hrest]; subst. destruct rest as [|r rest].
    + cbn [cut]. rewrite join_cons2. cbn [join]. rewrite bef_skip by exact Hp. apply bef_at_last_lf. exact Hq.
    + rewrite cut_cons. rewrite join_cons2. rewrite bef_skip by exact Hp.
      rewrite (join_cons2 q r rest). rewrite bef_at_lf by exact Hq.
      destruct (is_blank_line q) eqn:Eb.
      * exists (p ++ 10 :: q ++ [10]). split; [|split].
        -- rewrite <- app_assoc. cbn [app]. rewrite <- app_assoc. reflexivity.
        -- rewrite split_on_app by exact Hp. rewrite split_on_app by exact Hq. reflexivity.
        -- f_equal. rewrite app_length. cbn [length]. rewrite app_length. cbn [length]. lia.
      * rewrite <- (join_cons2 q r rest).
        specialize (IH q (pos + len p + 1) Hq Hrest).
        destruct (cut (r :: rest)) as [[[pre b] post]|].
        -- destruct IH as (head & Hj & Hs & Hb). exists (p ++ 10 :: head). split; [|split].
           ++ rewrite Hj. rewrite <- app_assoc. reflexivity.
           ++ rewrite split_on_app by exact Hp. rewrite Hs. reflexivity.
           ++ rewrite Hb. f_equal. rewrite app_length. cbn [length]. lia.
        -- exact IH.
Qed.

(* ------------------------------------------------------------------ *)
(* the "\r" stripping loop                                              *)
(* ------------------------------------------------------------------ *)
Lemma strip_gen x : (if ends_with [13] x then removelast x else x) = strip_cr x.
Proof.
  rewrite strip_cr_eq. unfold ends_with. cbn [rev app].
  destruct (rev x) as [|c r] eqn:E; [reflexivity|].
  unfold starts_with. rewrite (Z.eqb_sym 13 c). destruct (Z.eqb_spec c 13) as [->|Hn]; cbn [andb]; [|reflexivity].
  apply (f_equal (@rev Z)) in E. rewrite rev_involutive in E. cbn [rev] in E. rewrite E. apply removelast_last.
Qed.

Lemma strip_cr_blank b : is_blank_line b = true -> strip_cr b = [].
Proof. intros H. apply is_blank_line_inv in H. destruct H as [-> | ->]; reflexivity. Qed.

(* ------------------------------------------------------------------ *)
(* the whole call on a fresh buffer                                     *)
(* ------------------------------------------------------------------ *)
Definition rb_fresh (data : text) : rbuf := {| rb_data := data; rb_next_line_search := 0; rb_multiple_lines_search := 0 |}.

(* copy_buffer(b): a ReceiveBuffer holding exactly the payload bytes, both cursors 0 *)
Theorem gen_copy_buffer_fresh : forall data, gen_copy_buffer data = rb_fresh data.
Proof. reflexivity. Qed.

(* __iadd__ appends; _extract(count) returns data[:count], deletes it from the buffer and resets BOTH cursors - in every state
   (the theorems below only see fresh buffers, where the cursors are 0 anyway) *)
Theorem gen_rb_iadd_spec : forall st b,
  gen_rb_iadd st b = {| rb_data := rb_data st ++ b; rb_next_line_search := rb_next_line_search st;
                        rb_multiple_lines_search := rb_multiple_lines_search st |}.
Proof. reflexivity. Qed.
Theorem gen_rb_extract_spec : forall st count,
  gen_rb_extract st count = (rb_fresh (py_drop (rb_data st) count), py_take (rb_data st) count).
Proof. reflexivity. Qed.

(* state and result, in terms of the pieces of data.split(b"\n") *)
Definition h11_model_from (nls : Z) (data : text) : rbuf * option (list text) :=
  let unfinished := ({| rb_data := data; rb_next_line_search := nls; rb_multiple_lines_search := Z.max 0 (len data - 2) |}, None) in
  match split_on 10 data with
  | p0 :: (_ :: _) as ps =>
      if is_blank_line p0 then (rb_fresh (join [10] ps), Some [])
      else match cut ps with
           | Some (pre, b, post) => (rb_fresh (join [10] post), Some (map strip_cr (p0 :: pre)))
           | None => unfinished
           end
  | _ => unfinished
  end.

Definition h11_model := h11_model_from 0.

Lemma unfinished_eq (data : text) (n c c' : Z) : c = c' ->
  @H11Return (rbuf * option (list text)) ({| rb_data := data; rb_next_line_search := n; rb_multiple_lines_search := c |}, None) =
  H11Return ({| rb_data := data; rb_next_line_search := n; rb_multiple_lines_search := c' |}, None).
Proof. intros ->. reflexivity. Qed.

Ltac unfold_gen :=
  cbv beta iota zeta delta [gen_copy_buffer_maybe_extract_lines gen_rb_maybe_extract_lines gen_copy_buffer gen_rb_iadd gen_rb_init
                            gen_rb_extract set_rb_data set_rb_next_line_search set_rb_multiple_lines_search
                            rb_data rb_next_line_search rb_multiple_lines_search];
  rewrite ?app_nil_l.

Lemma take1 (a : Z) (t : text) : py_take (a :: t) 1 = [a].
Proof. rewrite py_take_nonneg by lia. reflexivity. Qed.
Lemma take2 (a b : Z) (t : text) : py_take (a :: b :: t) 2 = [a; b].
Proof. rewrite py_take_nonneg by lia. reflexivity. Qed.
Lemma drop1 (a : Z) (t : text) : py_drop (a :: t) 1 = t.
Proof. rewrite py_drop_nonneg by lia. reflexivity. Qed.
Lemma drop2 (a b : Z) (t : text) : py_drop (a :: b :: t) 2 = t.
Proof. rewrite py_drop_nonneg by lia. reflexivity. Qed.

Lemma split_on_10_cons t : split_on 10 (10 :: t) = [] :: split_on 10 t.
Proof. reflexivity. Qed.

(* the two "immediate empty line" tests of the code, as tests on the bytes *)
Definition starts_lf (data : text) : bool := match data with a :: _ => a =? 10 | [] => false end.
Definition starts_crlf (data : text) : bool := match data with a :: b :: _ => (a =? 13) && (b =? 10) | _ => false end.

Lemma test1 data : text_eqb (py_take data 1) [10] = starts_lf data.
Proof.
  destruct data as [|a t]; [reflexivity|]. rewrite take1. unfold text_eqb, starts_lf. apply andb_true_r.
Qed.
Lemma test2 data : text_eqb (py_take data 2) [13; 10] = starts_crlf data.
Proof.
  destruct data as [|a [|b t]]; [reflexivity| |].
  - rewrite py_take_nonneg by lia. cbn [firstn Z.to_nat Pos.to_nat Pos.iter_op Nat.add text_eqb starts_crlf]. apply andb_false_r.
  - rewrite take2. unfold text_eqb, starts_crlf. rewrite andb_true_r. reflexivity.
Qed.

(* no immediate empty line: the first piece is not blank, or it is the only one *)
Lemma not_immediate data p0 q r : starts_lf data = false -> starts_crlf data = false ->
  split_on 10 data = p0 :: q :: r -> is_blank_line p0 = false.
Proof.
  intros H1 H2 Es. pose proof (join_split 10 data) as Ej. rewrite Es, join_cons2 in Ej.
  destruct (is_blank_line p0) eqn:Eb; [|reflexivity]. exfalso.
  apply is_blank_line_inv in Eb. destruct Eb as [-> | ->]; subst data.
  - cbn [app starts_lf] in H1. discriminate H1.
  - cbn [app starts_crlf] in H2. discriminate H2.
Qed.

(* the method on any buffer whose blank-line search cursor is 0 (the other cursor, which maybe_extract_lines must not read, is arbitrary) *)
Theorem gen_h11_full_from : forall nls data,
  gen_rb_maybe_extract_lines {| rb_data := data; rb_next_line_search := nls; rb_multiple_lines_search := 0 |} = H11Return (h11_model_from nls data).
Proof.
  intros nls data. unfold_gen. rewrite test1, test2. unfold h11_model_from. cbv zeta.
  destruct (starts_lf data) eqn:E1.
  { (* data = "\n" ... *)
    destruct data as [|a t]; [discriminate E1|]. cbn [starts_lf] in E1. apply Z.eqb_eq in E1. subst a.
    rewrite drop1, split_on_10_cons.
    pose proof (split_on_nonnil 10 t) as Hn. pose proof (join_split 10 t) as Ej.
    destruct (split_on 10 t) as [|q r]; [congruence|].
    cbn [is_blank_line]. rewrite Ej. reflexivity. }
  destruct (starts_crlf data) eqn:E2.
  { (* data = "\r\n" ... *)
    destruct data as [|a [|b t]]; try discriminate E2. cbn [starts_crlf] in E2.
    apply andb_prop in E2. destruct E2 as [Ea Eb]. apply Z.eqb_eq in Ea. apply Z.eqb_eq in Eb. subst a b.
    rewrite drop2.
    change (split_on 10 (13 :: 10 :: t)) with ([13] :: split_on 10 t).
    pose proof (split_on_nonnil 10 t) as Hn. pose proof (join_split 10 t) as Ej.
    destruct (split_on 10 t) as [|q r]; [congruence|].
    cbn [is_blank_line]. rewrite Ej. reflexivity. }
  (* the general case: search from 0 *)
  unfold find_blank_end. change (Z.to_nat 0) with 0%nat. change (Z.max 0 0) with 0. cbn [skipn].
  pose proof (split_on_nonnil 10 data) as Hn. pose proof (join_split 10 data) as Ej.
  pose proof (split_on_pieces_free 10 data) as Hf.
  destruct (split_on 10 data) as [|p0 ps] eqn:Es; [congruence|].
  apply Forall_cons_iff in Hf. destruct Hf as [Hp0 Hps].
  pose proof (scan_pieces ps p0 0 Hp0 Hps) as Hscan. rewrite Ej in Hscan.
  destruct ps as [|q r].
  - cbn [cut] in Hscan. rewrite Hscan. apply unfinished_eq. lia.
  - rewrite (not_immediate data p0 q r E1 E2 Es).
    destruct (cut (q :: r)) as [[[pre b] post]|] eqn:Ec.
    + destruct Hscan as (head & Hj & Hs & Hb). rewrite Hb. rewrite Z.add_0_l.
      apply cut_shape in Ec. destruct Ec as (_ & _ & Hblank).
      rewrite Hj. rewrite !py_take_app_len, py_drop_app_len. rewrite !Hs.
      rewrite (map_ext _ strip_cr) by (intros x; apply strip_gen).
      change (p0 :: pre ++ [b; []]) with ((p0 :: pre) ++ [b; []]). rewrite map_app.
      cbn [map]. rewrite (strip_cr_blank b Hblank). change (strip_cr []) with (@nil Z).
      destruct (py_index_last2 (strip_cr p0 :: map strip_cr pre) [] []) as [I2 I1].
      change (strip_cr p0 :: map strip_cr pre ++ [[]; []]) with ((strip_cr p0 :: map strip_cr pre) ++ [[]; []]).
      rewrite I2, I1. cbn [text_eqb andb]. rewrite py_take_m2. reflexivity.
    + rewrite Hscan. apply unfinished_eq. lia.
Qed.

Theorem gen_h11_full : forall data, gen_copy_buffer_maybe_extract_lines data = H11Return (h11_model data).
Proof. intros data. unfold gen_copy_buffer_maybe_extract_lines. rewrite gen_copy_buffer_fresh. apply gen_h11_full_from. Qed.

(* ------------------------------------------------------------------ *)
(* the theorems                                                         *)
(* ------------------------------------------------------------------ *)
Lemma h11_model_result data : snd (h11_model data) = extract_lines data.
Proof.
  unfold h11_model, h11_model_from, extract_lines. cbv zeta.
  destruct (split_on 10 data) as [|p0 [|q r]]; try reflexivity.
  destruct (is_blank_line p0); [reflexivity|].
  rewrite tub_cut. destruct (cut (q :: r)) as [[[pre b] post]|]; reflexivity.
Qed.

(* the result of copy_buffer(data).maybe_extract_lines() - Some lines / None - is the model's, for ALL byte lists;
   in particular the call returns (no AssertionError, no IndexError) *)
Theorem gen_h11_extract_lines_eq : forall data,
  exists st, gen_copy_buffer_maybe_extract_lines data = H11Return (st, extract_lines data).
Proof.
  intros data. exists (fst (h11_model data)). rewrite gen_h11_full, <- h11_model_result.
  destruct (h11_model data); reflexivity.
Qed.

(* the result alone, as a function *)
Definition gen_h11_lines (data : text) : h11_outcome (option (list text)) :=
  match gen_copy_buffer_maybe_extract_lines data with
  | H11Return (_, r) => H11Return r
  | AssertionFailed => AssertionFailed
  | IndexFailed => IndexFailed
  end.
Theorem gen_h11_lines_eq : forall data, gen_h11_lines data = H11Return (extract_lines data).
Proof. intros data. unfold gen_h11_lines. destruct (gen_h11_extract_lines_eq data) as [st ->]. reflexivity. Qed.

(* `assert lines[-2] == lines[-1] == b""` never fails, and neither index is out of range *)
Theorem gen_h11_assert_unreachable : forall data,
  gen_copy_buffer_maybe_extract_lines data <> AssertionFailed /\ gen_copy_buffer_maybe_extract_lines data <> IndexFailed.
Proof. intros data. rewrite gen_h11_full. split; discriminate. Qed.

(* pieces written back: every piece is its stripped line plus its line end *)
Definition has_cr (p : text) : bool := ends_with [13] p.
Lemma piece_eol p : p ++ [10] = strip_cr p ++ eol (has_cr p).
Proof.
  rewrite <- strip_gen. unfold has_cr, ends_with. cbn [rev app].
  destruct (rev p) as [|c r] eqn:E; [reflexivity|].
  unfold starts_with. destruct (Z.eqb_spec 13 c) as [<-|Hn]; cbn [andb eol]; [|reflexivity].
  apply (f_equal (@rev Z)) in E. rewrite rev_involutive in E. cbn [rev] in E. rewrite E.
  rewrite removelast_last. rewrite <- app_assoc. reflexivity.
Qed.

Lemma join_pieces : forall (qs post : list text), post <> [] ->
  join [10] (qs ++ post) = render_lines (combine (map strip_cr qs) (map has_cr qs)) ++ join [10] post.
Proof.
  induction qs as [|q qs IH]; intros post Hp; [reflexivity|].
  cbn [app map combine]. unfold render_lines in *. cbn [flat_map fst snd].
  destruct (qs ++ post) as [|x y] eqn:E.
  - apply app_eq_nil in E. destruct E; congruence.
  - rewrite join_cons2. rewrite <- E. rewrite IH by assumption.
    rewrite <- piece_eol. rewrite <- !app_assoc. reflexivity.
Qed.

Lemma blank_eol b : is_blank_line b = true -> exists bcrlf, b ++ [10] = eol bcrlf.
Proof. intros H. apply is_blank_line_inv in H. destruct H as [-> | ->]; [exists false|exists true]; reflexivity. Qed.

(* when lines are returned, the COPY has been consumed by exactly the head: the payload is the returned lines, each with its line end
   ("\n" or "\r\n"), then the blank line, then exactly the bytes that remain in the buffer; both cursors are back at 0 *)
Theorem gen_h11_consumed : forall data st lines,
  gen_copy_buffer_maybe_extract_lines data = H11Return (st, Some lines) ->
  rb_next_line_search st = 0 /\ rb_multiple_lines_search st = 0 /\
  exists eols bcrlf, length eols = length lines /\ data = render_head (combine lines eols) bcrlf (rb_data st).
Proof.
  intros data st lines H. rewrite gen_h11_full in H. injection H as H.
  unfold h11_model, h11_model_from in H. cbv zeta in H.
  pose proof (join_split 10 data) as Ej.
  destruct (split_on 10 data) as [|p0 [|q r]]; try discriminate H.
  destruct (is_blank_line p0) eqn:Eb.
  - injection H as <- <-. split; [reflexivity|]. split; [reflexivity|].
    destruct (blank_eol p0 Eb) as [bcrlf Hb]. exists [], bcrlf. split; [reflexivity|].
    unfold render_head, render_lines. cbn [combine flat_map app rb_data rb_fresh].
    rewrite <- Hb, <- Ej, join_cons2, <- app_assoc. reflexivity.
  - destruct (cut (q :: r)) as [[[pre b] post]|] eqn:Ec; [|discriminate H].
    injection H as <- <-. split; [reflexivity|]. split; [reflexivity|].
    apply cut_shape in Ec. destruct Ec as (Eps & Hpost & Hblank).
    destruct (blank_eol b Hblank) as [bcrlf Hb].
    exists (map has_cr (p0 :: pre)), bcrlf. split; [cbn [map length]; rewrite !map_length; reflexivity|].
    unfold render_head. cbn [rb_data rb_fresh]. rewrite <- Hb, <- Ej, Eps.
    change (p0 :: pre ++ b :: post) with ((p0 :: pre) ++ b :: post).
    rewrite join_pieces by discriminate. f_equal.
    destruct post as [|x y]; [congruence|]. rewrite join_cons2, <- app_assoc. reflexivity.
Qed.

(* when None is returned the buffer keeps all its bytes (only the search cursor moves) *)
Theorem gen_h11_none_keeps_data : forall data st,
  gen_copy_buffer_maybe_extract_lines data = H11Return (st, None) ->
  rb_data st = data /\ rb_next_line_search st = 0 /\ rb_multiple_lines_search st = Z.max 0 (len data - 2).
Proof.
  intros data st H. rewrite gen_h11_full in H. injection H as H.
  unfold h11_model, h11_model_from in H. cbv zeta in H.
  destruct (split_on 10 data) as [|p0 [|q r]]; try (injection H as <-; repeat split; reflexivity).
  destruct (is_blank_line p0); [discriminate H|].
  destruct (cut (q :: r)) as [[[pre b] post]|]; [discriminate H|].
  injection H as <-. repeat split; reflexivity.
Qed.

(* ------------------------------------------------------------------ *)
(* C07: read_payload over the TRANSLATED h11                            *)
(* ------------------------------------------------------------------ *)
(* Gen/GeneratedHttp.v (translate/http2coq.py) binds `copy_buffer(buffer).maybe_extract_lines()` to the primitive
   Model.HttpRead.extract_lines.  [gen_read_payload_with ext] is the body of the generated gen_read_payload with every occurrence of that
   primitive abstracted into the parameter [ext] (computed from the generated term, not copied by hand). *)
Definition gen_read_payload_with (ext : text -> option (list text)) (buffer : text) : res (direction * Z * list pkt_header) :=
  ltac:(let t := eval cbv beta delta [gen_read_payload] in (gen_read_payload buffer) in
        match eval pattern extract_lines in t with
        | ?f _ => let r := eval cbv beta in (f ext) in exact r
        end).

(* at the primitive it IS the generated function (by computation) ... *)
Lemma gen_read_payload_with_primitive : forall buffer, gen_read_payload_with extract_lines buffer = gen_read_payload buffer.
Proof. reflexivity. Qed.
(* ... and the parameter is really used: with other extractors the result follows them *)
Example gen_read_payload_with_uses_ext :
  gen_read_payload_with (fun _ => None) (str "GET / HTTP/1.1" ++ [13; 10; 13; 10]) = Err PacketError /\
  gen_read_payload_with (fun _ => Some [str "GET / HTTP/1.0"]) [] = Ok (Request, 0, []) /\
  gen_read_payload (str "GET / HTTP/1.1" ++ [13; 10; 13; 10]) = Ok (Request, 1, []).
Proof. repeat split; reflexivity. Qed.

(* read_payload as the code runs it: the lines come from the translated h11 call on the fresh copy; an AssertionError / IndexError
   escaping from h11 would be a crash of read_payload *)
Definition gen_read_payload_h11 (buffer : text) : res (direction * Z * list pkt_header) :=
  match gen_copy_buffer_maybe_extract_lines buffer with
  | H11Return (_, lines) => gen_read_payload_with (fun _ => lines) buffer
  | AssertionFailed => Err (Crash COther)
  | IndexFailed => Err (Crash CIndex)
  end.

Theorem C07_translated_read_payload_h11 : forall buf, gen_read_payload_h11 buf = read_payload buf.
Proof.
  intros buf. unfold gen_read_payload_h11.
  destruct (gen_h11_extract_lines_eq buf) as [st ->].
  rewrite <- gen_read_payload_eq, <- gen_read_payload_with_primitive. reflexivity.
Qed.

(* the same in two halves: the translated reader over the primitive is the model, and the primitive is the translated h11 *)
Theorem C07_translated_read_payload_h11_split :
  (forall buf, gen_read_payload buf = read_payload buf) /\
  (forall buf, gen_h11_lines buf = H11Return (extract_lines buf)).
Proof. split; [exact gen_read_payload_eq|exact gen_h11_lines_eq]. Qed.

(* C07's corollaries, over the translated h11: a well-formed head is read back, and read_payload is total *)
Theorem C07_translated_total_h11 : forall data,
  (exists r, gen_read_payload_h11 data = Ok r) \/ gen_read_payload_h11 data = Err PacketError.
Proof. intros data. rewrite C07_translated_read_payload_h11. apply read_payload_total. Qed.

Print Assumptions gen_copy_buffer_fresh.
Print Assumptions gen_rb_iadd_spec.
Print Assumptions gen_rb_extract_spec.
Print Assumptions gen_h11_full_from.
Print Assumptions gen_h11_full.
Print Assumptions gen_h11_extract_lines_eq.
Print Assumptions gen_h11_lines_eq.
Print Assumptions gen_h11_assert_unreachable.
Print Assumptions gen_h11_consumed.
Print Assumptions gen_h11_none_keeps_data.
Print Assumptions C07_translated_read_payload_h11.
Print Assumptions C07_translated_read_payload_h11_split.
Print Assumptions C07_translated_total_h11.
