(* gen_headers_match (translated from pyp0f's headers_match) agrees with the hand model headers_match. *)
From Coq Require Import Lia ZArith List Bool.
From PV Require Import Model.Prelude Model.Text Model.SigParse Model.HttpRead Model.HttpMatch Gen.Generated_http.
Import ListNotations.
Local Open Scope Z_scope.

(* The inner loop, abstracted over the continuation k (the outer loop applied to the remaining signature headers). *)
Definition hm_inner (ph : list pkt_header) (header : sig_header) (original_index : Z) (k : Z -> res bool)
  : nat -> Z -> res bool :=
  fix loopB (fuel : nat) (i : Z) {struct fuel} := match fuel with
  | O => Err OutOfFuel
  | S fuel' =>
    if ((i <? (Z.of_nat (length ph))) && (negb (text_eqb (lower (sh_name header)) (lname (nth (Z.to_nat i) ph gen_default_header)))))
    then loopB fuel' (Z.add i 1)
    else (if (Z.eqb i (Z.of_nat (length ph)))
      then (if (negb (sh_optional header))
        then (Ok false)
        else (if (existsb (fun packet_header => (text_eqb (lower (sh_name header)) (lname packet_header))) ph)
          then (Ok false)
          else k original_index))
      else (if (match (sh_value header) with Some v_header_value => (negb (infix v_header_value (ph_value (nth (Z.to_nat i) ph gen_default_header)))) | None => false end)
        then (Ok false)
        else k (Z.add i 1)))
  end.

Definition hm_outer (fuel0 : nat) (ph : list pkt_header) : list sig_header -> Z -> res bool :=
  fix loopA (sh : list sig_header) (i : Z) {struct sh} : res bool :=
  match sh with
  | [] => Ok true
  | header :: rest => hm_inner ph header i (loopA rest) fuel0 i
  end.

Lemma hm_outer_nil : forall fuel0 ph i, hm_outer fuel0 ph [] i = Ok true.
Proof. reflexivity. Qed.
Lemma hm_outer_cons : forall fuel0 ph header rest i,
  hm_outer fuel0 ph (header :: rest) i = hm_inner ph header i (hm_outer fuel0 ph rest) fuel0 i.
Proof. reflexivity. Qed.

Lemma gen_headers_match_outer : forall fuel0 sh ph,
  gen_headers_match fuel0 sh ph = hm_outer fuel0 ph sh 0.
Proof. intros. reflexivity. Qed.

Lemma hm_inner_S : forall ph header oi k fuel i,
  hm_inner ph header oi k (S fuel) i =
    if ((i <? (Z.of_nat (length ph))) && (negb (text_eqb (lower (sh_name header)) (lname (nth (Z.to_nat i) ph gen_default_header)))))
    then hm_inner ph header oi k fuel (Z.add i 1)
    else (if (Z.eqb i (Z.of_nat (length ph)))
      then (if (negb (sh_optional header))
        then (Ok false)
        else (if occurs (lower (sh_name header)) ph
          then (Ok false)
          else k oi))
      else (if (match (sh_value header) with Some v_header_value => (negb (infix v_header_value (ph_value (nth (Z.to_nat i) ph gen_default_header)))) | None => false end)
        then (Ok false)
        else k (Z.add i 1))).
Proof. intros. reflexivity. Qed.

Lemma skipn_nth_cons : forall (A : Type) (d : A) (l : list A) (n : nat),
  (n < length l)%nat -> skipn n l = nth n l d :: skipn (S n) l.
Proof.
  intros A d l. induction l as [|a l IH]; intros n Hn.
  - cbn [length] in Hn. lia.
  - destruct n as [|n].
    + reflexivity.
    + cbn [length] in Hn. change (skipn (S n) (a :: l)) with (skipn n l).
      change (nth (S n) (a :: l) d) with (nth n l d).
      change (skipn (S (S n)) (a :: l)) with (skipn (S n) l).
      apply IH. lia.
Qed.

Lemma find_from_split : forall name l x after,
  find_from name l = Some (x, after) -> exists pre, l = pre ++ x :: after.
Proof.
  intros name l. induction l as [|h r IH]; intros x after H.
  - cbn [find_from] in H. discriminate.
  - cbn [find_from] in H. destruct (text_eqb name (lname h)) eqn:E.
    + inversion H; subst. exists []. reflexivity.
    + destruct (IH _ _ H) as [pre Hpre]. exists (h :: pre). rewrite Hpre. reflexivity.
Qed.

Lemma skipn_suffix : forall (A : Type) (pre after : list A),
  (length after <= length (pre ++ after))%nat /\
  skipn (length (pre ++ after) - length after) (pre ++ after) = after.
Proof.
  intros A pre after. rewrite app_length. split; [lia|].
  replace (length pre + length after - length after)%nat with (length pre) by lia.
  rewrite skipn_app. rewrite skipn_all. rewrite Nat.sub_diag. reflexivity.
Qed.

Lemma find_from_skipn_after : forall name (ph : list pkt_header) n x after,
  find_from name (skipn n ph) = Some (x, after) ->
  (length after <= length ph)%nat /\ skipn (length ph - length after) ph = after.
Proof.
  intros name ph n x after H.
  destruct (find_from_split _ _ _ _ H) as [pre Hpre].
  assert (Hph : ph = (firstn n ph ++ pre ++ [x]) ++ after).
  { rewrite <- (firstn_skipn n ph) at 1. rewrite Hpre. rewrite <- !app_assoc. reflexivity. }
  rewrite Hph. apply skipn_suffix.
Qed.

Definition hm_vbad (header : sig_header) (x : pkt_header) : bool :=
  match sh_value header with Some v => negb (infix v (ph_value x)) | None => false end.

Lemma hm_inner_spec : forall ph header oi k fuel n,
  (n <= length ph)%nat -> (length ph - n < fuel)%nat ->
  hm_inner ph header oi k fuel (Z.of_nat n) =
    match find_from (lower (sh_name header)) (skipn n ph) with
    | None => if negb (sh_optional header) then Ok false
              else if occurs (lower (sh_name header)) ph then Ok false else k oi
    | Some (x, after) =>
        if hm_vbad header x then Ok false else k (Z.of_nat (length ph - length after))
    end.
Proof.
  intros ph header oi k fuel. induction fuel as [|fuel IH]; intros n Hn Hf.
  - lia.
  - rewrite hm_inner_S. rewrite Nat2Z.id.
    destruct (Nat.eq_dec n (length ph)) as [Heq|Hne].
    + subst n. rewrite skipn_all. cbn [find_from].
      rewrite Z.ltb_irrefl. cbn [andb]. rewrite Z.eqb_refl. reflexivity.
    + assert (Hlt : (n < length ph)%nat) by lia.
      rewrite (skipn_nth_cons _ gen_default_header ph n Hlt). cbn [find_from].
      assert (E1 : (Z.of_nat n <? Z.of_nat (length ph)) = true) by (apply Z.ltb_lt; lia).
      rewrite E1. cbn [andb].
      destruct (text_eqb (lower (sh_name header)) (lname (nth n ph gen_default_header))) eqn:E2; cbn [negb].
      * assert (E3 : (Z.of_nat n =? Z.of_nat (length ph)) = false) by (apply Z.eqb_neq; lia).
        rewrite E3. unfold hm_vbad.
        assert (E4 : (length ph - length (skipn (S n) ph))%nat = S n) by (rewrite skipn_length; lia).
        rewrite E4.
        replace (Z.of_nat n + 1) with (Z.of_nat (S n)) by lia. reflexivity.
      * replace (Z.of_nat n + 1) with (Z.of_nat (S n)) by lia.
        apply IH; lia.
Qed.

Lemma hm_outer_spec : forall ph sh n,
  (n <= length ph)%nat ->
  hm_outer (S (length ph)) ph sh (Z.of_nat n) = Ok (headers_match sh ph (skipn n ph)).
Proof.
  intros ph sh. induction sh as [|h sh IH]; intros n Hn.
  - reflexivity.
  - rewrite hm_outer_cons. cbn [headers_match].
    rewrite hm_inner_spec by lia.
    destruct (find_from (lower (sh_name h)) (skipn n ph)) as [[x after]|] eqn:F.
    + destruct (find_from_skipn_after _ _ _ _ _ F) as [Hlen Hskip].
      unfold hm_vbad. destruct (sh_value h) as [v|].
      * destruct (infix v (ph_value x)); cbn [negb].
        -- rewrite IH by lia. rewrite Hskip. reflexivity.
        -- reflexivity.
      * rewrite IH by lia. rewrite Hskip. reflexivity.
    + destruct (negb (sh_optional h)); [reflexivity|].
      destruct (occurs (lower (sh_name h)) ph); [reflexivity|].
      apply IH. exact Hn.
Qed.

Theorem gen_headers_match_eq : forall sh ph,
  gen_headers_match (S (length ph)) sh ph = Ok (headers_match sh ph ph).
Proof.
  intros sh ph. rewrite gen_headers_match_outer.
  change 0 with (Z.of_nat 0).
  rewrite hm_outer_spec by lia. reflexivity.
Qed.

Print Assumptions gen_headers_match_eq.

(* http_signatures_match as translated (the version test, the two set tests over header_names / absent_headers, then headers_match)
   is the model's http_sig_match; find_http_match's call of it is rendered as rec_matches, which is http_sig_match on the record's signature *)
From PV Require Import Gen.GenLib.
Lemma occurs_names : forall name hs, existsb (text_eqb name) (gen_pkt_header_names hs) = occurs name hs.
Proof.
  intros name hs. unfold gen_pkt_header_names, occurs.
  induction hs as [|h r IH]; [reflexivity|]. cbn [map existsb]. rewrite IH. reflexivity.
Qed.
Lemma subset_names : forall sh hs,
  gen_subset (map (fun header => lower (sh_name header)) (filter (fun header => negb (sh_optional header)) sh)) (gen_pkt_header_names hs)
  = forallb (fun h => sh_optional h || occurs (lower (sh_name h)) hs) sh.
Proof.
  intros sh hs. unfold gen_subset. induction sh as [|h r IH]; [reflexivity|].
  cbn [filter forallb]. destruct (sh_optional h); cbn [negb orb]; [exact IH|].
  cbn [map forallb]. rewrite occurs_names, IH. reflexivity.
Qed.
Lemma meets_names : forall ab hs, gen_meets ab (gen_pkt_header_names hs) = existsb (fun a => occurs a hs) ab.
Proof.
  intros ab hs. unfold gen_meets. induction ab as [|a r IH]; [reflexivity|].
  cbn [existsb]. rewrite occurs_names, IH. reflexivity.
Qed.
Theorem gen_http_signatures_match_eq : forall s ver hs,
  gen_http_signatures_match s ver hs = Ok (http_sig_match s ver hs).
Proof.
  intros s ver hs. unfold gen_http_signatures_match, http_sig_match, gen_sig_header_names.
  rewrite subset_names, meets_names, gen_headers_match_eq.
  destruct (((hs_version s =? -1) || (hs_version s =? ver)) && forallb (fun h => sh_optional h || occurs (lower (sh_name h)) hs) (hs_headers s)
            && negb (existsb (fun a => occurs a hs) (hs_absent s))); reflexivity.
Qed.
Theorem gen_rec_matches_eq : forall ver hs r,
  rec_matches ver hs r = match http_of r with Some s => match gen_http_signatures_match s ver hs with Ok b => b | Err _ => false end | None => false end.
Proof. intros ver hs r. unfold rec_matches. destruct (http_of r) as [s|]; [rewrite gen_http_signatures_match_eq|]; reflexivity. Qed.
Print Assumptions gen_http_signatures_match_eq.
Print Assumptions gen_rec_matches_eq.
