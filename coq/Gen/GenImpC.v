(* Corollaries: the impersonation theorems, restated for the code as TRANSLATED from pyp0f/impersonate/tcp.py on this run
   (Gen/GeneratedImp.v) and for signatures that come out of the parser.  Hand-written; compiled after Gen/GenImpP.v. *)
From Coq Require Import ZArith NArith List Bool Lia.
From PV Require Import Model.Prelude Model.Bits Model.Sig Model.Matcher Model.Options Model.Wire Model.Text Model.SigParse Model.Imperson
  Spec.C01 Spec.C05 Proofs.DbParseP Proofs.ImpSoundP Proofs.SatCohP Proofs.ImpFieldsP Gen.GeneratedImp Gen.GenImpP.
Import ListNotations.
Local Open Scope Z_scope.

(* C05 for the translated code: a supported, satisfiable signature and an admissible base give a packet that the verified
   extractor + matcher read back as an exact match at distance extra_hops, for every random tape *)
Theorem C05_translated_code_sound : forall md txt s b hops mtu t x t',
  parse_tcp_sig txt = Ok s -> supported_b s = true -> admissible_base b -> Satisfiable md s b ->
  0 <= hops < s_ttl s -> hops <= md ->
  gen_impersonate s b hops mtu None t = Ok (x, t') ->
  oracle md s x = Ok (Some Exact, hops).
Proof.
  intros md txt s b hops mtu t x t' Hp Hs Hb Hsat Hh Hmd Hrun.
  destruct (parse_tcp_sig_wf txt s Hp) as (Hwf & _ & Hq & Hinv).
  rewrite (gen_impersonate_eq s b hops mtu None t (parsed_wsize_ok txt s Hp)) in Hrun.
  exact (satisfiable_supported_sound md s b hops mtu t x t' Hwf Hq Hinv Hs Hb Hsat Hh Hmd Hrun).
Qed.

(* ... and it does not raise (the only failure is a random tape that is too short or out of the requested range) *)
Theorem C05_translated_code_no_raise : forall txt s b hops mtu t,
  parse_tcp_sig txt = Ok s -> supported_b s = true -> coherent_b s b = true -> admissible_base b ->
  0 <= hops < s_ttl s ->
  (exists x t', gen_impersonate s b hops mtu None t = Ok (x, t')) \/ gen_impersonate s b hops mtu None t = Err OutOfFuel.
Proof.
  intros txt s b hops mtu t Hp Hs Hc Hb Hh.
  destruct (parse_tcp_sig_wf txt s Hp) as (Hwf & _).
  rewrite (gen_impersonate_eq s b hops mtu None t (parsed_wsize_ok txt s Hp)).
  exact (supported_no_raise s b hops mtu t Hwf Hs Hc Hb Hh).
Qed.

(* C14 for the translated option builder: it is the model's, for every layout suffix the theorems of Properties/C14.v quantify over *)
Theorem C14_translated_options : forall txt s b uptime t,
  parse_tcp_sig txt = Ok s ->
  gen_impersonate_options s b uptime t = imp_options s b uptime (s_layout s) t.
Proof. intros txt s b uptime t Hp. exact (gen_impersonate_options_eq s b uptime t (parsed_wsize_ok txt s Hp)). Qed.

Print Assumptions C05_translated_code_sound.
Print Assumptions C05_translated_code_no_raise.
Print Assumptions C14_translated_options.
