(* A small GENERIC semantics of the regular-expression constructs used by the three patterns that pyp0f / h11 hand to Python's
   `re` module (see Gen/GeneratedRe.v, written by translate/re2coq.py from CPython's own parse tree of the pattern literals, and
   Gen/GenReP.v for the proofs that tie the patterns to the hand recognisers).  Hand-written, DEFINITIONS ONLY, nothing in this
   file mentions a concrete pattern.  This file is the trusted reading of Python's `re` documentation for BYTES patterns:
   a subject is a list of byte values, positions are 0-based offsets into the WHOLE subject (so anchors and lookahead see both
   sides), a match is a pair (start, end) of positions plus the spans of the capture groups that took part. *)
From Coq Require Import ZArith List Bool.
From Coq Require String.
Import ListNotations.
Local Open Scope nat_scope.

Local Notation text := (list Z).

(* ------------------------------------------------------------------------------------------------------------------ *)
(* AST: one constructor per node kind of CPython's re._parser that re2coq.py accepts                                     *)
(* ------------------------------------------------------------------------------------------------------------------ *)
Inductive citem :=                        (* an item of a class [...] *)
| CLit (c : Z)                            (* LITERAL c           a single byte *)
| CRange (lo hi : Z)                      (* RANGE (lo, hi)      lo-hi *)
| CDigit.                                 (* CATEGORY_DIGIT      \d ; in a bytes pattern: the ASCII digits 0-9 only *)

Inductive re :=
| REmpty                                  (* the empty sequence *)
| RLit (c : Z)                            (* LITERAL c           the byte c *)
| RNotLit (c : Z)                         (* NOT_LITERAL c       [^c] : any ONE byte other than c (newline included) *)
| RIn (negate : bool) (items : list citem)(* IN [NEGATE?, items] [...] / [^...] / \d : ONE byte in (not in) the class *)
| RCat (a b : re)                         (* a sequence, right-nested *)
| RAlt (a b : re)                         (* BRANCH              a|b *)
| ROpt (a : re)                           (* MAX_REPEAT 0 1      a?  (greedy) *)
| RStar (a : re)                          (* MAX_REPEAT 0 inf    a*  (greedy) *)
| RNotAhead (a : re)                      (* ASSERT_NOT 1        (?!a) negative lookahead *)
| RBegin                                  (* AT_BEGINNING        ^ *)
| REnd                                    (* AT_END              $ *)
| RGroup (n : nat) (a : re).              (* SUBPATTERN n        (a) / (?P<name>a) : capture group number n *)

(* ------------------------------------------------------------------------------------------------------------------ *)
(* Semantics                                                                                                          *)
(* ------------------------------------------------------------------------------------------------------------------ *)
Definition in_item (b : Z) (it : citem) : bool :=
  match it with
  | CLit c => (b =? c)%Z
  | CRange lo hi => ((lo <=? b) && (b <=? hi))%Z
  | CDigit => ((48 <=? b) && (b <=? 57))%Z
  end.
Definition in_class (negate : bool) (items : list citem) (b : Z) : bool := xorb negate (existsb (in_item b) items).

(* a capture: (group number, start, end) *)
Definition span := (nat * nat * nat)%type.

(* zero or more iterations of R, each starting where the previous one ended; the captures are recorded in order *)
Inductive star (R : nat -> nat -> list span -> Prop) : nat -> nat -> list span -> Prop :=
| star_stop i : star R i i []
| star_step i k j c1 c2 : R i k c1 -> star R k j c2 -> star R i j (c1 ++ c2).

Section Semantics.
  Variable multiline : bool.              (* the flag re.MULTILINE; no other flag is modelled (re2coq.py refuses them) *)
  Variable s : text.                      (* the WHOLE subject *)

  (* the byte at position i exists and satisfies p *)
  Definition byte_at (i : nat) (p : Z -> bool) : Prop := exists b, nth_error s i = Some b /\ p b = true.

  (* [m r i j c] : r matches s[i:j], recording the captures c (in the order in which the groups were closed) *)
  Fixpoint m (r : re) (i j : nat) (c : list span) : Prop :=
    match r with
    | REmpty => j = i /\ c = []
    | RLit x => byte_at i (Z.eqb x) /\ j = S i /\ c = []
    | RNotLit x => byte_at i (fun b => negb (b =? x)%Z) /\ j = S i /\ c = []
    | RIn negate items => byte_at i (in_class negate items) /\ j = S i /\ c = []
    | RCat a b => exists k c1 c2, m a i k c1 /\ m b k j c2 /\ c = c1 ++ c2
    | RAlt a b => m a i j c \/ m b i j c
    | ROpt a => m a i j c \/ (j = i /\ c = [])
    | RStar a => star (m a) i j c
    | RNotAhead a => (~ exists k c', m a i k c') /\ j = i /\ c = []
    (* ^ : at the start of the subject; with MULTILINE also just after a "\n" *)
    | RBegin => (i = 0 \/ (multiline = true /\ exists i', i = S i' /\ nth_error s i' = Some 10%Z)) /\ j = i /\ c = []
    (* $ : at the end of the subject, or just before a "\n" that is the LAST byte; with MULTILINE before any "\n" *)
    | REnd => (i = length s \/ (nth_error s i = Some 10%Z /\ (multiline = true \/ S i = length s))) /\ j = i /\ c = []
    | RGroup n a => exists c', m a i j c' /\ c = c' ++ [(n, i, j)]
    end.

  Definition matches_at (r : re) (i j : nat) : Prop := exists c, m r i j c.

  (* s[i:j] *)
  Definition sub (i j : nat) : text := firstn (j - i) (skipn i s).

  (* match.group(n): the text of the LAST span recorded for group n; None if the group took no part *)
  Fixpoint last_span (n : nat) (c : list span) : option (nat * nat) :=
    match c with
    | [] => None
    | (n', i, j) :: c' => match last_span n c' with
                          | Some x => Some x
                          | None => if Nat.eqb n n' then Some (i, j) else None
                          end
    end.
  Definition group_text (c : list span) (n : nat) : option text :=
    match last_span n c with Some (i, j) => Some (sub i j) | None => None end.

  (* ---------------- pattern.match(s) ----------------
     The engine answers None exactly when no match starts at position 0, and otherwise reports ONE of the matches that start at 0
     (which one is decided by backtracking priority, not modelled: the users of this definition prove that the match is unique). *)
  Definition re_match (r : re) (res : option (nat * list span)) : Prop :=
    match res with
    | Some (j, c) => m r 0 j c
    | None => forall j c, ~ m r 0 j c
    end.
  (* mt = pattern.match(s);  g = None if mt is None else mt.group(n) *)
  Definition re_match_group (r : re) (n : nat) (g : option text) : Prop :=
    exists res, re_match r res /\ g = match res with Some (_, c) => group_text c n | None => None end.

  (* ---------------- pattern.search(s, start), then match.span(0)[-1] (= match.end()) ----------------
     `start` is clipped to 0 .. len(s); the start positions start, start+1, ..., len(s) are tried in this order; the result is the
     END of a match at the first position that has one (which end: backtracking priority, not modelled; the users prove that at
     a given start position at most one end is possible). *)
  Definition re_search_end (r : re) (start : Z) (res : option Z) : Prop :=
    let p := Nat.min (Z.to_nat start) (length s) in
    match res with
    | Some e => exists i j, e = Z.of_nat j /\ p <= i <= length s /\ matches_at r i j /\
                            forall i' j', p <= i' < i -> ~ matches_at r i' j'
    | None => forall i j, p <= i <= length s -> ~ matches_at r i j
    end.

  (* ---------------- pattern.split(s), for a pattern WITHOUT capture groups that never matches the empty string ----------------
     [re_split_from p l]: the pieces from position p on.  The subject is scanned from left to right; at the leftmost position i >= p
     that has a (non-empty) match s[i:j], the piece s[p:i] is cut off and the scan goes on from j; when no match is left, the
     rest s[p:] is the last piece.  (If the pattern can match the empty string somewhere the relation deliberately has no result.) *)
  Inductive re_split_from (r : re) : nat -> list text -> Prop :=
  | split_last p : (forall i j, p <= i -> ~ matches_at r i j) -> re_split_from r p [sub p (length s)]
  | split_cut p i j rest :
      p <= i -> i < j -> matches_at r i j -> (forall i' j', p <= i' < i -> ~ matches_at r i' j') ->
      re_split_from r j rest -> re_split_from r p (sub p i :: rest).
  Definition re_split (r : re) (res : list text) : Prop := re_split_from r 0 res.
End Semantics.

(* the number of a named group: pattern.groupindex[name]; 0 (the whole match, never recorded) if the name is unknown *)
Fixpoint group_index (name : String.string) (groups : list (String.string * nat)) : nat :=
  match groups with
  | [] => 0
  | (x, n) :: g => if String.eqb name x then n else group_index name g
  end.
