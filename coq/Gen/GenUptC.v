(* Corollaries: C13_gate, C13_fields and C13_packet_gate of Properties/C13.v (= uptime_gate, uptime_tps_pos, uptime_packet_gate of
   Proofs/UptimeP.v), restated for fingerprint_uptime / Uptime.__post_init__ as TRANSLATED from pyp0f's source on this run
   (Gen/Generated_uptime.v), by rewriting with gen_fingerprint_uptime_eq.  Hand-written; compiled after Gen/GenP_uptime.v.
   [result_of_verdict] (GenP_uptime.v) embeds the model's verdicts into the generated result type (tps, uptime object). *)
From Coq Require Import ZArith List Bool Lia.
From PV Require Import Model.Prelude Model.Select Model.Uptime Proofs.UptimeP Gen.GenLib Gen.Generated_uptime Gen.GenP_uptime.
Local Open Scope Z_scope.

(* hypotheses of gen_fingerprint_uptime_eq: the weakest under which code and model agree (NOTES.md) *)
Definition upt_agree (o : uopts) (ms : Z) : Prop :=
  0 < snd (min_sc o) /\ 0 < snd (max_sc o) /\ - snd (min_sc o) < fst (min_sc o) /\ (min_wait o <= ms <= max_wait o -> 0 < ms).

Lemma upt_agree_sane o ms : 0 < min_wait o -> 0 < fst (min_sc o) -> 0 < snd (min_sc o) -> 0 < snd (max_sc o) -> upt_agree o ms.
Proof. unfold upt_agree. intros. repeat split; lia. Qed.

Theorem C13_translated_gate : forall o frag ty ts last ms, upt_agree o ms ->
  valid_uptime frag ty = true ->
  (Gate o ts last ms ->
     let num := raw_num (ticks_of ts last) in
     (InScale o num ms ->
        gen_fingerprint_uptime o frag ty ts last ms =
        Ok (result_of_verdict
              (Up (round_freq (Z.quot num ms)) num ms (ts / round_freq (Z.quot num ms) / 60)
                  (4294967295 / (round_freq (Z.quot num ms) * 86400))))) /\
     (~ InScale o num ms ->
        gen_fingerprint_uptime o frag ty ts last ms = Ok (result_of_verdict (if ty =? fSYN then NoVerdict else BadTps)))) /\
  (~ Gate o ts last ms -> gen_fingerprint_uptime o frag ty ts last ms = Ok (result_of_verdict NoVerdict)).
Proof.
  intros o frag ty ts last ms (H1 & H2 & H3 & H4) V.
  rewrite (gen_fingerprint_uptime_eq o frag ty ts last ms H1 H2 H3 H4).
  destruct (uptime_gate o frag ty ts last ms V) as [G NG]. split.
  - intros HG. specialize (G HG). cbv zeta in G |- *. destruct G as [Gi Go]. split; intros HS.
    + rewrite (Gi HS). reflexivity.
    + rewrite (Go HS). reflexivity.
  - intros HG. rewrite (NG HG). reflexivity.
Qed.

(* the same, read off the Python objects: a result carries an Uptime object iff the gate holds and the reading is in scale, and
   then tps is its rounded frequency *)
Theorem C13_translated_fields : forall o frag ty ts last ms tps num den mins days,
  0 < fst (min_sc o) -> 0 < snd (min_sc o) -> 0 < snd (max_sc o) -> 0 < min_wait o ->
  gen_fingerprint_uptime o frag ty ts last ms = Ok (result_of_verdict (Up tps num den mins days)) ->
  1 <= tps /\ tps = round_freq (Z.quot num den) /\ mins = ts / tps / 60 /\ days = 4294967295 / (tps * 86400) /\ den = ms.
Proof.
  intros o frag ty ts last ms tps num den mins days Hn Hd Hd2 Hw H.
  rewrite gen_fingerprint_uptime_eq_sane in H by assumption.
  change (Ok (result_of_verdict (Up tps num den mins days))) with (res_map result_of_verdict (Ok (Up tps num den mins days))) in H.
  apply res_map_verdict_inj in H.
  exact (uptime_tps_pos o frag ty ts last ms tps num den mins days Hn Hd Hw H).
Qed.

Theorem C13_translated_fields_obj : forall o frag ty ts last ms r u,
  0 < fst (min_sc o) -> 0 < snd (min_sc o) -> 0 < snd (max_sc o) -> 0 < min_wait o ->
  gen_fingerprint_uptime o frag ty ts last ms = Ok r -> gr_uptime r = Some u ->
  gr_tps r = Some (gu_frequency u) /\ 1 <= gu_frequency u /\
  gu_frequency u = round_freq (Z.quot (fst (gu_raw_frequency u)) (snd (gu_raw_frequency u))) /\
  gu_total_minutes u = ts / gu_frequency u / 60 /\ gu_modulo_days u = 4294967295 / (gu_frequency u * 86400) /\
  snd (gu_raw_frequency u) = ms.
Proof.
  intros o frag ty ts last ms r u Hn Hd Hd2 Hw H Hu.
  rewrite gen_fingerprint_uptime_eq_sane in H by assumption.
  destruct (uptime o frag ty ts last ms) as [v|e] eqn:E; cbn [res_map] in H; [|discriminate H].
  inversion H; subst r; clear H.
  destruct v as [| |tps num den mins days]; cbn [result_of_verdict gr_uptime] in Hu; try discriminate Hu.
  inversion Hu; subst u; clear Hu. cbn [result_of_verdict gr_tps gu_frequency gu_raw_frequency gu_total_minutes gu_modulo_days fst snd].
  destruct (uptime_tps_pos o frag ty ts last ms tps num den mins days Hn Hd Hw E) as (A & B & C & D & F).
  repeat split; assumption.
Qed.

Theorem C13_translated_packet_gate : forall o frag ty ts last ms, upt_agree o ms -> 0 <= ty < 32 ->
  (gen_fingerprint_uptime o frag ty ts last ms <> Err PacketError <->
   frag = false /\ (ty = fSYN \/ ty = fSYN + fACK \/ ty = fACK)).
Proof.
  intros o frag ty ts last ms (H1 & H2 & H3 & H4) Hty.
  rewrite (gen_fingerprint_uptime_eq o frag ty ts last ms H1 H2 H3 H4).
  rewrite <- (uptime_packet_gate o frag ty ts last ms Hty).
  destruct (uptime o frag ty ts last ms) as [v|e]; cbn [res_map]; split; intros H; congruence.
Qed.

(* The packet gate does not depend on the thresholds at all (no hypothesis on o, ms): PacketError is raised by the first test only;
   a ZeroDivisionError further down is another exception.  Proved by walking every branch of the generated terms. *)
Lemma gen_uptime_post_init_not_packet_error ts q : gen_uptime_post_init ts q <> Err PacketError.
Proof.
  unfold gen_uptime_post_init. cbv zeta.
  repeat match goal with |- (if ?c then _ else _) <> _ => destruct c end; discriminate.
Qed.

Theorem C13_translated_packet_gate_any_options : forall o frag ty ts last ms, 0 <= ty < 32 ->
  (gen_fingerprint_uptime o frag ty ts last ms <> Err PacketError <->
   frag = false /\ (ty = fSYN \/ ty = fSYN + fACK \/ ty = fACK)).
Proof.
  intros o frag ty ts last ms Hty.
  rewrite <- (uptime_packet_gate o frag ty ts last ms Hty).
  assert (HM : uptime o frag ty ts last ms <> Err PacketError <-> valid_uptime frag ty = true).
  { unfold uptime. destruct (valid_uptime frag ty); cbn [negb]; [|split; congruence].
    split; [reflexivity|]. intros _. cbv zeta.
    repeat match goal with |- (if ?c then _ else _) <> _ => destruct c end; discriminate. }
  rewrite HM. unfold gen_fingerprint_uptime. rewrite gen_valid_for_uptime_fingerprint_eq.
  destruct (valid_uptime frag ty); cbn [negb]; [|split; congruence].
  split; [reflexivity|]. intros _. cbv zeta.
  repeat (match goal with
          | |- (if ?c then _ else _) <> _ => destruct c
          | |- (match ?x with Ok _ => _ | Err _ => _ end) <> _ =>
              let E := fresh "E" in destruct x eqn:E;
              [| let Hc := fresh "Hc" in intros Hc; inversion Hc; subst; exact (gen_uptime_post_init_not_packet_error _ _ E)]
          end; cbv zeta); discriminate.
Qed.

Print Assumptions C13_translated_gate.
Print Assumptions C13_translated_fields.
Print Assumptions C13_translated_fields_obj.
Print Assumptions C13_translated_packet_gate.
Print Assumptions C13_translated_packet_gate_any_options.
