(* Equivalence of the definitions translated from /repo's current source (group http) with the hand-written models. *)
From Coq Require Import Lia.
From PV Require Import Model.Prelude Model.Bits Model.Sig Model.Matcher Model.Select Model.Uptime Model.Mtu Model.Text Model.SigParse Model.DbParse Model.HttpRead Model.HttpMatch Gen.GenLib Gen.Generated_http.

(* HTTP: record selection, software string, dishonest flag *)
Theorem gen_find_http_match_eq ver hs recs : gen_find_http_match ver hs recs = find_http_loop ver hs recs None.
Proof.
  unfold gen_find_http_match. cbv zeta.
  match goal with |- ?F recs None = _ =>
    assert (forall l g, F l g = find_http_loop ver hs l g) as H; [|apply H] end.
  induction l as [|r rest IH]; intros g; [reflexivity|].
  cbn [find_http_loop]. cbv beta iota fix. fold (find_http_loop ver hs).
  destruct (rec_matches ver hs r); cbn [negb]; [|apply IH].
  destruct (is_generic (rc_label r)); cbn [negb]; [|reflexivity].
  destruct g; apply IH.
Qed.

Theorem gen_software_eq hs : gen_software hs = software hs.
Proof. reflexivity. Qed.

Theorem gen_dishonest_eq m hs : gen_dishonest m hs = dishonest m hs.
Proof.
  unfold gen_dishonest, dishonest. rewrite gen_software_eq.
  destruct m as [r|]; [|reflexivity].
  destruct (software hs) as [sw|]; [|reflexivity].
  destruct (http_of r) as [sg|]; [|reflexivity].
  destruct (hs_software sg); reflexivity.
Qed.

Print Assumptions gen_find_http_match_eq.
Print Assumptions gen_software_eq.
Print Assumptions gen_dishonest_eq.
