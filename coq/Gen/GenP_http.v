(* Equivalence of the definitions translated from /repo's current source (group http) with the hand-written models. *)
From Coq Require Import Lia.
From PV Require Import Model.Prelude Model.Bits Model.Sig Model.Matcher Model.Select Model.Uptime Model.Mtu Model.Text Model.SigParse Model.DbParse Model.HttpRead Model.HttpMatch Gen.GenLib Gen.Generated_http.

(* HTTP: record selection, software string, dishonest flag *)
Theorem gen_find_http_match_eq ver hs recs : gen_find_http_match ver hs recs = find_http_loop ver hs recs None.
Proof.
  unfold gen_find_http_match. cbv zeta.
  match goal with |- ?F recs None = _ =>
    assert (forall l g, F l g = find_http_loop ver hs l g) as H; [|apply H] end.
  induction l as [|r rest IH]; intros g; [reflexivity|].
  cbn [find_http_loop]. cbv beta iota fix. fold (find_http_loop ver hs).
  destruct (rec_matches ver hs r); cbn [negb]; [|apply IH].
  destruct (is_generic (rc_label r)); cbn [negb]; [|reflexivity].
  destruct g; apply IH.
Qed.

Theorem gen_software_eq hs : gen_software hs = software hs.
Proof. reflexivity. Qed.

Theorem gen_dishonest_eq m hs : gen_dishonest m hs = dishonest m hs.
Proof.
  unfold gen_dishonest, dishonest. rewrite gen_software_eq.
  destruct m as [r|]; [|reflexivity].
  destruct (software hs) as [sw|]; [|reflexivity].
  destruct (http_of r) as [sg|]; [|reflexivity].
  destruct (hs_software sg); reflexivity.
Qed.

(* the public wrapper: read the payload, direction -> section, record selection, dishonest flag *)
Theorem gen_fingerprint_http_eq d data : gen_fingerprint_http d data = fp_http d data.
Proof.
  unfold gen_fingerprint_http, fp_http.
  destruct (read_payload data) as [[[dir ver] hs]|e]; cbn [bind]; [|reflexivity].
  destruct dir.
  - destruct (d_http_req d) as [recs|]; [|reflexivity]. rewrite gen_find_http_match_eq, gen_dishonest_eq. reflexivity.
  - destruct (d_http_resp d) as [recs|]; [|reflexivity]. rewrite gen_find_http_match_eq, gen_dishonest_eq. reflexivity.
Qed.

Print Assumptions gen_find_http_match_eq.
Print Assumptions gen_software_eq.
Print Assumptions gen_dishonest_eq.
Print Assumptions gen_fingerprint_http_eq.
