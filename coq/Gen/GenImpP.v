(* The machine-translated impersonation code (Gen/GeneratedImp.v, from pyp0f/impersonate/tcp.py) computes the
   same function of the random tape as the hand-written model (Model/Imperson.v). *)
From Coq Require Import ZArith NArith List Bool Lia.
From PV Require Import Model.Prelude Model.Bits Model.Sig Model.Options Model.Imperson Gen.GeneratedImp.
Import ListNotations.
Local Open Scope Z_scope.

(* Python raises ZeroDivisionError where the hand model computes x / 0 = 0; parsed signatures have N >= 1 (mss*N) and N >= 2 (%N) *)
Definition wsize_ok (s : tcp_sig) : Prop := match s_wtype s with WMss | WMod => s_wsize s <> 0 | _ => True end.

Definition mk_ip (s : tcp_sig) (b : base) (hops : Z) (r : Z * Z * Z * Z) : gen_ip :=
  let '(tos, id, ipfl, fl) := r in
  if b_ver b =? 6 then GIp6 (b_src b) (b_dst b) (s_ttl s - hops) fl tos
  else GIp4 (b_src b) (b_dst b) (b_frag b) (b_proto b) ipfl id (s_ttl s - hops) tos.

(* the last lines of impersonate(): version check, then ip / tcp / payload evaluated in this order and stacked *)
Definition assemble (b : base) (ip : gen_ip) (tcp : gen_tcp) (pay : list Z) : outp :=
  match tcp with GTcp sport dport seq ack flags urg opts win =>
    match ip with
    | GIp4 src dst frag proto ipfl id ttl tos =>
        {| x_ver := b_ver b; x_src := src; x_dst := dst; x_ttl := ttl; x_tos := tos; x_id := id; x_ipflags := ipfl; x_frag := frag; x_proto := proto; x_fl := 0;
           x_sport := sport; x_dport := dport; x_seq := seq; x_ack := ack; x_flags := flags; x_urg := urg; x_win := win; x_opts := opts; x_payload := pay |}
    | GIp6 src dst hlim fl tc =>
        {| x_ver := b_ver b; x_src := src; x_dst := dst; x_ttl := hlim; x_tos := tc; x_id := 0; x_ipflags := 0; x_frag := b_frag b; x_proto := b_proto b; x_fl := fl;
           x_sport := sport; x_dport := dport; x_seq := seq; x_ack := ack; x_flags := flags; x_urg := urg; x_win := win; x_opts := opts; x_payload := pay |}
    end
  end.
(* the version check and the order ip / tcp / payload are GENERATED (gen_impersonate_compose, from impersonate()'s own last lines);
   only the stacking of the three layers into one output record is written here *)
Definition gen_impersonate (s : tcp_sig) (b : base) (hops mtu : Z) (uptime : option Z) : M outp :=
  gen_impersonate_compose (assemble b) s b hops mtu uptime.

(* ------------------------------------------------------------------ *)
(* Quirk membership: [Quirk.X in quirks] on the mask is the bit test.  *)
(* ------------------------------------------------------------------ *)
Lemma gen_in_pow k q : gen_in (N.shiftl 1 k) q = hasq k q.
Proof.
  unfold gen_in, hasq. rewrite N.shiftl_1_l.
  destruct (N.testbit q k) eqn:E.
  - apply N.eqb_eq. apply N.bits_inj. intros m. rewrite N.land_spec, N.pow2_bits_eqb.
    destruct (N.eqb_spec k m) as [->|_]; [rewrite E; reflexivity | apply andb_false_r].
  - apply N.eqb_neq. intros H. apply (f_equal (fun x => N.testbit x k)) in H.
    rewrite N.land_spec, N.pow2_bits_eqb, N.eqb_refl, E in H. discriminate.
Qed.

Lemma gen_in_1 q : gen_in 1 q = hasq 0 q. Proof. exact (gen_in_pow 0 q). Qed.
Lemma gen_in_2 q : gen_in 2 q = hasq 1 q. Proof. exact (gen_in_pow 1 q). Qed.
Lemma gen_in_4 q : gen_in 4 q = hasq 2 q. Proof. exact (gen_in_pow 2 q). Qed.
Lemma gen_in_8 q : gen_in 8 q = hasq 3 q. Proof. exact (gen_in_pow 3 q). Qed.
Lemma gen_in_16 q : gen_in 16 q = hasq 4 q. Proof. exact (gen_in_pow 4 q). Qed.
Lemma gen_in_32 q : gen_in 32 q = hasq 5 q. Proof. exact (gen_in_pow 5 q). Qed.
Lemma gen_in_64 q : gen_in 64 q = hasq 6 q. Proof. exact (gen_in_pow 6 q). Qed.
Lemma gen_in_128 q : gen_in 128 q = hasq 7 q. Proof. exact (gen_in_pow 7 q). Qed.
Lemma gen_in_256 q : gen_in 256 q = hasq 8 q. Proof. exact (gen_in_pow 8 q). Qed.
Lemma gen_in_512 q : gen_in 512 q = hasq 9 q. Proof. exact (gen_in_pow 9 q). Qed.
Lemma gen_in_1024 q : gen_in 1024 q = hasq 10 q. Proof. exact (gen_in_pow 10 q). Qed.
Lemma gen_in_2048 q : gen_in 2048 q = hasq 11 q. Proof. exact (gen_in_pow 11 q). Qed.
Lemma gen_in_4096 q : gen_in 4096 q = hasq 12 q. Proof. exact (gen_in_pow 12 q). Qed.
Lemma gen_in_8192 q : gen_in 8192 q = hasq 13 q. Proof. exact (gen_in_pow 13 q). Qed.
Lemma gen_in_16384 q : gen_in 16384 q = hasq 14 q. Proof. exact (gen_in_pow 14 q). Qed.
Lemma gen_in_32768 q : gen_in 32768 q = hasq 15 q. Proof. exact (gen_in_pow 15 q). Qed.
Lemma gen_in_65536 q : gen_in 65536 q = hasq 16 q. Proof. exact (gen_in_pow 16 q). Qed.

Ltac quirks := rewrite ?gen_in_1, ?gen_in_2, ?gen_in_4, ?gen_in_8, ?gen_in_16, ?gen_in_32, ?gen_in_64, ?gen_in_128,
  ?gen_in_256, ?gen_in_512, ?gen_in_1024, ?gen_in_2048, ?gen_in_4096, ?gen_in_8192, ?gen_in_16384, ?gen_in_32768, ?gen_in_65536.

(* ------------------------------------------------------------------ *)
(* Symbolic execution of both sides, pointwise in the tape.            *)
(* ------------------------------------------------------------------ *)
Ltac norm :=
  cbv beta iota zeta delta [mbind ret fail gen_unwrap gen_div gen_random_string gen_dict_get_mss gen_wt_eqb
    andb negb orb hasb qECN qDF qNZID qZID qMBZ qFLOW qZSEQ qNZACK qZACK qNZURG qURG qPUSH qZTS1 qNZTS2 qEOLNZ qEXWS qBAD
    clearbits clear_tcpflag mk_ip assemble].

(* the innermost scrutinee at the head of a tower of matches *)
Ltac head_scrut X :=
  lazymatch X with
  | match ?Y with _ => _ end => head_scrut Y
  | (match ?Y with _ => _ end) _ => head_scrut Y
  | _ => X
  end.

Ltac kill :=
  match goal with
  | E : (s_wsize ?s =? 0) = true, Hw : wsize_ok ?s, W : s_wtype ?s = _ |- _ =>
      exfalso; unfold wsize_ok in Hw; rewrite W in Hw; apply Z.eqb_eq in E; exact (Hw E)
  | E : (1 =? 0) = true |- _ => exfalso; cbv in E; discriminate E
  end.

Ltac destr X :=
  let T := type of X in
  lazymatch T with
  | bool => destruct X eqn:?; try kill
  | wtype => destruct X eqn:?
  | res (_ * _) => destruct X as [[? ?]|?]
  | _ => destruct X
  end.

Ltac nohook X := fail.

Ltac is_match X :=
  lazymatch X with
  | match _ with _ => _ end => idtac
  | (match _ with _ => _ end) _ => idtac
  end.

Ltac step hook :=
  norm;
  lazymatch goal with
  | |- ?L = ?R =>
     first [ is_match L; let X := head_scrut L in first [ hook X | destr X ]
           | is_match R; let X := head_scrut R in first [ hook X | destr X ] ]
  end.

(* ------------------------------------------------------------------ *)
(* IP                                                                  *)
(* ------------------------------------------------------------------ *)
Theorem gen_impersonate_ip_eq : forall s b hops t,
  gen_impersonate_ip s b hops t = (let* r := imp_ip s b hops in ret (mk_ip s b hops r)) t.
Proof.
  intros s b hops t. unfold gen_impersonate_ip, imp_ip. quirks. norm.
  change (Z.lnot 2) with (-3). change (Z.lnot 4) with (-5).
  repeat step nohook; reflexivity.
Qed.

(* ------------------------------------------------------------------ *)
(* payload                                                             *)
(* ------------------------------------------------------------------ *)
Theorem gen_impersonate_payload_eq : forall s b t, gen_impersonate_payload s b t = imp_payload s b t.
Proof.
  intros s b t. unfold gen_impersonate_payload, imp_payload. change (10 + 1) with 11.
  repeat step nohook; reflexivity.
Qed.

(* ------------------------------------------------------------------ *)
(* window                                                              *)
(* ------------------------------------------------------------------ *)
Theorem gen_impersonate_window_eq : forall s b opts mtu t, wsize_ok s ->
  gen_impersonate_window s b opts mtu t = imp_window s b opts mtu t.
Proof.
  intros s b opts mtu t Hw. unfold gen_impersonate_window, imp_window.
  repeat step nohook; reflexivity.
Qed.

(* ------------------------------------------------------------------ *)
(* options                                                             *)
(* ------------------------------------------------------------------ *)
(* the accumulator loop of the generated code, taken from the generated term itself *)
Definition LOOP (s : tcp_sig) (b : base) (uptime : option Z) : list Z -> list oopt -> M (list oopt) :=
  ltac:(let t := eval cbv beta zeta delta [gen_impersonate_options] in (gen_impersonate_options s b uptime) in
        lazymatch t with mbind (?F _ _) _ => exact F end).

Lemma gen_impersonate_options_LOOP s b uptime :
  gen_impersonate_options s b uptime = (let* r := LOOP s b uptime (s_layout s) [] in ret r).
Proof. reflexivity. Qed.

Lemma LOOP_eq s b uptime : wsize_ok s -> forall l acc t,
  LOOP s b uptime l acc t = (let* r := imp_options s b uptime l in ret (acc ++ r)) t.
Proof.
  intros Hw.
  assert (Hd : ((if match s_wtype s with WMss => true | _ => false end then s_wsize s else 1) =? 0) = false).
  { apply Z.eqb_neq. unfold wsize_ok in Hw. destruct (s_wtype s); try discriminate; exact Hw. }
  induction l as [|k rest IH]; intros acc t.
  - cbn [LOOP imp_options]. norm. rewrite app_nil_r. reflexivity.
  - cbn [LOOP imp_options]. quirks. change (3153600000 + 1) with 3153600001. norm. rewrite Hd.
    repeat first [ lazymatch goal with |- LOOP _ _ _ _ _ _ = _ => rewrite IH end | step nohook ];
      first [ reflexivity | rewrite <- app_assoc; reflexivity ].
Qed.

Theorem gen_impersonate_options_eq : forall s b uptime t, wsize_ok s ->
  gen_impersonate_options s b uptime t = imp_options s b uptime (s_layout s) t.
Proof.
  intros s b uptime t Hw. rewrite gen_impersonate_options_LOOP. norm. rewrite LOOP_eq by exact Hw. norm.
  destruct (imp_options s b uptime (s_layout s) t) as [[r t']|e]; reflexivity.
Qed.

(* ------------------------------------------------------------------ *)
(* the whole call                                                      *)
(* ------------------------------------------------------------------ *)
(* fields the model fixes per IP version *)
Lemma imp_ip_shape s b hops t tos id ipfl fl t1 :
  imp_ip s b hops t = Ok (tos, id, ipfl, fl, t1) ->
  if b_ver b =? 6 then id = 0 /\ ipfl = 0 else fl = 0.
Proof.
  unfold imp_ip. destruct (b_ver b =? 6).
  - repeat (norm; lazymatch goal with |- ?L = _ -> _ => is_match L; let X := head_scrut L in destr X end);
      intros H; inversion H; auto.
  - repeat (norm; lazymatch goal with |- ?L = _ -> _ => is_match L; let X := head_scrut L in destr X end);
      intros H; inversion H; auto.
Qed.

Ltac mainhook X :=
  lazymatch X with
  | gen_impersonate_options _ _ _ _ => rewrite gen_impersonate_options_eq by assumption
  | gen_impersonate_window _ _ _ _ _ => rewrite gen_impersonate_window_eq by assumption
  | gen_impersonate_payload _ _ _ => rewrite gen_impersonate_payload_eq
  end.

Theorem gen_impersonate_eq : forall s b hops mtu uptime t, wsize_ok s ->
  gen_impersonate s b hops mtu uptime t = imp_tcp s b hops mtu uptime t.
Proof.
  intros s b hops mtu uptime t Hw. unfold gen_impersonate, gen_impersonate_compose, imp_tcp.
  destruct (negb (s_ver s =? -1) && negb (b_ver b =? s_ver s)); [reflexivity|].
  norm. rewrite gen_impersonate_ip_eq. norm.
  destruct (imp_ip s b hops t) as [[[[[tos id] ipfl] fl] t1]|e] eqn:Eip; [|reflexivity].
  apply imp_ip_shape in Eip. unfold gen_impersonate_tcp. quirks.
  repeat step mainhook;
    first [ reflexivity | destruct (b_ver b =? 6); [destruct Eip; subst id ipfl | subst fl]; reflexivity ].
Qed.

(* which signature impersonate() uses, as its source says: the signature argument wins over the label, neither is a ValueError, a label is
   looked up in the section of the base packet's type (SYN: request, otherwise response) *)
Theorem gen_select_signature_given : forall (T S : Type) (parse : T -> M S) lookup t l flags,
  gen_select_signature parse lookup (Some t) l flags = parse t.
Proof. reflexivity. Qed.
Theorem gen_select_signature_label : forall (T S : Type) (parse : T -> M S) lookup l flags,
  gen_select_signature parse lookup None (Some l) flags = lookup l (Z.land flags 18 =? 2).
Proof. intros. unfold gen_select_signature. destruct (Z.land flags 18 =? 2); reflexivity. Qed.
Theorem gen_select_signature_neither : forall (T S : Type) (parse : T -> M S) lookup flags,
  gen_select_signature parse lookup None None flags = fail ValueErr.
Proof. reflexivity. Qed.

(* signatures that come out of the parser satisfy the side condition *)
From PV Require Import Spec.C01 Model.Text Model.SigParse Proofs.DbParseP.

Theorem parsed_wsize_ok : forall txt s, PV.Model.SigParse.parse_tcp_sig txt = Ok s -> wsize_ok s.
Proof.
  intros txt s H. apply parse_tcp_sig_wf in H. destruct H as [Hwf _].
  unfold wf_sig in Hwf. unfold wsize_ok.
  destruct Hwf as (_ & _ & _ & _ & _ & _ & _ & Hwin).
  destruct (s_wtype s); try exact I; lia.
Qed.

Print Assumptions gen_impersonate_ip_eq.
Print Assumptions gen_impersonate_options_eq.
Print Assumptions gen_impersonate_window_eq.
Print Assumptions gen_impersonate_payload_eq.
Print Assumptions gen_impersonate_eq.
Print Assumptions gen_select_signature_given.
Print Assumptions gen_select_signature_label.
Print Assumptions gen_select_signature_neither.
Print Assumptions parsed_wsize_ok.
