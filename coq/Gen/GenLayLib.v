(* Hand-written, fixed library for the translated packet-layer extraction (group `layers`, translate/lay2coq.py).

   1. The SCAPY FIELDS the Python code reads (records sc_ip4 / sc_ip6 / sc_tcp, a dissected packet sc_packet), and the
      Python dataclasses it builds (py_ip = pyp0f.net.layers.ip.IP, py_tcp = pyp0f.net.layers.tcp.TCP, py_packet =
      pyp0f.net.packet.Packet; the packet signature is Model/Sig.v's pkt_sig, built with mk_pkt_sig).
   2. The DISSECTION fields_ip4 / fields_ip6 / fields_tcp / dissect: how the header bytes become those fields.  This
      models what Scapy does and is the ASSUMED part; it frames the bytes exactly as Model/Wire.v does (same None
      conditions as ip4 / ip6 / tcp_seg; proved in Gen/GenP_layers.v).
   3. The projections py_ip_of / py_tcp_of / py_packet_of from the hand model's records (Model/Wire.v) to the Python
      dataclasses: which model fields the Python objects keep. *)
From PV Require Import Model.Prelude Model.Bits Model.Sig Model.Select Model.Options Model.Wire.

(* ---------------------------------------------------------------- 1. Scapy fields *)
(* scapy.layers.inet.IP: version ihl tos len id flags(MF DF evil) frag ttl proto chksum src dst options.
   Addresses are opaque pass-through values for pyp0f (strings in Python); here the address bytes. *)
Record sc_ip4 := { s4_version : Z; s4_ihl : Z; s4_tos : Z; s4_id : Z; s4_evil : bool; s4_df : bool; s4_mf : bool;
                   s4_frag : Z; s4_ttl : Z; s4_proto : Z; s4_src : list Z; s4_dst : list Z }.
(* scapy.layers.inet6.IPv6: version tc fl plen nh hlim src dst *)
Record sc_ip6 := { s6_version : Z; s6_tc : Z; s6_fl : Z; s6_nh : Z; s6_hlim : Z; s6_src : list Z; s6_dst : list Z }.
(* scapy.layers.inet.TCP: sport dport seq ack dataofs reserved flags(9 bits, "FSRPAUECN") window chksum urgptr options;
   st_bytes = bytes(tcp) (the segment as Scapy re-assembles it), st_payload = bytes(tcp.payload) minus a Padding layer. *)
Record sc_tcp := { st_sport : Z; st_dport : Z; st_seq : Z; st_ack : Z; st_dataofs : Z; st_flags : Z; st_window : Z;
                   st_urgptr : Z; st_bytes : list Z; st_payload : list Z }.
(* A dissected Scapy packet, as far as pyp0f looks at it: `L in packet` is `sp_L packet <> None`, `packet[L]` its content. *)
Record sc_packet := { sp_ip4 : option sc_ip4; sp_ip6 : option sc_ip6; sp_tcp : option sc_tcp }.

(* Scapy's FlagValue attribute test `flags.X`: bool(2 ** index(X) & int(flags)) *)
Definition sc_flag (x k : Z) : bool := Z.testbit x k.

(* ---------------------------------------------------------------- Python dataclasses *)
Record py_ip := { pi_version : Z; pi_src : list Z; pi_dst : list Z; pi_ttl : Z; pi_tos : Z; pi_options_length : Z;
                  pi_header_length : Z; pi_is_fragment : bool; pi_quirks : N }.
Record py_tcp := { pt_type : Z; pt_src_port : Z; pt_dst_port : Z; pt_window : Z; pt_seq : Z; pt_options : topts;
                   pt_payload : list Z; pt_header_length : Z; pt_quirks : N }.
Record py_packet := { pp_ip : py_ip; pp_tcp : py_tcp }.

(* TCPPacketSignature(ip_version, ip_options_length, ttl, window_size, options, headers_length, has_payload, quirks, syn_mss)
   in the class's declared field order; Model/Sig.v's pkt_sig keeps the TCPOptions object flattened (the same convention as
   the table of gen_match in translate/py2coq.py: packet_signature.options.mss is p_mss, ...). *)
Definition mk_pkt_sig (ip_version ip_options_length ttl window_size : Z) (options : topts) (headers_length : Z)
                      (has_payload : bool) (quirks : N) (syn_mss : Z) : pkt_sig :=
  {| p_ver := ip_version; p_olen := ip_options_length; p_ttl := ttl; p_win := window_size; p_layout := o_layout options;
     p_mss := o_mss options; p_ws := o_ws options; p_ts1 := o_ts1 options; p_eol_pad := o_eol options;
     p_hdrlen := headers_length; p_payload := has_payload; p_quirks := quirks; p_syn_mss := syn_mss |}.

(* bool(x) of a bytes object *)
Definition bytes_truthy (x : list Z) : bool := match x with [] => false | _ :: _ => true end.

(* ---------------------------------------------------------------- 2. dissection (ASSUMED: models Scapy) *)
Definition fields_ip4 (b : list Z) : option (sc_ip4 * list Z) :=
  match b with
  | b0 :: tos :: l1 :: l2 :: id1 :: id2 :: f1 :: f2 :: ttl :: proto :: c1 :: c2 ::
    s1 :: s2 :: s3 :: s4 :: d1 :: d2 :: d3 :: d4 :: rest =>
      let ihl := b0 mod 16 in
      if negb (b0 / 16 =? 4) || (ihl <? 5) || negb (be16 l1 l2 =? len b) || (ihl * 4 - 20 >? len rest) then None else
      Some ({| s4_version := b0 / 16; s4_ihl := ihl; s4_tos := tos; s4_id := be16 id1 id2;
               s4_evil := (f1 / 128) mod 2 =? 1; s4_df := (f1 / 64) mod 2 =? 1; s4_mf := (f1 / 32) mod 2 =? 1;
               s4_frag := be16 (f1 mod 32) f2; s4_ttl := ttl; s4_proto := proto;
               s4_src := [s1; s2; s3; s4]; s4_dst := [d1; d2; d3; d4] |},
            skipn (Z.to_nat (ihl * 4 - 20)) rest)
  | _ => None
  end.

Definition fields_ip6 (b : list Z) : option (sc_ip6 * list Z) :=
  match b with
  | b0 :: b1 :: b2 :: b3 :: l1 :: l2 :: nh :: hlim :: rest =>
      if negb (b0 / 16 =? 6) || (len rest <? 32) || negb (be16 l1 l2 =? len rest - 32) then None else
      Some ({| s6_version := b0 / 16; s6_tc := (b0 mod 16) * 16 + b1 / 16; s6_fl := ((b1 mod 16) * 256 + b2) * 256 + b3;
               s6_nh := nh; s6_hlim := hlim; s6_src := firstn 16 rest; s6_dst := firstn 16 (skipn 16 rest) |},
            skipn 32 rest)
  | _ => None
  end.

(* The 9 flag bits: NS is the low bit of the data-offset byte, the other eight are the flags byte. *)
Definition fields_tcp (b : list Z) : option sc_tcp :=
  match b with
  | sp1 :: sp2 :: dp1 :: dp2 :: q1 :: q2 :: q3 :: q4 :: a1 :: a2 :: a3 :: a4 :: off :: fl :: w1 :: w2 ::
    c1 :: c2 :: u1 :: u2 :: rest =>
      let dataofs := off / 16 in
      if (dataofs <? 5) || (dataofs * 4 - 20 >? len rest) then None else
      Some {| st_sport := be16 sp1 sp2; st_dport := be16 dp1 dp2; st_seq := be32 q1 q2 q3 q4; st_ack := be32 a1 a2 a3 a4;
              st_dataofs := dataofs; st_flags := (off mod 2) * 256 + fl mod 256; st_window := be16 w1 w2;
              st_urgptr := be16 u1 u2; st_bytes := b; st_payload := skipn (Z.to_nat (dataofs * 4 - 20)) rest |}
  | _ => None
  end.

(* One IPv4 (v = 4) or IPv6 datagram: which layers Scapy finds.  None = not framed (nothing is claimed).  A datagram that
   is not TCP, or a non-first fragment, has no TCP layer (the same assumption as Model/Wire.v's parse_datagram). *)
Definition dissect (v : Z) (b : list Z) : option sc_packet :=
  if v =? 4 then
    match fields_ip4 b with
    | None => None
    | Some (f, rest) =>
        if negb (s4_proto f =? 6) || negb (s4_frag f =? 0) then Some {| sp_ip4 := Some f; sp_ip6 := None; sp_tcp := None |}
        else match fields_tcp rest with
             | None => None
             | Some t => Some {| sp_ip4 := Some f; sp_ip6 := None; sp_tcp := Some t |}
             end
    end
  else
    match fields_ip6 b with
    | None => None
    | Some (f, rest) =>
        if negb (s6_nh f =? 6) then Some {| sp_ip4 := None; sp_ip6 := Some f; sp_tcp := None |}
        else match fields_tcp rest with
             | None => None
             | Some t => Some {| sp_ip4 := None; sp_ip6 := Some f; sp_tcp := Some t |}
             end
    end.

(* ---------------------------------------------------------------- 3. model records -> Python dataclasses *)
(* The Python IP object keeps tos >> 2 (the model keeps the raw byte) and does not keep i_fragoff / i_proto / i_id /
   i_payload; the Python TCP object does not keep t_flags / t_ack / t_urg. *)
Definition py_ip_of (i : ip_info) : py_ip :=
  {| pi_version := i_ver i; pi_src := i_src i; pi_dst := i_dst i; pi_ttl := i_ttl i; pi_tos := i_tos i / 4;
     pi_options_length := i_olen i; pi_header_length := i_hlen i; pi_is_fragment := i_frag i; pi_quirks := i_q i |}.
Definition py_tcp_of (t : tcp_info) : py_tcp :=
  {| pt_type := t_type t; pt_src_port := t_sport t; pt_dst_port := t_dport t; pt_window := t_win t; pt_seq := t_seq t;
     pt_options := t_opts t; pt_payload := t_payload t; pt_header_length := t_hlen t; pt_quirks := t_q t |}.
Definition py_packet_of (k : packet) : py_packet := {| pp_ip := py_ip_of (k_ip k); pp_tcp := py_tcp_of (k_tcp k) |}.

Definition map_res {A B} (f : A -> B) (r : res A) : res B := match r with Ok a => Ok (f a) | Err e => Err e end.
Definition map_framed {A B} (f : A -> B) (r : framed A) : framed B := match r with Unframed => Unframed | Framed a => Framed (f a) end.
