(* The packet-layer extraction translated from /repo's current source (Gen/Generated_layers.v, group `layers` of
   translate/lay2coq.py) computes, on the Scapy fields dissected from the header bytes (Gen/GenLayLib.v: fields_ip4, fields_ip6,
   fields_tcp, dissect -- the assumed model of Scapy), exactly what the hand model of Model/Wire.v computes on the bytes.

   Structure: for each layer
     (A) a SPEC on the fields (spec_ip4 / spec_ip6 / spec_tcp, hand-written, in the model's setq_if style) and the proof that the
         hand model on bytes is the spec on the dissected fields (both hand-written sides; same None conditions);
     (B) the proof that the GENERATED function equals the spec for all field values (no bytes involved: this is the part that
         follows the Python source);
   then the goal theorems by composition. *)
From Coq Require Import Lia.
From PV Require Import Model.Prelude Model.Bits Model.Sig Model.Select Model.Options Model.Wire
  Proofs.BitsP Proofs.OptionsP Gen.GenLib Gen.Generated_options Gen.GenOptP Gen.GenLayLib Gen.Generated_layers.

Ltac Zify.zify_post_hook ::= Z.to_euclidean_division_equations.

(* ------------------------------------------------------------------ *)
(* Bit-level facts                                                     *)
(* ------------------------------------------------------------------ *)
(* fold closed integer constant expressions (TCPFlag.SYN | TCPFlag.ACK, IP_TOS_CE | IP_TOS_ECT, ...) whatever their order *)
Ltac fold_consts :=
  repeat match goal with
  | |- context [Z.lor (Zpos ?a) (Zpos ?b)] =>
      let v := eval vm_compute in (Z.lor (Zpos a) (Zpos b)) in change (Z.lor (Zpos a) (Zpos b)) with v
  | |- context [Z.to_nat (Zpos ?a)] =>
      let v := eval vm_compute in (Z.to_nat (Zpos a)) in change (Z.to_nat (Zpos a)) with v
  end.

Lemma land_3 x : Z.land x 3 = x mod 4.
Proof. change 3 with (Z.ones 2). rewrite Z.land_ones by lia. reflexivity. Qed.

(* equality of two records built from the same constructor, field by field; integer fields up to linear arithmetic *)
Lemma py_ip_ext a1 a2 a3 a4 a5 a6 a7 a8 a9 b1 b2 b3 b4 b5 b6 b7 b8 b9 :
  a1 = b1 -> a2 = b2 -> a3 = b3 -> a4 = b4 -> a5 = b5 -> a6 = b6 -> a7 = b7 -> a8 = b8 -> a9 = b9 ->
  Build_py_ip a1 a2 a3 a4 a5 a6 a7 a8 a9 = Build_py_ip b1 b2 b3 b4 b5 b6 b7 b8 b9.
Proof. intros; subst; reflexivity. Qed.
Lemma py_tcp_ext a1 a2 a3 a4 a5 a6 a7 a8 a9 b1 b2 b3 b4 b5 b6 b7 b8 b9 :
  a1 = b1 -> a2 = b2 -> a3 = b3 -> a4 = b4 -> a5 = b5 -> a6 = b6 -> a7 = b7 -> a8 = b8 -> a9 = b9 ->
  @Ok py_tcp (Build_py_tcp a1 a2 a3 a4 a5 a6 a7 a8 a9) = Ok (Build_py_tcp b1 b2 b3 b4 b5 b6 b7 b8 b9).
Proof. intros; subst; reflexivity. Qed.
Lemma pkt_sig_ext a1 a2 a3 a4 a5 a6 a7 a8 a9 a10 a11 a12 a13 b1 b2 b3 b4 b5 b6 b7 b8 b9 b10 b11 b12 b13 :
  a1 = b1 -> a2 = b2 -> a3 = b3 -> a4 = b4 -> a5 = b5 -> a6 = b6 -> a7 = b7 -> a8 = b8 -> a9 = b9 -> a10 = b10 ->
  a11 = b11 -> a12 = b12 -> a13 = b13 ->
  Build_pkt_sig a1 a2 a3 a4 a5 a6 a7 a8 a9 a10 a11 a12 a13 = Build_pkt_sig b1 b2 b3 b4 b5 b6 b7 b8 b9 b10 b11 b12 b13.
Proof. intros; subst; reflexivity. Qed.
Ltac fields_eq :=
  first [reflexivity
        | first [apply py_ip_ext | apply py_tcp_ext | apply pkt_sig_ext]; first [reflexivity | lia | apply N.lor_comm]].

Lemma shiftr_2 x : Z.shiftr x 2 = x / 4.
Proof. rewrite Z.shiftr_div_pow2 by lia. reflexivity. Qed.

Lemma lor_mask1 q k : N.lor q (mask_of [k]) = setq k q.
Proof. unfold setq, mask_of. rewrite N.lor_0_r. reflexivity. Qed.

Lemma sc_flag_bit x k : 0 <= k -> sc_flag x k = bit x k.
Proof.
  intros Hk. unfold sc_flag, bit. pose proof (Z.testbit_spec' x k Hk) as H.
  destruct (Z.testbit x k); cbn [Z.b2z] in H; rewrite <- H; reflexivity.
Qed.

(* ------------------------------------------------------------------ *)
(* IPv4                                                                *)
(* ------------------------------------------------------------------ *)
(* (A) what Model/Wire.v's ip4 computes, as a function of the dissected fields *)
Definition spec_ip4 (f : sc_ip4) (rest : list Z) : ip_info :=
  let q := setq_if (negb (s4_tos f mod 4 =? 0)) qECN 0%N in
  let q := setq_if (s4_evil f) qMBZ q in
  let q := setq_if (s4_df f) qDF q in
  let q := setq_if (s4_df f && negb (s4_id f =? 0)) qNZID q in
  let q := setq_if (negb (s4_df f) && (s4_id f =? 0)) qZID q in
  {| i_ver := 4; i_ttl := s4_ttl f; i_olen := s4_ihl f * 4 - 20; i_hlen := s4_ihl f * 4;
     i_frag := s4_mf f || negb (s4_frag f =? 0); i_fragoff := s4_frag f; i_proto := s4_proto f; i_q := q;
     i_src := s4_src f; i_dst := s4_dst f; i_id := s4_id f; i_tos := s4_tos f; i_payload := rest |}.

Lemma ip4_fields b :
  ip4 b = match fields_ip4 b with Some (f, rest) => Some (spec_ip4 f rest) | None => None end.
Proof.
  do 20 (destruct b as [|? b]; [reflexivity|]).
  unfold ip4, fields_ip4.
  match goal with |- context [if ?c then None else _] => destruct c end; reflexivity.
Qed.

Lemma fields_ip4_version b f rest : fields_ip4 b = Some (f, rest) -> s4_version f = 4.
Proof.
  do 20 (destruct b as [|? b]; [discriminate|]).
  unfold fields_ip4.
  match goal with |- context [negb (?v =? 4)] => destruct (v =? 4) eqn:E end; cbn [negb orb]; [|discriminate].
  match goal with |- context [if ?c then None else _] => destruct c end; [discriminate|].
  intros H. inversion H. cbn [s4_version]. apply Z.eqb_eq. exact E.
Qed.

(* (B) the generated _from_ipv4 on any field values *)
Lemma gen_IP_from_ipv4_spec f rest : s4_version f = 4 -> gen_IP_from_ipv4 f = py_ip_of (spec_ip4 f rest).
Proof.
  intros Hv. unfold gen_IP_from_ipv4, py_ip_of, spec_ip4. cbv zeta.
  cbn [i_ver i_ttl i_olen i_hlen i_frag i_q i_src i_dst i_tos].
  fold_consts. rewrite ?land_3, ?shiftr_2, ?lor_mask1, ?Hv.
  destruct (s4_tos f mod 4 =? 0), (s4_evil f), (s4_df f), (s4_id f =? 0), (s4_mf f), (s4_frag f =? 0); fields_eq.
Qed.

Theorem gen_from_ipv4_eq : forall b i, ip4 b = Some i ->
  exists f rest, fields_ip4 b = Some (f, rest) /\
    gen_IP_from_ipv4 f = py_ip_of i /\
    rest = i_payload i /\ s4_proto f = i_proto i /\ s4_frag f = i_fragoff i /\ s4_id f = i_id i /\ s4_tos f = i_tos i.
Proof.
  intros b i H. rewrite ip4_fields in H.
  destruct (fields_ip4 b) as [[f rest]|] eqn:F; [|discriminate].
  inversion H; subst i. exists f, rest. split; [reflexivity|]. split.
  - apply gen_IP_from_ipv4_spec. exact (fields_ip4_version b f rest F).
  - repeat split; reflexivity.
Qed.

Theorem fields_ip4_unframed : forall b, ip4 b = None <-> fields_ip4 b = None.
Proof.
  intros b. rewrite ip4_fields. destruct (fields_ip4 b) as [[f rest]|]; split; intros H; try discriminate; reflexivity.
Qed.


(* ------------------------------------------------------------------ *)
(* IPv6                                                                *)
(* ------------------------------------------------------------------ *)
Definition spec_ip6 (f : sc_ip6) (src_dst_rest : list Z) : ip_info :=
  let q := setq_if (negb (s6_fl f =? 0)) qFLOW 0%N in
  let q := setq_if (negb (s6_tc f mod 4 =? 0)) qECN q in
  {| i_ver := 6; i_ttl := s6_hlim f; i_olen := 0; i_hlen := 40; i_frag := false; i_fragoff := 0;
     i_proto := s6_nh f; i_q := q; i_src := s6_src f; i_dst := s6_dst f; i_id := 0; i_tos := s6_tc f; i_payload := src_dst_rest |}.

Lemma ip6_fields b :
  ip6 b = match fields_ip6 b with Some (f, rest) => Some (spec_ip6 f rest) | None => None end.
Proof.
  do 8 (destruct b as [|? b]; [reflexivity|]).
  unfold ip6, fields_ip6.
  match goal with |- context [if ?c then None else _] => destruct c end; reflexivity.
Qed.

Lemma fields_ip6_version b f rest : fields_ip6 b = Some (f, rest) -> s6_version f = 6.
Proof.
  do 8 (destruct b as [|? b]; [discriminate|]).
  unfold fields_ip6.
  match goal with |- context [negb (?v =? 6)] => destruct (v =? 6) eqn:E end; cbn [negb orb]; [|discriminate].
  match goal with |- context [if ?c then None else _] => destruct c end; [discriminate|].
  intros H. inversion H. cbn [s6_version]. apply Z.eqb_eq. exact E.
Qed.

Lemma gen_IP_from_ipv6_spec f rest : s6_version f = 6 -> gen_IP_from_ipv6 f = py_ip_of (spec_ip6 f rest).
Proof.
  intros Hv. unfold gen_IP_from_ipv6, py_ip_of, spec_ip6. cbv zeta.
  cbn [i_ver i_ttl i_olen i_hlen i_frag i_q i_src i_dst i_tos].
  fold_consts. rewrite ?land_3, ?shiftr_2, ?lor_mask1, ?Hv.
  destruct (s6_fl f =? 0), (s6_tc f mod 4 =? 0); fields_eq.
Qed.

Theorem gen_from_ipv6_eq : forall b i, ip6 b = Some i ->
  exists f rest, fields_ip6 b = Some (f, rest) /\
    gen_IP_from_ipv6 f = py_ip_of i /\
    rest = i_payload i /\ s6_nh f = i_proto i /\ i_fragoff i = 0 /\ i_id i = 0 /\ s6_tc f = i_tos i.
Proof.
  intros b i H. rewrite ip6_fields in H.
  destruct (fields_ip6 b) as [[f rest]|] eqn:F; [|discriminate].
  inversion H; subst i. exists f, rest. split; [reflexivity|]. split.
  - apply gen_IP_from_ipv6_spec. exact (fields_ip6_version b f rest F).
  - repeat split; reflexivity.
Qed.

Theorem fields_ip6_unframed : forall b, ip6 b = None <-> fields_ip6 b = None.
Proof.
  intros b. rewrite ip6_fields. destruct (fields_ip6 b) as [[f rest]|]; split; intros H; try discriminate; reflexivity.
Qed.

(* IP.from_packet: the dispatch *)
Theorem gen_IP_from_packet_v4 : forall pk f, sp_ip4 pk = Some f -> gen_IP_from_packet pk = Ok (gen_IP_from_ipv4 f).
Proof. intros pk f H. unfold gen_IP_from_packet. rewrite H. reflexivity. Qed.
Theorem gen_IP_from_packet_v6 : forall pk f, sp_ip4 pk = None -> sp_ip6 pk = Some f -> gen_IP_from_packet pk = Ok (gen_IP_from_ipv6 f).
Proof. intros pk f H4 H6. unfold gen_IP_from_packet. rewrite H4, H6. reflexivity. Qed.
Theorem gen_IP_from_packet_none : forall pk, sp_ip4 pk = None -> sp_ip6 pk = None -> gen_IP_from_packet pk = Err PacketError.
Proof. intros pk H4 H6. unfold gen_IP_from_packet. rewrite H4, H6. reflexivity. Qed.

(* ------------------------------------------------------------------ *)
(* TCP                                                                 *)
(* ------------------------------------------------------------------ *)
Definition spec_tcp (f : sc_tcp) : res py_tcp :=
  let fl := st_flags f in
  let ty := Z.land fl 23 in
  let optbuf := firstn (Z.to_nat (st_dataofs f * 4 - 20)) (skipn 20 (st_bytes f)) in
  match parse_options optbuf (ty =? 2) with
  | Err e => Err e
  | Ok o =>
    let fA := bit fl 4 in let fR := bit fl 2 in let fU := bit fl 5 in let fP := bit fl 3 in
    let q := setq_if (bit fl 6 || bit fl 7 || bit fl 8) qECN 0%N in
    let q := setq_if (st_seq f =? 0) qZSEQ q in
    let q := setq_if (fA && (st_ack f =? 0)) qZACK q in
    let q := setq_if (negb fA && negb (st_ack f =? 0) && negb fR) qNZACK q in
    let q := setq_if fU qURG q in
    let q := setq_if (negb fU && negb (st_urgptr f =? 0)) qNZURG q in
    let q := setq_if fP qPUSH q in
    Ok {| pt_type := ty; pt_src_port := st_sport f; pt_dst_port := st_dport f; pt_window := st_window f; pt_seq := st_seq f;
          pt_options := o; pt_payload := st_payload f; pt_header_length := st_dataofs f * 4; pt_quirks := N.lor q (o_quirks o) |}
  end.

Lemma land_23_nat n : (n < 32)%nat ->
  Z.land (Z.of_nat n) 23 = Z.of_nat n mod 2 + 2 * ((Z.of_nat n / 2) mod 2) + 4 * ((Z.of_nat n / 4) mod 2) + 16 * ((Z.of_nat n / 16) mod 2).
Proof. intros Hn. do 32 (destruct n as [|n]; [reflexivity|]). lia. Qed.

Lemma land_23_small r : 0 <= r < 32 ->
  Z.land r 23 = r mod 2 + 2 * ((r / 2) mod 2) + 4 * ((r / 4) mod 2) + 16 * ((r / 16) mod 2).
Proof. intros H. rewrite <- (Z2Nat.id r) by lia. apply land_23_nat. lia. Qed.

Lemma land_23 x :
  Z.land x 23 = x mod 2 + 2 * ((x / 2) mod 2) + 4 * ((x / 4) mod 2) + 16 * ((x / 16) mod 2).
Proof.
  assert (E : Z.land x 23 = Z.land (x mod 32) 23).
  { change 23 with (Z.land 31 23) at 1. rewrite Z.land_assoc. change 31 with (Z.ones 5).
    rewrite Z.land_ones by lia. reflexivity. }
  rewrite E, land_23_small by lia. lia.
Qed.

Lemma land_23_flags a fl :
  Z.land (a * 256 + fl mod 256) 23 = fl mod 2 + 2 * ((fl / 2) mod 2) + 4 * ((fl / 4) mod 2) + 16 * ((fl / 16) mod 2).
Proof. rewrite land_23. lia. Qed.

Lemma bit_flags_2 a fl : bit (a * 256 + fl mod 256) 2 = bit fl 2.
Proof. unfold bit. change (2 ^ 2) with 4. f_equal. lia. Qed.
Lemma bit_flags_3 a fl : bit (a * 256 + fl mod 256) 3 = bit fl 3.
Proof. unfold bit. change (2 ^ 3) with 8. f_equal. lia. Qed.
Lemma bit_flags_4 a fl : bit (a * 256 + fl mod 256) 4 = bit fl 4.
Proof. unfold bit. change (2 ^ 4) with 16. f_equal. lia. Qed.
Lemma bit_flags_5 a fl : bit (a * 256 + fl mod 256) 5 = bit fl 5.
Proof. unfold bit. change (2 ^ 5) with 32. f_equal. lia. Qed.
Lemma bit_flags_6 a fl : bit (a * 256 + fl mod 256) 6 = bit fl 6.
Proof. unfold bit. change (2 ^ 6) with 64. f_equal. lia. Qed.
Lemma bit_flags_7 a fl : bit (a * 256 + fl mod 256) 7 = bit fl 7.
Proof. unfold bit. change (2 ^ 7) with 128. f_equal. lia. Qed.
Lemma bit_flags_8 off fl : bit ((off mod 2) * 256 + fl mod 256) 8 = (off mod 2 =? 1).
Proof. unfold bit. change (2 ^ 8) with 256. f_equal. lia. Qed.

(* (A) Model/Wire.v's tcp_seg on bytes is the spec on the dissected fields *)
Lemma tcp_seg_fields b :
  match tcp_seg b with
  | None => fields_tcp b = None
  | Some r => exists f, fields_tcp b = Some f /\ spec_tcp f = map_res py_tcp_of r /\
                forall t, r = Ok t -> st_ack f = t_ack t /\ st_urgptr f = t_urg t
  end.
Proof.
  do 20 (destruct b as [|? b]; [reflexivity|]).
  unfold tcp_seg, fields_tcp.
  match goal with |- context [if ?c then None else _] => destruct c end; [reflexivity|].
  eexists. split; [reflexivity|].
  unfold spec_tcp. cbv zeta. cbn [st_sport st_dport st_seq st_ack st_dataofs st_flags st_window st_urgptr st_bytes st_payload skipn].
  rewrite land_23_flags, bit_flags_2, bit_flags_3, bit_flags_4, bit_flags_5, bit_flags_6, bit_flags_7, bit_flags_8.
  unfold fSYN.
  match goal with |- context [parse_options ?buf ?syn] => destruct (parse_options buf syn) as [o|e] end.
  - split; [reflexivity|]. intros t Ht. inversion Ht. split; reflexivity.
  - split; [reflexivity|]. intros t Ht. discriminate.
Qed.

(* (B) the generated TCP.from_packet (with the dataclass's __post_init__) on any field values *)
Lemma gen_TCP_from_packet_spec pk f : sp_tcp pk = Some f -> gen_TCP_from_packet pk = spec_tcp f.
Proof.
  intros H. unfold gen_TCP_from_packet. rewrite H. cbv zeta.
  rewrite gen_parse_options_eq.
  fold_consts.
  unfold spec_tcp. cbv zeta.
  match goal with |- context [parse_options ?buf ?syn] => destruct (parse_options buf syn) as [o|e] end; [|reflexivity].
  unfold gen_TCP_post_init. cbv zeta.
  cbn [pt_type pt_src_port pt_dst_port pt_window pt_seq pt_options pt_payload pt_header_length pt_quirks].
  rewrite ?sc_flag_bit by lia. rewrite ?lor_mask1, ?negb_involutive.
  fold_consts.
  destruct (bit (st_flags f) 6), (bit (st_flags f) 7), (bit (st_flags f) 8), (st_seq f =? 0), (bit (st_flags f) 4), (st_ack f =? 0),
    (bit (st_flags f) 2), (bit (st_flags f) 5), (st_urgptr f =? 0), (bit (st_flags f) 3); fields_eq.
Qed.

Lemma gen_TCP_from_packet_none pk : sp_tcp pk = None -> gen_TCP_from_packet pk = Err PacketError.
Proof. intros H. unfold gen_TCP_from_packet. rewrite H. reflexivity. Qed.

Theorem gen_TCP_from_packet_eq : forall b r, tcp_seg b = Some r ->
  exists f, fields_tcp b = Some f /\
    (forall pk, sp_tcp pk = Some f -> gen_TCP_from_packet pk = map_res py_tcp_of r) /\
    (forall t, r = Ok t -> st_ack f = t_ack t /\ st_urgptr f = t_urg t).
Proof.
  intros b r H. pose proof (tcp_seg_fields b) as A. rewrite H in A.
  destruct A as (f & F & S & X). exists f. split; [exact F|]. split; [|exact X].
  intros pk Hpk. rewrite (gen_TCP_from_packet_spec pk f Hpk). exact S.
Qed.

(* The Python object does not keep the raw flags; the dissected 9-bit value is the model's t_flags when the segment is made of bytes
   (the model does not reduce a non-byte flags "byte" modulo 256; on byte strings there is no difference). *)
Theorem fields_tcp_flags : forall b t f, tcp_seg b = Some (Ok t) -> fields_tcp b = Some f ->
  Forall (fun x => 0 <= x < 256) b -> st_flags f = t_flags t.
Proof.
  intros b t f. do 20 (destruct b as [|? b]; [discriminate|]).
  unfold tcp_seg, fields_tcp.
  match goal with |- context [if ?c then None else _] => destruct c end; [discriminate|].
  match goal with |- context [parse_options ?buf ?syn] => destruct (parse_options buf syn) as [o|e] end; [|discriminate].
  intros H1 H2 HB. inversion H1. inversion H2. cbn [st_flags t_flags].
  rewrite Forall_forall in HB.
  match goal with |- _ + ?fl mod 256 = _ => assert (Hfl : 0 <= fl < 256) by (apply HB; do 13 right; left; reflexivity) end.
  rewrite (Z.mod_small _ 256) by exact Hfl. reflexivity.
Qed.

Theorem fields_tcp_unframed : forall b, tcp_seg b = None <-> fields_tcp b = None.
Proof.
  intros b. pose proof (tcp_seg_fields b) as A. destruct (tcp_seg b) as [r|].
  - destruct A as (f & F & _). rewrite F. split; discriminate.
  - split; [intros _; exact A | reflexivity].
Qed.

(* ------------------------------------------------------------------ *)
(* TCPPacketSignature.from_packet                                      *)
(* ------------------------------------------------------------------ *)
Theorem gen_sig_from_packet_eq : forall k syn_mss,
  gen_TCPPacketSignature_from_packet (py_packet_of k) syn_mss = sig_of k syn_mss.
Proof.
  intros k syn_mss.
  unfold gen_TCPPacketSignature_from_packet, sig_of, mk_pkt_sig, py_packet_of, py_ip_of, py_tcp_of, bytes_truthy.
  cbn [pp_ip pp_tcp pi_version pi_options_length pi_ttl pi_header_length pi_quirks pt_type pt_window pt_options pt_payload
       pt_header_length pt_quirks].
  fold_consts. change (fSYN + fACK) with 18.
  fields_eq.
Qed.

(* ------------------------------------------------------------------ *)
(* Packet.from_packet, and the composition with the dissection         *)
(* ------------------------------------------------------------------ *)
Lemma gen_Packet_from_packet_spec pk :
  gen_Packet_from_packet pk =
  match gen_IP_from_packet pk with
  | Err e => Err e
  | Ok i => match gen_TCP_from_packet pk with Err e => Err e | Ok t => Ok {| pp_ip := i; pp_tcp := t |} end
  end.
Proof. reflexivity. Qed.

(* the translated extraction of one datagram: Scapy's dissection (assumed), then the translated Packet.from_packet *)
Definition gen_extract (v : Z) (b : list Z) : framed (res py_packet) :=
  match dissect v b with None => Unframed | Some pk => Framed (gen_Packet_from_packet pk) end.
(* ... then the translated TCPPacketSignature.from_packet *)
Definition gen_extract_sig (v : Z) (b : list Z) (syn_mss : Z) : framed (res pkt_sig) :=
  map_framed (map_res (fun p => gen_TCPPacketSignature_from_packet p syn_mss)) (gen_extract v b).

Theorem gen_extract_eq : forall v b,
  gen_extract v b = map_framed (map_res py_packet_of) (parse_datagram v b).
Proof.
  intros v b. unfold gen_extract, dissect, parse_datagram.
  destruct (v =? 4).
  - rewrite ip4_fields. destruct (fields_ip4 b) as [[f rest]|] eqn:F; [|reflexivity].
    pose proof (fields_ip4_version b f rest F) as Hv.
    change (i_proto (spec_ip4 f rest)) with (s4_proto f). change (i_fragoff (spec_ip4 f rest)) with (s4_frag f).
    change (i_payload (spec_ip4 f rest)) with rest.
    destruct (negb (s4_proto f =? 6) || negb (s4_frag f =? 0)).
    + rewrite gen_Packet_from_packet_spec, (gen_IP_from_packet_v4 _ f) by reflexivity.
      rewrite gen_TCP_from_packet_none by reflexivity. reflexivity.
    + pose proof (tcp_seg_fields rest) as A. destruct (tcp_seg rest) as [r|].
      * destruct A as (t & T & S & _). rewrite T.
        rewrite gen_Packet_from_packet_spec, (gen_IP_from_packet_v4 _ f) by reflexivity.
        rewrite (gen_TCP_from_packet_spec _ t) by reflexivity. rewrite S.
        rewrite (gen_IP_from_ipv4_spec f rest Hv).
        destruct r as [t'|e]; reflexivity.
      * rewrite A. reflexivity.
  - rewrite ip6_fields. destruct (fields_ip6 b) as [[f rest]|] eqn:F; [|reflexivity].
    pose proof (fields_ip6_version b f rest F) as Hv.
    change (i_proto (spec_ip6 f rest)) with (s6_nh f). change (i_fragoff (spec_ip6 f rest)) with 0.
    change (i_payload (spec_ip6 f rest)) with rest.
    rewrite Z.eqb_refl. cbn [negb]. rewrite orb_false_r.
    destruct (negb (s6_nh f =? 6)).
    + rewrite gen_Packet_from_packet_spec, (gen_IP_from_packet_v6 _ f) by reflexivity.
      rewrite gen_TCP_from_packet_none by reflexivity. reflexivity.
    + pose proof (tcp_seg_fields rest) as A. destruct (tcp_seg rest) as [r|].
      * destruct A as (t & T & S & _). rewrite T.
        rewrite gen_Packet_from_packet_spec, (gen_IP_from_packet_v6 _ f) by reflexivity.
        rewrite (gen_TCP_from_packet_spec _ t) by reflexivity. rewrite S.
        rewrite (gen_IP_from_ipv6_spec f rest Hv).
        destruct r as [t'|e]; reflexivity.
      * rewrite A. reflexivity.
Qed.

Theorem gen_extract_sig_eq : forall v b syn_mss,
  gen_extract_sig v b syn_mss = map_framed (map_res (fun k => sig_of k syn_mss)) (parse_datagram v b).
Proof.
  intros v b syn_mss. unfold gen_extract_sig. rewrite gen_extract_eq.
  destruct (parse_datagram v b) as [|[k|e]]; cbn [map_framed map_res]; rewrite ?gen_sig_from_packet_eq; reflexivity.
Qed.

(* In words: whenever the model frames the bytes and yields a packet k, the translated code yields exactly the Python objects
   that k describes, and the translated signature constructor yields sig_of k; errors and Unframed are equal too. *)
Corollary gen_extract_ok : forall v b k, parse_datagram v b = Framed (Ok k) ->
  gen_extract v b = Framed (Ok (py_packet_of k)) /\
  forall syn_mss, gen_extract_sig v b syn_mss = Framed (Ok (sig_of k syn_mss)).
Proof.
  intros v b k H. split; [|intros syn_mss]; [rewrite gen_extract_eq | rewrite gen_extract_sig_eq]; rewrite H; reflexivity.
Qed.

Print Assumptions gen_from_ipv4_eq.
Print Assumptions fields_ip4_unframed.
Print Assumptions gen_from_ipv6_eq.
Print Assumptions fields_ip6_unframed.
Print Assumptions gen_IP_from_packet_v4.
Print Assumptions gen_IP_from_packet_v6.
Print Assumptions gen_IP_from_packet_none.
Print Assumptions gen_TCP_from_packet_eq.
Print Assumptions gen_TCP_from_packet_none.
Print Assumptions fields_tcp_unframed.
Print Assumptions fields_tcp_flags.
Print Assumptions gen_sig_from_packet_eq.
Print Assumptions gen_extract_eq.
Print Assumptions gen_extract_sig_eq.
Print Assumptions gen_extract_ok.
