(* Equivalence of the definitions translated from /repo's current source (group match) with the hand-written models. *)
From Coq Require Import Lia.
From PV Require Import Model.Prelude Model.Bits Model.Sig Model.Matcher Model.Select Model.Uptime Model.Mtu Model.Text Model.SigParse Model.DbParse Model.HttpRead Model.HttpMatch Gen.GenLib Gen.Generated_match.

Lemma find_ext_local {A} (f g : A -> bool) l : (forall x, f x = g x) -> find f l = find g l.
Proof. intros H. induction l as [|a l IH]; cbn [find]; [reflexivity|]. rewrite H, IH. reflexivity. Qed.

Theorem gen_divisors_eq p : gen_divisors p = divisors p.
Proof.
  unfold gen_divisors, divisors.
  destruct (p_ts1 p =? 0), (p_ver p =? 6), (p_syn_mss p =? 0); reflexivity.
Qed.

Theorem gen_win_multi_eq p : gen_win_multi p = win_multi p.
Proof.
  unfold gen_win_multi, win_multi. rewrite gen_divisors_eq, negb_involutive.
  destruct ((p_win p =? 0) || (p_mss p <? 100)); [reflexivity|].
  rewrite (find_ext_local _ (divides_win p)); [reflexivity|].
  intros d. unfold divides_win. rewrite negb_involutive. reflexivity.
Qed.

Ltac dz c := destruct c eqn:?; cbn [negb andb orb]; try reflexivity.
Ltac tailz md s p :=
  dz (s_eol_pad s =? p_eol_pad p); dz (s_olen s =? p_olen p);
  destruct (s_bad_ttl s); cbn [negb andb orb];
  [ dz (s_ttl s <? p_ttl p) | destruct ((s_ttl s <? p_ttl p) || (s_ttl s - p_ttl p >? md)); cbn [negb andb orb] ];
  destruct (s_mss s =? -1), (s_mss s =? p_mss p), (s_wscale s =? -1), (s_wscale s =? p_ws p),
    (s_pay s =? -1), (s_pay s =? b2z (p_payload p)); cbn [negb andb orb]; try reflexivity;
  destruct (s_wtype s); cbn [wtype_eqb negb andb orb];
  try destruct (snd (win_multi p)); cbn [negb andb orb];
  try destruct (s_wsize s =? fst (win_multi p)); cbn [negb andb orb];
  try destruct (s_wsize s =? p_win p); cbn [negb andb orb];
  try destruct (p_win p mod s_wsize s =? 0); cbn [negb andb orb];
  reflexivity.

Theorem gen_tcp_signatures_match_eq md s p : gen_tcp_signatures_match md s p = tcp_match md s p.
Proof.
  unfold gen_tcp_signatures_match, tcp_match, sq_of. cbv zeta. rewrite !gen_win_multi_eq.
  change (N.lor (N.lor (N.lor (mask_of [qDF]) (mask_of [qNZID])) (mask_of [qZID])) (mask_of [qMBZ])) with (mask_of v4_only).
  change (N.lor (mask_of [qDF]) (mask_of [qNZID])) with (mask_of [qDF; qNZID]).
  change (N.lor (mask_of [qZID]) (mask_of [qECN])) with (mask_of [qZID; qECN]).
  change (mask_of [qFLOW]) with (mask_of v6_only).
  change (Z.sub (s_ttl s) (p_ttl p)) with (s_ttl s - p_ttl p).
  change (Z.modulo (p_win p) (s_wsize s)) with (p_win p mod s_wsize s).
  dz (list_eqb (s_layout s) (p_layout p)).
  destruct (s_ver s =? -1) eqn:Hv; cbn [negb andb orb].
  - replace (N.ldiff (s_quirks s) (if p_ver p =? 4 then mask_of v6_only else mask_of v4_only))
      with (if p_ver p =? 4 then N.ldiff (s_quirks s) (mask_of v6_only) else N.ldiff (s_quirks s) (mask_of v4_only))
      by (destruct (p_ver p =? 4); reflexivity).
    set (sq := if p_ver p =? 4 then N.ldiff (s_quirks s) (mask_of v6_only) else N.ldiff (s_quirks s) (mask_of v4_only)).
    destruct (N.eqb sq (p_quirks p)); cbn [negb andb orb].
    + tailz md s p.
    + dz (N.eqb (N.ldiff (N.land (N.lxor sq (p_quirks p)) sq) (mask_of [qDF; qNZID])) 0).
      dz (N.eqb (N.ldiff (N.land (N.lxor sq (p_quirks p)) (p_quirks p)) (mask_of [qZID; qECN])) 0).
      tailz md s p.
  - dz (s_ver s =? p_ver p).
    destruct (N.eqb (s_quirks s) (p_quirks p)); cbn [negb andb orb].
    + tailz md s p.
    + dz (N.eqb (N.ldiff (N.land (N.lxor (s_quirks s) (p_quirks p)) (s_quirks s)) (mask_of [qDF; qNZID])) 0).
      dz (N.eqb (N.ldiff (N.land (N.lxor (s_quirks s) (p_quirks p)) (p_quirks p)) (mask_of [qZID; qECN])) 0).
      tailz md s p.
Qed.

Print Assumptions gen_divisors_eq.
Print Assumptions gen_win_multi_eq.
Print Assumptions gen_tcp_signatures_match_eq.
