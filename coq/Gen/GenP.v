(* The definitions generated from /repo's current source (Gen/Generated.v, by translate/py2coq.py) are
   equal to the hand-written models the property theorems talk about.  If the source changes so that the
   generated term differs semantically, these proofs stop going through: that is the signal. *)
From Coq Require Import Lia.
From PV Require Import Model.Prelude Model.Bits Model.Sig Model.Matcher Model.Select Model.Uptime Model.Mtu Model.Text Model.SigParse Model.DbParse Model.HttpRead Model.HttpMatch Gen.Generated.

Lemma find_ext_local {A} (f g : A -> bool) l : (forall x, f x = g x) -> find f l = find g l.
Proof. intros H. induction l as [|a l IH]; cbn [find]; [reflexivity|]. rewrite H, IH. reflexivity. Qed.

Theorem gen_divisors_eq p : gen_divisors p = divisors p.
Proof.
  unfold gen_divisors, divisors.
  destruct (p_ts1 p =? 0), (p_ver p =? 6), (p_syn_mss p =? 0); reflexivity.
Qed.

Theorem gen_win_multi_eq p : gen_win_multi p = win_multi p.
Proof.
  unfold gen_win_multi, win_multi. rewrite gen_divisors_eq, negb_involutive.
  destruct ((p_win p =? 0) || (p_mss p <? 100)); [reflexivity|].
  rewrite (find_ext_local _ (divides_win p)); [reflexivity|].
  intros d. unfold divides_win. rewrite negb_involutive. reflexivity.
Qed.

Ltac dz c := destruct c eqn:?; cbn [negb andb orb]; try reflexivity.
Ltac tailz md s p :=
  dz (s_eol_pad s =? p_eol_pad p); dz (s_olen s =? p_olen p);
  destruct (s_bad_ttl s); cbn [negb andb orb];
  [ dz (s_ttl s <? p_ttl p) | destruct ((s_ttl s <? p_ttl p) || (s_ttl s - p_ttl p >? md)); cbn [negb andb orb] ];
  destruct (s_mss s =? -1), (s_mss s =? p_mss p), (s_wscale s =? -1), (s_wscale s =? p_ws p),
    (s_pay s =? -1), (s_pay s =? b2z (p_payload p)); cbn [negb andb orb]; try reflexivity;
  destruct (s_wtype s); cbn [wtype_eqb negb andb orb];
  try destruct (snd (win_multi p)); cbn [negb andb orb];
  try destruct (s_wsize s =? fst (win_multi p)); cbn [negb andb orb];
  try destruct (s_wsize s =? p_win p); cbn [negb andb orb];
  try destruct (p_win p mod s_wsize s =? 0); cbn [negb andb orb];
  reflexivity.

Theorem gen_tcp_signatures_match_eq md s p : gen_tcp_signatures_match md s p = tcp_match md s p.
Proof.
  unfold gen_tcp_signatures_match, tcp_match, sq_of. cbv zeta. rewrite !gen_win_multi_eq.
  change (N.lor (N.lor (N.lor (mask_of [qDF]) (mask_of [qNZID])) (mask_of [qZID])) (mask_of [qMBZ])) with (mask_of v4_only).
  change (N.lor (mask_of [qDF]) (mask_of [qNZID])) with (mask_of [qDF; qNZID]).
  change (N.lor (mask_of [qZID]) (mask_of [qECN])) with (mask_of [qZID; qECN]).
  change (mask_of [qFLOW]) with (mask_of v6_only).
  change (Z.sub (s_ttl s) (p_ttl p)) with (s_ttl s - p_ttl p).
  change (Z.modulo (p_win p) (s_wsize s)) with (p_win p mod s_wsize s).
  dz (list_eqb (s_layout s) (p_layout p)).
  destruct (s_ver s =? -1) eqn:Hv; cbn [negb andb orb].
  - replace (N.ldiff (s_quirks s) (if p_ver p =? 4 then mask_of v6_only else mask_of v4_only))
      with (if p_ver p =? 4 then N.ldiff (s_quirks s) (mask_of v6_only) else N.ldiff (s_quirks s) (mask_of v4_only))
      by (destruct (p_ver p =? 4); reflexivity).
    set (sq := if p_ver p =? 4 then N.ldiff (s_quirks s) (mask_of v6_only) else N.ldiff (s_quirks s) (mask_of v4_only)).
    destruct (N.eqb sq (p_quirks p)); cbn [negb andb orb].
    + tailz md s p.
    + dz (N.eqb (N.ldiff (N.land (N.lxor sq (p_quirks p)) sq) (mask_of [qDF; qNZID])) 0).
      dz (N.eqb (N.ldiff (N.land (N.lxor sq (p_quirks p)) (p_quirks p)) (mask_of [qZID; qECN])) 0).
      tailz md s p.
  - dz (s_ver s =? p_ver p).
    destruct (N.eqb (s_quirks s) (p_quirks p)); cbn [negb andb orb].
    + tailz md s p.
    + dz (N.eqb (N.ldiff (N.land (N.lxor (s_quirks s) (p_quirks p)) (s_quirks s)) (mask_of [qDF; qNZID])) 0).
      dz (N.eqb (N.ldiff (N.land (N.lxor (s_quirks s) (p_quirks p)) (p_quirks p)) (mask_of [qZID; qECN])) 0).
      tailz md s p.
Qed.

Theorem gen_round_frequency_eq f : gen_round_frequency f = round_freq f.
Proof. reflexivity. Qed.

Theorem gen_guess_distance_eq ttl : gen_guess_distance ttl = guess_distance ttl.
Proof. reflexivity. Qed.

Theorem gen_should_fingerprint_eq frag ty : gen_should_fingerprint frag ty = should_fp frag ty.
Proof. reflexivity. Qed.

Theorem gen_valid_for_tcp_fingerprint_eq frag ty : gen_valid_for_tcp_fingerprint frag ty = valid_tcp_fp frag ty.
Proof. reflexivity. Qed.
Theorem gen_valid_for_mtu_fingerprint_eq frag ty mss : gen_valid_for_mtu_fingerprint frag ty mss = valid_mtu_fp frag ty mss.
Proof. reflexivity. Qed.
Theorem gen_valid_for_uptime_fingerprint_eq frag ty : gen_valid_for_uptime_fingerprint frag ty = valid_uptime frag ty.
Proof. reflexivity. Qed.
Theorem gen_mtu_from_mss_eq mss ver : 0 < mss -> gen_mtu_from_mss mss ver = Some (mss + hdr_of ver).
Proof.
  intros H. unfold gen_mtu_from_mss, hdr_of.
  replace (mss <=? 0) with false by (symmetry; apply Z.leb_gt; exact H). reflexivity.
Qed.
Theorem gen_mtu_from_mss_reject mss ver : mss <= 0 -> gen_mtu_from_mss mss ver = None.
Proof. intros H. unfold gen_mtu_from_mss. replace (mss <=? 0) with true by (symmetry; apply Z.leb_le; exact H). reflexivity. Qed.
Theorem gen_mtu_signatures_match_eq a b : gen_mtu_signatures_match a b = (a =? b).
Proof. reflexivity. Qed.

(* the record-selection loops *)
Lemma mtype_eqb_exact t : Generated.mtype_eqb t Exact = match t with Exact => true | _ => false end.
Proof. destruct t; reflexivity. Qed.

Theorem gen_find_tcp_match_eq md recs p : gen_find_tcp_match md recs p = find_tcp_match md recs p.
Proof.
  unfold gen_find_tcp_match, find_tcp_match. cbv zeta.
  match goal with |- ?F recs None None = _ =>
    assert (forall l fuzzy generic, F l generic fuzzy = find_loop md p l fuzzy generic) as H; [|apply H] end.
  induction l as [|r rest IH]; intros fuzzy generic.
  - cbn [find_loop]. destruct generic as [g|]; cbn [negb]; [reflexivity|].
    destruct fuzzy as [[t r]|]; cbn [snd]; reflexivity.
  - cbn [find_loop]. cbv beta iota fix. fold (find_loop md p).
    rewrite gen_tcp_signatures_match_eq.
    destruct (tcp_match md (r_sig r) p) as [[| |]|]; cbn [Generated.mtype_eqb].
    + destruct (r_generic r); cbn [negb]; [|reflexivity].
      destruct generic as [g|]; cbn [first_some]; apply IH.
    + destruct fuzzy as [f|]; cbn [first_some]; apply IH.
    + destruct fuzzy as [f|]; cbn [first_some]; apply IH.
    + apply IH.
Qed.

Theorem gen_find_mtu_match_eq recs mtu : gen_find_mtu_match recs mtu = find_mtu recs mtu.
Proof.
  unfold gen_find_mtu_match, find_mtu.
  induction recs as [|r rest IH]; cbn [find]; [reflexivity|].
  unfold gen_mtu_signatures_match. destruct (m_mtu r =? mtu); [reflexivity | exact IH].
Qed.

Theorem gen_distance_eq m p : gen_distance m p = distance m p.
Proof. unfold gen_distance, distance. destruct m as [[[| |] r]|]; cbn [fst snd Generated.mtype_eqb]; reflexivity. Qed.

(* HTTP: record selection, software string, dishonest flag *)
Theorem gen_find_http_match_eq ver hs recs : gen_find_http_match ver hs recs = find_http_loop ver hs recs None.
Proof.
  unfold gen_find_http_match. cbv zeta.
  match goal with |- ?F recs None = _ =>
    assert (forall l g, F l g = find_http_loop ver hs l g) as H; [|apply H] end.
  induction l as [|r rest IH]; intros g; [reflexivity|].
  cbn [find_http_loop]. cbv beta iota fix. fold (find_http_loop ver hs).
  destruct (rec_matches ver hs r); cbn [negb]; [|apply IH].
  destruct (is_generic (rc_label r)); cbn [negb]; [|reflexivity].
  destruct g; apply IH.
Qed.

Theorem gen_software_eq hs : gen_software hs = software hs.
Proof. reflexivity. Qed.

Theorem gen_dishonest_eq m hs : gen_dishonest m hs = dishonest m hs.
Proof.
  unfold gen_dishonest, dishonest. rewrite gen_software_eq.
  destruct m as [r|]; [|reflexivity].
  destruct (software hs) as [sw|]; [|reflexivity].
  destruct (http_of r) as [sg|]; [|reflexivity].
  destruct (hs_software sg); reflexivity.
Qed.

Print Assumptions gen_find_http_match_eq.
Print Assumptions gen_software_eq.
Print Assumptions gen_dishonest_eq.
Print Assumptions gen_distance_eq.
Print Assumptions gen_find_tcp_match_eq.
Print Assumptions gen_find_mtu_match_eq.
Print Assumptions gen_valid_for_tcp_fingerprint_eq.
Print Assumptions gen_valid_for_mtu_fingerprint_eq.
Print Assumptions gen_valid_for_uptime_fingerprint_eq.
Print Assumptions gen_mtu_from_mss_eq.
Print Assumptions gen_mtu_from_mss_reject.
Print Assumptions gen_mtu_signatures_match_eq.
Print Assumptions gen_divisors_eq.
Print Assumptions gen_win_multi_eq.
Print Assumptions gen_tcp_signatures_match_eq.
Print Assumptions gen_round_frequency_eq.
Print Assumptions gen_guess_distance_eq.
Print Assumptions gen_should_fingerprint_eq.
