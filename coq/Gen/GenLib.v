(* Helpers shared by the generated files (hand-written, fixed). *)
From PV Require Import Model.Prelude Model.Bits Model.Sig Model.Select.
Definition wtype_eqb (a b : wtype) : bool :=
  match a, b with WNormal, WNormal | WAny, WAny | WMod, WMod | WMss, WMss | WMtu, WMtu => true | _, _ => false end.
Definition mtype_eqb (a b : mtype) : bool :=
  match a, b with Exact, Exact | FuzzyTTL, FuzzyTTL | FuzzyQuirks, FuzzyQuirks => true | _, _ => false end.
(* sets of byte strings as lists: a <= b, a /\ b non-empty *)
From PV Require Import Model.Text.
Definition gen_subset (a b : list text) : bool := forallb (fun x => existsb (text_eqb x) b) a.
Definition gen_meets (a b : list text) : bool := existsb (fun x => existsb (text_eqb x) b) a.
