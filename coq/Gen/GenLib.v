(* Helpers shared by the generated files (hand-written, fixed). *)
From PV Require Import Model.Prelude Model.Bits Model.Sig Model.Select.
Definition wtype_eqb (a b : wtype) : bool :=
  match a, b with WNormal, WNormal | WAny, WAny | WMod, WMod | WMss, WMss | WMtu, WMtu => true | _, _ => false end.
Definition mtype_eqb (a b : mtype) : bool :=
  match a, b with Exact, Exact | FuzzyTTL, FuzzyTTL | FuzzyQuirks, FuzzyQuirks => true | _, _ => false end.
