(* Corollaries: the theorems of Properties/C07.v (HTTP payload reading) and C09_http_sig_roundtrip of Properties/C09.v, restated for
   the functions as TRANSLATED from pyp0f's source on this run (Gen/GeneratedHttp.v).  Hand-written; compiled after Gen/GenHttpP.v.
   C07_lines / C07_reject_unterminated speak about h11's maybe_extract_lines only, which is an assumed primitive
   (Model.HttpRead.extract_lines) of the translation: they have no translated counterpart. *)
From Coq Require Import String ZArith NArith List Bool Lia.
From PV Require Import Model.Prelude Model.Bits Model.Sig Model.Text Model.SigParse Model.DbParse Model.Dump Model.HttpRead Spec.C07
  Proofs.TextP Proofs.HttpReadP Proofs.HttpSigP Gen.GeneratedSig Gen.GeneratedHttp Gen.GenHttpP.
Import ListNotations.
Local Open Scope Z_scope.

(* request line -> request direction and minor digit; status line -> response *)
Theorem C07_translated_request_line : forall meth uri minor,
  (meth = str "GET" \/ meth = str "HEAD") -> uri <> [] -> no_ws uri -> 0 <= minor <= 9 ->
  gen_read_first_line (request_line meth uri minor) = Ok (Request, minor).
Proof. intros meth uri minor Hm Hu Hw Hr. apply gen_read_first_line_ok. exact (first_line_request meth uri minor Hm Hu Hw Hr). Qed.

Theorem C07_translated_status_line : forall minor rest,
  0 <= minor <= 9 -> (rest = [] \/ exists c r, rest = c :: r /\ is_space_bytes c = true) ->
  gen_read_first_line (status_line minor rest) = Ok (Response, minor).
Proof. intros minor rest Hm Hr. apply gen_read_first_line_ok. exact (first_line_status minor rest Hm Hr). Qed.

(* headers in wire order, names as sent, values stripped, folded lines appended *)
Theorem C07_translated_headers : forall fs,
  Forall wf_field fs -> gen_read_headers (flat_map field_lines fs) = Ok (map expected_header fs).
Proof. intros fs H. rewrite gen_read_headers_eq. exact (read_headers_fields fs H). Qed.

(* the whole message *)
Theorem C07_translated_roundtrip : forall first dirv fs eols bcrlf body,
  gen_read_first_line first = Ok dirv ->
  Forall wf_field fs ->
  length eols = length (first :: flat_map field_lines fs) ->
  Forall good_line (first :: flat_map field_lines fs) ->
  gen_read_payload (render_head (combine (first :: flat_map field_lines fs) eols) bcrlf body)
  = Ok (fst dirv, snd dirv, map expected_header fs).
Proof.
  intros first dirv fs eols bcrlf body H1 Hf Hl Hg. rewrite gen_read_payload_eq.
  apply read_payload_roundtrip; try assumption.
  rewrite <- gen_read_first_line_eq_variant; [exact H1|].
  inversion Hg as [|? ? Hfirst _]; subst. apply Hfirst.
Qed.

(* rejections: other method, header line without a colon, empty header name, continuation with nothing to continue *)
Theorem C07_translated_reject_method : forall meth uri minor,
  meth <> [] -> no_ws meth -> meth <> str "GET" -> meth <> str "HEAD" ->
  (forall m, minor_version meth <> Ok m) ->
  gen_read_first_line (request_line meth uri minor) = Err PacketError.
Proof.
  intros meth uri minor Hn Hw HG HH Hmv.
  rewrite gen_read_first_line_agree; [exact (first_line_other_method meth uri minor Hn Hw HG HH Hmv)|].
  intros a b c E Hm. exfalso. unfold request_line in E.
  destruct (split_ws2_word_head meth ([32] ++ uri ++ [32] ++ [72; 84; 84; 80; 47; 49; 46; 48 + minor])) as [tl E'];
    [assumption|assumption|apply sp_start_32|].
  rewrite E' in E. injection E as <- _.
  apply orb_prop in Hm. destruct Hm as [Hm | Hm]; apply HttpReadP.text_eqb_eq in Hm; congruence.
Qed.

(* the version field.  As written in C07 the statement is false for the code (Python's `$` also matches before a final LF); it holds
   for texts without LF, and the exact statement for all texts is the second one *)
Theorem C07_translated_version_variant : forall v m, mem 10 v = false ->
  (gen_extract_minor_version v = Ok m <-> (0 <= m <= 9 /\ v = [72; 84; 84; 80; 47; 49; 46; 48 + m])).
Proof. intros v m H. rewrite (gen_extract_minor_version_eq_variant v H). apply minor_version_spec. Qed.
Theorem C07_translated_version_all : forall v m,
  gen_extract_minor_version v = Ok m <->
  (0 <= m <= 9 /\ (v = [72; 84; 84; 80; 47; 49; 46; 48 + m] \/ v = [72; 84; 84; 80; 47; 49; 46; 48 + m; 10])).
Proof. exact gen_extract_minor_version_spec. Qed.

(* at any position of the header block: [hs] are the headers read so far *)
Theorem C07_translated_reject_no_colon : forall l rest hs c r,
  l = c :: r -> c <> 32 -> c <> 9 -> mem 58 l = false -> gen_read_headers_loop (l :: rest) hs = Err PacketError.
Proof.
  intros l rest hs c r Hl H32 H9 Hm. rewrite <- (rev_involutive hs), gen_read_headers_loop_spec.
  exact (read_headers_no_colon l rest (rev hs) c r Hl H32 H9 Hm).
Qed.
Theorem C07_translated_reject_empty_name : forall l rest hs r,
  l = 58 :: r -> gen_read_headers_loop (l :: rest) hs = Err PacketError.
Proof.
  intros l rest hs r Hl. rewrite <- (rev_involutive hs), gen_read_headers_loop_spec.
  exact (read_headers_empty_name l rest (rev hs) r Hl).
Qed.
Theorem C07_translated_reject_no_colon_first : forall l rest c r,
  l = c :: r -> c <> 32 -> c <> 9 -> mem 58 l = false -> gen_read_headers (l :: rest) = Err PacketError.
Proof. intros l rest c r Hl H32 H9 Hm. rewrite gen_read_headers_eq. exact (read_headers_no_colon l rest [] c r Hl H32 H9 Hm). Qed.
Theorem C07_translated_reject_empty_name_first : forall l rest r,
  l = 58 :: r -> gen_read_headers (l :: rest) = Err PacketError.
Proof. intros l rest r Hl. rewrite gen_read_headers_eq. exact (read_headers_empty_name l rest [] r Hl). Qed.
Theorem C07_translated_reject_orphan_continuation : forall l rest c r,
  l = c :: r -> (c = 32 \/ c = 9) -> gen_read_headers (l :: rest) = Err PacketError.
Proof. intros l rest c r Hl Hc. rewrite gen_read_headers_eq. exact (read_headers_orphan_continuation l rest c r Hl Hc). Qed.

(* the translated reader is total: a result or PacketError *)
Theorem C07_translated_total : forall data,
  (exists r, gen_read_payload data = Ok r) \/ gen_read_payload data = Err PacketError.
Proof. intros data. rewrite gen_read_payload_eq. apply read_payload_total. Qed.

Local Open Scope string_scope.
Local Open Scope Z_scope.
Local Open Scope list_scope.
Example C07_translated_example :
  gen_read_payload (str "GET / HTTP/1.1" ++ [13; 10] ++ str "Host:  a " ++ [10] ++ str "X: 1" ++ [13; 10; 9] ++ str "two" ++ [13; 10; 13; 10] ++ str "body")
  = Ok (Request, 1, [{| ph_name := str "Host"; ph_value := str "a" |}; {| ph_name := str "X"; ph_value := str "1" ++ [13; 10; 32] ++ str "two" |}]) /\
  gen_read_payload (str "POST / HTTP/1.1" ++ [13; 10; 13; 10]) = Err PacketError /\
  gen_read_payload ([13; 10] ++ str "GET / HTTP/1.1" ++ [13; 10; 13; 10]) = Err PacketError.
Proof. vm_compute. repeat split; reflexivity. Qed.

(* C09: every printable HTTP signature is what HTTPSignature.parse reads from its text *)
Theorem C09_translated_http_sig_roundtrip : forall h, printable_http h -> gen_HTTPSignature_parse (print_http_sig h) = Ok (encode_http h).
Proof. intros h H. rewrite gen_HTTPSignature_parse_eq. exact (parse_print_http_sig h H). Qed.
Theorem C09_translated_http_sig_roundtrip_ascii : forall h, printable_http h ->
  Forall (fun x => ascii_text (sh_name x) /\ match sh_value x with Some v => ascii_text v | None => True end) (hs_headers h) ->
  Forall ascii_text (hs_absent h) -> match hs_software h with Some s => ascii_text s | None => True end ->
  gen_HTTPSignature_parse (print_http_sig h) = Ok h.
Proof. intros h H1 H2 H3 H4. rewrite gen_HTTPSignature_parse_eq. exact (parse_print_http_sig_ascii h H1 H2 H3 H4). Qed.

Print Assumptions C07_translated_request_line.
Print Assumptions C07_translated_status_line.
Print Assumptions C07_translated_headers.
Print Assumptions C07_translated_roundtrip.
Print Assumptions C07_translated_reject_method.
Print Assumptions C07_translated_version_variant.
Print Assumptions C07_translated_version_all.
Print Assumptions C07_translated_reject_no_colon.
Print Assumptions C07_translated_reject_empty_name.
Print Assumptions C07_translated_reject_no_colon_first.
Print Assumptions C07_translated_reject_empty_name_first.
Print Assumptions C07_translated_reject_orphan_continuation.
Print Assumptions C07_translated_total.
Print Assumptions C07_translated_example.
Print Assumptions C09_translated_http_sig_roundtrip.
Print Assumptions C09_translated_http_sig_roundtrip_ascii.
