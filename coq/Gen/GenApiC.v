(* End-to-end: the public fingerprint functions as the composition of the TRANSLATED pieces - dissected fields -> Packet.from_packet ->
   TCPPacketSignature.from_packet -> fingerprint_tcp / fingerprint_mtu (gate, direction, record search, distance), fingerprint_http
   (read_payload, record search, dishonest flag) - equal the API model of Model/Api.v on every byte string, database and option value.
   Hand-written; no generated code of its own (group api builds on groups layers, select, mtu, http). *)
From Coq Require Import Lia.
From PV Require Import Model.Prelude Model.Bits Model.Sig Model.Matcher Model.Select Model.Mtu Model.Options Model.Wire
  Model.Text Model.SigParse Model.DbParse Model.HttpRead Model.HttpMatch Model.DbState Model.Api Proofs.ApiP
  Gen.GenLib Gen.GenLayLib Gen.Generated_options Gen.Generated_layers Gen.GenP_layers
  Gen.Generated_match Gen.GenP_match Gen.Generated_select Gen.GenP_select Gen.Generated_mtu Gen.GenP_mtu Gen.Generated_http Gen.GenP_http.

(* fingerprint_tcp(packet, syn_mss=.., options=Options(database=d, max_dist=md)) on the bytes b of a datagram (plus link-layer trailer) *)
Definition gen_api_fp_tcp (d : db) (md syn_mss v : Z) (b : list Z) : out :=
  match gen_extract v (trim v b) with
  | Unframed => OUnframed
  | Framed (Err e) => OErr e
  | Framed (Ok pk) =>
      match gen_fingerprint_tcp md (tcp_db_of d) (pi_is_fragment (pp_ip pk)) (pt_type (pp_tcp pk)) (gen_TCPPacketSignature_from_packet pk syn_mss) with
      | Ok (m, dist) => OTcp (option_map (fun x => r_line (snd x)) m) (option_map fst m) dist
      | Err e => OErr e
      end
  end.
Definition gen_api_fp_mtu (d : db) (v : Z) (b : list Z) : out :=
  match gen_extract v (trim v b) with
  | Unframed => OUnframed
  | Framed (Err e) => OErr e
  | Framed (Ok pk) =>
      match gen_fingerprint_mtu (mtu_db_of d) (pi_is_fragment (pp_ip pk)) (pt_type (pp_tcp pk)) (pi_version (pp_ip pk)) (o_mss (pt_options (pp_tcp pk))) with
      | Ok (m, r) => OMtu m (option_map m_line r)
      | Err e => OErr e
      end
  end.
Definition gen_api_fp_http (d : db) (data : text) : out :=
  match gen_fingerprint_http d data with
  | Ok (m, dis, _) => OHttp (option_map rc_line m) dis
  | Err e => OErr e
  end.

Theorem gen_api_fp_tcp_eq : forall d md syn_mss v b, gen_api_fp_tcp d md syn_mss v b = api_fp_tcp d md syn_mss v b.
Proof.
  intros d md syn_mss v b. unfold gen_api_fp_tcp, api_fp_tcp, parse_packet. rewrite gen_extract_eq.
  destruct (parse_datagram v (trim v b)) as [|[k|e]]; cbn [map_framed map_res]; [reflexivity| |reflexivity].
  rewrite gen_sig_from_packet_eq, gen_fingerprint_tcp_eq. reflexivity.
Qed.
Theorem gen_api_fp_mtu_eq : forall d v b, gen_api_fp_mtu d v b = api_fp_mtu d v b.
Proof.
  intros d v b. unfold gen_api_fp_mtu, api_fp_mtu, parse_packet. rewrite gen_extract_eq.
  destruct (parse_datagram v (trim v b)) as [|[k|e]]; cbn [map_framed map_res]; [reflexivity| |reflexivity].
  rewrite gen_fingerprint_mtu_eq. reflexivity.
Qed.
Theorem gen_api_fp_http_eq : forall d data, gen_api_fp_http d data = api_fp_http d data.
Proof. intros d data. unfold gen_api_fp_http, api_fp_http. rewrite gen_fingerprint_http_eq. reflexivity. Qed.

(* the API machine with the translated fingerprint functions in place of the model's *)
Definition gen_exec (d : db) (o : op) : db * out :=
  match o with
  | Load lines => match load_spec d lines with (d', Ok _) => (d', OLoadOk) | (d', Err e) => (d', OErr e) end
  | FpTcp md syn v b => (d, gen_api_fp_tcp d md syn v b)
  | FpMtu v b => (d, gen_api_fp_mtu d v b)
  | FpHttp data => (d, gen_api_fp_http d data)
  | Other => (d, ONone)
  end.
Fixpoint gen_run_ops (d : db) (ops : list op) : db * list out :=
  match ops with
  | [] => (d, [])
  | o :: r => let '(d1, x) := gen_exec d o in let '(d2, xs) := gen_run_ops d1 r in (d2, x :: xs)
  end.
Theorem gen_exec_eq : forall d o, gen_exec d o = exec d o.
Proof.
  intros d [lines|md syn v b|v b|data|]; cbn [gen_exec exec];
    rewrite ?gen_api_fp_tcp_eq, ?gen_api_fp_mtu_eq, ?gen_api_fp_http_eq; reflexivity.
Qed.
Theorem gen_run_ops_eq : forall ops d, gen_run_ops d ops = run_ops d ops.
Proof.
  induction ops as [|o r IH]; intro d; [reflexivity|].
  cbn [gen_run_ops run_ops]. rewrite gen_exec_eq. destruct (exec d o) as [d1 x]. rewrite IH. reflexivity.
Qed.

(* C16 and C02 / C08 / C06 for the code as translated: results after ANY history are the history-free value on the database of the last
   successful load; the value itself is what the translated functions compute *)
Theorem C16_translated_history : forall d h o,
  last (snd (gen_run_ops d (h ++ [o]))) ONone = snd (gen_exec (last_loaded d h) o).
Proof. intros d h o. rewrite gen_run_ops_eq, gen_exec_eq. exact (history_independence d h o). Qed.
Theorem C16_translated_repeat : forall d o, (forall lines, o <> Load lines) -> snd (gen_exec (fst (gen_exec d o)) o) = snd (gen_exec d o).
Proof. intros d o H. rewrite !gen_exec_eq. exact (repeat_same d o H). Qed.

Print Assumptions gen_api_fp_tcp_eq.
Print Assumptions gen_api_fp_mtu_eq.
Print Assumptions gen_api_fp_http_eq.
Print Assumptions gen_exec_eq.
Print Assumptions gen_run_ops_eq.
Print Assumptions C16_translated_history.
Print Assumptions C16_translated_repeat.
