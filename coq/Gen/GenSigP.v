(* The machine-translated database signature parsers (Gen/GeneratedSig.v) agree with the hand-written
   model (Model/SigParse.v). *)
From Coq Require Import String ZArith NArith List Bool Lia.
From PV Require Import Model.Prelude Model.Bits Model.Sig Model.Text Model.SigParse Gen.GeneratedSig.
From PV Require Import Proofs.BitsP Proofs.DbParseP Model.DbParse Model.Dump.
Import ListNotations.
Local Open Scope Z_scope.

(* ------------------------------------------------------------------ *)
(* utils.py / wildcard.py                                              *)
(* ------------------------------------------------------------------ *)
Theorem gen_is_wildcard_eq : forall t, gen_is_wildcard t = text_eqb t (str "*").
Proof. intros t. reflexivity. Qed.

Theorem gen_parse_number_in_range_eq : forall f lo hi w, gen_parse_number_in_range f lo hi w = num_in_range f lo hi w.
Proof.
  intros f lo hi w. unfold gen_parse_number_in_range, num_in_range.
  rewrite gen_is_wildcard_eq.
  destruct (w && text_eqb f (str "*")); [reflexivity|].
  unfold gen_int. destruct (py_int f) as [v|]; cbn [bind gen_try_value]; [|reflexivity].
  destruct ((lo <=? v) && (v <=? hi)); reflexivity.
Qed.

Theorem gen_parse_from_options_eq : forall (A : Type) (t : text) (opts : list (text * A)), gen_parse_from_options t opts = from_options t opts.
Proof.
  intros A t opts. unfold gen_parse_from_options.
  induction opts as [|[k v] r IH]; [reflexivity|].
  cbn [gen_dict_mem gen_dict_get from_options].
  destruct (text_eqb t k); [reflexivity|]. cbn [orb]. exact IH.
Qed.

(* ------------------------------------------------------------------ *)
(* split_parts                                                         *)
(* ------------------------------------------------------------------ *)
Definition sp_loop1 : list text -> list text -> Z -> res (list text * Z) :=
  ltac:(let t := eval cbv beta zeta delta [gen_split_parts] in (gen_split_parts [] 0 []) in
        match t with bind (?F _ _ _) _ => exact F end).
Definition sp_loop2 : list Z -> list text -> res (list text) :=
  ltac:(let t := eval cbv beta zeta delta [gen_split_parts] in (gen_split_parts [] 0 []) in
        match t with context [bind (?F (gen_range _) _) _] => exact F end).

Lemma gen_split_parts_unfold data parts sep :
  gen_split_parts data parts sep =
  bind (sp_loop1 (gen_split_max sep parts data) [] parts)
       (fun p => let '(y, p') := p in bind (sp_loop2 (gen_range p') y) (fun y' => Ok y')).
Proof. reflexivity. Qed.

Lemma sp_loop1_nil y p : sp_loop1 [] y p = Ok (y, p).
Proof. reflexivity. Qed.
Lemma sp_loop1_cons a l y p :
  sp_loop1 (a :: l) y p = sp_loop1 l (if negb (p =? 0) then y ++ [a] else y) (p - 1).
Proof. unfold sp_loop1 at 1. destruct (negb (p =? 0)); reflexivity. Qed.
Lemma sp_loop2_nil y : sp_loop2 [] y = Ok y.
Proof. reflexivity. Qed.
Lemma sp_loop2_cons a l y : sp_loop2 (a :: l) y = sp_loop2 l (y ++ [[]]).
Proof. reflexivity. Qed.

Lemma sp_loop1_spec : forall l y p, 0 <= p -> Z.of_nat (length l) <= p + 1 ->
  sp_loop1 l y p = Ok (y ++ firstn (Z.to_nat p) l, p - Z.of_nat (length l)).
Proof.
  induction l as [|a l IH]; intros y p Hp Hl.
  - rewrite sp_loop1_nil, firstn_nil, app_nil_r. cbn [length]. f_equal. f_equal. lia.
  - rewrite sp_loop1_cons. cbn [length] in Hl |- *.
    destruct (p =? 0) eqn:E; cbn [negb].
    + apply Z.eqb_eq in E. subst p. destruct l as [|b l]; [|cbn [length] in Hl; lia].
      rewrite sp_loop1_nil. cbn [Z.to_nat firstn length]. rewrite app_nil_r. reflexivity.
    + apply Z.eqb_neq in E. rewrite IH by lia.
      replace (Z.to_nat p) with (S (Z.to_nat (p - 1))) by lia.
      cbn [firstn]. rewrite <- app_assoc. cbn [app]. f_equal. f_equal. lia.
Qed.

Lemma sp_loop2_spec : forall l y, sp_loop2 l y = Ok (y ++ repeat [] (length l)).
Proof.
  induction l as [|a l IH]; intros y.
  - rewrite sp_loop2_nil. cbn [length repeat]. rewrite app_nil_r. reflexivity.
  - rewrite sp_loop2_cons, IH. cbn [length repeat]. rewrite <- app_assoc. reflexivity.
Qed.

Lemma split_max_length : forall sep t n, (1 <= length (split_max sep n t) <= n + 1)%nat.
Proof.
  intros sep. induction t as [|c r IH]; intros n.
  - destruct n; cbn [split_max length]; lia.
  - destruct n as [|n]; [cbn [split_max length]; lia|].
    cbn [split_max]. destruct (c =? sep).
    + cbn [length]. specialize (IH n). lia.
    + specialize (IH (S n)). destruct (split_max sep (S n) r) as [|h tl]; cbn [length] in *; lia.
Qed.

Lemma gen_range_length p : length (gen_range p) = Z.to_nat p.
Proof. unfold gen_range. rewrite map_length, seq_length. reflexivity. Qed.

Lemma gen_split_max_eq sep n t : gen_split_max [sep] (Z.of_nat n) t = split_max sep n t.
Proof.
  unfold gen_split_max. destruct (Z.of_nat n <? 0) eqn:E; [apply Z.ltb_lt in E; lia|].
  rewrite Nat2Z.id. reflexivity.
Qed.

Theorem gen_split_parts_eq : forall t (n : nat) sep,
  gen_split_parts t (Z.of_nat n) [sep] = Ok (split_parts t n sep).
Proof.
  intros t n sep. rewrite gen_split_parts_unfold, gen_split_max_eq.
  pose proof (split_max_length sep t n) as HL.
  rewrite sp_loop1_spec by lia. cbn [bind].
  rewrite sp_loop2_spec. cbn [bind]. rewrite gen_range_length, Nat2Z.id.
  unfold split_parts. f_equal. f_equal. f_equal.
  rewrite firstn_length. lia.
Qed.

Lemma split_parts_length t n sep : length (split_parts t n sep) = n.
Proof.
  unfold split_parts. rewrite app_length, repeat_length, firstn_length. lia.
Qed.

(* ------------------------------------------------------------------ *)
(* tcp.py: ttl                                                         *)
(* ------------------------------------------------------------------ *)
Lemma infix_plus_mem : forall t, infix (str "+") t = mem 43 t.
Proof.
  change (str "+") with [43].
  induction t as [|c r IH]; [reflexivity|].
  cbn [infix starts_with mem existsb]. fold (mem 43 r). rewrite IH, andb_true_r.
  rewrite (Z.eqb_sym 43 c). reflexivity.
Qed.

Theorem gen_parse_ttl_eq : forall f, gen_parse_ttl f = parse_ttl f.
Proof.
  intros f. unfold gen_parse_ttl, parse_ttl.
  rewrite infix_plus_mem.
  destruct (ends_with (str "-") f).
  - cbn [bind]. rewrite gen_parse_number_in_range_eq.
    destruct (num_in_range (removelast f) 1 255 false) as [v|e] eqn:E; cbn [bind]; [|reflexivity].
    apply num_in_range_nowild in E.
    rewrite Z.add_0_r.
    destruct (v >? 255) eqn:G; [rewrite Z.gtb_ltb in G; apply Z.ltb_lt in G; lia|].
    reflexivity.
  - destruct (mem 43 f).
    + destruct (partition_on 43 f) as [[a fd] b].
      rewrite gen_parse_number_in_range_eq.
      destruct (num_in_range b 0 255 false) as [d|e] eqn:Ed; cbn [bind]; [|reflexivity].
      apply num_in_range_nowild in Ed.
      rewrite gen_parse_number_in_range_eq.
      destruct (num_in_range a 1 255 false) as [v|e]; cbn [bind]; [|reflexivity].
      destruct (d <? 0) eqn:G; [apply Z.ltb_lt in G; lia|]. cbn [orb]. reflexivity.
    + cbn [bind]. rewrite gen_parse_number_in_range_eq.
      destruct (num_in_range f 1 255 false) as [v|e] eqn:E; cbn [bind]; [|reflexivity].
      apply num_in_range_nowild in E. rewrite Z.add_0_r.
      destruct (v >? 255) eqn:G; [rewrite Z.gtb_ltb in G; apply Z.ltb_lt in G; lia|].
      reflexivity.
Qed.

(* ------------------------------------------------------------------ *)
(* tcp.py: window                                                      *)
(* ------------------------------------------------------------------ *)
Lemma skipn_1_tl {A} (l : list A) : skipn 1 l = tl l.
Proof. destruct l; reflexivity. Qed.

Theorem gen_parse_window_eq : forall f, gen_parse_window f = parse_window f.
Proof.
  intros f. unfold gen_parse_window, parse_window.
  destruct (partition_on 44 f) as [[rw fd] rs].
  rewrite gen_is_wildcard_eq.
  repeat rewrite gen_parse_number_in_range_eq.
  destruct (text_eqb rw (str "*")).
  { cbn [bind fst snd]. destruct (num_in_range rs 0 255 true); reflexivity. }
  destruct (starts_with (str "mss*") rw || starts_with (str "mtu*") rw).
  { unfold gen_char_at, index.
    destruct (nth_error rw 1) as [c|]; cbn [bind]; [|reflexivity].
    assert (Hc : text_eqb [c] (str "s") = (c =? 115)).
    { change (str "s") with [115]. cbn [text_eqb]. apply andb_true_r. }
    rewrite Hc.
    destruct (num_in_range (skipn 4 rw) 1 1000 false) as [n|e]; cbn [bind fst snd]; [|reflexivity].
    destruct (num_in_range rs 0 255 true); reflexivity. }
  rewrite skipn_1_tl.
  destruct (starts_with (str "%") rw).
  { destruct (num_in_range (tl rw) 2 65535 false) as [n|e]; cbn [bind fst snd]; [|reflexivity].
    destruct (num_in_range rs 0 255 true); reflexivity. }
  destruct (num_in_range rw 0 65535 false) as [n|e]; cbn [bind fst snd]; [|reflexivity].
  destruct (num_in_range rs 0 255 true); reflexivity.
Qed.

(* ------------------------------------------------------------------ *)
(* tcp.py: option layout                                               *)
(* ------------------------------------------------------------------ *)
Definition opt_loop : list text -> Z -> list Z -> res (Z * list Z) :=
  ltac:(let t := eval cbv beta zeta delta [gen_parse_options] in (gen_parse_options []) in
        match t with bind (?F _ _ _) _ => exact F end).

Lemma gen_parse_options_unfold f :
  gen_parse_options f =
  bind (opt_loop (if match f with [] => false | _ :: _ => true end then gen_split (str ",") f else []) 0 [])
       (fun p => let '(e, o) := p in Ok (o, e)).
Proof. reflexivity. Qed.

Definition opt_head (o : text) (eol : Z) : res (Z * Z) :=
  if starts_with (str "?") o then do n <- num_in_range (tl o) 0 255 false; Ok (n, eol)
  else if starts_with (str "eol+") o then do n <- num_in_range (skipn 4 o) 0 255 false; Ok (0, n)
  else do k <- from_options o option_names; Ok (k, eol).

Lemma opt_loop_nil e acc : opt_loop [] e acc = Ok (e, acc).
Proof. reflexivity. Qed.

Lemma opt_loop_cons o r e acc :
  opt_loop (o :: r) e acc = do ke <- opt_head o e; opt_loop r (snd ke) (acc ++ [fst ke]).
Proof.
  unfold opt_loop at 1. fold opt_loop. unfold opt_head.
  repeat rewrite gen_parse_number_in_range_eq. rewrite gen_parse_from_options_eq.
  rewrite skipn_1_tl. change gen_STRING_OPTIONS with option_names.
  destruct (starts_with (str "?") o).
  { destruct (num_in_range (tl o) 0 255 false); reflexivity. }
  destruct (starts_with (str "eol+") o).
  { destruct (num_in_range (skipn 4 o) 0 255 false); reflexivity. }
  destruct (from_options o option_names); reflexivity.
Qed.

Lemma parse_option_list_cons o r e :
  parse_option_list (o :: r) e =
  do ke <- opt_head o e; do rest <- parse_option_list r (snd ke); Ok (fst ke :: fst rest, snd rest).
Proof. reflexivity. Qed.

Lemma opt_loop_spec : forall l e acc,
  opt_loop l e acc = do r <- parse_option_list l e; Ok (snd r, acc ++ fst r).
Proof.
  induction l as [|o r IH]; intros e acc.
  - rewrite opt_loop_nil. cbn [parse_option_list bind fst snd]. rewrite app_nil_r. reflexivity.
  - rewrite opt_loop_cons, parse_option_list_cons.
    destruct (opt_head o e) as [[k e']|err]; cbn [bind fst snd]; [|reflexivity].
    rewrite IH. destruct (parse_option_list r e') as [[ks e'']|err]; cbn [bind fst snd]; [|reflexivity].
    rewrite <- app_assoc. reflexivity.
Qed.

Theorem gen_parse_options_eq : forall f, gen_parse_options f = parse_layout f.
Proof.
  intros f. rewrite gen_parse_options_unfold. unfold parse_layout.
  destruct f as [|c r]; [reflexivity|].
  change (gen_split (str ",") (c :: r)) with (split_on 44 (c :: r)).
  rewrite opt_loop_spec.
  destruct (parse_option_list (split_on 44 (c :: r)) 0) as [[ks e]|err]; reflexivity.
Qed.

(* ------------------------------------------------------------------ *)
(* tcp.py: quirks                                                      *)
(* ------------------------------------------------------------------ *)
Definition q_loop (ver : Z) : list text -> N -> res N :=
  ltac:(let t := eval cbv beta zeta delta [gen_parse_quirks] in (gen_parse_quirks [] ver) in
        match t with bind (?F _ _) _ => exact F end).

Lemma gen_parse_quirks_unfold f ver :
  gen_parse_quirks f ver =
  bind (q_loop ver (if match f with [] => false | _ :: _ => true end then gen_split (str ",") f else []) 0%N)
       (fun q => Ok q).
Proof. reflexivity. Qed.

Lemma from_options_map {A B} (g : A -> B) t (l : list (text * A)) :
  from_options t (map (fun p => (fst p, g (snd p))) l) = do v <- from_options t l; Ok (g v).
Proof.
  induction l as [|[k v] r IH]; [reflexivity|].
  cbn [map from_options fst snd]. destruct (text_eqb t k); [reflexivity|exact IH].
Qed.

Lemma gen_STRING_QUIRKS_names :
  gen_STRING_QUIRKS = map (fun p => (fst p, N.shiftl 1 (snd p))) quirk_names.
Proof. reflexivity. Qed.

Lemma gen_in_shiftl k q : gen_in (N.shiftl 1 k) q = N.testbit q k.
Proof.
  unfold gen_in. rewrite N.shiftl_1_l.
  destruct (N.testbit q k) eqn:T.
  - apply N.eqb_eq. apply N.bits_inj. intros n.
    rewrite N.land_spec, N.pow2_bits_eqb.
    destruct (N.eqb k n) eqn:E; [|apply andb_false_r].
    apply N.eqb_eq in E. subst n. rewrite T. reflexivity.
  - apply N.eqb_neq. intros H.
    assert (X : N.testbit (N.land q (2 ^ k)) k = N.testbit (2 ^ k) k) by (rewrite H; reflexivity).
    rewrite N.land_spec, N.pow2_bits_true, T in X. discriminate X.
Qed.

Definition q_invalid (ver : Z) (m : N) : bool :=
  match gen_zdict_get ver gen_INVALID_QUIRKS with Some inv => gen_in m inv | None => false end.

Lemma q_invalid_eq ver k : q_invalid ver (N.shiftl 1 k) = hasq k (invalid_for ver).
Proof.
  unfold q_invalid, invalid_for, gen_INVALID_QUIRKS. cbn [gen_zdict_get].
  destruct (ver =? 4); [rewrite gen_in_shiftl; reflexivity|].
  destruct (ver =? 6); [rewrite gen_in_shiftl; reflexivity|].
  symmetry. apply hasq_0.
Qed.

Lemma q_loop_nil ver acc : q_loop ver [] acc = Ok acc.
Proof. reflexivity. Qed.

Lemma q_loop_cons ver q r acc :
  q_loop ver (q :: r) acc =
  do m <- gen_parse_from_options q gen_STRING_QUIRKS;
  if q_invalid ver m then Err FieldError else q_loop ver r (N.lor acc m).
Proof. reflexivity. Qed.

Lemma q_loop_spec ver : forall l acc, q_loop ver l acc = parse_quirk_list l ver acc.
Proof.
  induction l as [|q r IH]; intros acc; [reflexivity|].
  rewrite q_loop_cons. cbn [parse_quirk_list].
  rewrite gen_parse_from_options_eq, gen_STRING_QUIRKS_names, from_options_map.
  destruct (from_options q quirk_names) as [k|e]; cbn [bind]; [|reflexivity].
  rewrite q_invalid_eq. destruct (hasq k (invalid_for ver)); [reflexivity|].
  rewrite IH. reflexivity.
Qed.

Theorem gen_parse_quirks_eq : forall f ver, gen_parse_quirks f ver = parse_quirks f ver.
Proof.
  intros f ver. rewrite gen_parse_quirks_unfold. unfold parse_quirks.
  destruct f as [|c r]; [reflexivity|].
  change (gen_split (str ",") (c :: r)) with (split_on 44 (c :: r)).
  rewrite q_loop_spec.
  destruct (parse_quirk_list (split_on 44 (c :: r)) ver 0%N); reflexivity.
Qed.

(* ------------------------------------------------------------------ *)
(* tcp.py / mtu.py: whole signatures                                   *)
(* ------------------------------------------------------------------ *)
Lemma gen_parse_ip_version_eq t : gen_parse_ip_version t = parse_ip_version t.
Proof.
  unfold gen_parse_ip_version, gen_fixed_numerical_options_parser, gen_parse_from_numerical_options, parse_ip_version.
  rewrite gen_is_wildcard_eq, gen_parse_from_options_eq. reflexivity.
Qed.

Lemma gen_parse_payload_class_eq t : gen_parse_payload_class t = parse_payload_class t.
Proof.
  unfold gen_parse_payload_class, gen_fixed_numerical_options_parser, gen_parse_from_numerical_options, parse_payload_class.
  rewrite gen_is_wildcard_eq, gen_parse_from_options_eq. reflexivity.
Qed.

Lemma gen_parse_mss_eq t : gen_parse_mss t = num_in_range t 0 65535 true.
Proof. apply gen_parse_number_in_range_eq. Qed.

Lemma gen_parse_ip_options_length_eq t : gen_parse_ip_options_length t = num_in_range t 0 255 false.
Proof. apply gen_parse_number_in_range_eq. Qed.

Theorem gen_TCPSignature_parse_eq : forall t, gen_TCPSignature_parse t = parse_tcp_sig t.
Proof.
  intros t. unfold gen_TCPSignature_parse, parse_tcp_sig.
  change 8 with (Z.of_nat 8) at 1. change (str ":") with [58].
  rewrite gen_split_parts_eq. cbn [bind].
  pose proof (split_parts_length t 8 58) as HL.
  destruct (split_parts t 8 58) as [|p0 [|p1 [|p2 [|p3 [|p4 [|p5 [|p6 [|p7 [|p8 l]]]]]]]]];
    cbn [length] in HL; try discriminate HL.
  cbn [part nth].
  rewrite gen_parse_ip_version_eq, gen_parse_ttl_eq, gen_parse_mss_eq, gen_parse_options_eq,
    gen_parse_ip_options_length_eq, gen_parse_window_eq, gen_parse_payload_class_eq.
  destruct (parse_ip_version p0) as [ver|e]; cbn [bind]; [|reflexivity].
  rewrite gen_parse_quirks_eq.
  destruct (parse_ttl p1) as [[ttl bad]|e]; cbn [bind]; [|reflexivity].
  destruct (num_in_range p3 0 65535 true) as [mss|e]; cbn [bind]; [|reflexivity].
  destruct (parse_layout p5) as [[lay eol]|e]; cbn [bind]; [|reflexivity].
  destruct (num_in_range p2 0 255 false) as [olen|e]; cbn [bind]; [|reflexivity].
  destruct (parse_window p4) as [[[wt ws] wsc]|e]; cbn [bind]; [|reflexivity].
  destruct (parse_payload_class p7) as [pay|e]; cbn [bind]; [|reflexivity].
  destruct (parse_quirks p6 ver) as [q|e]; cbn [bind]; reflexivity.
Qed.

Theorem gen_MTUSignature_parse_eq : forall t, gen_MTUSignature_parse t = parse_mtu_sig t.
Proof. intros t. apply gen_parse_number_in_range_eq. Qed.

(* ---- the printers: TCPOptions.dump and dump_quirks as the source has them (tables by evaluation) are the model's printers ---- *)
Theorem gen_TCPOptions_dump_eq : forall layout eol, gen_TCPOptions_dump layout eol = dump_layout layout eol.
Proof.
  intros layout eol. unfold gen_TCPOptions_dump, dump_layout. cbv zeta. f_equal.
  apply map_ext. intro k. unfold dump_option.
  destruct (k =? 0); cbn [negb]; [reflexivity|].
  unfold gen_OPTION_STRINGS_out. cbn [gen_zdict_get].
  destruct (k =? 1); [reflexivity|]. destruct (k =? 2); [reflexivity|]. destruct (k =? 3); [reflexivity|].
  destruct (k =? 4); [reflexivity|]. destruct (k =? 5); [reflexivity|]. destruct (k =? 8); reflexivity.
Qed.

Lemma dump_quirks_table q (l : list (text * N)) :
  map snd (filter (fun qs => gen_in (fst qs) q) (map (fun nk => (N.shiftl 1 (snd nk), fst nk)) l))
  = map fst (filter (fun nk => hasq (snd nk) q) l).
Proof.
  induction l as [|[n k] r IH]; [reflexivity|].
  cbn [map filter fst snd]. rewrite gen_in_shiftl. unfold hasq at 1.
  destruct (N.testbit q k); cbn [map fst snd]; rewrite IH; reflexivity.
Qed.

Theorem gen_dump_quirks_eq : forall q, gen_dump_quirks q = dump_quirks q.
Proof.
  intro q. unfold gen_dump_quirks, dump_quirks. f_equal.
  change gen_QUIRK_STRINGS_out with (map (fun nk : text * N => (N.shiftl 1 (snd nk), fst nk)) quirk_names).
  apply dump_quirks_table.
Qed.

Print Assumptions gen_is_wildcard_eq.
Print Assumptions gen_parse_number_in_range_eq.
Print Assumptions gen_parse_from_options_eq.
Print Assumptions gen_split_parts_eq.
Print Assumptions gen_parse_ttl_eq.
Print Assumptions gen_parse_window_eq.
Print Assumptions gen_parse_options_eq.
Print Assumptions gen_parse_quirks_eq.
Print Assumptions gen_TCPSignature_parse_eq.
Print Assumptions gen_MTUSignature_parse_eq.
Print Assumptions gen_TCPOptions_dump_eq.
Print Assumptions gen_dump_quirks_eq.
