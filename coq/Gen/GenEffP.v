(* The static tie of property C12: the write-effect summaries that translate/eff2coq.py RE-DERIVES from pyp0f's source on
   every run (Gen/GeneratedEff.v) are connected to the hand-written heap / frame model (Model/Frame.v, Proofs/FrameP.v).
   Every theorem below that mentions gen_summaries is checked by computation on the generated data: it stops compiling
   when the regenerated summary of an entry point gains a write, loses impersonate_mtu's write, or changes what
   impersonate_tcp returns. *)
From Coq Require Import List String Bool Arith Lia.
From PV Require Import Model.Prelude Model.Frame Proofs.FrameP Gen.GenEffLib Gen.GeneratedEff.
Import ListNotations.
Local Open Scope nat_scope.
Local Open Scope string_scope.

Definition lookup_summary (n : string) : option summary := find_summary n gen_summaries.

(* ------------------------------------------------------------------ the model side (no generated data) *)
(* which heap index a call of the model writes: only impersonate_mtu, and only its argument *)
Definition model_writes (c : call) (k : nat) : bool :=
  match c with CImpersonateMtu i _ => Nat.eqb i k | _ => false end.

(* the heap index bound to parameter i of the call.  Parameter 0 is the packet / buffer; the other parameters
   (syn_mss, last_packet_signature, options, database, raw_label, ...) are not objects of the model's heap. *)
Definition arg_index (c : call) (i : nat) : option nat :=
  match i, c with
  | O, CFingerprintPacket j => Some j
  | O, CFingerprintHttp b _ => Some b
  | O, CImpersonateTcp j _ _ => Some j
  | O, CImpersonateMtu j _ => Some j
  | _, _ => None
  end.

Lemma model_writes_mtu_target c k : model_writes c k = mtu_target c k.
Proof. destruct c; reflexivity. Qed.

(* SEMANTIC lemma about the model: a call leaves alone every existing object it does not write *)
Lemma exec_call_frame : forall h c k,
  (k < length h)%nat -> model_writes c k = false -> nth_error (exec_call h c) k = nth_error h k.
Proof.
  intros h c k Hk Hw. rewrite model_writes_mtu_target in Hw.
  exact (proj2 (FrameP.exec_call_frame h c k Hk Hw)).
Qed.

Lemma model_writes_only_its_argument c k : model_writes c k = true -> arg_index c 0 = Some k.
Proof.
  destruct c as [i|b hd|i nb no|i no]; cbn [model_writes arg_index]; try discriminate.
  intros H. apply Nat.eqb_eq in H. subst. reflexivity.
Qed.

(* ------------------------------------------------------------------ the bridge *)
(* CFingerprintPacket stands for fingerprint_tcp / fingerprint_mtu / fingerprint_uptime (all take the packet as
   parameter 0 and all run parse_packet on it): the model call may do whatever any of the four may do. *)
Definition call_summary (c : call) : option summary :=
  match c with
  | CFingerprintPacket _ =>
      match lookup_summary "fingerprint_tcp", lookup_summary "fingerprint_mtu", lookup_summary "fingerprint_uptime",
            lookup_summary "parse_packet" with
      | Some a, Some b, Some d, Some p => Some (merge "fingerprint_packet" [a; b; d; p])
      | _, _, _, _ => None
      end
  | CFingerprintHttp _ _ =>
      match lookup_summary "fingerprint_http", lookup_summary "read_payload" with
      | Some a, Some r => Some (merge "fingerprint_http" [a; r])
      | _, _ => None
      end
  | CImpersonateTcp _ _ _ => lookup_summary "impersonate_tcp"
  | CImpersonateMtu _ _ => lookup_summary "impersonate_mtu"
  end.

(* ------------------------------------------------------------------ obligations on the generated data *)
Theorem gen_fingerprint_calls_write_nothing :
  forall n, In n ["fingerprint_tcp"; "fingerprint_mtu"; "fingerprint_uptime"; "fingerprint_http"; "parse_packet"; "read_payload"]%string ->
    exists s, lookup_summary n = Some s /\ s_writes s = [].
Proof.
  intros n H. cbn [In] in H.
  repeat (destruct H as [H|H]; [subst n; eexists; split; [vm_compute; reflexivity | reflexivity] | ]).
  contradiction.
Qed.

(* THE COPY DISCIPLINE (what Model/Frame.v calls "works on the assembled copy"): the only things the fingerprint calls do
   with the object they are given through library code that is merely ASSUMED pure are the operations that copy it -
   bytes(x) (re-assembly), x.__class__(...) (re-dissection of those bytes), x.copy().  Every field read, layer lookup,
   `in` test and h11 line extraction happens on the copy.  Breaks when copy_packet / copy_buffer stop copying. *)
Definition lookup_reads (n : string) : option (list (origin * string)) :=
  option_map snd (find (fun p => String.eqb (fst p) n) gen_lib_reads).
Definition copy_kind (k : string) : bool := existsb (String.eqb k) ["bytes"; "__class__"; ".copy"].
Theorem gen_fingerprint_calls_only_copy_their_input :
  forall n, In n ["fingerprint_tcp"; "fingerprint_mtu"; "fingerprint_uptime"; "fingerprint_http"; "parse_packet"; "read_payload"]%string ->
    exists l, lookup_reads n = Some l /\ forall o k, In (o, k) l -> o = OParam 0 /\ copy_kind k = true.
Proof.
  intros n H. cbn [In] in H.
  repeat (destruct H as [H|H]; [subst n; eexists; split; [vm_compute; reflexivity |
    intros o k Hin; cbn [In] in Hin;
    repeat (destruct Hin as [Hin|Hin]; [injection Hin; intros <- <-; split; reflexivity | ]); contradiction] | ]).
  contradiction.
Qed.
Theorem gen_http_buffer_only_converted_to_bytes :
  lookup_reads "fingerprint_http" = Some [(OParam 0, "bytes")] /\ lookup_reads "read_payload" = Some [(OParam 0, "bytes")].
Proof. split; vm_compute; reflexivity. Qed.

(* impersonate_tcp: the only thing written is the state of the global random generator; the returned packet is a fresh
   object and NOTHING of parameter 0 (nor of any other parameter, e.g. a database record) is reachable from it. *)
Theorem gen_impersonate_tcp_writes_only_rng :
  exists s, lookup_summary "impersonate_tcp" = Some s /\ s_writes s = [OGlob "random"] /\
            s_ret_self s = [OFresh] /\ (forall i, returns_param s i = false).
Proof.
  eexists. split; [vm_compute; reflexivity|]. split; [reflexivity|]. split; [reflexivity|].
  intros i. reflexivity.
Qed.

(* impersonate_mtu: STRONGEST TRUE FORM.  The summary is [OParam 0; OGlob "random"], not [OParam 0]: with raw_label the code
   calls database.get_random -> random.choice, which advances the global generator (see NOTES.md).  No other parameter
   (database = parameter 3, the signature strings) is written, and the packet it returns IS parameter 0. *)
Theorem gen_impersonate_mtu_writes_only_its_packet_variant :
  exists s, lookup_summary "impersonate_mtu" = Some s /\ s_writes s = [OParam 0; OGlob "random"] /\
            (forall i, writes_param s i = Nat.eqb i 0) /\ s_ret_self s = [OParam 0].
Proof.
  eexists. split; [vm_compute; reflexivity|]. split; [reflexivity|]. split; [|reflexivity].
  intros [|i]; reflexivity.
Qed.

(* the form asked for, restricted to what it is about: the caller-owned OBJECTS impersonate_mtu may write *)
Theorem gen_impersonate_mtu_writes_only_its_packet :
  exists s, lookup_summary "impersonate_mtu" = Some s /\
            filter (fun o => match o with OParam _ => true | _ => false end) (s_writes s) = [OParam 0].
Proof. eexists. split; [vm_compute; reflexivity | reflexivity]. Qed.

(* the readers hand out records without copying (the result is inside parameter 0 = the database) and write no object;
   get_random advances the random generator *)
Theorem gen_database_readers_write_nothing :
  (exists s, lookup_summary "RecordsDatabase.iter_values" = Some s /\ s_writes s = [] /\
             s_ret_self s = [OFresh] /\ s_ret_content s = [OParam 0]) /\
  (exists s, lookup_summary "RecordsDatabase.get_random" = Some s /\ s_writes s = [OGlob "random"] /\
             (forall i, writes_param s i = false) /\ s_ret_self s = [OParam 0] /\ s_ret_content s = [OParam 0]).
Proof.
  split; eexists; (split; [vm_compute; reflexivity|]); repeat split; try reflexivity.
Qed.

(* Database.load is the one call that writes the database object (parameter 0 = self), and only that *)
Theorem gen_database_load_writes_only_self :
  exists s, lookup_summary "Database.load" = Some s /\ s_writes s = [OParam 0].
Proof. eexists. split; [vm_compute; reflexivity | reflexivity]. Qed.

(* no entry point writes a module-level object other than the random generator (DATABASE, OPTIONS, tables ...) *)
Theorem gen_no_global_object_written :
  forall s, In s gen_summaries -> forall g, writes_glob s g = true -> g = "random".
Proof.
  intros s Hs g Hg. unfold writes_glob in Hg. apply mem_origin_In in Hg.
  cbn [gen_summaries In] in Hs.
  repeat (destruct Hs as [Hs|Hs]; [subst s; cbn [s_writes In] in Hg;
    repeat (destruct Hg as [Hg|Hg]; [try discriminate Hg; injection Hg; intros <-; reflexivity | ]); contradiction | ]).
  contradiction.
Qed.

(* every model call has a summary, and no parameter other than parameter 0 is ever written by it
   (options, database, last_packet_signature, signature / label strings) *)
Theorem gen_call_summary_total : forall c, exists s, call_summary c = Some s.
Proof. intros [i|b hd|i nb no|i no]; eexists; vm_compute; reflexivity. Qed.

Theorem gen_only_param0_may_be_written :
  forall c s, call_summary c = Some s -> forall i, i <> 0 -> writes_param s i = false.
Proof.
  intros c s H i Hi. destruct i as [|i]; [contradiction|].
  destruct c as [j|b hd|j nb no|j no]; vm_compute in H; injection H; intros <-; reflexivity.
Qed.

(* THE AGREEMENT: a heap object bound to parameter i of a call is written by the model exactly when the summary
   derived from the source says parameter i may be written *)
Theorem gen_model_agrees :
  forall c s, call_summary c = Some s -> forall k i, arg_index c i = Some k -> model_writes c k = writes_param s i.
Proof.
  intros c s H k i Ha.
  destruct c as [j|b hd|j nb no|j no]; destruct i as [|i]; cbn [arg_index] in Ha; try discriminate Ha;
    injection Ha; intros <-; vm_compute in H; injection H; intros <-; cbn [model_writes];
    try reflexivity.
  rewrite Nat.eqb_refl. reflexivity.
Qed.

(* C12 through the translated summaries: over any sequence of calls, a caller-owned object is unchanged as soon as the
   SUMMARIES (not the model) say that no call writes a parameter bound to it *)
Theorem C12_translated_frame : forall h cs k, (k < length h)%nat ->
  (forall c, In c cs -> exists s, call_summary c = Some s /\ forall i, arg_index c i = Some k -> writes_param s i = false) ->
  nth_error (run_calls h cs) k = nth_error h k.
Proof.
  intros h cs k Hk Hs. apply frame; [exact Hk|].
  intros c Hc. destruct (Hs c Hc) as [s [Hcs Hw]].
  rewrite <- model_writes_mtu_target.
  destruct (model_writes c k) eqn:Hm; [|reflexivity].
  pose proof (model_writes_only_its_argument c k Hm) as Ha.
  rewrite (gen_model_agrees c s Hcs k 0 Ha) in Hm. rewrite (Hw 0 Ha) in Hm. discriminate Hm.
Qed.

(* corollary in the words of the property: fingerprint_* and impersonate_tcp calls never change a caller-owned object *)
Corollary C12_translated_fingerprint_and_impersonate_tcp : forall h cs k, (k < length h)%nat ->
  (forall c, In c cs -> match c with CImpersonateMtu _ _ => False | _ => True end) ->
  nth_error (run_calls h cs) k = nth_error h k.
Proof.
  intros h cs k Hk Hc. apply C12_translated_frame; [exact Hk|].
  intros c Hin. specialize (Hc c Hin). destruct (gen_call_summary_total c) as [s Hs].
  exists s. split; [exact Hs|]. intros i Ha.
  rewrite <- (gen_model_agrees c s Hs k i Ha). destruct c; try reflexivity. contradiction.
Qed.

Print Assumptions exec_call_frame.
Print Assumptions gen_fingerprint_calls_write_nothing.
Print Assumptions gen_fingerprint_calls_only_copy_their_input.
Print Assumptions gen_http_buffer_only_converted_to_bytes.
Print Assumptions gen_impersonate_tcp_writes_only_rng.
Print Assumptions gen_impersonate_mtu_writes_only_its_packet_variant.
Print Assumptions gen_impersonate_mtu_writes_only_its_packet.
Print Assumptions gen_database_readers_write_nothing.
Print Assumptions gen_database_load_writes_only_self.
Print Assumptions gen_no_global_object_written.
Print Assumptions gen_call_summary_total.
Print Assumptions gen_only_param0_may_be_written.
Print Assumptions gen_model_agrees.
Print Assumptions C12_translated_frame.
Print Assumptions C12_translated_fingerprint_and_impersonate_tcp.
