(* Equivalence of the definitions translated from /repo's current source (group select) with the hand-written models. *)
From Coq Require Import Lia.
From PV Require Import Model.Prelude Model.Bits Model.Sig Model.Matcher Model.Select Model.Uptime Model.Mtu Model.Text Model.SigParse Model.DbParse Model.HttpRead Model.HttpMatch Gen.GenLib Gen.Generated_match Gen.GenP_match Gen.Generated_select.

Theorem gen_guess_distance_eq ttl : gen_guess_distance ttl = guess_distance ttl.
Proof. reflexivity. Qed.

Theorem gen_should_fingerprint_eq frag ty : gen_should_fingerprint frag ty = should_fp frag ty.
Proof. reflexivity. Qed.

Theorem gen_valid_for_tcp_fingerprint_eq frag ty : gen_valid_for_tcp_fingerprint frag ty = valid_tcp_fp frag ty.
Proof. reflexivity. Qed.
Lemma mtype_eqb_exact t : mtype_eqb t Exact = match t with Exact => true | _ => false end.
Proof. destruct t; reflexivity. Qed.

Theorem gen_find_tcp_match_eq md recs p : gen_find_tcp_match md recs p = find_tcp_match md recs p.
Proof.
  unfold gen_find_tcp_match, find_tcp_match. cbv zeta.
  match goal with |- ?F recs None None = _ =>
    assert (forall l fuzzy generic, F l generic fuzzy = find_loop md p l fuzzy generic) as H; [|apply H] end.
  induction l as [|r rest IH]; intros fuzzy generic.
  - cbn [find_loop]. destruct generic as [g|]; cbn [negb]; [reflexivity|].
    destruct fuzzy as [[t r]|]; cbn [snd]; reflexivity.
  - cbn [find_loop]. cbv beta iota fix. fold (find_loop md p).
    rewrite gen_tcp_signatures_match_eq.
    destruct (tcp_match md (r_sig r) p) as [[| |]|]; cbn [mtype_eqb].
    + destruct (r_generic r); cbn [negb]; [|reflexivity].
      destruct generic as [g|]; cbn [first_some]; apply IH.
    + destruct fuzzy as [f|]; cbn [first_some]; apply IH.
    + destruct fuzzy as [f|]; cbn [first_some]; apply IH.
    + apply IH.
Qed.

Theorem gen_distance_eq m p : gen_distance m p = distance m p.
Proof. unfold gen_distance, distance. destruct m as [[[| |] r]|]; cbn [fst snd mtype_eqb]; reflexivity. Qed.

(* the public wrapper: gate, direction -> section, result with its distance *)
Theorem gen_fingerprint_tcp_eq md db frag ty p : gen_fingerprint_tcp md db frag ty p = fp_tcp md db frag ty p.
Proof.
  unfold gen_fingerprint_tcp, fp_tcp. rewrite gen_valid_for_tcp_fingerprint_eq.
  destruct (valid_tcp_fp frag ty); cbn [negb]; [|reflexivity].
  cbv zeta. change (Z.eqb ty 2) with (ty =? fSYN).
  destruct (ty =? fSYN).
  - destruct (db_req db) as [recs|]; [|reflexivity]. rewrite gen_find_tcp_match_eq, gen_distance_eq. reflexivity.
  - destruct (db_resp db) as [recs|]; [|reflexivity]. rewrite gen_find_tcp_match_eq, gen_distance_eq. reflexivity.
Qed.

Print Assumptions gen_guess_distance_eq.
Print Assumptions gen_should_fingerprint_eq.
Print Assumptions gen_valid_for_tcp_fingerprint_eq.
Print Assumptions gen_find_tcp_match_eq.
Print Assumptions gen_distance_eq.
Print Assumptions gen_fingerprint_tcp_eq.
