(* Line protocol for the extracted models: "<cmd> <tok> <tok> ..." in, one JSON value out.
   Integers are decimal, texts are hex strings ("-" for the empty text), lists are
   length-prefixed.  Z/N are converted through positive. *)
open Model
let rec pos_of_int n = if n = 1 then XH else if n land 1 = 0 then XO (pos_of_int (n lsr 1)) else XI (pos_of_int (n lsr 1))
let z_of_int n = if n = 0 then Z0 else if n > 0 then Zpos (pos_of_int n) else Zneg (pos_of_int (-n))
let n_of_int n = if n = 0 then N0 else Npos (pos_of_int n)
let rec int_of_pos = function XH -> 1 | XO p -> 2 * int_of_pos p | XI p -> 2 * int_of_pos p + 1
let int_of_z = function Z0 -> 0 | Zpos p -> int_of_pos p | Zneg p -> - (int_of_pos p)
let int_of_n = function N0 -> 0 | Npos p -> int_of_pos p

let toks : Stdlib.String.t array ref = ref [||]
let pos = ref 0
let nx () = let v = !toks.(!pos) in incr pos; v
let ni () = int_of_string (nx ())
let nz () = z_of_int (ni ())
let nn () = n_of_int (ni ())
let nb () = ni () <> 0
let nlist f = let n = ni () in List.init n (fun _ -> f ())
let ntext () = let h = nx () in if h = "-" then [] else
  List.init (String.length h / 2) (fun i -> z_of_int (int_of_string ("0x" ^ String.sub h (2*i) 2)))

(* a Python str: the hex digits are its UTF-8 encoding, the model works on the CODE POINTS (the harness only sends valid UTF-8) *)
let nstr () = let h = nx () in if h = "-" then [] else begin
  let n = String.length h / 2 in
  let b i = int_of_string ("0x" ^ String.sub h (2*i) 2) in
  let rec go i acc = if i >= n then List.rev acc else
    let c = b i in
    let cont k = if i + k < n && (b (i + k)) land 0xC0 = 0x80 then (b (i + k)) land 0x3F else failwith "invalid UTF-8" in
    if c < 0x80 then go (i + 1) (c :: acc)
    else if c land 0xE0 = 0xC0 then go (i + 2) ((((c land 0x1F) lsl 6) lor cont 1) :: acc)
    else if c land 0xF0 = 0xE0 then go (i + 3) ((((c land 0x0F) lsl 12) lor (cont 1 lsl 6) lor cont 2) :: acc)
    else if c land 0xF8 = 0xF0 then go (i + 4) ((((c land 0x07) lsl 18) lor (cont 1 lsl 12) lor (cont 2 lsl 6) lor cont 3) :: acc)
    else failwith "invalid UTF-8" in
  List.map z_of_int (go 0 []) end

let ji z = string_of_int (int_of_z z)
let jn n = string_of_int (int_of_n n)
let jb b = if b then "true" else "false"
let jl f l = "[" ^ String.concat "," (List.map f l) ^ "]"
let jtext t = "\"" ^ String.concat "" (List.map (fun z -> Printf.sprintf "%02x" (int_of_z z)) t) ^ "\""
(* a str result: printed as the hex of its UTF-8 encoding (what the harness computes with .encode()) *)
let jstr t = let buf = Buffer.create 16 in
  List.iter (fun z -> let c = int_of_z z in
    let p x = Buffer.add_string buf (Printf.sprintf "%02x" x) in
    if c < 0x80 then p c
    else if c < 0x800 then (p (0xC0 lor (c lsr 6)); p (0x80 lor (c land 0x3F)))
    else if c < 0x10000 then (p (0xE0 lor (c lsr 12)); p (0x80 lor ((c lsr 6) land 0x3F)); p (0x80 lor (c land 0x3F)))
    else (p (0xF0 lor (c lsr 18)); p (0x80 lor ((c lsr 12) land 0x3F)); p (0x80 lor ((c lsr 6) land 0x3F)); p (0x80 lor (c land 0x3F)))) t;
  "\"" ^ Buffer.contents buf ^ "\""
let jopt f = function None -> "null" | Some x -> f x
let jpair f g (a, b) = "[" ^ f a ^ "," ^ g b ^ "]"

let wt = function 0 -> WNormal | 1 -> WAny | 2 -> WMod | 3 -> WMss | _ -> WMtu
let read_sig () =
  let s_ver = nz () in let s_olen = nz () in let s_ttl = nz () in let s_bad_ttl = nb () in
  let s_wtype = wt (ni ()) in let s_wsize = nz () in let s_wscale = nz () in
  let s_layout = nlist nz in let s_mss = nz () in let s_eol_pad = nz () in let s_pay = nz () in
  let s_quirks = nn () in
  { s_ver; s_olen; s_ttl; s_bad_ttl; s_wtype; s_wsize; s_wscale; s_layout; s_mss; s_eol_pad; s_pay; s_quirks }
let read_pkt () =
  let p_ver = nz () in let p_olen = nz () in let p_ttl = nz () in let p_win = nz () in
  let p_layout = nlist nz in let p_mss = nz () in let p_ws = nz () in let p_ts1 = nz () in
  let p_eol_pad = nz () in let p_hdrlen = nz () in let p_payload = nb () in let p_quirks = nn () in
  let p_syn_mss = nz () in
  { p_ver; p_olen; p_ttl; p_win; p_layout; p_mss; p_ws; p_ts1; p_eol_pad; p_hdrlen; p_payload; p_quirks; p_syn_mss }
let jmtype = function Exact -> "\"EXACT\"" | FuzzyTTL -> "\"FUZZY_TTL\"" | FuzzyQuirks -> "\"FUZZY_QUIRKS\""

let read_rec () =
  let r_line = nz () in let r_generic = nb () in let r_userapp = nb () in let r_sig = read_sig () in
  { r_line; r_generic; r_userapp; r_sig }
let read_recs () = let n = ni () in if n < 0 then None else Some (List.init n (fun _ -> read_rec ()))
let jerr = function
  | PacketError -> "{\"err\":\"PacketError\"}" | FieldError -> "{\"err\":\"FieldError\"}"
  | ParsingError l -> "{\"err\":\"ParsingError\",\"line\":" ^ ji l ^ "}"
  | DatabaseError -> "{\"err\":\"DatabaseError\"}" | ValueErr -> "{\"err\":\"ValueError\"}"
  | Crash CIndex -> "{\"err\":\"Crash\",\"exc\":\"IndexError\"}" | Crash CValue -> "{\"err\":\"Crash\",\"exc\":\"ValueError\"}"
  | Crash CType -> "{\"err\":\"Crash\",\"exc\":\"TypeError\"}" | Crash CKey -> "{\"err\":\"Crash\",\"exc\":\"KeyError\"}"
  | Crash COther -> "{\"err\":\"Crash\",\"exc\":\"other\"}" | OutOfFuel -> "{\"err\":\"OutOfFuel\"}"
let jres f = function Ok a -> "{\"ok\":" ^ f a ^ "}" | Err e -> jerr e

let jopts o = "{\"layout\":" ^ jl ji o.o_layout ^ ",\"quirks\":" ^ jn o.o_quirks ^ ",\"mss\":" ^ ji o.o_mss ^ ",\"ts1\":" ^ ji o.o_ts1
  ^ ",\"ws\":" ^ ji o.o_ws ^ ",\"eol\":" ^ ji o.o_eol ^ "}"
let jpsig p = "{\"ver\":" ^ ji p.p_ver ^ ",\"olen\":" ^ ji p.p_olen ^ ",\"ttl\":" ^ ji p.p_ttl ^ ",\"win\":" ^ ji p.p_win
  ^ ",\"layout\":" ^ jl ji p.p_layout ^ ",\"mss\":" ^ ji p.p_mss ^ ",\"ws\":" ^ ji p.p_ws ^ ",\"ts1\":" ^ ji p.p_ts1
  ^ ",\"eol\":" ^ ji p.p_eol_pad ^ ",\"hdr\":" ^ ji p.p_hdrlen ^ ",\"pay\":" ^ jb p.p_payload ^ ",\"quirks\":" ^ jn p.p_quirks
  ^ ",\"syn_mss\":" ^ ji p.p_syn_mss ^ "}"
let jpacket syn_mss k =
  let ip = k.k_ip in let t = k.k_tcp in
  "{\"ip\":{\"version\":" ^ ji ip.i_ver ^ ",\"ttl\":" ^ ji ip.i_ttl ^ ",\"options_length\":" ^ ji ip.i_olen ^ ",\"header_length\":" ^ ji ip.i_hlen
  ^ ",\"is_fragment\":" ^ jb ip.i_frag ^ ",\"quirks\":" ^ jn ip.i_q ^ "},\"tcp\":{\"type\":" ^ ji t.t_type ^ ",\"src_port\":" ^ ji t.t_sport
  ^ ",\"dst_port\":" ^ ji t.t_dport ^ ",\"window\":" ^ ji t.t_win ^ ",\"seq\":" ^ ji t.t_seq ^ ",\"header_length\":" ^ ji t.t_hlen
  ^ ",\"quirks\":" ^ jn t.t_q ^ ",\"payload\":" ^ jtext t.t_payload ^ ",\"options\":" ^ jopts t.t_opts ^ "},\"psig\":" ^ jpsig (sig_of k syn_mss) ^ "}"

let jwt = function WNormal -> "0" | WAny -> "1" | WMod -> "2" | WMss -> "3" | WMtu -> "4"
let jsig s = "{\"ver\":" ^ ji s.s_ver ^ ",\"olen\":" ^ ji s.s_olen ^ ",\"ttl\":" ^ ji s.s_ttl ^ ",\"bad_ttl\":" ^ jb s.s_bad_ttl
  ^ ",\"wtype\":" ^ jwt s.s_wtype ^ ",\"wsize\":" ^ ji s.s_wsize ^ ",\"wscale\":" ^ ji s.s_wscale ^ ",\"layout\":" ^ jl ji s.s_layout
  ^ ",\"mss\":" ^ ji s.s_mss ^ ",\"eol\":" ^ ji s.s_eol_pad ^ ",\"pay\":" ^ ji s.s_pay ^ ",\"quirks\":" ^ jn s.s_quirks ^ "}"
let jhsig h = "{\"version\":" ^ ji h.hs_version ^ ",\"headers\":" ^ jl (fun x -> "[" ^ jtext x.sh_name ^ "," ^ jb x.sh_optional ^ "," ^ jopt jtext x.sh_value ^ "]") h.hs_headers
  ^ ",\"absent\":" ^ jl jtext h.hs_absent ^ ",\"software\":" ^ jopt jtext h.hs_software ^ "}"
let jlabel = function
  | LMtu n -> "{\"dump\":" ^ jstr n ^ ",\"sys\":null,\"generic\":false}"
  | LOs (g, c, n, f, sys) as l -> "{\"dump\":" ^ jstr (dump_label l) ^ ",\"sys\":" ^ jl jstr sys ^ ",\"generic\":" ^ jb g ^ "}"
let jsigv = function SMtu m -> ji m | STcp s -> jsig s | SHttp h -> jhsig h
let jrec r = "{\"line\":" ^ ji r.rc_line ^ ",\"label\":" ^ jlabel r.rc_label ^ ",\"raw\":" ^ jstr r.rc_raw ^ ",\"sig\":" ^ jsigv r.rc_sig ^ "}"
let jdb d = "{\"mtu\":" ^ jopt (jl jrec) d.d_mtu ^ ",\"tcp_req\":" ^ jopt (jl jrec) d.d_tcp_req ^ ",\"tcp_resp\":" ^ jopt (jl jrec) d.d_tcp_resp
  ^ ",\"http_req\":" ^ jopt (jl jrec) d.d_http_req ^ ",\"http_resp\":" ^ jopt (jl jrec) d.d_http_resp ^ ",\"len\":" ^ ji (db_len d) ^ "}"

let dispatch cmd =
  match cmd with
  | "win_multi" -> let p = read_pkt () in jpair ji jb (win_multi p)
  | "tcp_match" -> let md = nz () in let s = read_sig () in let p = read_pkt () in
      "[" ^ jopt jmtype (tcp_match md s p) ^ "," ^ jpair ji jb (win_multi p) ^ "]"
  | "fp_tcp" -> let md = nz () in let frag = nb () in let ty = nz () in let p = read_pkt () in
      let db_req = read_recs () in let db_resp = read_recs () in
      jres (fun (m, d) -> "[" ^ jopt (fun (_, r) -> ji r.r_line) m ^ "," ^ jopt (fun (t, _) -> jmtype t) m ^ "," ^ ji d ^ "]")
        (fp_tcp md { db_req; db_resp } frag ty p)
  | "uptime" ->
      let min_wait = nz () in let max_wait = nz () in let grace = nz () in
      let a = nz () in let b = nz () in let c = nz () in let d = nz () in
      let frag = nb () in let ty = nz () in let ts = nz () in let last = nz () in let ms = nz () in
      jres (function NoVerdict -> "[\"none\"]" | BadTps -> "[\"bad\"]"
                   | Up (tps, num, den, mins, days) -> "[\"up\"," ^ String.concat "," (List.map ji [tps; num; den; mins; days]) ^ "]")
        (uptime { min_wait; max_wait; grace; min_sc = (a, b); max_sc = (c, d) } frag ty ts last ms)
  | "fp_mtu" ->
      let n = ni () in
      let db = if n < 0 then None else Some (List.init n (fun _ -> let m_line = nz () in let m_mtu = nz () in { m_line; m_mtu })) in
      let frag = nb () in let ty = nz () in let ver = nz () in let mss = nz () in
      jres (fun (m, r) -> "[" ^ ji m ^ "," ^ jopt (fun r -> ji r.m_line) r ^ "]") (fp_mtu db frag ty ver mss)
  | "imp_mtu" ->
      let m = nz () in let ver = nz () in
      let opts = nlist (fun () -> let k = ni () in let v = nz () in if k = 0 then OMss v else OOther v) in
      jl (function OMss v -> "[0," ^ ji v ^ "]" | OOther v -> "[1," ^ ji v ^ "]") (imp_mtu m ver opts)
  | "parse_options" -> let syn = nb () in let b = ntext () in jres jopts (parse_options b syn)
  | "extract" -> let v = nz () in let syn_mss = nz () in let b = ntext () in
      (match parse_packet v b with Unframed -> "\"unframed\"" | Framed r -> jres (jpacket syn_mss) r)
  | "parse_file" -> let lines = nlist nstr in jres jdb (parse_file lines)
  | "parse_text" -> let t = nstr () in jres jdb (parse_text t)
  | "parse_tcp_sig" -> let t = nstr () in jres jsig (parse_tcp_sig t)
  | "parse_http_sig" -> let t = nstr () in jres jhsig (parse_http_sig t)
  | "parse_mtu_sig" -> let t = nstr () in jres ji (parse_mtu_sig t)
  | "parse_os_label" -> let t = nstr () in jres jlabel (parse_os_label t)
  | "dump" -> let l = nlist nz in let eol = nz () in let q = nn () in
      "[" ^ jtext (dump_layout l eol) ^ "," ^ jtext (dump_quirks q) ^ ","
      ^ jres (fun (l, e) -> "[" ^ jl ji l ^ "," ^ ji e ^ "]") (parse_layout (dump_layout l eol)) ^ ","
      ^ jres jn (parse_quirks (dump_quirks q) (z_of_int (-1))) ^ "]"
  | "parse_layout" -> let t = nstr () in jres (fun (l, e) -> "[" ^ jl ji l ^ "," ^ ji e ^ "]") (parse_layout t)
  | "parse_quirks" -> let v = nz () in let t = nstr () in jres jn (parse_quirks t v)
  | "read_payload" -> let t = ntext () in
      jres (fun ((d, v), hs) -> "[" ^ (match d with Request -> "\"request\"" | Response -> "\"response\"") ^ "," ^ ji v ^ ","
                                ^ jl (fun h -> "[" ^ jtext h.ph_name ^ "," ^ jtext h.ph_value ^ "]") hs ^ "]") (read_payload t)
  | "fp_http" -> let lines = nlist nstr in let t = ntext () in
      (match parse_file lines with
       | Err e -> "{\"dberr\":" ^ jerr e ^ "}"
       | Ok d -> jres (fun ((m, dis), ((dir, v), hs)) ->
           "[" ^ jopt (fun r -> ji r.rc_line) m ^ "," ^ jb dis ^ "," ^ (match dir with Request -> "\"request\"" | Response -> "\"response\"") ^ "," ^ ji v ^ ","
           ^ jl (fun h -> "[" ^ jtext h.ph_name ^ "," ^ jtext h.ph_value ^ "]") hs ^ "]") (fp_http d t))
  | "lookup_all" -> let lines = nlist nstr in let qs = nlist nstr in
      (match parse_file lines with
       | Err e -> "{\"dberr\":" ^ jerr e ^ "}"
       | Ok d ->
         let one raw section =
           let rec go i acc = (match lookup raw section i with
             | Ok r -> go (S i) (ji r.rc_line :: acc)
             | Err (Crash CIndex) -> "{\"ok\":[" ^ String.concat "," (List.rev acc) ^ "]}"
             | Err e -> jerr e) in go O [] in
         jl (fun raw -> jl (one raw) [d.d_mtu; d.d_tcp_req; d.d_tcp_resp; d.d_http_req; d.d_http_resp]) qs)
  | "history" -> let files = nlist (fun () -> nlist nstr) in
      let rec nat_to_int = function O -> 0 | S n -> 1 + nat_to_int n in
      jl (fun (r, obs) -> "[" ^ jres (fun _ -> "true") r ^ "," ^ jl (fun n -> string_of_int (nat_to_int n)) obs ^ "]") (history loader0 files)
  | "api_history" ->
      let ops = nlist (fun () -> match ni () with
        | 0 -> Load (nlist nstr)
        | 1 -> let md = nz () in let syn = nz () in let v = nz () in let b = ntext () in FpTcp (md, syn, v, b)
        | 2 -> let v = nz () in let b = ntext () in FpMtu (v, b)
        | 3 -> FpHttp (ntext ())
        | _ -> Other) in
      let jout = function
        | OLoadOk -> "{\"load\":true}" | OErr e -> jerr e | OUnframed -> "\"unframed\"" | ONone -> "null"
        | OTcp (l, t, d) -> "{\"tcp\":[" ^ jopt ji l ^ "," ^ jopt jmtype t ^ "," ^ ji d ^ "]}"
        | OMtu (m, l) -> "{\"mtu\":[" ^ ji m ^ "," ^ jopt ji l ^ "]}"
        | OHttp (l, d) -> "{\"http\":[" ^ jopt ji l ^ "," ^ jb d ^ "]}" in
      jl jout (snd (run_ops empty_db ops))
  | "oracle" -> let md = nz () in let st = nstr () in let syn_mss = nz () in let v = nz () in let b = ntext () in
      (match parse_tcp_sig st with
       | Err e -> "{\"sigerr\":" ^ jerr e ^ "}"
       | Ok s ->
         (match parse_packet v b with
          | Unframed -> "\"unframed\""
          | Framed (Err e) -> jerr e
          | Framed (Ok k) -> let p = sig_of k syn_mss in
              "{\"match\":" ^ jopt jmtype (tcp_match md s p) ^ ",\"dist\":" ^ ji (Z.sub s.s_ttl p.p_ttl) ^ ",\"type\":" ^ ji k.k_tcp.t_type
              ^ ",\"frag\":" ^ jb k.k_ip.i_frag ^ ",\"psig\":" ^ jpsig p ^ ",\"sig\":" ^ jsig s
              ^ ",\"tcp\":{\"sport\":" ^ ji k.k_tcp.t_sport ^ ",\"dport\":" ^ ji k.k_tcp.t_dport ^ ",\"seq\":" ^ ji k.k_tcp.t_seq ^ ",\"ack\":" ^ ji k.k_tcp.t_ack
              ^ ",\"flags\":" ^ ji k.k_tcp.t_flags ^ ",\"urg\":" ^ ji k.k_tcp.t_urg ^ ",\"payload\":" ^ jtext k.k_tcp.t_payload ^ "}"
              ^ ",\"ip\":{\"src\":" ^ jtext k.k_ip.i_src ^ ",\"dst\":" ^ jtext k.k_ip.i_dst ^ ",\"id\":" ^ ji k.k_ip.i_id ^ ",\"tos\":" ^ ji k.k_ip.i_tos ^ "}}"))
  | "imp_tcp" -> let md = nz () in let st = nstr () in
      let b_ver = nz () in let b_src = ntext () in let b_dst = ntext () in let b_id = nz () in let b_ipflags = nz () in let b_frag = nz () in
      let b_proto = nz () in let b_sport = nz () in let b_dport = nz () in let b_seq = nz () in let b_ack = nz () in let b_flags = nz () in
      let b_urg = nz () in let b_win = nz () in
      let opt () = let v = ni () in if v < 0 then None else Some (z_of_int v) in
      let b_mss = opt () in let b_ws = opt () in let b_ts1 = opt () in let b_ts2 = opt () in let b_payload = ntext () in
      let hops = nz () in let mtu = nz () in let uptime = opt () in let tape = nlist nz in
      (match parse_tcp_sig st with
       | Err e -> "{\"sigerr\":" ^ jerr e ^ "}"
       | Ok s ->
         let b = { b_ver; b_src; b_dst; b_id; b_ipflags; b_frag; b_proto; b_sport; b_dport; b_seq; b_ack; b_flags; b_urg; b_win; b_mss; b_ws; b_ts1; b_ts2; b_payload } in
         (match imp_tcp s b hops mtu uptime tape with
          | Err e -> jerr e
          | Ok (x, rest) ->
            "{\"ok\":{\"unused_tape\":" ^ string_of_int (List.length rest) ^ ",\"bytes\":" ^ jres jtext (enc_out x)
            ^ ",\"supported\":" ^ jb (supported_b s) ^ ",\"coherent\":" ^ jb (coherent_b s b)
            ^ ",\"oracle\":" ^ jres (fun (m, d) -> "[" ^ jopt jmtype m ^ "," ^ ji d ^ "]") (oracle md s x) ^ "}}"))
  | _ -> failwith ("unknown command " ^ cmd)

let () =
  try while true do
    let line = String.trim (input_line stdin) in
    if line <> "" then begin
      toks := Array.of_list (List.filter (fun s -> s <> "") (String.split_on_char ' ' line));
      pos := 1;
      let out = try dispatch !toks.(0) with
        | Stack_overflow -> "{\"driver_error\":\"stack overflow\"}"
        | e -> "{\"driver_error\":\"" ^ String.escaped (Printexc.to_string e) ^ "\"}" in
      print_string out; print_newline ()
    end
  done with End_of_file -> ()
